(* Proofs about the frame builders of Model/Emit.v against the independent predicates of
   Model/Rfc.v.  Part 1: IP identifiers and route selection.  Part 2 (flat forms of the encoders,
   checksums, well-formedness of the emitted frames) follows. *)
From Coq Require Import ZArith List Bool Lia ZifyBool.
From NP Require Import Model.Bytes Model.Checksum Model.HdrIP Model.HdrTransport Model.HdrLink Model.TcpOptions.
From NP Require Import Proofs.BytesP Proofs.ChecksumP Proofs.TcpOptionsP.
From NP Require Import Model.Emit.
From NP Require Model.Rfc.
Import ListNotations.
Open Scope Z_scope.

(* ====================================================================== IP identifiers *)
(* the 16-bit identifier a packet of total length [len] gets from a bucket holding [c], and the
   bucket afterwards *)
Definition id_of (len c : Z) : Z := w16 (fst (ipv4_next_id len c)).
Definition bucket_after (len c : Z) : Z := snd (ipv4_next_id len c).

Lemma next_id_large len c : 68 < len -> ipv4_next_id len c = (w32 (c + 1), w32 (c + 1)).
Proof. intros H. unfold ipv4_next_id. destruct (Z.ltb_spec 68 len); [reflexivity|lia]. Qed.

Lemma next_id_small len c : len <= 68 -> ipv4_next_id len c = (0, c).
Proof. intros H. unfold ipv4_next_id. destruct (Z.ltb_spec 68 len); [lia|reflexivity]. Qed.

(* two large packets of one flow with [k] other allocations from the same bucket in between
   (other flows hashing to it), 0 <= k < 65535, carry different identifiers; k = 0 is the case
   "consecutive packets of one flow" *)
Lemma ip_id_distinct c l1 l2 k :
  0 <= c < 2^32 -> 68 < l1 -> 68 < l2 -> 0 <= k < 65535 ->
  id_of l1 c <> id_of l2 (w32 (bucket_after l1 c + k)).
Proof.
  intros Hc H1 H2 Hk. unfold id_of, bucket_after. rewrite !next_id_large by assumption.
  cbn [fst snd]. unfold w16, w32. change (2^32) with 4294967296 in *. change (2^16) with 65536.
  Z.div_mod_to_equations. lia.
Qed.

Lemma ip_id_consecutive_distinct c l1 l2 :
  0 <= c < 2^32 -> 68 < l1 -> 68 < l2 ->
  id_of l1 c <> id_of l2 (bucket_after l1 c).
Proof.
  intros Hc H1 H2. pose proof (ip_id_distinct c l1 l2 0 Hc H1 H2 ltac:(lia)) as H.
  replace (w32 (bucket_after l1 c + 0)) with (bucket_after l1 c) in H; [exact H|].
  unfold bucket_after. rewrite next_id_large by assumption. cbn [snd]. rewrite Z.add_0_r.
  unfold w32. rewrite Z.mod_mod by (change (2^32) with 4294967296; lia). reflexivity.
Qed.

(* the 16-bit field wraps: after exactly 65535 foreign allocations the identifier repeats *)
Lemma ip_id_wrap_refuted :
  exists c l1 l2 k, 0 <= c < 2^32 /\ 68 < l1 /\ 68 < l2 /\ k = 65535 /\
    id_of l1 c = id_of l2 (w32 (bucket_after l1 c + k)).
Proof. exists 7, 100, 100, 65535. repeat split; try lia. Qed.

(* packets of at most 68 bytes carry identifier 0 and leave the bucket alone *)
Lemma ip_id_small len c : len <= 68 -> id_of len c = 0 /\ bucket_after len c = c.
Proof. intros H. unfold id_of, bucket_after. rewrite next_id_small by exact H. split; reflexivity. Qed.

(* ====================================================================== route selection *)
Definition to_rt (e : rentry) : Rfc.rt_entry := (reDst e, reMask e, reGw e, reNic e).
Definition to_if (n : nicinfo) : Rfc.rt_iface := (nId n, nAddrs n).

(* Route.Match does not index past the mask *)
Definition masks_long (table : list rentry) : Prop :=
  Forall (fun e => (length (reDst e) <= length (reMask e))%nat) table.

Lemma addr_eqb_leq a b : addr_eqb a b = Rfc.leq a b.
Proof. reflexivity. Qed.

Lemma match_loop_spec : forall dst addr mask,
  length addr = length dst -> (length dst <= length mask)%nat ->
  match_loop addr mask dst =
  Some (forallb (fun t => Z.land (fst (fst t)) (snd (fst t)) =? snd t) (combine (combine addr mask) dst)).
Proof.
  induction dst as [|d dst IH]; intros addr mask Ha Hm.
  - destruct addr; [|discriminate Ha]. reflexivity.
  - destruct addr as [|a addr]; [discriminate Ha|]. destruct mask as [|m mask]; [cbn [length] in Hm; lia|].
    cbn [match_loop combine forallb fst snd]. cbn [length] in Ha, Hm.
    destruct (Z.land a m =? d); cbn [andb].
    + apply IH; lia.
    + reflexivity.
Qed.

Lemma route_match_spec e addr : (length (reDst e) <= length (reMask e))%nat ->
  route_match e addr = Some (Rfc.mask_match (to_rt e) addr).
Proof.
  intros Hm. unfold route_match, Rfc.mask_match, to_rt, Rfc.rt_dst, Rfc.rt_mask. cbn [fst snd].
  destruct (Nat.eqb_spec (length addr) (length (reDst e))) as [E|E]; cbn [negb andb].
  - apply match_loop_spec; assumption.
  - reflexivity.
Qed.

Lemma lookup_nic_find nics id :
  option_map to_if (lookup_nic nics id) = find (fun n => fst n =? id) (map to_if nics).
Proof.
  induction nics as [|n nics IH]; [reflexivity|].
  cbn [lookup_nic map find to_if fst]. destruct (nId n =? id); [reflexivity|exact IH].
Qed.

Lemma primary_endpoint_find addrs :
  primary_endpoint addrs =
  find (fun a => negb (Rfc.leq a [255; 255; 255; 255]) && negb (Rfc.leq a [0; 0; 0; 0])) addrs.
Proof.
  induction addrs as [|a addrs IH]; [reflexivity|].
  cbn [primary_endpoint find].
  change (addr_eqb a [255; 255; 255; 255]) with (Rfc.leq a [255; 255; 255; 255]).
  change (addr_eqb a [0; 0; 0; 0]) with (Rfc.leq a [0; 0; 0; 0]).
  destruct (Rfc.leq a [255; 255; 255; 255]), (Rfc.leq a [0; 0; 0; 0]); cbn [orb negb andb]; try exact IH; reflexivity.
Qed.

(* the reference the loop body obtains = the usable address of the property text *)
Lemma ref_usable nics nic laddr :
  match lookup_nic nics nic with
  | None => None
  | Some n => match laddr with [] => primary_endpoint (nAddrs n) | _ => find_endpoint (nAddrs n) laddr end
  end = Rfc.usable_addr (map to_if nics) nic laddr.
Proof.
  unfold Rfc.usable_addr. rewrite <- lookup_nic_find.
  destruct (lookup_nic nics nic) as [n|]; cbn [option_map]; [|reflexivity].
  cbn [to_if snd]. destruct laddr as [|x l]; [apply primary_endpoint_find|].
  unfold find_endpoint. reflexivity.
Qed.

(* one iteration of FindRoute: an ineligible entry is skipped, an eligible one answers *)
Lemma find_route_step e rest nics id laddr raddr :
  (length (reDst e) <= length (reMask e))%nat ->
  find_route (e :: rest) nics id laddr raddr =
  if Rfc.eligible (map to_if nics) id laddr raddr (to_rt e)
  then match Rfc.usable_addr (map to_if nics) (reNic e) laddr with
       | Some a => Some (reNic e, a, reGw e)
       | None => None
       end
  else find_route rest nics id laddr raddr.
Proof.
  intros Hm. cbn [find_route]. unfold Rfc.eligible.
  change (Rfc.rt_nic (to_rt e)) with (reNic e). rewrite <- ref_usable.
  assert (HM : match raddr with [] => Some true | _ :: _ => route_match e raddr end =
               Some (match raddr with [] => true | _ :: _ => Rfc.mask_match (to_rt e) raddr end))
    by (destruct raddr; [reflexivity|apply route_match_spec, Hm]).
  rewrite HM. clear HM.
  destruct (id =? 0) eqn:E0; cbn [negb andb orb].
  2: destruct (id =? reNic e) eqn:E1; cbn [negb andb orb]; [|reflexivity].
  all: destruct (match raddr with [] => true | _ :: _ => Rfc.mask_match (to_rt e) raddr end); cbn [andb]; [|reflexivity];
       destruct (lookup_nic nics (reNic e)) as [n|]; cbn [Rfc.is_some]; [|reflexivity];
       destruct (match laddr with [] => primary_endpoint (nAddrs n) | _ :: _ => find_endpoint (nAddrs n) laddr end);
       reflexivity.
Qed.

(* FindRoute computes the answer the property dictates *)
Theorem find_route_first_match table nics id laddr raddr :
  masks_long table ->
  find_route table nics id laddr raddr =
  Rfc.first_match (map to_rt table) (map to_if nics) id laddr raddr.
Proof.
  induction table as [|e rest IH]; intros Hm; [reflexivity|].
  inversion Hm as [|? ? He Hrest]; subst.
  rewrite find_route_step by exact He. unfold Rfc.first_match. cbn [map filter].
  destruct (Rfc.eligible (map to_if nics) id laddr raddr (to_rt e)) eqn:El.
  - reflexivity.
  - rewrite IH by exact Hrest. reflexivity.
Qed.

(* the same, without [filter]: the answering entry is eligible and everything before it is not;
   ErrNoRoute exactly when no entry is eligible *)
Theorem route_selects_first_match table nics id laddr raddr n a g :
  masks_long table ->
  (find_route table nics id laddr raddr = Some (n, a, g) <->
   exists pre e post, table = pre ++ e :: post /\
     Forall (fun x => Rfc.eligible (map to_if nics) id laddr raddr (to_rt x) = false) pre /\
     Rfc.eligible (map to_if nics) id laddr raddr (to_rt e) = true /\
     n = reNic e /\ g = reGw e /\ Rfc.usable_addr (map to_if nics) (reNic e) laddr = Some a).
Proof.
  induction table as [|e rest IH]; intros Hm.
  - split; [discriminate|]. intros (pre & e & post & H & _). destruct pre; discriminate H.
  - inversion Hm as [|? ? He Hrest]; subst. rewrite find_route_step by exact He.
    destruct (Rfc.eligible (map to_if nics) id laddr raddr (to_rt e)) eqn:El.
    + split.
      * intros H. exists [], e, rest. split; [reflexivity|]. split; [constructor|]. split; [exact El|].
        destruct (Rfc.usable_addr (map to_if nics) (reNic e) laddr) as [a'|]; [|discriminate H].
        injection H as <- <- <-. repeat split.
      * intros (pre & e' & post & Ht & Hpre & He' & -> & -> & Hu).
        destruct pre as [|x pre].
        -- injection Ht as <- <-. rewrite Hu. reflexivity.
        -- injection Ht as <- _. inversion Hpre as [|? ? Hx _]; subst. congruence.
    + rewrite (IH Hrest). split.
      * intros (pre & e' & post & -> & Hpre & Hrest'). exists (e :: pre), e', post.
        split; [reflexivity|]. split; [constructor; assumption|exact Hrest'].
      * intros (pre & e' & post & Ht & Hpre & Hrest').
        destruct pre as [|x pre].
        -- injection Ht as <- <-. destruct Hrest' as (He' & _). congruence.
        -- injection Ht as <- ->. inversion Hpre; subst. exists pre, e', post. split; [reflexivity|]. split; assumption.
Qed.

Theorem route_none_iff table nics id laddr raddr :
  masks_long table ->
  (find_route table nics id laddr raddr = None <->
   Forall (fun x => Rfc.eligible (map to_if nics) id laddr raddr (to_rt x) = false) table).
Proof.
  induction table as [|e rest IH]; intros Hm.
  - split; [constructor|reflexivity].
  - inversion Hm as [|? ? He Hrest]; subst. rewrite find_route_step by exact He.
    destruct (Rfc.eligible (map to_if nics) id laddr raddr (to_rt e)) eqn:El.
    + split.
      * intros H. exfalso. unfold Rfc.eligible in El.
        destruct (Rfc.usable_addr (map to_if nics) (reNic e) laddr) eqn:Eu; [discriminate H|].
        unfold to_rt, Rfc.rt_nic in El. cbn [snd] in El. rewrite Eu in El. cbn [Rfc.is_some] in El.
        rewrite andb_false_r in El. discriminate El.
      * intros H. inversion H; subst. congruence.
    + rewrite (IH Hrest). split; [intros H; constructor; assumption|intros H; inversion H; assumption].
Qed.

(* the hypotheses are satisfiable by a non-trivial configuration: two NICs, the first-listed
   default route wins over the longer prefix listed after it *)
Example route_example :
  let table := [mkRE [0;0;0;0] [0;0;0;0] [192;168;1;254] 2; mkRE [10;0;0;0] [255;255;255;0] [] 1] in
  let nics := [mkNic 1 [[10;0;0;1]]; mkNic 2 [[0;0;0;0]; [192;168;1;1]; [192;168;1;2]]] in
  masks_long table /\
  find_route table nics 0 [] [10;0;0;9] = Some (2, [192;168;1;1], [192;168;1;254]) /\
  find_route table nics 1 [] [10;0;0;9] = Some (1, [10;0;0;1], []) /\
  find_route table nics 0 [10;0;0;1] [8;8;8;8] = None.
Proof. cbv zeta. split; [repeat constructor|]. repeat split; reflexivity. Qed.

(* ====================================================================== checksum algebra *)
(* [ws b] = the integer sum of the big-endian 16-bit words of b (odd tail zero padded): every
   checksum the builders compute, and every verification of Model/Rfc.v, is [oc_norm] of a sum of
   such terms (Proofs/ChecksumP.v: checksum_closed, rfc_fold_closed) *)
Definition ws (b : list Z) : Z := zsum (be_words b).

Lemma ws_nonneg b : bytes_ok b -> 0 <= ws b.
Proof. intros H. pose proof (zsum_bound _ (be_words_u16 b H)). unfold ws. lia. Qed.

Lemma ws_app_even a b : Nat.even (length a) = true -> ws (a ++ b) = ws a + ws b.
Proof. intros He. unfold ws. rewrite be_words_app_even, zsum_app by exact He. reflexivity. Qed.

Lemma checksum_ws buf init :
  bytes_ok buf -> is_u16 init -> Z.of_nat (length buf) <= 131072 ->
  checksum buf init = oc_norm (init + ws buf).
Proof. intros Hb Hi Hl. rewrite checksum_closed by assumption. reflexivity. Qed.

Lemma rfc_ws buf : bytes_ok buf -> rfc1071_sum buf 0 = oc_norm (ws buf).
Proof.
  intros Hb. unfold rfc1071_sum. rewrite rfc_fold_closed; [reflexivity|unfold is_u16; lia|apply be_words_u16, Hb].
Qed.

(* summing several buffers one after the other, as every builder does *)
Definition sum_ws (bs : list (list Z)) : Z := fold_right (fun b acc => ws b + acc) 0 bs.

Lemma sum_ws_nonneg bs : Forall bytes_ok bs -> 0 <= sum_ws bs.
Proof.
  induction 1 as [|b bs Hb _ IH]; cbn [sum_ws fold_right]; [lia|].
  pose proof (ws_nonneg b Hb). unfold sum_ws in IH. lia.
Qed.

Lemma checksum_fold_ws bs : forall x,
  Forall bytes_ok bs -> Forall (fun b => Z.of_nat (length b) <= 131072) bs -> 0 <= x ->
  fold_left (fun acc b => checksum b acc) bs (oc_norm x) = oc_norm (x + sum_ws bs).
Proof.
  induction bs as [|b bs IH]; intros x Hb Hl Hx; cbn [fold_left sum_ws fold_right].
  - f_equal. lia.
  - inversion Hb as [|? ? Hb0 Hb']; subst. inversion Hl as [|? ? Hl0 Hl']; subst.
    rewrite checksum_ws by (try assumption; apply oc_norm_u16, Hx).
    pose proof (ws_nonneg b Hb0) as Hw.
    rewrite oc_norm_add by assumption. rewrite IH by (try assumption; lia).
    f_equal. unfold sum_ws. lia.
Qed.

Lemma sum_ws_cons x l : sum_ws (x :: l) = ws x + sum_ws l.
Proof. reflexivity. Qed.

Lemma sum_ws_app a b : sum_ws (a ++ b) = sum_ws a + sum_ws b.
Proof.
  induction a as [|x a IH]; [reflexivity|].
  cbn [app]. rewrite !sum_ws_cons, IH. lia.
Qed.

(* views whose non-final members have even length sum like their concatenation *)
Lemma sum_ws_concat views : nonfinal_even views -> sum_ws views = ws (concat views).
Proof.
  induction views as [|v rest IH]; intros H; [reflexivity|].
  cbn [sum_ws fold_right concat]. destruct rest as [|v' rest'].
  - cbn [fold_right concat]. rewrite app_nil_r. lia.
  - cbn [nonfinal_even] in H. destruct H as [He Hr].
    rewrite ws_app_even by exact He. fold (sum_ws (v' :: rest')). rewrite IH by exact Hr. reflexivity.
Qed.

Lemma Forall_concat {A} (P : A -> Prop) (ls : list (list A)) : Forall (Forall P) ls -> Forall P (concat ls).
Proof. induction 1 as [|l ls Hl _ IH]; cbn [concat]; [constructor|apply Forall_app; split; assumption]. Qed.

(* a 16-bit field at an even offset contributes its value *)
Lemma ws_field A h l rest : Nat.even (length A) = true ->
  ws (A ++ h :: l :: rest) = ws (A ++ 0 :: 0 :: rest) + (h * 256 + l).
Proof.
  intros He. rewrite !ws_app_even by exact He. unfold ws. cbn [be_words zsum fold_right]. lia.
Qed.

(* THE verification lemma: [pre] is the pseudo-header (even length, possibly empty), the checksum
   field sits at the even offset |A| of the packet; if the field holds the complement of the
   normalised total T of everything else, the whole thing sums to 0xffff as RFC 1071 demands *)
Lemma verify_general pre A rest T :
  bytes_ok pre -> bytes_ok A -> bytes_ok rest ->
  Nat.even (length pre) = true -> Nat.even (length A) = true ->
  T = ws pre + ws (A ++ 0 :: 0 :: rest) ->
  let f := lnot16 (oc_norm T) in
  rfc1071_sum (pre ++ A ++ (f / 256) :: (f mod 256) :: rest) 0 = 65535.
Proof.
  intros Hp HA Hr Ep EA HT f.
  assert (H0 : bytes_ok (A ++ 0 :: 0 :: rest)).
  { apply Forall_app; split; [exact HA|]. repeat constructor; try (unfold is_byte; lia). exact Hr. }
  assert (HT0 : 0 <= T) by (pose proof (ws_nonneg _ Hp); pose proof (ws_nonneg _ H0); lia).
  destruct (lnot16_bytes (oc_norm T) (oc_norm_u16 T HT0)) as (B1 & B2 & B3). fold f in B1, B2, B3.
  rewrite rfc_ws.
  - rewrite ws_app_even by exact Ep. rewrite ws_field by exact EA. rewrite B3.
    replace (ws pre + (ws (A ++ 0 :: 0 :: rest) + f)) with (T + f) by lia.
    apply oc_norm_complement, HT0.
  - apply Forall_app; split; [exact Hp|]. apply Forall_app; split; [exact HA|].
    constructor; [exact B1|constructor; [exact B2|exact Hr]].
Qed.

(* what the two bytes put16 writes are *)
Lemma lnot16_hi_lo c : is_u16 c ->
  w8 (lnot16 c / 2^8) = lnot16 c / 256 /\ w8 (lnot16 c) = lnot16 c mod 256.
Proof. unfold is_u16, lnot16, w8. change (2^8) with 256. intros H. split; Z.div_mod_to_equations; lia. Qed.

(* the field sendUDP stores (RFC 768): a computed checksum of zero goes out as all ones *)
Definition udp_field (ck : Z) : Z := if ck =? 0 then 65535 else ck.

Lemma udp_field_u16 ck : is_u16 ck -> is_u16 (udp_field ck) /\ udp_field ck <> 0.
Proof. unfold udp_field, is_u16. intros H. destruct (Z.eqb_spec ck 0); lia. Qed.

(* [verify_general] for that field: 0xffff is the other representation of one's-complement zero, so
   the datagram still sums to 0xffff *)
Lemma verify_general_udp pre A rest T :
  bytes_ok pre -> bytes_ok A -> bytes_ok rest ->
  Nat.even (length pre) = true -> Nat.even (length A) = true ->
  T = ws pre + ws (A ++ 0 :: 0 :: rest) ->
  let f := udp_field (lnot16 (oc_norm T)) in
  rfc1071_sum (pre ++ A ++ (f / 256) :: (f mod 256) :: rest) 0 = 65535.
Proof.
  intros Hp HA Hr Ep EA HT f. subst f. unfold udp_field.
  destruct (Z.eqb_spec (lnot16 (oc_norm T)) 0) as [E0|_]; [|apply verify_general; assumption].
  change (65535 / 256) with 255. change (65535 mod 256) with 255.
  assert (H0 : bytes_ok (A ++ 0 :: 0 :: rest)).
  { apply Forall_app; split; [exact HA|]. repeat constructor; try (unfold is_byte; lia). exact Hr. }
  assert (HT0 : 0 <= T) by (pose proof (ws_nonneg _ Hp); pose proof (ws_nonneg _ H0); lia).
  rewrite rfc_ws.
  - rewrite ws_app_even by exact Ep. rewrite ws_field by exact EA.
    replace (ws pre + (ws (A ++ 0 :: 0 :: rest) + (255 * 256 + 255))) with (T + 65535) by lia.
    unfold lnot16 in E0. revert E0. unfold oc_norm.
    destruct (Z.eqb_spec T 0) as [->|Hne]; [discriminate|].
    destruct (Z.eqb_spec (T + 65535) 0) as [|_]; [lia|]. intros E0. Z.div_mod_to_equations. lia.
  - apply Forall_app; split; [exact Hp|]. apply Forall_app; split; [exact HA|].
    constructor; [unfold is_byte; lia|constructor; [unfold is_byte; lia|exact Hr]].
Qed.

(* ====================================================================== flat forms of the encoders
   Every header is encoded into a fresh zeroed buffer; on such a buffer the Encode models reduce
   to the byte strings below. *)
Lemma ipv4_encode_flat len id ttl proto s0 s1 s2 s3 d0 d1 d2 d3 :
  ipv4_encode (zeros 20) (mkIPv4 20 0 len id 0 0 ttl proto 0 [s0;s1;s2;s3] [d0;d1;d2;d3]) =
  Some [69; 0; w8 (len / 2^8); w8 len; w8 (id / 2^8); w8 id; 0; 0; w8 ttl; w8 proto; 0; 0; s0; s1; s2; s3; d0; d1; d2; d3].
Proof.
  unfold ipv4_encode, ipv4_setTotalLength, ipv4_setFlagsFragmentOffset, ipv4_setChecksum, put16, put8, zeros.
  cbn [repeat upd obind ip4IHL ip4TOS ip4TotalLength ip4ID ip4Flags ip4FragmentOffset ip4TTL ip4Protocol ip4Checksum ip4SrcAddr ip4DstAddr].
  unfold copy_into, set_range. cbn [length Nat.add Nat.leb firstn skipn app obind].
  reflexivity.
Qed.

Lemma ipv6_encode_flat len nh hop s0 s1 s2 s3 s4 s5 s6 s7 s8 s9 s10 s11 s12 s13 s14 s15
  d0 d1 d2 d3 d4 d5 d6 d7 d8 d9 d10 d11 d12 d13 d14 d15 :
  ipv6_encode (zeros 40) (mkIPv6 0 0 len nh hop [s0;s1;s2;s3;s4;s5;s6;s7;s8;s9;s10;s11;s12;s13;s14;s15]
     [d0;d1;d2;d3;d4;d5;d6;d7;d8;d9;d10;d11;d12;d13;d14;d15]) =
  Some ([96; 0; 0; 0; w8 (len / 2^8); w8 len; w8 nh; w8 hop] ++ [s0;s1;s2;s3;s4;s5;s6;s7;s8;s9;s10;s11;s12;s13;s14;s15] ++
     [d0;d1;d2;d3;d4;d5;d6;d7;d8;d9;d10;d11;d12;d13;d14;d15]).
Proof.
  unfold ipv6_encode, ipv6_setTOS, ipv6_setPayloadLength, put32, put16, put8, zeros.
  cbn [repeat upd obind ip6TrafficClass ip6FlowLabel ip6PayloadLength ip6NextHeader ip6HopLimit ip6SrcAddr ip6DstAddr].
  unfold copy_into, set_range. cbn [length Nat.add Nat.leb firstn skipn app obind].
  reflexivity.
Qed.

Lemma tcp_encode_flat n sp dp sq ak doff fl wn :
  tcp_encode (zeros (20 + n)) (mkTCP sp dp sq ak doff fl wn 0 0) =
  Some ([w8 (sp / 2^8); w8 sp; w8 (dp / 2^8); w8 dp] ++ be32 sq ++ be32 ak ++
        [w8 (doff / 4 * 2^4); w8 fl; w8 (wn / 2^8); w8 wn; 0; 0; 0; 0] ++ zeros n).
Proof.
  unfold tcp_encode, tcp_encodeSubset, put32, put16, put8, zeros, be32.
  cbn [repeat Nat.add upd obind tcpSrcPort tcpDstPort tcpSeqNum tcpAckNum tcpDataOffset tcpFlags tcpWindowSize tcpChecksum tcpUrgentPointer app].
  reflexivity.
Qed.

Lemma udp_encode_flat sp dp len :
  udp_encode (zeros 8) (mkUDP sp dp len 0) =
  Some [w8 (sp / 2^8); w8 sp; w8 (dp / 2^8); w8 dp; w8 (len / 2^8); w8 len; 0; 0].
Proof.
  unfold udp_encode, put16, zeros. cbn [repeat upd obind udpSrcPort udpDstPort udpLength udpChecksum].
  reflexivity.
Qed.


Ltac bytes_tac :=
  repeat (apply Forall_cons; [first [apply w8_byte | unfold is_byte; lia | assumption]|]);
  first [apply Forall_nil | assumption | idtac].

Lemma len4 (a : list Z) : length a = 4%nat -> exists a0 a1 a2 a3, a = [a0; a1; a2; a3].
Proof.
  destruct a as [|a0 [|a1 [|a2 [|a3 [|? ?]]]]]; intros H; try discriminate H.
  exists a0, a1, a2, a3. reflexivity.
Qed.

(* the IPv4 header WritePacket produces, checksum field [ck] *)
Definition ip4_hdr (len id ttl proto ck : Z) (src dst : list Z) : list Z :=
  [69; 0; w8 (len / 2^8); w8 len; w8 (id / 2^8); w8 id; 0; 0; w8 ttl; w8 proto; ck / 256; ck mod 256] ++ src ++ dst.

Lemma ipv4_write_flat r hdr payload proto ttl c :
  length (rLocal r) = 4%nat -> length (rRemote r) = 4%nat ->
  bytes_ok (rLocal r) -> bytes_ok (rRemote r) ->
  let len := w16 (20 + Z.of_nat (length hdr) + vsize payload) in
  let id := w16 (fst (ipv4_next_id len c)) in
  exists ck,
    ipv4_write r hdr payload proto ttl c =
      Some (ip4_hdr len id ttl (w8 proto) ck (rLocal r) (rRemote r) ++ hdr ++ concat payload, snd (ipv4_next_id len c)) /\
    is_u16 ck /\
    rfc1071_sum (ip4_hdr len id ttl (w8 proto) ck (rLocal r) (rRemote r)) 0 = 65535.
Proof.
  intros Ls Ld Bs Bd len id.
  destruct (len4 _ Ls) as (s0 & s1 & s2 & s3 & Es). destruct (len4 _ Ld) as (d0 & d1 & d2 & d3 & Ed).
  unfold ipv4_write. fold len. subst id. destruct (ipv4_next_id len c) as [i c']. cbn [fst snd].
  rewrite Es, Ed in *. rewrite ipv4_encode_flat. cbn [obind].
  unfold ipv4_calculateChecksum, ipv4_headerLength, get8. cbn [nth_error obind].
  change (Z.to_nat (w8 (69 mod 16 * 4))) with 20%nat.
  unfold getN. cbn [length Nat.add Nat.leb skipn firstn obind].
  set (H0 := [69; 0; w8 (len / 2 ^ 8); w8 len; w8 (w16 i / 2 ^ 8); w8 (w16 i); 0; 0; w8 ttl; w8 (w8 proto); 0; 0; s0; s1; s2; s3; d0; d1; d2; d3]).
  assert (BH0 : bytes_ok H0) by (subst H0; inversion Bs as [|? ? ? Bs1]; inversion Bs1 as [|? ? ? Bs2]; inversion Bs2 as [|? ? ? Bs3]; inversion Bs3;
                                inversion Bd as [|? ? ? Bd1]; inversion Bd1 as [|? ? ? Bd2]; inversion Bd2 as [|? ? ? Bd3]; inversion Bd3; subst; bytes_tac).
  assert (Hc : checksum H0 0 = oc_norm (ws H0)).
  { rewrite checksum_ws; [f_equal|exact BH0|unfold is_u16; lia|subst H0; cbn [length]; lia]. }
  set (T := ws H0) in *.
  assert (HT : 0 <= T) by (apply ws_nonneg, BH0).
  pose proof (oc_norm_u16 T HT) as Hu.
  exists (lnot16 (oc_norm T)).
  destruct (lnot16_hi_lo (oc_norm T) Hu) as [Ehi Elo].
  split; [|split].
  - unfold ipv4_setChecksum, put16. subst H0. cbn [upd obind]. rewrite Hc, Ehi, Elo.
    unfold ip4_hdr. cbn [app]. reflexivity.
  - unfold lnot16, is_u16 in *. lia.
  - unfold ip4_hdr.
    pose proof (verify_general [] [69; 0; w8 (len / 2 ^ 8); w8 len; w8 (w16 i / 2 ^ 8); w8 (w16 i); 0; 0; w8 ttl; w8 (w8 proto)]
                  [s0; s1; s2; s3; d0; d1; d2; d3] T) as V.
    cbn [app] in V |- *. apply V; clear V.
    + constructor.
    + bytes_tac.
    + inversion Bs as [|? ? ? Bs1]; inversion Bs1 as [|? ? ? Bs2]; inversion Bs2 as [|? ? ? Bs3]; inversion Bs3;
      inversion Bd as [|? ? ? Bd1]; inversion Bd1 as [|? ? ? Bd2]; inversion Bd2 as [|? ? ? Bd3]; inversion Bd3; subst; bytes_tac.
    + reflexivity.
    + reflexivity.
    + subst T H0. unfold ws at 2. cbn [be_words zsum fold_right]. lia.
Qed.

Lemma zeros_length n : length (zeros n) = n.
Proof. apply repeat_length. Qed.

Lemma copy_into_tail P n src : length src = n ->
  copy_into (P ++ zeros n) (length P) n src = Some (P ++ src).
Proof.
  intros Hl. unfold copy_into, set_range. rewrite app_length, zeros_length.
  destruct (Nat.leb_spec (length P + n) (length P + n)) as [_|]; [|lia].
  rewrite firstn_all2 by lia. rewrite Hl.
  destruct (Nat.leb_spec (length P + n) (length P + n)) as [_|]; [|lia].
  rewrite firstn_app, Nat.sub_diag, firstn_all. cbn [firstn]. rewrite app_nil_r.
  rewrite skipn_all2 by (rewrite app_length, zeros_length; lia). rewrite app_nil_r. reflexivity.
Qed.

Lemma getN_all b : getN b 0 (length b) = Some b.
Proof. unfold getN. cbn [Nat.add]. rewrite Nat.leb_refl. cbn [skipn]. rewrite firstn_all. reflexivity. Qed.

(* the chain every transport builder computes: pseudo-header sum, payload views, length, header *)
Lemma chain_ws p src dst data LL H0 :
  bytes_ok src -> bytes_ok dst -> Forall bytes_ok data -> bytes_ok LL -> bytes_ok H0 ->
  Z.of_nat (length src) <= 131072 -> Z.of_nat (length dst) <= 131072 ->
  Forall (fun b => Z.of_nat (length b) <= 131072) data ->
  Z.of_nat (length LL) <= 131072 -> Z.of_nat (length H0) <= 131072 ->
  checksum H0 (checksum LL (checksum_chunks data (pseudoHeaderChecksum p src dst))) =
  oc_norm (ws src + ws dst + ws [0; w8 p] + sum_ws data + ws LL + ws H0).
Proof.
  intros Bs Bd Bdata BL BH Ls Ld Ldata LLl LH.
  unfold pseudoHeaderChecksum, checksum_chunks.
  change (checksum H0 (checksum LL (fold_left (fun acc c => checksum c acc) data
            (checksum [0; w8 p] (checksum dst (checksum src 0))))))
    with (fold_left (fun acc c => checksum c acc) [LL; H0]
            (fold_left (fun acc c => checksum c acc) data
               (fold_left (fun acc c => checksum c acc) [src; dst; [0; w8 p]] (oc_norm 0)))).
  rewrite <- !fold_left_app.
  assert (Bp : bytes_ok [0; w8 p]) by bytes_tac.
  rewrite checksum_fold_ws.
  - f_equal. rewrite !sum_ws_app. cbn [sum_ws fold_right]. lia.
  - apply Forall_app; split; [|apply Forall_app; split];
      [repeat (apply Forall_cons; [assumption|]); apply Forall_nil|assumption|
       repeat (apply Forall_cons; [assumption|]); apply Forall_nil].
  - apply Forall_app; split; [|apply Forall_app; split];
      [repeat (apply Forall_cons; [first [assumption|cbn [length]; lia]|]); apply Forall_nil|assumption|
       repeat (apply Forall_cons; [assumption|]); apply Forall_nil].
  - lia.
Qed.

Lemma ws2 h l : ws [h; l] = h * 256 + l.
Proof. unfold ws. cbn [be_words zsum fold_right]. lia. Qed.

Lemma doff_rt n : 0 <= n <= 40 -> n mod 4 = 0 ->
  w8 (w8 (w8 (20 + n) / 4 * 2^4) / 2^4 * 4) = 20 + n.
Proof. intros H1 H2. unfold w8. change (2^8) with 256. change (2^4) with 16. Z.div_mod_to_equations. lia. Qed.

Lemma be32_ok v : bytes_ok (be32 v).
Proof. unfold be32. repeat constructor; apply w8_byte. Qed.

(* the TCP header sendTCP produces (checksum field [ck]; [optLen] = |opts|) *)
Definition tcp_hdr (sp dp sq ak optLen fl wn ck : Z) (opts : list Z) : list Z :=
  [w8 (sp / 2^8); w8 sp; w8 (dp / 2^8); w8 dp] ++ be32 sq ++ be32 ak ++
  [w8 (w8 (20 + optLen) / 4 * 2^4); w8 fl; w8 (wn / 2^8); w8 wn; ck / 256; ck mod 256; 0; 0] ++ opts.

(* the checksum value: complement of the normalised total of pseudo-header (addresses, protocol,
   upper-layer length L) and the packet with a zero checksum field *)
Definition xsum_of (src dst : list Z) (proto L : Z) (pkt0 : list Z) : Z :=
  lnot16 (oc_norm (ws src + ws dst + proto + L + ws pkt0)).

Definition clampw (w : Z) : Z := if 65535 <? w then 65535 else w.

Lemma send_tcp_flat r sp dp data fl sq ak wnd opts :
  rOffload r = false ->
  bytes_ok (rLocal r) -> bytes_ok (rRemote r) ->
  (length (rLocal r) <= 16)%nat -> (length (rRemote r) <= 16)%nat ->
  Forall bytes_ok data -> nonfinal_even data -> bytes_ok opts ->
  Z.of_nat (length opts) <= 40 -> Z.of_nat (length opts) mod 4 = 0 ->
  20 + Z.of_nat (length opts) + vsize data <= 65535 ->
  let n := Z.of_nat (length opts) in
  let L := 20 + n + vsize data in
  let wn := w16 (clampw wnd) in
  let ck := xsum_of (rLocal r) (rRemote r) 6 L (tcp_hdr sp dp (w32 sq) (w32 ak) n fl wn 0 opts ++ concat data) in
  send_tcp r sp dp data fl sq ak wnd opts = Some (tcp_hdr sp dp (w32 sq) (w32 ak) n fl wn ck opts) /\ is_u16 ck.
Proof.
  intros Hoff Bs Bd Ls Ld Bdata Hev Bo Ho Ho4 Hsz n L wn ck.
  assert (Hvs : 0 <= vsize data) by (unfold vsize; lia).
  unfold send_tcp. fold (clampw wnd). fold wn.
  rewrite tcp_encode_flat. cbn [obind].
  set (P := [w8 (sp / 2 ^ 8); w8 sp; w8 (dp / 2 ^ 8); w8 dp] ++ be32 (w32 sq) ++ be32 (w32 ak) ++
            [w8 (w8 (20 + Z.of_nat (length opts)) / 4 * 2 ^ 4); w8 fl; w8 (wn / 2 ^ 8); w8 wn; 0; 0; 0; 0]).
  assert (LP : length P = 20%nat) by reflexivity.
  replace ([w8 (sp / 2 ^ 8); w8 sp; w8 (dp / 2 ^ 8); w8 dp] ++ be32 (w32 sq) ++ be32 (w32 ak) ++
           [w8 (w8 (20 + Z.of_nat (length opts)) / 4 * 2 ^ 4); w8 fl; w8 (wn / 2 ^ 8); w8 wn; 0; 0; 0; 0] ++ zeros (length opts))
    with (P ++ zeros (length opts)) by (subst P; rewrite <- !app_assoc; reflexivity).
  rewrite <- LP at 1. rewrite copy_into_tail by reflexivity. cbn [obind]. rewrite Hoff.
  assert (BP : bytes_ok P).
  { subst P. apply Forall_app; split; [bytes_tac|]. apply Forall_app; split; [apply be32_ok|].
    apply Forall_app; split; [apply be32_ok|bytes_tac]. }
  assert (BH : bytes_ok (P ++ opts)) by (apply Forall_app; split; assumption).
  assert (LH : length (P ++ opts) = (20 + length opts)%nat) by (rewrite app_length, LP; reflexivity).
  assert (Elen : w16 (Z.of_nat (length (P ++ opts)) + vsize data) = L).
  { rewrite LH. subst L n. unfold w16. change (2^16) with 65536. rewrite Z.mod_small; lia. }
  rewrite Elen.
  (* CalculateChecksum reads the data offset back and sums the whole header *)
  unfold tcp_calculateChecksum, tcp_dataOffset, get8.
  assert (E12 : nth_error (P ++ opts) 12 = Some (w8 (w8 (20 + n) / 4 * 2 ^ 4))) by reflexivity.
  rewrite E12. cbn [obind]. rewrite doff_rt by (subst n; lia).
  replace (Z.to_nat (20 + n)) with (length (P ++ opts)) by (rewrite LH; subst n; lia).
  rewrite getN_all. cbn [obind].
  assert (BL : bytes_ok [w8 (L / 2 ^ 8); w8 L]) by bytes_tac.
  rewrite chain_ws; try assumption; try (cbn [length]; lia); try lia.
  2: { clear - Bdata Hsz Hvs. unfold vsize in *. induction Bdata as [|v vs _ _ IH]; constructor.
       - cbn [concat] in Hsz, Hvs. rewrite app_length in Hsz. lia.
       - apply IH; cbn [concat] in Hsz, Hvs; rewrite app_length in Hsz; lia. }
  rewrite sum_ws_concat by exact Hev.
  assert (E6 : ws [0; w8 6] = 6) by reflexivity. rewrite E6.
  rewrite ws2. rewrite be16_rt by (subst L n; lia).
  (* the stored field *)
  assert (EH : ws (tcp_hdr sp dp (w32 sq) (w32 ak) n fl wn 0 opts ++ concat data) = ws (P ++ opts) + ws (concat data)).
  { rewrite ws_app_even.
    - reflexivity.
    - assert (E20 : length (tcp_hdr sp dp (w32 sq) (w32 ak) n fl wn 0 opts) = (20 + length opts)%nat)
        by (unfold tcp_hdr, be32; rewrite !app_length; reflexivity).
      rewrite E20, Nat.even_add. change (Nat.even 20) with true.
      assert (E : Nat.even (length opts) = true); [|rewrite E; reflexivity].
      apply Nat.even_spec. exists (Z.to_nat (n / 4) * 2)%nat. subst n. Z.div_mod_to_equations. lia. }
  assert (Eck : lnot16 (oc_norm (ws (rLocal r) + ws (rRemote r) + 6 + ws (concat data) + L + ws (P ++ opts))) = ck).
  { subst ck. unfold xsum_of. rewrite EH. f_equal. f_equal. lia. }
  rewrite Eck.
  assert (Hu : is_u16 ck).
  { subst ck. unfold xsum_of.
    match goal with |- is_u16 (lnot16 (oc_norm ?t)) => assert (HT : 0 <= t) end.
    { pose proof (ws_nonneg _ Bs). pose proof (ws_nonneg _ Bd).
      assert (0 <= ws (tcp_hdr sp dp (w32 sq) (w32 ak) n fl wn 0 opts ++ concat data)).
      { rewrite EH. pose proof (ws_nonneg _ BH). pose proof (ws_nonneg (concat data) (Forall_concat _ _ Bdata)). lia. }
      subst L n. lia. }
    pose proof (oc_norm_u16 _ HT) as Hn. unfold lnot16, is_u16 in *. lia. }
  split; [|exact Hu].
  unfold tcp_setChecksum, put16. subst P. unfold be32. cbn [app upd obind].
  assert (Ehl : w8 (ck / 2 ^ 8) = ck / 256 /\ w8 ck = ck mod 256).
  { unfold w8, is_u16 in *. change (2^8) with 256. split; Z.div_mod_to_equations; lia. }
  destruct Ehl as [-> ->]. unfold tcp_hdr, be32. cbn [app]. reflexivity.
Qed.

(* ---------- the stored checksum verifies under the RFC pseudo-headers ---------- *)
Lemma even4 (a : list Z) : length a = 4%nat -> Nat.even (length a) = true.
Proof. intros ->. reflexivity. Qed.
Lemma even16 (a : list Z) : length a = 16%nat -> Nat.even (length a) = true.
Proof. intros ->. reflexivity. Qed.

Lemma ws4 a b c d : ws [a; b; c; d] = a * 256 + b + (c * 256 + d).
Proof. unfold ws. cbn [be_words zsum fold_right]. lia. Qed.
Lemma ws8 a b c d e f g h : ws [a; b; c; d; e; f; g; h] = a * 256 + b + (c * 256 + d) + (e * 256 + f) + (g * 256 + h).
Proof. unfold ws. cbn [be_words zsum fold_right]. lia. Qed.

Lemma xsum_verifies4 src dst proto L A rest :
  length src = 4%nat -> length dst = 4%nat -> bytes_ok src -> bytes_ok dst ->
  0 <= proto < 256 -> 0 <= L < 65536 ->
  bytes_ok A -> bytes_ok rest -> Nat.even (length A) = true ->
  let ck := xsum_of src dst proto L (A ++ 0 :: 0 :: rest) in
  Rfc.sums_to_ffff (Rfc.pseudo4 src dst proto L ++ A ++ (ck / 256) :: (ck mod 256) :: rest) = true.
Proof.
  intros Ls Ld Bs Bd Hp HL BA Br EA ck. unfold Rfc.sums_to_ffff. apply Z.eqb_eq.
  subst ck. unfold xsum_of. apply verify_general; try assumption.
  - unfold Rfc.pseudo4. apply Forall_app; split; [exact Bs|]. apply Forall_app; split; [exact Bd|].
    repeat (apply Forall_cons; [unfold is_byte; Z.div_mod_to_equations; lia|]). apply Forall_nil.
  - unfold Rfc.pseudo4. rewrite !app_length, Ls, Ld. reflexivity.
  - unfold Rfc.pseudo4. rewrite (ws_app_even src) by (apply even4; assumption). rewrite (ws_app_even dst) by (apply even4; assumption).
    rewrite ws4. Z.div_mod_to_equations. lia.
Qed.

Lemma xsum_verifies6 src dst nh L A rest :
  length src = 16%nat -> length dst = 16%nat -> bytes_ok src -> bytes_ok dst ->
  0 <= nh < 256 -> 0 <= L < 65536 ->
  bytes_ok A -> bytes_ok rest -> Nat.even (length A) = true ->
  let ck := xsum_of src dst nh L (A ++ 0 :: 0 :: rest) in
  Rfc.sums_to_ffff (Rfc.pseudo6 src dst nh L ++ A ++ (ck / 256) :: (ck mod 256) :: rest) = true.
Proof.
  intros Ls Ld Bs Bd Hp HL BA Br EA ck. unfold Rfc.sums_to_ffff. apply Z.eqb_eq.
  subst ck. unfold xsum_of. apply verify_general; try assumption.
  - unfold Rfc.pseudo6. apply Forall_app; split; [exact Bs|]. apply Forall_app; split; [exact Bd|].
    repeat (apply Forall_cons; [unfold is_byte; Z.div_mod_to_equations; lia|]). apply Forall_nil.
  - unfold Rfc.pseudo6. rewrite !app_length, Ls, Ld. reflexivity.
  - unfold Rfc.pseudo6. rewrite (ws_app_even src) by (apply even16; assumption). rewrite (ws_app_even dst) by (apply even16; assumption).
    rewrite ws8. Z.div_mod_to_equations. lia.
Qed.

(* the same for the UDP field (zero replaced by 0xffff) *)
Lemma xsum_verifies4_udp src dst proto L A rest :
  length src = 4%nat -> length dst = 4%nat -> bytes_ok src -> bytes_ok dst ->
  0 <= proto < 256 -> 0 <= L < 65536 ->
  bytes_ok A -> bytes_ok rest -> Nat.even (length A) = true ->
  let ck := udp_field (xsum_of src dst proto L (A ++ 0 :: 0 :: rest)) in
  Rfc.sums_to_ffff (Rfc.pseudo4 src dst proto L ++ A ++ (ck / 256) :: (ck mod 256) :: rest) = true.
Proof.
  intros Ls Ld Bs Bd Hp HL BA Br EA ck. unfold Rfc.sums_to_ffff. apply Z.eqb_eq.
  subst ck. unfold xsum_of. apply verify_general_udp; try assumption.
  - unfold Rfc.pseudo4. apply Forall_app; split; [exact Bs|]. apply Forall_app; split; [exact Bd|].
    repeat (apply Forall_cons; [unfold is_byte; Z.div_mod_to_equations; lia|]). apply Forall_nil.
  - unfold Rfc.pseudo4. rewrite !app_length, Ls, Ld. reflexivity.
  - unfold Rfc.pseudo4. rewrite (ws_app_even src) by (apply even4; assumption). rewrite (ws_app_even dst) by (apply even4; assumption).
    rewrite ws4. Z.div_mod_to_equations. lia.
Qed.

Lemma xsum_verifies6_udp src dst nh L A rest :
  length src = 16%nat -> length dst = 16%nat -> bytes_ok src -> bytes_ok dst ->
  0 <= nh < 256 -> 0 <= L < 65536 ->
  bytes_ok A -> bytes_ok rest -> Nat.even (length A) = true ->
  let ck := udp_field (xsum_of src dst nh L (A ++ 0 :: 0 :: rest)) in
  Rfc.sums_to_ffff (Rfc.pseudo6 src dst nh L ++ A ++ (ck / 256) :: (ck mod 256) :: rest) = true.
Proof.
  intros Ls Ld Bs Bd Hp HL BA Br EA ck. unfold Rfc.sums_to_ffff. apply Z.eqb_eq.
  subst ck. unfold xsum_of. apply verify_general_udp; try assumption.
  - unfold Rfc.pseudo6. apply Forall_app; split; [exact Bs|]. apply Forall_app; split; [exact Bd|].
    repeat (apply Forall_cons; [unfold is_byte; Z.div_mod_to_equations; lia|]). apply Forall_nil.
  - unfold Rfc.pseudo6. rewrite !app_length, Ls, Ld. reflexivity.
  - unfold Rfc.pseudo6. rewrite (ws_app_even src) by (apply even16; assumption). rewrite (ws_app_even dst) by (apply even16; assumption).
    rewrite ws8. Z.div_mod_to_equations. lia.
Qed.

(* ---------- the option lists the stack encodes pass the RFC walker ---------- *)
(* which encoders may appear in a SYN / non-SYN segment *)
Definition item_legal (syn : bool) (it : item) : Prop :=
  match it with
  | IMSS _ | IWS _ | ISackPerm => syn = true
  | ISack _ => syn = false
  | _ => True
  end.

Lemma zlen_cons x (l : list Z) : Rfc.zlen (x :: l) = 1 + Rfc.zlen l.
Proof. unfold Rfc.zlen. cbn [length]. lia. Qed.
Lemma zlen_nonneg (l : list Z) : 0 <= Rfc.zlen l.
Proof. unfold Rfc.zlen. lia. Qed.

Lemma opts_ok_item syn it rest f :
  wf_item it -> item_legal syn it ->
  Rfc.opts_ok (S f) syn (item_bytes it ++ rest) = Rfc.opts_ok f syn rest.
Proof.
  intros Hwf Hl. destruct it as [|m|w|v e| |bl]; cbn [item_bytes wf_item item_legal] in *.
  - reflexivity.
  - subst syn. cbn [app Rfc.opts_ok]. change (2 =? 0) with false. change (2 =? 1) with false. cbv iota.
    rewrite !zlen_cons. pose proof (zlen_nonneg rest).
    change (Z.to_nat (4 - 2)) with 2%nat. cbn [firstn skipn]. unfold Rfc.legal_opt.
    change (2 =? 2) with true. cbv iota. change (4 =? 4) with true.
    destruct (Z.leb_spec 2 4); [|lia]. destruct (Z.leb_spec (4 - 2) (1 + (1 + Rfc.zlen rest))); [|lia]. reflexivity.
  - subst syn. cbn [app Rfc.opts_ok]. change (3 =? 0) with false. change (3 =? 1) with false. cbv iota.
    rewrite !zlen_cons. pose proof (zlen_nonneg rest).
    change (Z.to_nat (3 - 2)) with 1%nat. cbn [firstn skipn]. unfold Rfc.legal_opt, Rfc.b8. cbn [nth].
    change (3 =? 2) with false. change (3 =? 3) with true. cbv iota.
    assert (E : w mod 256 = w) by (apply Z.mod_small; lia). rewrite E.
    destruct (Z.leb_spec 2 3); [|lia]. destruct (Z.leb_spec (3 - 2) (1 + Rfc.zlen rest)); [|lia].
    destruct (Z.leb_spec w 14); [|lia]. reflexivity.
  - unfold be32. cbn [app Rfc.opts_ok]. change (8 =? 0) with false. change (8 =? 1) with false. cbv iota.
    rewrite !zlen_cons. pose proof (zlen_nonneg rest).
    change (Z.to_nat (10 - 2)) with 8%nat. cbn [firstn skipn]. unfold Rfc.legal_opt.
    change (8 =? 2) with false. change (8 =? 3) with false. change (8 =? 4) with false. change (8 =? 5) with false.
    change (8 =? 8) with true. cbv iota. change (10 =? 10) with true.
    destruct (Z.leb_spec 2 10); [|lia].
    destruct (Z.leb_spec (10 - 2) (1 + (1 + (1 + (1 + (1 + (1 + (1 + (1 + Rfc.zlen rest))))))))); [|lia]. reflexivity.
  - subst syn. cbn [app Rfc.opts_ok]. change (4 =? 0) with false. change (4 =? 1) with false. cbv iota.
    pose proof (zlen_nonneg rest).
    change (Z.to_nat (2 - 2)) with 0%nat. cbn [firstn skipn]. unfold Rfc.legal_opt.
    change (4 =? 2) with false. change (4 =? 3) with false. change (4 =? 4) with true. cbv iota. change (2 =? 2) with true.
    destruct (Z.leb_spec 2 2); [|lia]. destruct (Z.leb_spec (2 - 2) (Rfc.zlen rest)); [|lia]. reflexivity.
  - subst syn. destruct Hwf as [Hn Hbl].
    set (n := Z.of_nat (length bl)). assert (Hn' : 1 <= n <= 4) by (subst n; lia).
    cbn [app Rfc.opts_ok]. change (5 =? 0) with false. change (5 =? 1) with false. cbv iota.
    replace (2 + 8 * n - 2) with (8 * n) by lia.
    assert (EL : Z.to_nat (8 * n) = length (flat_map block_bytes bl)) by (rewrite flat_map_block_length; subst n; lia).
    rewrite EL, firstn_app_exact, skipn_app_exact.
    unfold Rfc.legal_opt. change (5 =? 2) with false. change (5 =? 3) with false. change (5 =? 4) with false.
    change (5 =? 5) with true. cbv iota.
    assert (EZ : Rfc.zlen (flat_map block_bytes bl ++ rest) = 8 * n + Rfc.zlen rest).
    { unfold Rfc.zlen. rewrite app_length, flat_map_block_length. subst n. lia. }
    rewrite EZ. pose proof (zlen_nonneg rest).
    replace (2 + 8 * n - 2) with (8 * n) by lia.
    assert (E8 : (8 * n) mod 8 = 0) by (Z.div_mod_to_equations; lia). rewrite E8.
    change (0 =? 0) with true. cbn [negb andb].
    destruct (Z.leb_spec 2 (2 + 8 * n)); [|lia]. destruct (Z.leb_spec (8 * n) (8 * n + Rfc.zlen rest)); [|lia].
    destruct (Z.leb_spec 10 (2 + 8 * n)); [|lia]. destruct (Z.leb_spec (2 + 8 * n) 34); [|lia]. reflexivity.
Qed.

Lemma opts_ok_wire syn items : forall fuel,
  (length items < fuel)%nat -> Forall wf_item items -> Forall (item_legal syn) items ->
  Rfc.opts_ok fuel syn (wire items) = true.
Proof.
  induction items as [|it items IH]; intros fuel Hf Hwf Hl.
  - destruct fuel; [cbn [length] in Hf; lia|reflexivity].
  - destruct fuel as [|f]; [cbn [length] in Hf; lia|].
    inversion Hwf; subst. inversion Hl; subst. rewrite wire_cons, opts_ok_item by assumption.
    apply IH; try assumption. cbn [length] in Hf. lia.
Qed.

(* ---------- reading a segment of the shape  20-byte header ++ options ++ payload ---------- *)
Lemma b8_prefix P X i : (i < length P)%nat -> Rfc.b8 (P ++ X) i = nth i P 0.
Proof. intros H. unfold Rfc.b8. apply app_nth1, H. Qed.

Lemma tcp_seg_facts P opts payload k :
  length P = 20%nat -> Z.of_nat (length opts) = 4 * k - 20 -> nth 12 P 0 / 16 = k ->
  Rfc.tcp_doff (P ++ opts ++ payload) = k /\
  Rfc.tcp_opts_of (P ++ opts ++ payload) = opts /\
  Rfc.tcp_payload_of (P ++ opts ++ payload) = payload /\
  Rfc.zlen (P ++ opts ++ payload) = 4 * k + Rfc.zlen payload.
Proof.
  intros LP Lo Hk.
  assert (Hd : Rfc.tcp_doff (P ++ opts ++ payload) = k).
  { unfold Rfc.tcp_doff. rewrite b8_prefix by lia. exact Hk. }
  split; [exact Hd|]. split; [|split].
  - unfold Rfc.tcp_opts_of, Rfc.sub. rewrite Hd.
    replace (Z.to_nat (4 * k - 20)) with (length opts) by lia.
    rewrite <- LP, skipn_app_exact, firstn_app_exact. reflexivity.
  - unfold Rfc.tcp_payload_of. rewrite Hd.
    replace (Z.to_nat (4 * k)) with (length (P ++ opts)) by (rewrite app_length; lia).
    rewrite app_assoc, skipn_app_exact. reflexivity.
  - unfold Rfc.zlen. rewrite !app_length. lia.
Qed.

Lemma doff_val n : 0 <= n <= 40 -> n mod 4 = 0 ->
  let d := w8 (w8 (20 + n) / 4 * 2^4) in
  d / 16 = (20 + n) / 4 /\ d mod 16 = 0 /\ 4 * ((20 + n) / 4) = 20 + n /\ 5 <= (20 + n) / 4.
Proof. intros H1 H2 d. subst d. unfold w8. change (2^8) with 256. change (2^4) with 16. Z.div_mod_to_equations. lia. Qed.

Lemma w8_id x : 0 <= x < 256 -> w8 x = x.
Proof. intros H. unfold w8. change (2^8) with 256. apply Z.mod_small, H. Qed.

Lemma be32_rt' v : 0 <= v < 4294967296 ->
  (w8 (v / 2^24) * 256 + w8 (v / 2^16)) * 65536 + (w8 (v / 2^8) * 256 + w8 v) = v.
Proof. intros H. pose proof (be32_rt v H). lia. Qed.

(* the caller's obligation on the flag byte (the state machines of C01-C05 emit only such) *)
Definition flag_sane (f : Z) : bool :=
  (Rfc.has f Rfc.SYN || Rfc.has f Rfc.ACK || Rfc.has f Rfc.RST) &&
  negb (Rfc.has f Rfc.SYN && Rfc.has f Rfc.FIN) && negb (Rfc.has f Rfc.SYN && Rfc.has f Rfc.RST).

Lemma wf_tcp_hdr pseudo sp dp sq ak fl wn ck items payload :
  let opts := wire items in
  let n := Z.of_nat (length opts) in
  0 <= sp < 65536 -> 0 <= dp < 65536 -> 0 <= sq < 4294967296 -> 0 <= ak < 4294967296 ->
  0 <= fl < 256 -> flag_sane fl = true -> 0 <= wn < 65536 -> is_u16 ck ->
  Forall wf_item items -> Forall (item_legal (Rfc.has fl Rfc.SYN)) items ->
  n <= 40 -> n mod 4 = 0 ->
  let seg := tcp_hdr sp dp sq ak n fl wn ck opts ++ payload in
  Rfc.sums_to_ffff (pseudo (Rfc.zlen seg) ++ seg) = true ->
  Rfc.wf_tcp false pseudo seg = true /\
  Rfc.view_tcp seg = Rfc.mkTV sp dp sq ak fl wn 0 opts payload.
Proof.
  intros opts n Hsp Hdp Hsq Hak Hfl Hsane Hwn Hck Hwf Hleg Hn Hn4 seg Hsum.
  destruct (doff_val n ltac:(subst n; lia) Hn4) as (D1 & D2 & D3 & D4).
  set (P := [w8 (sp / 2^8); w8 sp; w8 (dp / 2^8); w8 dp] ++ be32 sq ++ be32 ak ++
            [w8 (w8 (20 + n) / 4 * 2^4); w8 fl; w8 (wn / 2^8); w8 wn; ck / 256; ck mod 256; 0; 0]).
  assert (Eseg : seg = P ++ opts ++ payload).
  { subst seg P. unfold tcp_hdr. rewrite <- !app_assoc. reflexivity. }
  assert (LP : length P = 20%nat) by reflexivity.
  assert (E12 : nth 12 P 0 = w8 (w8 (20 + n) / 4 * 2^4)) by reflexivity.
  destruct (tcp_seg_facts P opts payload ((20 + n) / 4) LP ltac:(subst n; lia) ltac:(rewrite E12; exact D1))
    as (F1 & F2 & F3 & F4).
  assert (B : forall i, (i < 20)%nat -> Rfc.b8 seg i = nth i P 0).
  { intros i Hi. rewrite Eseg. apply b8_prefix. lia. }
  assert (Efl : Rfc.tcp_flags_of seg = fl).
  { unfold Rfc.tcp_flags_of. rewrite B by lia. change (nth 13 P 0) with (w8 fl). apply w8_id, Hfl. }
  split.
  - unfold Rfc.wf_tcp. rewrite Efl. rewrite Hsum. rewrite <- Eseg in F1, F2, F3, F4. rewrite F1, F2, F4.
    rewrite (B 12%nat) by lia. rewrite E12, D2.
    unfold flag_sane in Hsane. rewrite Hsane.
    pose proof (zlen_nonneg payload).
    change opts with (wire items).
    rewrite opts_ok_wire; [|pose proof (wire_length_ge items Hwf); lia|exact Hwf|exact Hleg].
    destruct (Z.leb_spec 20 (4 * ((20 + n) / 4) + Rfc.zlen payload)); [|lia].
    destruct (Z.leb_spec 5 ((20 + n) / 4)); [|lia].
    destruct (Z.leb_spec (4 * ((20 + n) / 4)) (4 * ((20 + n) / 4) + Rfc.zlen payload)); [|lia].
    reflexivity.
  - unfold Rfc.view_tcp. rewrite Efl. rewrite <- Eseg in F2, F3. rewrite F2, F3.
    unfold Rfc.b32, Rfc.b16. rewrite !B by lia.
    subst P. unfold be32. cbn [app nth].
    rewrite (be32_rt' sq), (be32_rt' ak) by assumption.
    rewrite (be16_rt sp), (be16_rt dp), (be16_rt wn) by assumption.
    reflexivity.
Qed.

Lemma all_bytes_ok l : bytes_ok l -> Rfc.all_bytes l = true.
Proof.
  intros H. unfold Rfc.all_bytes. apply forallb_forall. intros x Hx.
  unfold bytes_ok in H. rewrite Forall_forall in H. specialize (H x Hx). unfold is_byte in H. lia.
Qed.

(* what follows the network header, judged by the protocol number as Model/Rfc.v does *)
Definition transport4_ok (off : bool) (src dst : list Z) (p : Z) (tp : list Z) : bool :=
  let ps := Rfc.pseudo4 src dst p in
  if p =? 6 then Rfc.wf_tcp off ps tp else if p =? 17 then Rfc.wf_udp off ps tp
  else if p =? 1 then Rfc.wf_icmp4 tp else false.

Lemma wf_ipv4_hdr off len id ttl proto ck src dst tp :
  length src = 4%nat -> length dst = 4%nat ->
  Rfc.src4_ok src = true ->
  len = 20 + Rfc.zlen tp -> 0 <= len < 65536 -> 0 <= id < 65536 -> 1 <= ttl < 256 -> 0 <= proto < 256 ->
  is_u16 ck ->
  rfc1071_sum (ip4_hdr len id ttl proto ck src dst) 0 = 65535 ->
  transport4_ok off src dst proto tp = true ->
  let f := ip4_hdr len id ttl proto ck src dst ++ tp in
  Rfc.wf_ipv4 off f = true /\ Rfc.view_ip4 f = Rfc.mkIV src dst proto ttl id tp.
Proof.
  intros Ls Ld Hsrc Hlen Hl Hid Httl Hp Hck Hsum Htp f.
  destruct (len4 _ Ls) as (s0 & s1 & s2 & s3 & ->). destruct (len4 _ Ld) as (d0 & d1 & d2 & d3 & ->).
  set (P := ip4_hdr len id ttl proto ck [s0; s1; s2; s3] [d0; d1; d2; d3]) in *.
  assert (LP : length P = 20%nat) by reflexivity.
  assert (B : forall i, (i < 20)%nat -> Rfc.b8 f i = nth i P 0) by (intros i Hi; apply b8_prefix; lia).
  assert (Eihl : Rfc.ip4_ihl f = 5) by (unfold Rfc.ip4_ihl; rewrite B by lia; reflexivity).
  assert (Etot : Rfc.ip4_total f = len).
  { unfold Rfc.ip4_total, Rfc.b16. rewrite !B by lia. subst P. cbn [ip4_hdr app nth]. apply be16_rt, Hl. }
  assert (Ezl : Rfc.zlen f = len) by (subst f; unfold Rfc.zlen in *; rewrite app_length, LP; lia).
  assert (Esrc : Rfc.ip4_src f = [s0; s1; s2; s3]) by reflexivity.
  assert (Edst : Rfc.ip4_dst f = [d0; d1; d2; d3]) by reflexivity.
  assert (Epl : Rfc.ip4_payload f = tp).
  { unfold Rfc.ip4_payload. rewrite Eihl. change (Z.to_nat (4 * 5)) with (length P). apply skipn_app_exact. }
  assert (Ettl : Rfc.ip4_ttl f = ttl) by (unfold Rfc.ip4_ttl; rewrite B by lia; subst P; cbn [ip4_hdr app nth]; apply w8_id; lia).
  assert (Epr : Rfc.ip4_proto f = proto) by (unfold Rfc.ip4_proto; rewrite B by lia; subst P; cbn [ip4_hdr app nth]; apply w8_id; lia).
  assert (Eid : Rfc.ip4_id f = id).
  { unfold Rfc.ip4_id, Rfc.b16. rewrite !B by lia. subst P. cbn [ip4_hdr app nth]. apply be16_rt, Hid. }
  split.
  - unfold Rfc.wf_ipv4. rewrite Ezl, Eihl, Etot, Esrc, Edst, Epl, Ettl, Epr, Hsrc.
    change (Z.to_nat (4 * 5)) with (length P). unfold f at 2. rewrite firstn_app_exact.
    unfold Rfc.sums_to_ffff. rewrite Hsum.
    rewrite (B 0%nat), (B 6%nat) by lia. unfold Rfc.b16. rewrite (B 6%nat), (B 7%nat) by lia.
    change (nth 0 P 0) with 69. change (nth 6 P 0) with 0. change (nth 7 P 0) with 0.
    unfold transport4_ok in Htp. cbv zeta in Htp.
    change (69 / 16 =? 4) with true. change (0 / 128 =? 0) with true. change ((0 * 256 + 0) mod 16384 =? 0) with true.
    change (65535 =? 65535) with true. cbn [negb andb]. cbv zeta. rewrite Htp.
    destruct (Z.leb_spec 20 len); [|unfold Rfc.zlen in *; lia]. rewrite Z.eqb_refl.
    destruct (Z.leb_spec 5 5); [|lia]. destruct (Z.leb_spec (4 * 5) len); [|unfold Rfc.zlen in *; lia].
    destruct (Z.leb_spec 1 ttl); [|lia]. reflexivity.
  - unfold Rfc.view_ip4. rewrite Esrc, Edst, Epl, Ettl, Epr, Eid. reflexivity.
Qed.

Lemma item_bytes_ok it : wf_item it -> bytes_ok (item_bytes it).
Proof.
  destruct it as [|m|w|v e| |bl]; cbn [wf_item item_bytes]; intros H.
  - bytes_tac.
  - repeat (apply Forall_cons; [unfold is_byte; Z.div_mod_to_equations; lia|]). apply Forall_nil.
  - repeat (apply Forall_cons; [unfold is_byte; Z.div_mod_to_equations; lia|]). apply Forall_nil.
  - apply Forall_app; split; [bytes_tac|]. apply Forall_app; split; apply be32_ok.
  - bytes_tac.
  - destruct H as [Hn _]. apply Forall_app; split.
    + repeat (apply Forall_cons; [unfold is_byte; lia|]). apply Forall_nil.
    + clear Hn. induction bl as [|b bl IH]; [constructor|]. cbn [flat_map]. apply Forall_app; split; [|exact IH].
      unfold block_bytes. apply Forall_app; split; apply be32_ok.
Qed.

Lemma wire_ok items : Forall wf_item items -> bytes_ok (wire items).
Proof.
  induction 1 as [|it items Hit _ IH]; [constructor|].
  rewrite wire_cons. apply Forall_app; split; [apply item_bytes_ok, Hit|exact IH].
Qed.

Lemma w32_range x : 0 <= w32 x < 4294967296.
Proof. unfold w32. change (2^32) with 4294967296. apply Z.mod_pos_bound. lia. Qed.
Lemma w16_range x : 0 <= w16 x < 65536.
Proof. unfold w16. change (2^16) with 65536. apply Z.mod_pos_bound. lia. Qed.

Lemma vsize_concat data : vsize data = Rfc.zlen (concat data).
Proof. reflexivity. Qed.

(* the TCP header as  16 bytes ++ checksum field ++ the rest  (for the verification lemmas) *)
Lemma tcp_hdr_split sp dp sq ak n fl wn ck opts payload :
  0 <= ck < 65536 \/ ck = 0 ->
  tcp_hdr sp dp sq ak n fl wn ck opts ++ payload =
  ([w8 (sp / 2^8); w8 sp; w8 (dp / 2^8); w8 dp] ++ be32 sq ++ be32 ak ++
   [w8 (w8 (20 + n) / 4 * 2^4); w8 fl; w8 (wn / 2^8); w8 wn]) ++ (ck / 256) :: (ck mod 256) :: ([0; 0] ++ opts ++ payload).
Proof. intros _. unfold tcp_hdr, be32. cbn [app]. reflexivity. Qed.

Theorem tcp_frame_wf4 r sp dp data fl sq ak wnd items ttl c :
  let opts := wire items in
  let n := Z.of_nat (length opts) in
  let L := 20 + n + vsize data in
  rOffload r = false ->
  length (rLocal r) = 4%nat -> length (rRemote r) = 4%nat -> bytes_ok (rLocal r) -> bytes_ok (rRemote r) ->
  Rfc.src4_ok (rLocal r) = true ->
  0 <= sp < 65536 -> 0 <= dp < 65536 -> 0 <= fl < 256 -> flag_sane fl = true ->
  Forall wf_item items -> Forall (item_legal (Rfc.has fl Rfc.SYN)) items -> n <= 40 -> n mod 4 = 0 ->
  Forall bytes_ok data -> nonfinal_even data -> 20 + L <= 65535 -> 1 <= ttl < 256 ->
  exists hdr frame,
    send_tcp r sp dp data fl sq ak wnd opts = Some hdr /\
    ipv4_write r hdr data 6 ttl c = Some (frame, bucket_after (20 + L) c) /\
    Rfc.wf_ipv4 false frame = true /\
    Rfc.view_ip4 frame = Rfc.mkIV (rLocal r) (rRemote r) 6 ttl (id_of (20 + L) c) (hdr ++ concat data) /\
    Rfc.view_tcp (hdr ++ concat data) =
      Rfc.mkTV sp dp (w32 sq) (w32 ak) fl (w16 (clampw wnd)) 0 opts (concat data).
Proof.
  intros opts n L Hoff Ls Ld Bs Bd Hsrc Hsp Hdp Hfl Hsane Hwf Hleg Hn Hn4 Bdata Hev HL Httl.
  assert (Hvs : 0 <= vsize data) by (unfold vsize; lia).
  assert (Bo : bytes_ok opts) by apply wire_ok, Hwf.
  destruct (send_tcp_flat r sp dp data fl sq ak wnd opts Hoff Bs Bd ltac:(lia) ltac:(lia) Bdata Hev Bo
              ltac:(fold n; lia) Hn4 ltac:(fold n; fold L; lia)) as [Hsend Hu].
  fold n in Hsend, Hu. fold L in Hsend, Hu.
  set (wn := w16 (clampw wnd)) in *.
  set (ck := xsum_of (rLocal r) (rRemote r) 6 L (tcp_hdr sp dp (w32 sq) (w32 ak) n fl wn 0 opts ++ concat data)) in *.
  set (hdr := tcp_hdr sp dp (w32 sq) (w32 ak) n fl wn ck opts) in *.
  assert (Lh : length hdr = (20 + length opts)%nat) by (subst hdr; unfold tcp_hdr, be32; rewrite !app_length; reflexivity).
  assert (ELen : w16 (20 + Z.of_nat (length hdr) + vsize data) = 20 + L).
  { rewrite Lh. unfold w16. change (2^16) with 65536. rewrite Z.mod_small; subst L n; lia. }
  destruct (ipv4_write_flat r hdr data 6 ttl c Ls Ld Bs Bd) as (ckip & Hw & Huip & Hsumip).
  rewrite ELen in Hw, Hsumip. change (w8 6) with 6 in Hw, Hsumip.
  exists hdr, (ip4_hdr (20 + L) (w16 (fst (ipv4_next_id (20 + L) c))) ttl 6 ckip (rLocal r) (rRemote r) ++ hdr ++ concat data).
  split; [exact Hsend|]. split; [exact Hw|].
  (* the segment is well-formed under the IPv4 pseudo-header *)
  assert (Ezl : Rfc.zlen (hdr ++ concat data) = L).
  { unfold Rfc.zlen. rewrite app_length, Lh. subst L n. unfold vsize. lia. }
  assert (Bdc : bytes_ok (concat data)) by (apply Forall_concat, Bdata).
  assert (Htcp : Rfc.wf_tcp false (Rfc.pseudo4 (rLocal r) (rRemote r) 6) (hdr ++ concat data) = true /\
                 Rfc.view_tcp (hdr ++ concat data) = Rfc.mkTV sp dp (w32 sq) (w32 ak) fl wn 0 opts (concat data)).
  { apply wf_tcp_hdr; try assumption; try apply w32_range; try apply w16_range.
    fold opts. fold n. fold hdr. rewrite Ezl.
    subst hdr ck. rewrite tcp_hdr_split by (left; exact Hu). rewrite (tcp_hdr_split _ _ _ _ _ _ _ 0) by (right; reflexivity).
    change (0 / 256) with 0. change (0 mod 256) with 0.
    apply xsum_verifies4; try assumption; try lia.
    - apply Forall_app; split; [bytes_tac|]. apply Forall_app; split; [apply be32_ok|].
      apply Forall_app; split; [apply be32_ok|bytes_tac].
    - apply Forall_app; split; [bytes_tac|]. apply Forall_app; split; assumption.
    - reflexivity. }
  destruct Htcp as [Hwf_tcp Hview].
  destruct (wf_ipv4_hdr false (20 + L) (w16 (fst (ipv4_next_id (20 + L) c))) ttl 6 ckip (rLocal r) (rRemote r)
              (hdr ++ concat data) Ls Ld Hsrc ltac:(rewrite Ezl; reflexivity) ltac:(subst L n; lia)
              (w16_range _) Httl ltac:(lia) Huip Hsumip) as [W V].
  { unfold transport4_ok. exact Hwf_tcp. }
  split; [exact W|]. split; [exact V|exact Hview].
Qed.

(* ---------- the two option builders produce legal item lists ---------- *)
Ltac legal_items := repeat (apply Forall_cons; [cbn [item_legal]; first [exact I | reflexivity]|]); apply Forall_nil.

Lemma make_syn_options_wire o pool :
  wf_syn o -> length pool = maxOptionSize ->
  let items := syn_program o in
  make_syn_options o pool = Some (wire items) /\
  Forall wf_item items /\ Forall (item_legal true) items /\
  Z.of_nat (length (wire items)) <= 40 /\ Z.of_nat (length (wire items)) mod 4 = 0.
Proof.
  intros (Hm & Hw & Hv & He) Hbuf items. subst items. unfold make_syn_options.
  destruct o as [mss ws ts tsv tse sp]. cbn [sMSS sWS sTS sTSVal sTSEcr sSACKPermitted] in *.
  unfold syn_program. cbn [sMSS sWS sTS sTSVal sTSEcr sSACKPermitted].
  unfold maxOptionSize in Hbuf.
  destruct ts, sp; cbn [andb app]; destruct (Z.leb_spec 0 ws) as [W|W]; cbn [app].
  all: rewrite make_options_wire;
         [|wf_items
          |rewrite Hbuf; cbn [wire map concat item_bytes app length be32]; lia
          |cbn [wire map concat item_bytes app length be32]; reflexivity].
  all: cbn [obind fst snd]; change (0 =? 0) with true; cbv iota.
  all: split; [reflexivity|]; split; [wf_items|]; split; [legal_items|].
  all: cbn [wire map concat item_bytes app length be32]; split; [lia|reflexivity].
Qed.

Lemma make_seg_options_wire (tsOk : bool) tsVal tsEcr (sackPermitted : bool) blocks pool :
  wf_opt tsVal tsEcr blocks -> length pool = maxOptionSize ->
  (length blocks <= (if tsOk then 3%nat else 4%nat))%nat ->
  let items := opt_program tsOk tsVal tsEcr sackPermitted blocks in
  make_seg_options tsOk tsVal tsEcr sackPermitted blocks pool = Some (wire items) /\
  Forall wf_item items /\ Forall (item_legal false) items /\
  Z.of_nat (length (wire items)) <= 40 /\ Z.of_nat (length (wire items)) mod 4 = 0.
Proof.
  intros (Hv & He & Hbl) Hbuf Hn items. subst items. unfold make_seg_options, opt_program.
  unfold maxOptionSize in Hbuf.
  assert (Hb' : Forall (fun b => is_u32 (fst b) /\ is_u32 (snd b)) blocks) by exact Hbl.
  assert (Hwf : Forall wf_item
            ((if tsOk then [INop; INop; ITS tsVal tsEcr] else []) ++
             (if sackPermitted && negb (Nat.eqb (length blocks) 0) then [INop; INop; ISack blocks] else []))).
  { destruct tsOk; destruct (sackPermitted && negb (Nat.eqb (length blocks) 0)) eqn:ES; cbn [app];
      try (apply andb_true_iff in ES as [_ ES]; apply negb_true_iff, Nat.eqb_neq in ES);
      repeat (apply Forall_cons; [cbn [wf_item]; first [exact I | split; [assumption|assumption] | split; [lia|assumption]]|]); apply Forall_nil. }
  assert (Hlen : exists k, length (wire ((if tsOk then [INop; INop; ITS tsVal tsEcr] else []) ++
             (if sackPermitted && negb (Nat.eqb (length blocks) 0) then [INop; INop; ISack blocks] else []))) = (4 * k)%nat /\ (k <= 10)%nat).
  { destruct tsOk; destruct (sackPermitted && negb (Nat.eqb (length blocks) 0));
      cbn [app wire map concat item_bytes length be32]; rewrite ?app_nil_r, ?flat_map_block_length.
    - exists (4 + 2 * length blocks)%nat. lia.
    - exists 3%nat. lia.
    - exists (1 + 2 * length blocks)%nat. lia.
    - exists 0%nat. lia. }
  destruct Hlen as (k & Hk & Hk10).
  rewrite make_options_wire; [|exact Hwf|lia|rewrite Hk; Z.div_mod_to_equations; lia].
  cbn [obind fst snd]. change (0 =? 0) with true. cbv iota.
  split; [reflexivity|]. split; [exact Hwf|]. split.
  - destruct tsOk; destruct (sackPermitted && negb (Nat.eqb (length blocks) 0)); cbn [app]; legal_items.
  - rewrite Hk. split; [lia|Z.div_mod_to_equations; lia].
Qed.

(* ====================================================================== UDP *)
Definition udp_hdr (sp dp len ck : Z) : list Z :=
  [w8 (sp / 2^8); w8 sp; w8 (dp / 2^8); w8 dp; w8 (len / 2^8); w8 len; ck / 256; ck mod 256].

Lemma data_lens data : vsize data <= 131072 -> Forall (fun b : list Z => Z.of_nat (length b) <= 131072) data.
Proof.
  unfold vsize. induction data as [|v vs IH]; intros H; constructor; cbn [concat] in H; rewrite app_length in H.
  - lia.
  - apply IH. lia.
Qed.

Lemma send_udp_flat r data sp dp :
  rOffload r = false ->
  bytes_ok (rLocal r) -> bytes_ok (rRemote r) ->
  (length (rLocal r) <= 16)%nat -> (length (rRemote r) <= 16)%nat ->
  Forall bytes_ok data -> nonfinal_even data ->
  8 + vsize data <= 65535 ->
  let L := 8 + vsize data in
  let ck := xsum_of (rLocal r) (rRemote r) 17 L (udp_hdr sp dp L 0 ++ concat data) in
  send_udp r data sp dp = Some (udp_hdr sp dp L (udp_field ck)) /\ is_u16 ck.
Proof.
  intros Hoff Bs Bd Ls Ld Bdata Hev Hsz L ck.
  assert (Hvs : 0 <= vsize data) by (unfold vsize; lia).
  unfold send_udp.
  assert (EL : w16 (8 + vsize data) = L) by (subst L; unfold w16; change (2^16) with 65536; rewrite Z.mod_small; lia).
  rewrite EL, udp_encode_flat. cbn [obind]. rewrite Hoff.
  unfold udp_calculateChecksum, getN. cbn [length Nat.add Nat.leb skipn firstn obind]. cbv zeta.
  set (H0 := [w8 (sp / 2 ^ 8); w8 sp; w8 (dp / 2 ^ 8); w8 dp; w8 (L / 2 ^ 8); w8 L; 0; 0]).
  assert (BH : bytes_ok H0) by (subst H0; bytes_tac).
  assert (BL : bytes_ok [w8 (L / 2 ^ 8); w8 L]) by bytes_tac.
  rewrite chain_ws; try assumption; try (cbn [length]; lia); try lia; try (apply data_lens; lia); try (subst H0; cbn [length]; lia).
  rewrite sum_ws_concat by exact Hev.
  assert (E17 : ws [0; w8 17] = 17) by reflexivity. rewrite E17.
  rewrite ws2, be16_rt by (subst L; lia).
  assert (EH : ws (udp_hdr sp dp L 0 ++ concat data) = ws H0 + ws (concat data)).
  { rewrite ws_app_even by reflexivity. reflexivity. }
  assert (Eck : lnot16 (oc_norm (ws (rLocal r) + ws (rRemote r) + 17 + ws (concat data) + L + ws H0)) = ck).
  { subst ck. unfold xsum_of. rewrite EH. f_equal. f_equal. lia. }
  rewrite Eck.
  assert (Hu : is_u16 ck).
  { subst ck. unfold xsum_of.
    match goal with |- is_u16 (lnot16 (oc_norm ?t)) => assert (HT : 0 <= t) end.
    { pose proof (ws_nonneg _ Bs). pose proof (ws_nonneg _ Bd). rewrite EH.
      pose proof (ws_nonneg _ BH). pose proof (ws_nonneg (concat data) (Forall_concat _ _ Bdata)). subst L. lia. }
    pose proof (oc_norm_u16 _ HT) as Hn. unfold lnot16, is_u16 in *. lia. }
  split; [|exact Hu].
  fold (udp_field ck). destruct (udp_field_u16 ck Hu) as [Hf _]. set (fk := udp_field ck) in *.
  unfold udp_setChecksum, put16. subst H0. cbn [upd obind].
  assert (Ehl : w8 (fk / 2 ^ 8) = fk / 256 /\ w8 fk = fk mod 256).
  { unfold w8, is_u16 in *. change (2^8) with 256. split; Z.div_mod_to_equations; lia. }
  destruct Ehl as [-> ->]. reflexivity.
Qed.

Lemma wf_udp_dgram pseudo sp dp ck payload :
  0 <= sp < 65536 -> 0 <= dp < 65536 -> is_u16 ck -> ck <> 0 ->
  let L := 8 + Rfc.zlen payload in
  L < 65536 ->
  let d := udp_hdr sp dp L ck ++ payload in
  Rfc.sums_to_ffff (pseudo (Rfc.zlen d) ++ d) = true ->
  Rfc.wf_udp false pseudo d = true /\ Rfc.view_udp d = Rfc.mkUV sp dp L payload.
Proof.
  intros Hsp Hdp Hck Hnz L HL d Hsum.
  pose proof (zlen_nonneg payload) as Hp.
  assert (Ez : Rfc.zlen d = L) by (subst d L; unfold Rfc.zlen; rewrite app_length; cbn [udp_hdr length]; lia).
  assert (B : forall i, (i < 8)%nat -> Rfc.b8 d i = nth i (udp_hdr sp dp L ck) 0) by (intros i Hi; apply b8_prefix; cbn [udp_hdr length]; lia).
  assert (E4 : Rfc.b16 d 4 = L) by (unfold Rfc.b16; rewrite !B by lia; cbn [udp_hdr nth]; apply be16_rt; lia).
  assert (E6 : Rfc.b16 d 6 = ck).
  { unfold Rfc.b16. rewrite !B by lia. cbn [udp_hdr nth]. unfold is_u16 in Hck. Z.div_mod_to_equations. lia. }
  split.
  - unfold Rfc.wf_udp. rewrite Hsum, E4, E6, Ez. rewrite Z.eqb_refl.
    destruct (Z.leb_spec 8 L); [|lia]. destruct (Z.eqb_spec ck 0); [contradiction|]. reflexivity.
  - unfold Rfc.view_udp. rewrite E4. unfold Rfc.b16. rewrite !B by lia. cbn [udp_hdr nth].
    rewrite (be16_rt sp), (be16_rt dp) by assumption. reflexivity.
Qed.

Lemma udp_hdr_split sp dp L ck payload :
  udp_hdr sp dp L ck ++ payload =
  [w8 (sp / 2^8); w8 sp; w8 (dp / 2^8); w8 dp; w8 (L / 2^8); w8 L] ++ (ck / 256) :: (ck mod 256) :: payload.
Proof. reflexivity. Qed.

(* UDP over IPv4, every datagram (since 723c609 also the 1 in 65535 whose checksum computes to
   zero: the field then carries 0xffff, see udp_zero_checksum_sent_as_ffff) *)
Theorem udp_frame_wf4 r data sp dp ttl c :
  let L := 8 + vsize data in
  rOffload r = false ->
  length (rLocal r) = 4%nat -> length (rRemote r) = 4%nat -> bytes_ok (rLocal r) -> bytes_ok (rRemote r) ->
  Rfc.src4_ok (rLocal r) = true ->
  0 <= sp < 65536 -> 0 <= dp < 65536 ->
  Forall bytes_ok data -> nonfinal_even data -> vsize data <= 65507 -> 1 <= ttl < 256 ->
  exists hdr frame,
    send_udp r data sp dp = Some hdr /\
    ipv4_write r hdr data 17 ttl c = Some (frame, bucket_after (20 + L) c) /\
    Rfc.wf_ipv4 false frame = true /\
    Rfc.view_ip4 frame = Rfc.mkIV (rLocal r) (rRemote r) 17 ttl (id_of (20 + L) c) (hdr ++ concat data) /\
    Rfc.view_udp (hdr ++ concat data) = Rfc.mkUV sp dp L (concat data).
Proof.
  intros L Hoff Ls Ld Bs Bd Hsrc Hsp Hdp Bdata Hev Hsz Httl.
  assert (Hvs : 0 <= vsize data) by (unfold vsize; lia).
  destruct (send_udp_flat r data sp dp Hoff Bs Bd ltac:(lia) ltac:(lia) Bdata Hev ltac:(lia)) as [Hsend Hu].
  fold L in Hsend, Hu.
  set (ck := xsum_of (rLocal r) (rRemote r) 17 L (udp_hdr sp dp L 0 ++ concat data)) in *.
  destruct (udp_field_u16 ck Hu) as [Hfu Hfnz].
  set (hdr := udp_hdr sp dp L (udp_field ck)) in *.
  assert (ELen : w16 (20 + Z.of_nat (length hdr) + vsize data) = 20 + L).
  { subst hdr. cbn [udp_hdr length]. unfold w16. change (2^16) with 65536. rewrite Z.mod_small; subst L; lia. }
  destruct (ipv4_write_flat r hdr data 17 ttl c Ls Ld Bs Bd) as (ckip & Hw & Huip & Hsumip).
  rewrite ELen in Hw, Hsumip. change (w8 17) with 17 in Hw, Hsumip.
  exists hdr, (ip4_hdr (20 + L) (w16 (fst (ipv4_next_id (20 + L) c))) ttl 17 ckip (rLocal r) (rRemote r) ++ hdr ++ concat data).
  split; [exact Hsend|]. split; [exact Hw|].
  assert (Ezl : Rfc.zlen (hdr ++ concat data) = L).
  { unfold Rfc.zlen. rewrite app_length. subst hdr L. cbn [udp_hdr length]. unfold vsize. lia. }
  assert (Bdc : bytes_ok (concat data)) by (apply Forall_concat, Bdata).
  assert (Hudp : Rfc.wf_udp false (Rfc.pseudo4 (rLocal r) (rRemote r) 17) (hdr ++ concat data) = true /\
                 Rfc.view_udp (hdr ++ concat data) = Rfc.mkUV sp dp L (concat data)).
  { subst hdr.
    apply (wf_udp_dgram (Rfc.pseudo4 (rLocal r) (rRemote r) 17) sp dp (udp_field ck) (concat data)); try assumption.
    - change (8 + Rfc.zlen (concat data)) with L. subst L. lia.
    - change (8 + Rfc.zlen (concat data)) with L. rewrite Ezl. rewrite udp_hdr_split. subst ck. rewrite udp_hdr_split.
      change (0 / 256) with 0. change (0 mod 256) with 0.
      apply xsum_verifies4_udp; try assumption; try lia; try (subst L; lia); try reflexivity; bytes_tac. }
  destruct Hudp as [Hwf_udp Hview].
  destruct (wf_ipv4_hdr false (20 + L) (w16 (fst (ipv4_next_id (20 + L) c))) ttl 17 ckip (rLocal r) (rRemote r)
              (hdr ++ concat data) Ls Ld Hsrc ltac:(rewrite Ezl; reflexivity) ltac:(subst L; lia)
              (w16_range _) Httl ltac:(lia) Huip Hsumip) as [W V].
  { unfold transport4_ok. exact Hwf_udp. }
  split; [exact W|]. split; [exact V|exact Hview].
Qed.

(* the code before 723c609 ([send_udp_old]) violated the statement: when the computed checksum is 0
   it transmitted 0, which RFC 768 reserves for "no checksum" (witness found by the harness:
   10.0.0.1:4568 -> 10.0.0.2:5535, payload c4 60) *)
Theorem udp_zero_checksum_old_refuted :
  exists r data sp dp ttl c hdr frame c',
    rOffload r = false /\ length (rLocal r) = 4%nat /\ Forall bytes_ok data /\ vsize data <= 65507 /\
    send_udp_old r data sp dp = Some hdr /\ ipv4_write r hdr data 17 ttl c = Some (frame, c') /\
    Rfc.wf_ipv4 false frame = false /\ Rfc.b16 hdr 6 = 0.
Proof.
  exists (mkRoute [10;0;0;1] [10;0;0;2] [] [] false), [[196; 96]], 4568, 5535, 255, 0.
  eexists. eexists. eexists.
  split; [reflexivity|]. split; [reflexivity|]. split; [repeat constructor; unfold is_byte; lia|].
  split; [vm_compute; discriminate|].
  split; [vm_compute; reflexivity|]. split; [vm_compute; reflexivity|]. split; vm_compute; reflexivity.
Qed.

(* the same datagram under the repaired code: the field is 0xffff and the frame is well-formed
   (also the non-trivial instance of udp_frame_wf4 in which the substitution fires) *)
Example udp_zero_checksum_sent_as_ffff :
  let r := mkRoute [10;0;0;1] [10;0;0;2] [] [] false in
  exists hdr frame c',
    xsum_of (rLocal r) (rRemote r) 17 10 (udp_hdr 4568 5535 10 0 ++ [196; 96]) = 0 /\
    send_udp r [[196; 96]] 4568 5535 = Some hdr /\ ipv4_write r hdr [[196; 96]] 17 255 0 = Some (frame, c') /\
    Rfc.b16 hdr 6 = 65535 /\ Rfc.wf_ipv4 false frame = true.
Proof.
  cbv zeta. eexists. eexists. eexists.
  split; [vm_compute; reflexivity|]. split; [vm_compute; reflexivity|]. split; [vm_compute; reflexivity|].
  split; vm_compute; reflexivity.
Qed.

(* ====================================================================== IPv6 *)
Lemma len16 (a : list Z) : length a = 16%nat ->
  exists a0 a1 a2 a3 a4 a5 a6 a7 a8 a9 a10 a11 a12 a13 a14 a15,
    a = [a0; a1; a2; a3; a4; a5; a6; a7; a8; a9; a10; a11; a12; a13; a14; a15].
Proof.
  intros H.
  do 16 (destruct a as [|? a]; [discriminate H|]). destruct a; [|discriminate H].
  repeat eexists.
Qed.

Definition ip6_hdr (len nh hop : Z) (src dst : list Z) : list Z :=
  [96; 0; 0; 0; w8 (len / 2^8); w8 len; w8 nh; w8 hop] ++ src ++ dst.

Lemma ipv6_write_flat r hdr payload proto ttl :
  length (rLocal r) = 16%nat -> length (rRemote r) = 16%nat ->
  let len := w16 (Z.of_nat (length hdr) + vsize payload) in
  ipv6_write r hdr payload proto ttl =
    Some (ip6_hdr len (w8 proto) ttl (rLocal r) (rRemote r) ++ hdr ++ concat payload).
Proof.
  intros Ls Ld len.
  destruct (len16 _ Ls) as (s0&s1&s2&s3&s4&s5&s6&s7&s8&s9&s10&s11&s12&s13&s14&s15&Es).
  destruct (len16 _ Ld) as (d0&d1&d2&d3&d4&d5&d6&d7&d8&d9&d10&d11&d12&d13&d14&d15&Ed).
  unfold ipv6_write. fold len. rewrite Es, Ed. rewrite ipv6_encode_flat. cbn [obind]. reflexivity.
Qed.

Definition transport6_ok (off : bool) (src dst : list Z) (p hop : Z) (tp : list Z) : bool :=
  let ps := Rfc.pseudo6 src dst p in
  if p =? 6 then Rfc.wf_tcp off ps tp else if p =? 17 then Rfc.wf_udp off ps tp
  else if p =? 58 then Rfc.wf_icmp6 hop src dst tp else false.

Lemma wf_ipv6_hdr off len nh hop src dst tp :
  length src = 16%nat -> length dst = 16%nat ->
  nth 0 src 0 <> 255 ->
  len = Rfc.zlen tp -> 0 <= len < 65536 -> 1 <= hop < 256 -> 0 <= nh < 256 ->
  transport6_ok off src dst nh hop tp = true ->
  let f := ip6_hdr len nh hop src dst ++ tp in
  Rfc.wf_ipv6 off f = true /\ Rfc.view_ip6 f = Rfc.mkIV src dst nh hop 0 tp.
Proof.
  intros Ls Ld Hsrc Hlen Hl Hhop Hnh Htp f.
  destruct (len16 _ Ls) as (s0&s1&s2&s3&s4&s5&s6&s7&s8&s9&s10&s11&s12&s13&s14&s15&->).
  destruct (len16 _ Ld) as (d0&d1&d2&d3&d4&d5&d6&d7&d8&d9&d10&d11&d12&d13&d14&d15&->).
  set (P := ip6_hdr len nh hop [s0;s1;s2;s3;s4;s5;s6;s7;s8;s9;s10;s11;s12;s13;s14;s15]
                    [d0;d1;d2;d3;d4;d5;d6;d7;d8;d9;d10;d11;d12;d13;d14;d15]) in *.
  assert (LP : length P = 40%nat) by reflexivity.
  assert (B : forall i, (i < 40)%nat -> Rfc.b8 f i = nth i P 0) by (intros i Hi; apply b8_prefix; lia).
  assert (Ezl : Rfc.zlen f = 40 + len) by (subst f; unfold Rfc.zlen in *; rewrite app_length, LP; lia).
  assert (Epl : Rfc.ip6_plen f = len).
  { unfold Rfc.ip6_plen, Rfc.b16. rewrite !B by lia. subst P. cbn [ip6_hdr app nth]. apply be16_rt, Hl. }
  assert (Enh : Rfc.ip6_nh f = nh) by (unfold Rfc.ip6_nh; rewrite B by lia; subst P; cbn [ip6_hdr app nth]; apply w8_id; lia).
  assert (Ehop : Rfc.ip6_hop f = hop) by (unfold Rfc.ip6_hop; rewrite B by lia; subst P; cbn [ip6_hdr app nth]; apply w8_id; lia).
  assert (Esrc : Rfc.ip6_src f = [s0;s1;s2;s3;s4;s5;s6;s7;s8;s9;s10;s11;s12;s13;s14;s15]) by reflexivity.
  assert (Edst : Rfc.ip6_dst f = [d0;d1;d2;d3;d4;d5;d6;d7;d8;d9;d10;d11;d12;d13;d14;d15]) by reflexivity.
  assert (Etp : Rfc.ip6_payload f = tp).
  { unfold Rfc.ip6_payload. change 40%nat with (length P). apply skipn_app_exact. }
  split.
  - unfold Rfc.wf_ipv6. rewrite Ezl, Epl, Enh, Ehop, Esrc, Edst, Etp.
    rewrite (B 0%nat), (B 8%nat) by lia. change (nth 0 P 0) with 96. change (nth 8 P 0) with s0.
    cbn [nth] in Hsrc. unfold transport6_ok in Htp. cbv zeta in Htp. cbv zeta. rewrite Htp.
    change (96 / 16 =? 6) with true.
    destruct (Z.leb_spec 40 (40 + len)); [|lia]. destruct (Z.eqb_spec len (40 + len - 40)); [|lia].
    destruct (Z.leb_spec 1 hop); [|lia]. destruct (Z.eqb_spec s0 255); [contradiction|]. reflexivity.
  - unfold Rfc.view_ip6. rewrite Enh, Ehop, Esrc, Edst, Etp. reflexivity.
Qed.

Theorem tcp_frame_wf6 r sp dp data fl sq ak wnd items ttl :
  let opts := wire items in
  let n := Z.of_nat (length opts) in
  let L := 20 + n + vsize data in
  rOffload r = false ->
  length (rLocal r) = 16%nat -> length (rRemote r) = 16%nat -> bytes_ok (rLocal r) -> bytes_ok (rRemote r) ->
  nth 0 (rLocal r) 0 <> 255 ->
  0 <= sp < 65536 -> 0 <= dp < 65536 -> 0 <= fl < 256 -> flag_sane fl = true ->
  Forall wf_item items -> Forall (item_legal (Rfc.has fl Rfc.SYN)) items -> n <= 40 -> n mod 4 = 0 ->
  Forall bytes_ok data -> nonfinal_even data -> L <= 65535 -> 1 <= ttl < 256 ->
  exists hdr frame,
    send_tcp r sp dp data fl sq ak wnd opts = Some hdr /\
    ipv6_write r hdr data 6 ttl = Some frame /\
    Rfc.wf_ipv6 false frame = true /\
    Rfc.view_ip6 frame = Rfc.mkIV (rLocal r) (rRemote r) 6 ttl 0 (hdr ++ concat data) /\
    Rfc.view_tcp (hdr ++ concat data) =
      Rfc.mkTV sp dp (w32 sq) (w32 ak) fl (w16 (clampw wnd)) 0 opts (concat data).
Proof.
  intros opts n L Hoff Ls Ld Bs Bd Hsrc Hsp Hdp Hfl Hsane Hwf Hleg Hn Hn4 Bdata Hev HL Httl.
  assert (Hvs : 0 <= vsize data) by (unfold vsize; lia).
  assert (Bo : bytes_ok opts) by apply wire_ok, Hwf.
  destruct (send_tcp_flat r sp dp data fl sq ak wnd opts Hoff Bs Bd ltac:(lia) ltac:(lia) Bdata Hev Bo
              ltac:(fold n; lia) Hn4 ltac:(fold n; fold L; lia)) as [Hsend Hu].
  fold n in Hsend, Hu. fold L in Hsend, Hu.
  set (wn := w16 (clampw wnd)) in *.
  set (ck := xsum_of (rLocal r) (rRemote r) 6 L (tcp_hdr sp dp (w32 sq) (w32 ak) n fl wn 0 opts ++ concat data)) in *.
  set (hdr := tcp_hdr sp dp (w32 sq) (w32 ak) n fl wn ck opts) in *.
  assert (Lh : length hdr = (20 + length opts)%nat) by (subst hdr; unfold tcp_hdr, be32; rewrite !app_length; reflexivity).
  assert (ELen : w16 (Z.of_nat (length hdr) + vsize data) = L).
  { rewrite Lh. unfold w16. change (2^16) with 65536. rewrite Z.mod_small; subst L n; lia. }
  pose proof (ipv6_write_flat r hdr data 6 ttl Ls Ld) as Hw. cbv zeta in Hw. rewrite ELen in Hw. change (w8 6) with 6 in Hw.
  exists hdr, (ip6_hdr L 6 ttl (rLocal r) (rRemote r) ++ hdr ++ concat data).
  split; [exact Hsend|]. split; [exact Hw|].
  assert (Ezl : Rfc.zlen (hdr ++ concat data) = L).
  { unfold Rfc.zlen. rewrite app_length, Lh. subst L n. unfold vsize. lia. }
  assert (Bdc : bytes_ok (concat data)) by (apply Forall_concat, Bdata).
  assert (Htcp : Rfc.wf_tcp false (Rfc.pseudo6 (rLocal r) (rRemote r) 6) (hdr ++ concat data) = true /\
                 Rfc.view_tcp (hdr ++ concat data) = Rfc.mkTV sp dp (w32 sq) (w32 ak) fl wn 0 opts (concat data)).
  { apply wf_tcp_hdr; try assumption; try apply w32_range; try apply w16_range.
    fold opts. fold n. fold hdr. rewrite Ezl.
    subst hdr ck. rewrite tcp_hdr_split by (left; exact Hu). rewrite (tcp_hdr_split _ _ _ _ _ _ _ 0) by (right; reflexivity).
    change (0 / 256) with 0. change (0 mod 256) with 0.
    apply xsum_verifies6; try assumption; try lia; try (subst L n; lia); try reflexivity.
    - apply Forall_app; split; [bytes_tac|]. apply Forall_app; split; [apply be32_ok|].
      apply Forall_app; split; [apply be32_ok|bytes_tac].
    - apply Forall_app; split; [bytes_tac|]. apply Forall_app; split; assumption. }
  destruct Htcp as [Hwf_tcp Hview].
  destruct (wf_ipv6_hdr false L 6 ttl (rLocal r) (rRemote r) (hdr ++ concat data) Ls Ld Hsrc
              ltac:(rewrite Ezl; reflexivity) ltac:(subst L n; lia) Httl ltac:(lia)) as [W V].
  { unfold transport6_ok. exact Hwf_tcp. }
  split; [exact W|]. split; [exact V|exact Hview].
Qed.

Theorem udp_frame_wf6 r data sp dp ttl :
  let L := 8 + vsize data in
  rOffload r = false ->
  length (rLocal r) = 16%nat -> length (rRemote r) = 16%nat -> bytes_ok (rLocal r) -> bytes_ok (rRemote r) ->
  nth 0 (rLocal r) 0 <> 255 ->
  0 <= sp < 65536 -> 0 <= dp < 65536 ->
  Forall bytes_ok data -> nonfinal_even data -> vsize data <= 65527 -> 1 <= ttl < 256 ->
  exists hdr frame,
    send_udp r data sp dp = Some hdr /\
    ipv6_write r hdr data 17 ttl = Some frame /\
    Rfc.wf_ipv6 false frame = true /\
    Rfc.view_ip6 frame = Rfc.mkIV (rLocal r) (rRemote r) 17 ttl 0 (hdr ++ concat data) /\
    Rfc.view_udp (hdr ++ concat data) = Rfc.mkUV sp dp L (concat data).
Proof.
  intros L Hoff Ls Ld Bs Bd Hsrc Hsp Hdp Bdata Hev Hsz Httl.
  assert (Hvs : 0 <= vsize data) by (unfold vsize; lia).
  destruct (send_udp_flat r data sp dp Hoff Bs Bd ltac:(lia) ltac:(lia) Bdata Hev ltac:(lia)) as [Hsend Hu].
  fold L in Hsend, Hu.
  set (ck := xsum_of (rLocal r) (rRemote r) 17 L (udp_hdr sp dp L 0 ++ concat data)) in *.
  destruct (udp_field_u16 ck Hu) as [Hfu Hfnz].
  set (hdr := udp_hdr sp dp L (udp_field ck)) in *.
  assert (ELen : w16 (Z.of_nat (length hdr) + vsize data) = L).
  { subst hdr. cbn [udp_hdr length]. unfold w16. change (2^16) with 65536. rewrite Z.mod_small; subst L; lia. }
  pose proof (ipv6_write_flat r hdr data 17 ttl Ls Ld) as Hw. cbv zeta in Hw. rewrite ELen in Hw. change (w8 17) with 17 in Hw.
  exists hdr, (ip6_hdr L 17 ttl (rLocal r) (rRemote r) ++ hdr ++ concat data).
  split; [exact Hsend|]. split; [exact Hw|].
  assert (Ezl : Rfc.zlen (hdr ++ concat data) = L).
  { unfold Rfc.zlen. rewrite app_length. subst hdr L. cbn [udp_hdr length]. unfold vsize. lia. }
  assert (Bdc : bytes_ok (concat data)) by (apply Forall_concat, Bdata).
  assert (Hudp : Rfc.wf_udp false (Rfc.pseudo6 (rLocal r) (rRemote r) 17) (hdr ++ concat data) = true /\
                 Rfc.view_udp (hdr ++ concat data) = Rfc.mkUV sp dp L (concat data)).
  { subst hdr.
    apply (wf_udp_dgram (Rfc.pseudo6 (rLocal r) (rRemote r) 17) sp dp (udp_field ck) (concat data)); try assumption.
    - change (8 + Rfc.zlen (concat data)) with L. subst L. lia.
    - change (8 + Rfc.zlen (concat data)) with L. rewrite Ezl. rewrite udp_hdr_split. subst ck. rewrite udp_hdr_split.
      change (0 / 256) with 0. change (0 mod 256) with 0.
      apply xsum_verifies6_udp; try assumption; try lia; try (subst L; lia); try reflexivity; bytes_tac. }
  destruct Hudp as [Hwf_udp Hview].
  destruct (wf_ipv6_hdr false L 17 ttl (rLocal r) (rRemote r) (hdr ++ concat data) Ls Ld Hsrc
              ltac:(rewrite Ezl; reflexivity) ltac:(subst L; lia) Httl ltac:(lia)) as [W V].
  { unfold transport6_ok. exact Hwf_udp. }
  split; [exact W|]. split; [exact V|exact Hview].
Qed.

(* ====================================================================== ICMP echo replies *)
(* ICMPv4: sendPing4 gets the request minus its first four bytes (identifier, sequence number,
   data) and answers type 0 with the same bytes *)
Definition icmp4_ck (code : Z) (data : list Z) : Z := lnot16 (oc_norm (ws ([0; w8 code; 0; 0] ++ data))).

Lemma send_ping4_flat code i0 i1 rest :
  bytes_ok (i0 :: i1 :: rest) -> Z.of_nat (length rest) <= 65535 ->
  let data := i0 :: i1 :: rest in
  let ck := icmp4_ck code data in
  send_ping4 code data = Some ([0; w8 code; ck / 256; ck mod 256; i0; i1], rest) /\ is_u16 ck.
Proof.
  intros Bd Hl data ck. subst ck.
  assert (Br : bytes_ok rest) by (inversion Bd as [|? ? ? B1]; inversion B1; assumption).
  assert (Bi : is_byte i0 /\ is_byte i1) by (inversion Bd as [|? ? ? B1]; inversion B1; split; assumption).
  subst data. unfold send_ping4, icmp_setType, icmp_setCode, icmp_setChecksum, put8, put16, zeros, copy_into, set_range, getFrom.
  cbn [repeat upd obind length Nat.add Nat.leb firstn skipn app].
  set (H0 := [w8 0; w8 code; 0; 0; i0; i1]).
  assert (BH : bytes_ok H0) by (subst H0; destruct Bi; bytes_tac).
  assert (Ec : checksum H0 (checksum rest 0) = oc_norm (ws ([0; w8 code; 0; 0] ++ i0 :: i1 :: rest))).
  { rewrite (checksum_ws rest 0) by (try assumption; unfold is_u16; lia).
    pose proof (ws_nonneg rest Br) as Hr. rewrite Z.add_0_l.
    rewrite checksum_ws by (try assumption; try (apply oc_norm_u16; exact Hr); subst H0; cbn [length]; lia).
    pose proof (ws_nonneg H0 BH) as Hh. rewrite oc_norm_add by assumption. f_equal.
    cbn [app]. replace (0 :: w8 code :: 0 :: 0 :: i0 :: i1 :: rest) with (H0 ++ rest) by reflexivity.
    rewrite ws_app_even by reflexivity. lia. }
  rewrite Ec. fold (icmp4_ck code (i0 :: i1 :: rest)). set (ck := icmp4_ck code (i0 :: i1 :: rest)).
  assert (Hu : is_u16 ck).
  { subst ck. unfold icmp4_ck.
    assert (HT : 0 <= ws ([0; w8 code; 0; 0] ++ i0 :: i1 :: rest)).
    { apply ws_nonneg. apply Forall_app; split; [bytes_tac|exact Bd]. }
    pose proof (oc_norm_u16 _ HT). unfold lnot16, is_u16 in *. lia. }
  split; [|exact Hu].
  assert (Ehl : w8 (ck / 2 ^ 8) = ck / 256 /\ w8 ck = ck mod 256).
  { unfold w8, is_u16 in *. change (2^8) with 256. split; Z.div_mod_to_equations; lia. }
  destruct Ehl as [-> ->]. reflexivity.
Qed.

Theorem icmp4_echo_reply_wf r data ttl c :
  length (rLocal r) = 4%nat -> length (rRemote r) = 4%nat -> bytes_ok (rLocal r) -> bytes_ok (rRemote r) ->
  Rfc.src4_ok (rLocal r) = true ->
  bytes_ok data -> (4 <= length data)%nat -> Z.of_nat (length data) <= 65511 -> 1 <= ttl < 256 ->
  let L := 4 + Z.of_nat (length data) in
  exists hdr pl frame,
    send_ping4 0 data = Some (hdr, pl) /\
    ipv4_write r hdr [pl] 1 ttl c = Some (frame, bucket_after (20 + L) c) /\
    Rfc.wf_ipv4 false frame = true /\
    Rfc.view_ip4 frame = Rfc.mkIV (rLocal r) (rRemote r) 1 ttl (id_of (20 + L) c) (hdr ++ pl) /\
    Rfc.b8 (hdr ++ pl) 0 = 0 /\ Rfc.b8 (hdr ++ pl) 1 = 0 /\ skipn 4 (hdr ++ pl) = data.
Proof.
  intros Ls Ld Bs Bd Hsrc Bdata Hl4 Hl Httl L.
  destruct data as [|i0 [|i1 rest]]; try (cbn [length] in Hl4; lia).
  destruct (send_ping4_flat 0 i0 i1 rest Bdata ltac:(cbn [length] in Hl; lia)) as [Hsend Hu].
  cbv zeta in Hsend, Hu. set (ck := icmp4_ck 0 (i0 :: i1 :: rest)) in *.
  change (w8 0) with 0 in Hsend.
  set (hdr := [0; 0; ck / 256; ck mod 256; i0; i1]) in *.
  assert (ELen : w16 (20 + Z.of_nat (length hdr) + vsize [rest]) = 20 + L).
  { subst hdr L. unfold vsize. cbn [concat length] in *. rewrite app_nil_r. unfold w16. change (2^16) with 65536.
    rewrite Z.mod_small; lia. }
  destruct (ipv4_write_flat r hdr [rest] 1 ttl c Ls Ld Bs Bd) as (ckip & Hw & Huip & Hsumip).
  rewrite ELen in Hw, Hsumip. change (w8 1) with 1 in Hw, Hsumip. cbn [concat] in Hw. rewrite app_nil_r in Hw.
  exists hdr, rest, (ip4_hdr (20 + L) (w16 (fst (ipv4_next_id (20 + L) c))) ttl 1 ckip (rLocal r) (rRemote r) ++ hdr ++ rest).
  split; [exact Hsend|]. split; [exact Hw|].
  assert (Ezl : Rfc.zlen (hdr ++ rest) = L) by (subst hdr L; unfold Rfc.zlen; cbn [app length]; lia).
  assert (Br : bytes_ok rest) by (inversion Bdata as [|? ? ? B1]; inversion B1; assumption).
  assert (Hicmp : Rfc.wf_icmp4 (hdr ++ rest) = true).
  { unfold Rfc.wf_icmp4. rewrite Ezl.
    assert (Hs : Rfc.sums_to_ffff (hdr ++ rest) = true).
    { unfold Rfc.sums_to_ffff. apply Z.eqb_eq. subst hdr ck. unfold icmp4_ck. change (w8 0) with 0.
      pose proof (verify_general [] [0; 0] (i0 :: i1 :: rest)
                    (ws ([0; 0; 0; 0] ++ i0 :: i1 :: rest))) as V.
      cbn [app] in V |- *. apply V; try reflexivity; try assumption; try bytes_tac.
      all: try (unfold ws at 1; cbn [be_words zsum fold_right]; lia). }
    rewrite Hs. change (Rfc.b8 (hdr ++ rest) 0) with 0. change (Rfc.b8 (hdr ++ rest) 1) with 0.
    cbn [Z.eqb orb]. cbv zeta. destruct (Z.leb_spec 8 L); [reflexivity|subst L; cbn [length] in *; lia]. }
  destruct (wf_ipv4_hdr false (20 + L) (w16 (fst (ipv4_next_id (20 + L) c))) ttl 1 ckip (rLocal r) (rRemote r)
              (hdr ++ rest) Ls Ld Hsrc ltac:(rewrite Ezl; reflexivity) ltac:(subst L; lia)
              (w16_range _) Httl ltac:(lia) Huip Hsumip) as [W V].
  { unfold transport4_ok. exact Hicmp. }
  split; [exact W|]. split; [exact V|]. repeat split; reflexivity.
Qed.

(* ---------- ICMPv6 ---------- *)
Lemma checksum_fold_ws0 bs :
  Forall bytes_ok bs -> Forall (fun b => Z.of_nat (length b) <= 131072) bs ->
  fold_left (fun acc b => checksum b acc) bs 0 = oc_norm (sum_ws bs).
Proof.
  intros Hb Hl. pose proof (checksum_fold_ws bs 0 Hb Hl ltac:(lia)) as F.
  change (oc_norm 0) with 0 in F. rewrite Z.add_0_l in F. exact F.
Qed.

(* icmpChecksum: addresses, 32-bit upper-layer length, 3 zero bytes + next header, the payload as
   one byte string, then the header with its checksum field zeroed *)
Lemma icmp6_chain src dst LL K pl h0 :
  bytes_ok src -> bytes_ok dst -> bytes_ok LL -> bytes_ok K -> bytes_ok pl -> bytes_ok h0 ->
  Z.of_nat (length src) <= 131072 -> Z.of_nat (length dst) <= 131072 -> Z.of_nat (length LL) <= 131072 ->
  Z.of_nat (length K) <= 131072 -> Z.of_nat (length pl) <= 131072 -> Z.of_nat (length h0) <= 131072 ->
  checksum h0 (checksum pl (checksum K (checksum LL (checksum dst (checksum src 0))))) =
  oc_norm (ws src + ws dst + ws LL + ws K + ws pl + ws h0).
Proof.
  intros Bs Bd BL BK Bv Bh Ls Ld LLl LK Lv Lh.
  pose proof (checksum_fold_ws0 [src; dst; LL; K; pl; h0]) as F.
  cbn [fold_left] in F. rewrite F.
  - f_equal. cbn [sum_ws fold_right]. lia.
  - repeat (apply Forall_cons; [assumption|]). apply Forall_nil.
  - repeat (apply Forall_cons; [assumption|]). apply Forall_nil.
Qed.

Lemma ws_be32_small L : 0 <= L < 65536 -> ws (be32 (w32 L)) = L.
Proof.
  intros H. assert (E : w32 L = L) by (unfold w32; change (2^32) with 4294967296; apply Z.mod_small; lia).
  rewrite E. unfold be32. rewrite ws4. unfold w8. change (2^8) with 256. change (2^16) with 65536. change (2^24) with 16777216.
  Z.div_mod_to_equations. lia.
Qed.

(* the echo reply: the first 8 bytes of the request with type 129 and a fresh checksum *)
Lemma icmp6_echo_reply_flat r t cd x2 x3 i0 i1 q0 q1 more vv :
  bytes_ok (rLocal r) -> bytes_ok (rRemote r) -> (length (rLocal r) <= 16)%nat -> (length (rRemote r) <= 16)%nat ->
  is_byte cd -> is_byte i0 -> is_byte i1 -> is_byte q0 -> is_byte q1 ->
  Forall bytes_ok vv -> 8 + vsize vv <= 65535 ->
  let h := t :: cd :: x2 :: x3 :: i0 :: i1 :: q0 :: q1 :: more in
  let L := 8 + vsize vv in
  let ck := xsum_of (rLocal r) (rRemote r) 58 L ([129; cd; 0; 0; i0; i1; q0; q1] ++ concat vv) in
  icmp6_echo_reply r h vv = Some [129; cd; ck / 256; ck mod 256; i0; i1; q0; q1] /\ is_u16 ck.
Proof.
  intros Bs Bd Ls Ld Hcd Hi0 Hi1 Hq0 Hq1 Bv Hsz h L ck. subst h.
  assert (Hvs : 0 <= vsize vv) by (unfold vsize; lia).
  unfold icmp6_echo_reply, icmp_setType, icmp_setChecksum, copy_into, set_range, zeros, put8, put16.
  cbn [repeat length Nat.add Nat.leb firstn skipn app upd obind].
  change (w8 129) with 129.
  unfold icmp6_checksum, put8. cbn [length upd obind]. change (w8 0) with 0.
  set (h0 := [129; cd; 0; 0; i0; i1; q0; q1]).
  assert (Bh : bytes_ok h0) by (subst h0; bytes_tac).
  assert (EL : Z.of_nat 8 + vsize vv = L) by (subst L; lia). rewrite EL.
  assert (BLL : bytes_ok (be32 (w32 L))) by apply be32_ok.
  assert (BK : bytes_ok [0; 0; 0; 58]) by bytes_tac.
  assert (Bc : bytes_ok (concat vv)) by (apply Forall_concat, Bv).
  assert (Lc : Z.of_nat (length (concat vv)) <= 131072) by (unfold vsize in *; lia).
  rewrite icmp6_chain; try assumption; try (cbn [length]; lia); try lia; try (subst h0; cbn [length]; lia); try (unfold be32; cbn [length]; lia).
  rewrite ws_be32_small by (subst L; lia). rewrite ws4.
  assert (EH : ws (h0 ++ concat vv) = ws h0 + ws (concat vv)) by (apply ws_app_even; reflexivity).
  assert (Eck : lnot16 (oc_norm (ws (rLocal r) + ws (rRemote r) + L + (0 * 256 + 0 + (0 * 256 + 58)) + ws (concat vv) + ws h0)) = ck).
  { subst ck. unfold xsum_of. fold h0. rewrite EH. f_equal. f_equal. lia. }
  rewrite Eck.
  assert (Hu : is_u16 ck).
  { subst ck. unfold xsum_of. fold h0.
    match goal with |- is_u16 (lnot16 (oc_norm ?x)) => assert (HT : 0 <= x) end.
    { pose proof (ws_nonneg _ Bs). pose proof (ws_nonneg _ Bd). rewrite EH.
      pose proof (ws_nonneg _ Bh). pose proof (ws_nonneg (concat vv) (Forall_concat _ _ Bv)). subst L. lia. }
    pose proof (oc_norm_u16 _ HT). unfold lnot16, is_u16 in *. lia. }
  split; [|exact Hu].
  assert (Ehl : w8 (ck / 2 ^ 8) = ck / 256 /\ w8 ck = ck mod 256).
  { unfold w8, is_u16 in *. change (2^8) with 256. split; Z.div_mod_to_equations; lia. }
  destruct Ehl as [-> ->]. reflexivity.
Qed.

(* an echo request (type 128, code 0) is answered with a well-formed echo reply carrying the same
   identifier, sequence number and data; [h] is the first view of the request (>= 8 bytes, only its
   first 8 are used), [vv] the views after TrimFront(8) - any views: since /repo 1404d7f
   icmpChecksum sums their concatenation, so odd-length non-final views are fine *)
Theorem icmp6_echo_reply_wf r x2 x3 i0 i1 q0 q1 more vv ttl :
  length (rLocal r) = 16%nat -> length (rRemote r) = 16%nat -> bytes_ok (rLocal r) -> bytes_ok (rRemote r) ->
  nth 0 (rLocal r) 0 <> 255 ->
  is_byte i0 -> is_byte i1 -> is_byte q0 -> is_byte q1 ->
  Forall bytes_ok vv -> 8 + vsize vv <= 65535 -> 1 <= ttl < 256 ->
  let h := 128 :: 0 :: x2 :: x3 :: i0 :: i1 :: q0 :: q1 :: more in
  exists pkt frame,
    icmp6_echo_reply r h vv = Some pkt /\
    ipv6_write r pkt vv 58 ttl = Some frame /\
    Rfc.wf_ipv6 false frame = true /\
    Rfc.view_ip6 frame = Rfc.mkIV (rLocal r) (rRemote r) 58 ttl 0 (pkt ++ concat vv) /\
    Rfc.b8 pkt 0 = 129 /\ Rfc.b8 pkt 1 = 0 /\ skipn 4 (pkt ++ concat vv) = [i0; i1; q0; q1] ++ concat vv.
Proof.
  intros Ls Ld Bs Bd Hsrc Hi0 Hi1 Hq0 Hq1 Bv Hsz Httl h.
  assert (Hvs : 0 <= vsize vv) by (unfold vsize; lia).
  destruct (icmp6_echo_reply_flat r 128 0 x2 x3 i0 i1 q0 q1 more vv Bs Bd ltac:(lia) ltac:(lia)
              ltac:(unfold is_byte; lia) Hi0 Hi1 Hq0 Hq1 Bv Hsz) as [Hrep Hu].
  cbv zeta in Hrep, Hu. set (L := 8 + vsize vv) in *.
  set (ck := xsum_of (rLocal r) (rRemote r) 58 L ([129; 0; 0; 0; i0; i1; q0; q1] ++ concat vv)) in *.
  set (pkt := [129; 0; ck / 256; ck mod 256; i0; i1; q0; q1]) in *.
  assert (ELen : w16 (Z.of_nat (length pkt) + vsize vv) = L).
  { subst pkt L. cbn [length]. unfold w16. change (2^16) with 65536. rewrite Z.mod_small; lia. }
  pose proof (ipv6_write_flat r pkt vv 58 ttl Ls Ld) as Hw. cbv zeta in Hw. rewrite ELen in Hw. change (w8 58) with 58 in Hw.
  exists pkt, (ip6_hdr L 58 ttl (rLocal r) (rRemote r) ++ pkt ++ concat vv).
  split; [exact Hrep|]. split; [exact Hw|].
  assert (Ezl : Rfc.zlen (pkt ++ concat vv) = L) by (subst pkt L; unfold Rfc.zlen, vsize; rewrite app_length; cbn [length]; lia).
  assert (Bdc : bytes_ok (concat vv)) by (apply Forall_concat, Bv).
  assert (Hicmp : Rfc.wf_icmp6 ttl (rLocal r) (rRemote r) (pkt ++ concat vv) = true).
  { unfold Rfc.wf_icmp6. rewrite Ezl.
    assert (Hs : Rfc.sums_to_ffff (Rfc.pseudo6 (rLocal r) (rRemote r) 58 L ++ pkt ++ concat vv) = true).
    { subst pkt ck.
      change ([129; 0; ?a; ?b; i0; i1; q0; q1] ++ concat vv) with ([129; 0] ++ a :: b :: ([i0; i1; q0; q1] ++ concat vv)).
      change ([129; 0; 0; 0; i0; i1; q0; q1] ++ concat vv) with ([129; 0] ++ 0 :: 0 :: ([i0; i1; q0; q1] ++ concat vv)).
      apply xsum_verifies6; try assumption; try lia; try (subst L; lia); try reflexivity; try bytes_tac;
        try (apply Forall_app; split; [bytes_tac|assumption]). }
    rewrite Hs. change (Rfc.b8 (pkt ++ concat vv) 0) with 129. change (Rfc.b8 (pkt ++ concat vv) 1) with 0.
    cbn [Z.eqb orb andb]. cbv zeta.
    destruct (Z.leb_spec 4 L); [|subst L; lia]. destruct (Z.leb_spec 8 L); [|subst L; lia]. reflexivity. }
  destruct (wf_ipv6_hdr false L 58 ttl (rLocal r) (rRemote r) (pkt ++ concat vv) Ls Ld Hsrc
              ltac:(rewrite Ezl; reflexivity) ltac:(subst L; lia) Httl ltac:(lia)) as [W V].
  { unfold transport6_ok. exact Hicmp. }
  split; [exact W|]. split; [exact V|]. repeat split; reflexivity.
Qed.

(* ====================================================================== the two TCP senders *)
(* the options sendSynTCP encodes: opts.MSS == 0 means "derive it from the MTU" *)
Definition eff_syn (o : synOpts) (mtu : Z) : synOpts :=
  if sMSS o =? 0 then mkSyn (w16 (mtu - 20)) (sWS o) (sTS o) (sTSVal o) (sTSEcr o) (sSACKPermitted o) else o.

(* SYN / SYN-ACK segments (sendSynTCP over IPv4): well-formed for every option combination, and the
   receiver's ParseSynOptions recovers exactly the options that were passed in *)
Theorem syn_frame_wf4 r mtu sp dp fl sq ak wnd o pool ttl c isAck :
  let oe := eff_syn o mtu in
  rOffload r = false ->
  length (rLocal r) = 4%nat -> length (rRemote r) = 4%nat -> bytes_ok (rLocal r) -> bytes_ok (rRemote r) ->
  Rfc.src4_ok (rLocal r) = true ->
  0 <= sp < 65536 -> 0 <= dp < 65536 -> 0 <= fl < 256 -> flag_sane fl = true -> Rfc.has fl Rfc.SYN = true ->
  wf_syn oe -> length pool = maxOptionSize -> 1 <= ttl < 256 ->
  exists hdr frame c',
    send_syn_tcp r mtu sp dp fl sq ak wnd o pool = Some hdr /\
    ipv4_write r hdr [] 6 ttl c = Some (frame, c') /\
    Rfc.wf_ipv4 false frame = true /\
    Rfc.ivSrc (Rfc.view_ip4 frame) = rLocal r /\ Rfc.ivDst (Rfc.view_ip4 frame) = rRemote r /\
    Rfc.ivPayload (Rfc.view_ip4 frame) = hdr /\
    Rfc.tvSport (Rfc.view_tcp hdr) = sp /\ Rfc.tvDport (Rfc.view_tcp hdr) = dp /\
    Rfc.tvSeq (Rfc.view_tcp hdr) = w32 sq /\ Rfc.tvAck (Rfc.view_tcp hdr) = w32 ak /\
    Rfc.tvFlags (Rfc.view_tcp hdr) = fl /\ Rfc.tvPayload (Rfc.view_tcp hdr) = [] /\
    parseSynOptions (Rfc.tvOpts (Rfc.view_tcp hdr)) isAck = Ok (syn_expected oe isAck).
Proof.
  intros oe Hoff Ls Ld Bs Bd Hsrc Hsp Hdp Hfl Hsane Hsyn Hwf Hpool Httl.
  destruct (make_syn_options_wire oe pool Hwf Hpool) as (Hmk & Hitems & Hleg & Hlen & Hmod).
  destruct (parse_recovers_syn_options oe isAck pool Hwf Hpool) as (bytes & Hmo & _ & _ & Hparse).
  assert (Eb : bytes = wire (syn_program oe)).
  { unfold make_syn_options in Hmk. rewrite Hmo in Hmk. cbn [obind fst snd] in Hmk. change (0 =? 0) with true in Hmk.
    cbv iota in Hmk. congruence. }
  subst bytes.
  destruct (tcp_frame_wf4 r sp dp [] fl sq ak wnd (syn_program oe) ttl c Hoff Ls Ld Bs Bd Hsrc Hsp Hdp Hfl Hsane
              Hitems ltac:(rewrite Hsyn; exact Hleg) Hlen Hmod ltac:(constructor) I
              ltac:(unfold vsize; cbn [concat length]; lia) Httl) as (hdr & frame & Hsend & Hw & W & V4 & VT).
  cbn [concat] in V4, VT. rewrite app_nil_r in V4, VT.
  exists hdr, frame. eexists.
  split.
  { unfold send_syn_tcp. fold (eff_syn o mtu). fold oe. rewrite Hmk. cbn [obind]. exact Hsend. }
  split; [exact Hw|]. split; [exact W|].
  rewrite V4, VT. cbn [Rfc.ivSrc Rfc.ivDst Rfc.ivPayload Rfc.tvSport Rfc.tvDport Rfc.tvSeq Rfc.tvAck Rfc.tvFlags Rfc.tvPayload Rfc.tvOpts].
  repeat (split; [reflexivity|]). exact Hparse.
Qed.

(* data / ACK / FIN / RST segments (sendRaw over IPv4) with timestamps on or off and up to as many
   SACK blocks as fit: well-formed, and ParseTCPOptions recovers timestamp values and blocks *)
Theorem seg_frame_wf4 r sp dp data fl sq ak wnd (tsOk : bool) tsVal tsEcr (sackPermitted : bool) blocks pool ttl c :
  rOffload r = false ->
  length (rLocal r) = 4%nat -> length (rRemote r) = 4%nat -> bytes_ok (rLocal r) -> bytes_ok (rRemote r) ->
  Rfc.src4_ok (rLocal r) = true ->
  0 <= sp < 65536 -> 0 <= dp < 65536 -> 0 <= fl < 256 -> flag_sane fl = true -> Rfc.has fl Rfc.SYN = false ->
  wf_opt tsVal tsEcr blocks -> (length blocks <= (if tsOk then 3%nat else 4%nat))%nat ->
  length pool = maxOptionSize ->
  Forall bytes_ok data -> nonfinal_even data -> vsize data <= 65455 -> 1 <= ttl < 256 ->
  exists hdr frame c',
    send_raw r sp dp data fl sq ak wnd tsOk tsVal tsEcr sackPermitted blocks pool = Some hdr /\
    ipv4_write r hdr data 6 ttl c = Some (frame, c') /\
    Rfc.wf_ipv4 false frame = true /\
    Rfc.ivSrc (Rfc.view_ip4 frame) = rLocal r /\ Rfc.ivDst (Rfc.view_ip4 frame) = rRemote r /\
    Rfc.ivPayload (Rfc.view_ip4 frame) = hdr ++ concat data /\
    Rfc.tvSport (Rfc.view_tcp (hdr ++ concat data)) = sp /\ Rfc.tvDport (Rfc.view_tcp (hdr ++ concat data)) = dp /\
    Rfc.tvSeq (Rfc.view_tcp (hdr ++ concat data)) = w32 sq /\ Rfc.tvAck (Rfc.view_tcp (hdr ++ concat data)) = w32 ak /\
    Rfc.tvFlags (Rfc.view_tcp (hdr ++ concat data)) = fl /\
    Rfc.tvWnd (Rfc.view_tcp (hdr ++ concat data)) = w16 (clampw wnd) /\
    Rfc.tvPayload (Rfc.view_tcp (hdr ++ concat data)) = concat data /\
    parseTCPOptions (Rfc.tvOpts (Rfc.view_tcp (hdr ++ concat data))) =
      Ok (mkOpts tsOk (if tsOk then tsVal else 0) (if tsOk then tsEcr else 0) (if sackPermitted then blocks else [])).
Proof.
  intros Hoff Ls Ld Bs Bd Hsrc Hsp Hdp Hfl Hsane Hsyn Hwf Hnb Hpool Bdata Hev Hsz Httl.
  destruct (make_seg_options_wire tsOk tsVal tsEcr sackPermitted blocks pool Hwf Hpool Hnb) as (Hmk & Hitems & Hleg & Hlen & Hmod).
  destruct (parse_recovers_options tsOk tsVal tsEcr sackPermitted blocks pool Hwf Hpool) as (bytes & Hmo & _ & _ & Hparse).
  assert (Eb : bytes = wire (opt_program tsOk tsVal tsEcr sackPermitted blocks)).
  { unfold make_seg_options in Hmk. rewrite Hmo in Hmk. cbn [obind fst snd] in Hmk. change (0 =? 0) with true in Hmk.
    cbv iota in Hmk. congruence. }
  subst bytes.
  assert (Hvs : 0 <= vsize data) by (unfold vsize; lia).
  destruct (tcp_frame_wf4 r sp dp data fl sq ak wnd (opt_program tsOk tsVal tsEcr sackPermitted blocks) ttl c
              Hoff Ls Ld Bs Bd Hsrc Hsp Hdp Hfl Hsane Hitems ltac:(rewrite Hsyn; exact Hleg) Hlen Hmod Bdata Hev
              ltac:(lia) Httl) as (hdr & frame & Hsend & Hw & W & V4 & VT).
  exists hdr, frame. eexists.
  split.
  { unfold send_raw. rewrite Hmk. cbn [obind]. exact Hsend. }
  split; [exact Hw|]. split; [exact W|].
  rewrite V4, VT. cbn [Rfc.ivSrc Rfc.ivDst Rfc.ivPayload Rfc.tvSport Rfc.tvDport Rfc.tvSeq Rfc.tvAck Rfc.tvFlags Rfc.tvWnd Rfc.tvPayload Rfc.tvOpts].
  repeat (split; [reflexivity|]). rewrite Hparse. f_equal. f_equal.
  destruct sackPermitted; [|reflexivity]. apply firstn_all2. destruct tsOk; lia.
Qed.

(* ====================================================================== ARP and Ethernet *)
Lemma len6 (a : list Z) : length a = 6%nat -> exists a0 a1 a2 a3 a4 a5, a = [a0; a1; a2; a3; a4; a5].
Proof.
  intros H. do 6 (destruct a as [|? a]; [discriminate H|]). destruct a; [|discriminate H]. repeat eexists.
Qed.

(* the ARP request LinkAddressRequest broadcasts and the reply HandlePacket sends *)
Theorem arp_request_wf mac spa tpa :
  length mac = 6%nat -> length spa = 4%nat -> length tpa = 4%nat -> nth 0 mac 0 mod 2 = 0 ->
  exists p, arp_request mac spa tpa = Some p /\ Rfc.wf_arp p = true /\
    Rfc.arp_op_of p = 1 /\ Rfc.arp_sha p = mac /\ Rfc.arp_spa p = spa /\ Rfc.arp_tpa p = tpa.
Proof.
  intros Lm Ls Lt Hu.
  destruct (len6 _ Lm) as (m0&m1&m2&m3&m4&m5&->). destruct (len4 _ Ls) as (s0&s1&s2&s3&->). destruct (len4 _ Lt) as (t0&t1&t2&t3&->).
  cbn [nth] in Hu.
  unfold arp_request, arp_setIPv4OverEthernet, arp_setOp, put8, copy_into, set_range, zeros.
  cbn [repeat upd obind length Nat.add Nat.leb firstn skipn app].
  eexists. split; [reflexivity|].
  split; [|repeat split; reflexivity].
  unfold Rfc.wf_arp. cbn [Rfc.zlen length Rfc.b16 Rfc.b8 nth Rfc.arp_op_of]. rewrite Hu. reflexivity.
Qed.

Theorem arp_reply_wf mac reqSHA reqTPA reqSPA :
  length mac = 6%nat -> length reqSHA = 6%nat -> length reqTPA = 4%nat -> length reqSPA = 4%nat ->
  nth 0 mac 0 mod 2 = 0 -> nth 0 reqSHA 0 mod 2 = 0 -> Rfc.all_eq 0 reqSHA = false ->
  exists p, arp_reply mac reqSHA reqTPA reqSPA = Some p /\ Rfc.wf_arp p = true /\
    Rfc.arp_op_of p = 2 /\ Rfc.arp_sha p = mac /\ Rfc.arp_spa p = reqTPA /\
    Rfc.arp_tha p = reqSHA /\ Rfc.arp_tpa p = reqSPA.
Proof.
  intros Lm Lh Lt Ls Hu Hu2 Hnz.
  destruct (len6 _ Lm) as (m0&m1&m2&m3&m4&m5&->). destruct (len6 _ Lh) as (h0&h1&h2&h3&h4&h5&->).
  destruct (len4 _ Ls) as (s0&s1&s2&s3&->). destruct (len4 _ Lt) as (t0&t1&t2&t3&->).
  cbn [nth] in Hu, Hu2.
  unfold arp_reply, arp_setIPv4OverEthernet, arp_setOp, put8, copy_into, set_range, zeros.
  cbn [repeat upd obind length Nat.add Nat.leb firstn skipn app].
  eexists. split; [reflexivity|].
  split; [|repeat split; reflexivity].
  unfold Rfc.wf_arp. cbn [Rfc.zlen length Rfc.b16 Rfc.b8 nth Rfc.arp_op_of].
  change (Rfc.arp_tha _) with [h0; h1; h2; h3; h4; h5]. rewrite Hu, Hu2, Hnz. reflexivity.
Qed.

(* the Ethernet header of fdbased.WritePacket: destination = the route's remote link address,
   source = the route's local link address when the route carries one, else the endpoint's own
   (since 8cee966); EtherType = the network protocol; the packet follows unchanged *)
Theorem eth_write_frame r ep proto pkt :
  length (rRemoteLink r) = 6%nat -> 0 <= proto < 65536 ->
  let src := match rLocalLink r with [] => ep | _ => rLocalLink r end in
  length src = 6%nat ->
  exists f, eth_write r ep proto pkt = Some f /\
    Rfc.eth_dst f = rRemoteLink r /\ Rfc.eth_src f = src /\ Rfc.eth_type_of f = proto /\ skipn 14 f = pkt.
Proof.
  intros Ld Hp src Ls. unfold eth_write. fold src.
  destruct (len6 _ Ld) as (d0&d1&d2&d3&d4&d5&Ed). destruct (len6 _ Ls) as (s0&s1&s2&s3&s4&s5&Es).
  rewrite Ed, Es. unfold eth_encode, put16, copy_into, set_range, zeros.
  cbn [repeat upd obind length Nat.add Nat.leb firstn skipn app ethType ethSrcAddr ethDstAddr].
  eexists. split; [reflexivity|].
  split; [reflexivity|]. split; [reflexivity|]. split; [|reflexivity].
  unfold Rfc.eth_type_of, Rfc.b16, Rfc.b8. cbn [nth app].
  unfold w16, w8. change (2^16) with 65536. change (2^8) with 256. Z.div_mod_to_equations. lia.
Qed.

(* consequence: the source address of every frame is a 6-byte address of the stack - the route's
   or the endpoint's - whatever the route's network addresses are; in particular a route without a
   local link address (both LinkAddressRequest routes) gives the endpoint's own address *)
Theorem eth_write_src_own r ep proto pkt :
  length (rRemoteLink r) = 6%nat -> 0 <= proto < 65536 -> length ep = 6%nat ->
  rLocalLink r = [] \/ rLocalLink r = ep ->
  exists f, eth_write r ep proto pkt = Some f /\
    Rfc.eth_dst f = rRemoteLink r /\ Rfc.eth_src f = ep /\ Rfc.eth_type_of f = proto /\ skipn 14 f = pkt.
Proof.
  intros Ld Hp Le Hl.
  assert (Es : match rLocalLink r with [] => ep | _ => rLocalLink r end = ep).
  { destruct Hl as [-> | E]; [reflexivity|]. rewrite E. destruct ep; reflexivity. }
  pose proof (eth_write_frame r ep proto pkt Ld Hp) as F. cbv zeta in F. rewrite Es in F. exact (F Le).
Qed.

(* the code before 8cee966 ([eth_write_old]) tested r.LocalAddress instead: a route with a local
   address but no local link address (the one ipv6 LinkAddressRequest builds: fe80::1 ->
   ff02::1:ff00:2, RemoteLinkAddress ff:ff:ff:ff:ff:ff) left with source MAC 00:00:00:00:00:00
   although the endpoint's address is 02:00:00:00:00:01 *)
Theorem eth_write_zero_src_old_refuted :
  exists r ep proto pkt f, rLocal r <> [] /\ rLocalLink r = [] /\ length ep = 6%nat /\ Rfc.all_eq 0 ep = false /\
    eth_write_old r ep proto pkt = Some f /\ Rfc.eth_src f = [0; 0; 0; 0; 0; 0] /\
    (exists f', eth_write r ep proto pkt = Some f' /\ Rfc.eth_src f' = ep).
Proof.
  exists (mkRoute [254;128;0;0;0;0;0;0;0;0;0;0;0;0;0;1] [255;2;0;0;0;0;0;0;0;0;0;1;255;0;0;2] [] [255;255;255;255;255;255] false),
         [2;0;0;0;0;1], 34525, [96]. eexists.
  split; [discriminate|]. split; [reflexivity|]. split; [reflexivity|]. split; [reflexivity|].
  split; [reflexivity|]. split; [reflexivity|]. eexists. split; reflexivity.
Qed.

(* ====================================================================== the ping transport, IPv6 *)
(* ChecksumCombine folds a 16-bit value into a running one's-complement sum *)
Lemma combine_norm x l : 0 <= x -> is_u16 l -> checksumCombine (oc_norm x) l = oc_norm (x + l).
Proof.
  intros Hx Hl. rewrite combine_spec by (try apply oc_norm_u16; assumption).
  unfold ocadd, oc_norm, is_u16 in *. cbv zeta.
  destruct (Z.eqb_spec x 0) as [->|Hne].
  - rewrite !Z.add_0_l. destruct (Z.ltb_spec l 65536); [|lia].
    destruct (Z.eqb_spec l 0) as [->|Hl0]; [reflexivity|]. Z.div_mod_to_equations; lia.
  - destruct (Z.eqb_spec (x + l) 0) as [E|_]; [lia|].
    destruct (Z.ltb_spec ((x - 1) mod 65535 + 1 + l) 65536); Z.div_mod_to_equations; lia.
Qed.

Lemma pseudo_ws p src dst :
  bytes_ok src -> bytes_ok dst -> Z.of_nat (length src) <= 131072 -> Z.of_nat (length dst) <= 131072 ->
  pseudoHeaderChecksum p src dst = oc_norm (ws src + ws dst + ws [0; w8 p]).
Proof.
  intros Bs Bd Ls Ld. unfold pseudoHeaderChecksum.
  pose proof (checksum_fold_ws0 [src; dst; [0; w8 p]]) as F. cbn [fold_left] in F. rewrite F.
  - f_equal. cbn [sum_ws fold_right]. lia.
  - repeat (apply Forall_cons; [first [assumption|bytes_tac]|]). apply Forall_nil.
  - repeat (apply Forall_cons; [first [assumption|cbn [length]; lia]|]). apply Forall_nil.
Qed.

(* sendPing6 on a well-formed echo request (type 128, code 0, >= 8 bytes): the identifier is
   overwritten, the checksum field holds the complement of the sum over pseudo-header, header
   (field zero) and data *)
Lemma ping6_send_flat r ident x2 x3 i0 i1 q0 q1 rest :
  bytes_ok (rLocal r) -> bytes_ok (rRemote r) -> (length (rLocal r) <= 16)%nat -> (length (rRemote r) <= 16)%nat ->
  is_byte q0 -> is_byte q1 -> bytes_ok rest -> 8 + Z.of_nat (length rest) <= 65535 ->
  let data := 128 :: 0 :: x2 :: x3 :: i0 :: i1 :: q0 :: q1 :: rest in
  let L := 8 + Z.of_nat (length rest) in
  let d0 := w8 (ident / 2^8) in
  let d1 := w8 ident in
  let ck := xsum_of (rLocal r) (rRemote r) 58 L ([128; 0; 0; 0; d0; d1; q0; q1] ++ rest) in
  ping6_send r ident data = Some (Some ([128; 0; ck / 256; ck mod 256; d0; d1; q0; q1], rest)) /\ is_u16 ck.
Proof.
  intros Bs Bd Ls Ld Hq0 Hq1 Br Hsz data L d0 d1 ck. subst data.
  unfold ping6_send, icmp_type, icmp_code, icmp_setChecksum, get8, put16, copy_into, set_range, zeros, getFrom.
  cbn [length Nat.ltb Nat.leb Nat.add upd obind repeat firstn skipn app nth_error].
  change (negb (128 =? 128) || negb (0 =? 0)) with false. cbv iota.
  change (w8 (0 / 2 ^ 8)) with 0. change (w8 0) with 0. fold d0 d1.
  set (h0 := [128; 0; 0; 0; d0; d1; q0; q1]).
  assert (Bh : bytes_ok h0) by (subst h0 d0 d1; bytes_tac).
  assert (EL : w16 (Z.of_nat 8 + Z.of_nat (length rest)) = L).
  { subst L. unfold w16. change (2^16) with 65536. rewrite Z.mod_small; lia. }
  rewrite EL.
  pose proof (ws_nonneg _ Bs) as Ws. pose proof (ws_nonneg _ Bd) as Wd.
  pose proof (ws_nonneg _ Br) as Wr. pose proof (ws_nonneg _ Bh) as Wh.
  assert (E58 : ws [0; w8 58] = 58) by reflexivity.
  rewrite pseudo_ws by (try assumption; lia). rewrite E58.
  rewrite combine_norm by (unfold is_u16; subst L; lia).
  rewrite (checksum_ws rest) by (try assumption; try (apply oc_norm_u16; subst L; lia); lia).
  rewrite oc_norm_add by (subst L; lia).
  rewrite checksum_ws by (try assumption; try (apply oc_norm_u16; subst L; lia); subst h0; cbn [length]; lia).
  rewrite oc_norm_add by (subst L; lia).
  assert (EH : ws (h0 ++ rest) = ws h0 + ws rest) by (apply ws_app_even; reflexivity).
  assert (Eck : lnot16 (oc_norm (ws (rLocal r) + ws (rRemote r) + 58 + L + ws rest + ws h0)) = ck).
  { subst ck. unfold xsum_of. fold h0. rewrite EH. f_equal. f_equal. lia. }
  rewrite Eck.
  assert (Hu : is_u16 ck).
  { subst ck. unfold xsum_of. fold h0. rewrite EH.
    match goal with |- is_u16 (lnot16 (oc_norm ?x)) => assert (HT : 0 <= x) by (subst L; lia) end.
    pose proof (oc_norm_u16 _ HT). unfold lnot16, is_u16 in *. lia. }
  split; [|exact Hu].
  assert (Ehl : w8 (ck / 2 ^ 8) = ck / 256 /\ w8 ck = ck mod 256).
  { unfold w8, is_u16 in *. change (2^8) with 256. split; Z.div_mod_to_equations; lia. }
  destruct Ehl as [-> ->]. reflexivity.
Qed.

(* every echo request the ping endpoint sends over IPv6 is a well-formed ICMPv6 packet: checksum
   over the pseudo-header, the caller's sequence number and data, the endpoint's identifier *)
Theorem ping6_echo_request_wf r ident x2 x3 i0 i1 q0 q1 rest ttl :
  length (rLocal r) = 16%nat -> length (rRemote r) = 16%nat -> bytes_ok (rLocal r) -> bytes_ok (rRemote r) ->
  nth 0 (rLocal r) 0 <> 255 ->
  0 <= ident < 65536 -> is_byte q0 -> is_byte q1 -> bytes_ok rest ->
  8 + Z.of_nat (length rest) <= 65535 -> 1 <= ttl < 256 ->
  let data := 128 :: 0 :: x2 :: x3 :: i0 :: i1 :: q0 :: q1 :: rest in
  exists icmp frame,
    ping6_send r ident data = Some (Some (icmp, rest)) /\
    ipv6_write r icmp [rest] 58 ttl = Some frame /\
    Rfc.wf_ipv6 false frame = true /\
    Rfc.view_ip6 frame = Rfc.mkIV (rLocal r) (rRemote r) 58 ttl 0 (icmp ++ rest) /\
    Rfc.b8 icmp 0 = 128 /\ Rfc.b8 icmp 1 = 0 /\ Rfc.b16 icmp 4 = ident /\
    skipn 6 (icmp ++ rest) = q0 :: q1 :: rest.
Proof.
  intros Ls Ld Bs Bd Hsrc Hid Hq0 Hq1 Br Hsz Httl data.
  destruct (ping6_send_flat r ident x2 x3 i0 i1 q0 q1 rest Bs Bd ltac:(lia) ltac:(lia) Hq0 Hq1 Br Hsz) as [Hsend Hu].
  cbv zeta in Hsend, Hu. set (L := 8 + Z.of_nat (length rest)) in *.
  set (d0 := w8 (ident / 2^8)) in *. set (d1 := w8 ident) in *.
  set (ck := xsum_of (rLocal r) (rRemote r) 58 L ([128; 0; 0; 0; d0; d1; q0; q1] ++ rest)) in *.
  set (icmp := [128; 0; ck / 256; ck mod 256; d0; d1; q0; q1]) in *.
  assert (ELen : w16 (Z.of_nat (length icmp) + vsize [rest]) = L).
  { subst icmp L. unfold vsize. cbn [length concat]. rewrite app_nil_r. unfold w16. change (2^16) with 65536. rewrite Z.mod_small; lia. }
  pose proof (ipv6_write_flat r icmp [rest] 58 ttl Ls Ld) as Hw. cbv zeta in Hw. rewrite ELen in Hw. change (w8 58) with 58 in Hw.
  cbn [concat] in Hw. rewrite app_nil_r in Hw.
  exists icmp, (ip6_hdr L 58 ttl (rLocal r) (rRemote r) ++ icmp ++ rest).
  split; [exact Hsend|]. split; [exact Hw|].
  assert (Ezl : Rfc.zlen (icmp ++ rest) = L) by (subst icmp L; unfold Rfc.zlen; rewrite app_length; cbn [length]; lia).
  assert (Bd01 : is_byte d0 /\ is_byte d1) by (subst d0 d1; split; apply w8_byte).
  destruct Bd01 as [Bd0 Bd1].
  assert (Hicmp : Rfc.wf_icmp6 ttl (rLocal r) (rRemote r) (icmp ++ rest) = true).
  { unfold Rfc.wf_icmp6. rewrite Ezl.
    assert (Hs : Rfc.sums_to_ffff (Rfc.pseudo6 (rLocal r) (rRemote r) 58 L ++ icmp ++ rest) = true).
    { subst icmp ck.
      change ([128; 0; ?a; ?b; d0; d1; q0; q1] ++ rest) with ([128; 0] ++ a :: b :: ([d0; d1; q0; q1] ++ rest)).
      change ([128; 0; 0; 0; d0; d1; q0; q1] ++ rest) with ([128; 0] ++ 0 :: 0 :: ([d0; d1; q0; q1] ++ rest)).
      apply xsum_verifies6; try assumption; try lia; try (subst L; lia); try reflexivity; try bytes_tac;
        try (apply Forall_app; split; [bytes_tac|assumption]). }
    rewrite Hs. change (Rfc.b8 (icmp ++ rest) 0) with 128. change (Rfc.b8 (icmp ++ rest) 1) with 0.
    cbn [Z.eqb orb andb]. cbv zeta.
    destruct (Z.leb_spec 4 L); [|subst L; lia]. destruct (Z.leb_spec 8 L); [|subst L; lia]. reflexivity. }
  destruct (wf_ipv6_hdr false L 58 ttl (rLocal r) (rRemote r) (icmp ++ rest) Ls Ld Hsrc
              ltac:(rewrite Ezl; reflexivity) ltac:(subst L; lia) Httl ltac:(lia)) as [W V].
  { unfold transport6_ok. exact Hicmp. }
  split; [exact W|]. split; [exact V|]. split; [reflexivity|]. split; [reflexivity|]. split; [|reflexivity].
  unfold Rfc.b16, Rfc.b8. subst icmp d0 d1. cbn [nth]. apply be16_rt. exact Hid.
Qed.

(* the code before 65b8ba4 ([ping6_send_old]) summed the ICMPv6 message alone: every echo request
   failed verification under the RFC 4443 pseudo-header.  Witness: fe80::1 -> fe80::2, identifier
   7, sequence number 1, no data *)
Theorem ping6_no_pseudo_header_old_refuted :
  exists r ident data icmp pl frame,
    length (rLocal r) = 16%nat /\ length (rRemote r) = 16%nat /\ bytes_ok data /\
    ping6_send_old ident data = Some (Some (icmp, pl)) /\
    ipv6_write r icmp [pl] 58 64 = Some frame /\
    Rfc.wf_ipv6 false frame = false /\
    Rfc.sums_to_ffff (icmp ++ pl) = true /\
    (exists icmp' frame', ping6_send r ident data = Some (Some (icmp', pl)) /\
       ipv6_write r icmp' [pl] 58 64 = Some frame' /\ Rfc.wf_ipv6 false frame' = true).
Proof.
  exists (mkRoute [254;128;0;0;0;0;0;0;0;0;0;0;0;0;0;1] [254;128;0;0;0;0;0;0;0;0;0;0;0;0;0;2] [] [] false),
         7, [128; 0; 0; 0; 0; 0; 0; 1].
  eexists. eexists. eexists.
  split; [reflexivity|]. split; [reflexivity|]. split; [repeat constructor; unfold is_byte; lia|].
  split; [vm_compute; reflexivity|]. split; [vm_compute; reflexivity|].
  split; [vm_compute; reflexivity|]. split; [vm_compute; reflexivity|].
  eexists. eexists. split; [vm_compute; reflexivity|]. split; [vm_compute; reflexivity|]. vm_compute; reflexivity.
Qed.

(* ====================================================================== neighbour solicitations over Ethernet *)
Lemma skipn_ok n : forall l, bytes_ok l -> bytes_ok (skipn n l).
Proof. induction n as [|n IH]; intros [|x l] H; cbn [skipn]; try assumption. apply IH. inversion H; assumption. Qed.

Lemma solicited_node_ok addr : length addr = 16%nat -> bytes_ok addr ->
  length (solicited_node addr) = 16%nat /\ bytes_ok (solicited_node addr) /\ nth 0 (solicited_node addr) 0 = 255.
Proof.
  intros L B. unfold solicited_node. split; [|split; [|reflexivity]].
  - rewrite app_length, skipn_length, L. reflexivity.
  - apply Forall_app; split; [bytes_tac|apply skipn_ok, B].
Qed.

Lemma ipv6_encode_hdr len nh hop src dst : length src = 16%nat -> length dst = 16%nat ->
  ipv6_encode (zeros 40) (mkIPv6 0 0 len nh hop src dst) = Some (ip6_hdr len nh hop src dst).
Proof.
  intros Ls Ld.
  destruct (len16 _ Ls) as (s0&s1&s2&s3&s4&s5&s6&s7&s8&s9&s10&s11&s12&s13&s14&s15&->).
  destruct (len16 _ Ld) as (d0&d1&d2&d3&d4&d5&d6&d7&d8&d9&d10&d11&d12&d13&d14&d15&->).
  rewrite ipv6_encode_flat. reflexivity.
Qed.

(* the neighbour solicitation ipv6 LinkAddressRequest builds: IPv6 header (hop limit 255, to the
   solicited-node group of the target) and the ICMPv6 message with a source link-layer address option *)
Definition ns_body (addr mac : list Z) : list Z := [0; 0; 0; 0] ++ addr ++ [1; 1] ++ mac.

Lemma ndp_solicit_flat addr localAddr mac :
  length addr = 16%nat -> length localAddr = 16%nat -> length mac = 6%nat ->
  bytes_ok addr -> bytes_ok localAddr -> bytes_ok mac ->
  let sn := solicited_node addr in
  let ck := xsum_of localAddr sn 58 32 ([135; 0] ++ 0 :: 0 :: ns_body addr mac) in
  ndp_solicit addr localAddr mac =
    Some (ip6_hdr 32 58 255 localAddr sn ++ [135; 0] ++ (ck / 256) :: (ck mod 256) :: ns_body addr mac) /\ is_u16 ck.
Proof.
  intros La Ll Lm Ba Bl Bm sn ck.
  destruct (solicited_node_ok addr La Ba) as (Lsn & Bsn & _). fold sn in Lsn, Bsn.
  pose proof (ws_nonneg _ Bl) as Wl. pose proof (ws_nonneg _ Bsn) as Wsn.
  assert (Bbody : bytes_ok ([135; 0] ++ 0 :: 0 :: ns_body addr mac)).
  { unfold ns_body. cbn [app]. bytes_tac. apply Forall_app; split; [exact Ba|]. bytes_tac. }
  pose proof (ws_nonneg _ Bbody) as Wb.
  assert (Hu : is_u16 ck).
  { subst ck. unfold xsum_of.
    match goal with |- is_u16 (lnot16 (oc_norm ?x)) => assert (HT : 0 <= x) by lia end.
    pose proof (oc_norm_u16 _ HT). unfold lnot16, is_u16 in *. lia. }
  split; [|exact Hu].
  destruct (len16 _ La) as (a0&a1&a2&a3&a4&a5&a6&a7&a8&a9&a10&a11&a12&a13&a14&a15&->).
  destruct (len6 _ Lm) as (m0&m1&m2&m3&m4&m5&->).
  unfold ndp_solicit. fold sn.
  unfold icmp_setType, icmp_setChecksum, put16, put8, copy_into, set_range, zeros.
  cbn [repeat upd obind length Nat.add Nat.leb firstn skipn app].
  change (w8 135) with 135. change (w8 1) with 1.
  unfold icmp6_checksum, put8. cbn [length upd obind]. change (w8 0) with 0.
  change (Z.of_nat 32 + vsize []) with 32. cbn [concat].
  set (h0 := [135; 0; 0; 0; 0; 0; 0; 0; a0; a1; a2; a3; a4; a5; a6; a7; a8; a9; a10; a11; a12; a13; a14; a15; 1; 1; m0; m1; m2; m3; m4; m5]).
  assert (Eh0 : h0 = [135; 0] ++ 0 :: 0 :: ns_body [a0; a1; a2; a3; a4; a5; a6; a7; a8; a9; a10; a11; a12; a13; a14; a15] [m0; m1; m2; m3; m4; m5]) by reflexivity.
  assert (Bh : bytes_ok h0) by (rewrite Eh0; exact Bbody).
  assert (BK : bytes_ok [0; 0; 0; 58]) by bytes_tac.
  rewrite icmp6_chain; try assumption; try (cbn [length]; lia); try lia; try apply be32_ok;
    try (unfold be32; cbn [length]; lia); try apply Forall_nil; try (subst h0; cbn [length]; lia).
  rewrite ws_be32_small by lia. rewrite ws4. change (ws []) with 0.
  assert (Eck : lnot16 (oc_norm (ws localAddr + ws sn + 32 + (0 * 256 + 0 + (0 * 256 + 58)) + 0 + ws h0)) = ck).
  { subst ck. unfold xsum_of. rewrite <- Eh0. f_equal. f_equal. lia. }
  rewrite Eck. cbn [obind].
  assert (Ehl : w8 (ck / 2 ^ 8) = ck / 256 /\ w8 ck = ck mod 256).
  { unfold w8, is_u16 in *. change (2^8) with 256. split; Z.div_mod_to_equations; lia. }
  destruct Ehl as [-> ->].
  change (w16 (Z.of_nat 32)) with 32.
  rewrite ipv6_encode_hdr by assumption. cbn [obind]. reflexivity.
Qed.

Definition bcast_mac : list Z := [255; 255; 255; 255; 255; 255].

(* a neighbour solicitation sent through the fd-based link (the route LinkAddressRequest builds has a
   local address and no local link address) is a well-formed Ethernet frame whose source is the
   NIC's own address, to the broadcast address the code uses, carrying a well-formed solicitation
   for [addr] with the NIC's address in the source link-layer address option *)
Theorem ndp_solicit_eth_wf addr localAddr mac :
  length addr = 16%nat -> length localAddr = 16%nat -> length mac = 6%nat ->
  bytes_ok addr -> bytes_ok localAddr -> bytes_ok mac ->
  nth 0 addr 0 <> 255 -> nth 0 localAddr 0 <> 255 -> nth 0 mac 0 mod 2 = 0 ->
  let r := mkRoute localAddr (solicited_node addr) [] bcast_mac false in
  exists pkt f,
    ndp_solicit addr localAddr mac = Some pkt /\
    eth_write r mac 34525 pkt = Some f /\
    Rfc.wf_eth false f = true /\
    Rfc.eth_src f = mac /\ Rfc.eth_dst f = bcast_mac /\ Rfc.eth_type_of f = 34525 /\ skipn 14 f = pkt /\
    Rfc.view_ip6 pkt = Rfc.mkIV localAddr (solicited_node addr) 58 255 0 (Rfc.ip6_payload pkt) /\
    Rfc.b8 (Rfc.ip6_payload pkt) 0 = 135 /\ Rfc.sub (Rfc.ip6_payload pkt) 8 16 = addr /\
    Rfc.sub (Rfc.ip6_payload pkt) 24 8 = [1; 1] ++ mac.
Proof.
  intros La Ll Lm Ba Bl Bm Ha Hl Hm r.
  destruct (ndp_solicit_flat addr localAddr mac La Ll Lm Ba Bl Bm) as [Hns Hu]. cbv zeta in Hns, Hu.
  destruct (solicited_node_ok addr La Ba) as (Lsn & Bsn & _).
  set (sn := solicited_node addr) in *.
  set (ck := xsum_of localAddr sn 58 32 ([135; 0] ++ 0 :: 0 :: ns_body addr mac)) in *.
  set (m := [135; 0] ++ (ck / 256) :: (ck mod 256) :: ns_body addr mac) in *.
  set (pkt := ip6_hdr 32 58 255 localAddr sn ++ m) in *.
  destruct (len16 _ La) as (a0&a1&a2&a3&a4&a5&a6&a7&a8&a9&a10&a11&a12&a13&a14&a15&Ea).
  destruct (len6 _ Lm) as (m0&m1&m2&m3&m4&m5&Em).
  assert (Bbody : bytes_ok (ns_body addr mac)).
  { unfold ns_body. apply Forall_app; split; [bytes_tac|]. apply Forall_app; split; [exact Ba|]. cbn [app]. bytes_tac. }
  (* the ICMPv6 message *)
  assert (Hs : Rfc.sums_to_ffff (Rfc.pseudo6 localAddr sn 58 32 ++ m) = true).
  { subst m ck. apply xsum_verifies6; try assumption; try lia; try reflexivity; bytes_tac. }
  destruct (lnot16_bytes (65535 - ck) ltac:(unfold is_u16 in *; lia)) as (Bc1 & Bc2 & _).
  unfold lnot16 in Bc1, Bc2. replace (65535 - (65535 - ck)) with ck in Bc1, Bc2 by lia.
  assert (Bm' : bytes_ok m) by (subst m; apply Forall_app; split; [bytes_tac|]; constructor; [exact Bc1|constructor; [exact Bc2|exact Bbody]]).
  assert (Ezl : Rfc.zlen m = 32) by (subst m; rewrite Ea, Em; reflexivity).
  assert (Hicmp : Rfc.wf_icmp6 255 localAddr sn m = true).
  { unfold Rfc.wf_icmp6. rewrite Ezl, Hs.
    set (c1 := ck / 256) in *. set (c2 := ck mod 256) in *. clearbody c1 c2.
    subst m. rewrite Ea, Em in *. unfold ns_body. cbn [app nth] in Ha |- *.
    change (Rfc.b8 (135 :: ?t) 0) with 135. change (Rfc.b8 (135 :: 0 :: ?t) 1) with 0.
    match goal with |- context [Rfc.b8 ?l 8 =? 255] => change (Rfc.b8 l 8) with a0 end.
    destruct (Z.eqb_spec a0 255) as [|_]; [contradiction|]. reflexivity. }
  destruct (wf_ipv6_hdr false 32 58 255 localAddr sn m Ll Lsn Hl ltac:(rewrite Ezl; reflexivity)
              ltac:(lia) ltac:(lia) ltac:(lia)) as [W V].
  { unfold transport6_ok. exact Hicmp. }
  fold pkt in W, V.
  assert (Bhdr : bytes_ok (ip6_hdr 32 58 255 localAddr sn)).
  { unfold ip6_hdr. apply Forall_app; split; [bytes_tac|]. apply Forall_app; split; assumption. }
  assert (Bpkt : bytes_ok pkt) by (subst pkt; apply Forall_app; split; assumption).
  assert (Lpkt : length pkt = 72%nat).
  { subst pkt. unfold ip6_hdr, Rfc.zlen in *. rewrite !app_length, Ll, Lsn. cbn [length]. lia. }
  (* the Ethernet frame *)
  exists pkt. eexists. split; [exact Hns|].
  unfold eth_write. subst r. cbn [rLocalLink rRemoteLink]. unfold bcast_mac, eth_encode, put16, copy_into, set_range, zeros.
  rewrite Em. cbn [repeat upd obind length Nat.add Nat.leb firstn skipn app ethType ethSrcAddr ethDstAddr].
  change (w8 (34525 / 2 ^ 8)) with 134. change (w8 34525) with 221.
  split; [reflexivity|].
  match goal with |- Rfc.wf_eth false ?x = true /\ _ => set (f := x) end.
  assert (Ef : f = [255; 255; 255; 255; 255; 255; m0; m1; m2; m3; m4; m5; 134; 221] ++ pkt) by reflexivity.
  assert (Ep : Rfc.ip6_payload pkt = m) by (change (Rfc.ip6_payload pkt) with (Rfc.ivPayload (Rfc.view_ip6 pkt)); rewrite V; reflexivity).
  split; [|split; [reflexivity|split; [reflexivity|split; [reflexivity|split; [reflexivity|]]]]].
  - unfold Rfc.wf_eth.
    assert (Hlen : Rfc.zlen f = 86) by (rewrite Ef; unfold Rfc.zlen; rewrite app_length, Lpkt; reflexivity).
    assert (Hall : Rfc.all_bytes f = true).
    { apply all_bytes_ok. rewrite Em in Bm. inversion Bm as [|? ? ? B1]; inversion B1 as [|? ? ? B2]; inversion B2 as [|? ? ? B3];
        inversion B3 as [|? ? ? B4]; inversion B4 as [|? ? ? B5]; inversion B5; subst.
      rewrite Ef.
      apply Forall_app; split; [bytes_tac|exact Bpkt]. }
    rewrite Hlen, Hall. change (Rfc.b8 f 6) with m0. rewrite Em in Hm. cbn [nth] in Hm. rewrite Hm.
    change (Rfc.eth_type_of f) with 34525. change (skipn 14 f) with pkt.
    unfold Rfc.wf_net. rewrite (all_bytes_ok _ Bpkt), W. reflexivity.
  - rewrite V, Ep. split; [reflexivity|]. subst m. rewrite Ea, Em. unfold ns_body. repeat split; reflexivity.
Qed.

(* ====================================================================== examples *)
(* the hypotheses of the frame theorems are satisfiable: a SYN with every option, a data segment
   with timestamps and two SACK blocks, both checked by the independent predicate *)
Example syn_frame_example :
  let r := mkRoute [10;0;0;1] [10;0;0;2] [] [] false in
  exists hdr frame c',
    send_syn_tcp r 1500 1234 80 2 4000000000 0 70000 (mkSyn 0 7 true 1000 0 true) (repeat 9 40) = Some hdr /\
    ipv4_write r hdr [] 6 255 41 = Some (frame, c') /\
    Rfc.wf_ipv4 false frame = true /\ length frame = 60%nat /\ c' = 41.
Proof.
  cbv zeta. eexists. eexists. eexists.
  split; [vm_compute; reflexivity|]. split; [vm_compute; reflexivity|]. split; vm_compute; split; reflexivity.
Qed.

Example seg_frame_example :
  let r := mkRoute [10;0;0;1] [10;0;0;2] [] [] false in
  exists hdr frame c',
    send_raw r 1234 80 [[1; 2; 3; 4]; [5; 6; 7]] 24 4294967295 17 65535 true 5 6 true [(100, 200); (300, 400)] (repeat 9 40) = Some hdr /\
    ipv4_write r hdr [[1; 2; 3; 4]; [5; 6; 7]] 6 255 65535 = Some (frame, c') /\
    Rfc.wf_ipv4 false frame = true /\ length frame = 79%nat /\ c' = 65536 /\ Rfc.ip4_id frame = 0.
Proof.
  cbv zeta. eexists. eexists. eexists.
  split; [vm_compute; reflexivity|]. split; [vm_compute; reflexivity|]. vm_compute. repeat split; reflexivity.
Qed.

(* ====================================================================== more SACK blocks than fit *)
(* the endpoint may hold up to 6 SACK blocks; EncodeSACKBlocks writes only those that fit (3 after
   a timestamp option, 4 otherwise), so the emitted options are those of the truncated list
   (the argument is the one inside TcpOptionsP.parse_recovers_options) *)
Lemma make_options_trunc (tsOk : bool) tsVal tsEcr (sackPermitted : bool) blocks buf :
  wf_opt tsVal tsEcr blocks -> length buf = maxOptionSize ->
  let n := if tsOk then 3%nat else 4%nat in
  make_options (opt_program tsOk tsVal tsEcr sackPermitted blocks) buf =
  make_options (opt_program tsOk tsVal tsEcr sackPermitted (firstn n blocks)) buf.
Proof.
  intros (Hv & He & Hbl) Hbuf n. unfold maxOptionSize in Hbuf.
  unfold make_options, opt_program.
  assert (Hnil : Nat.eqb (length (firstn n blocks)) 0 = Nat.eqb (length blocks) 0).
  { destruct blocks as [|b bl]; [destruct tsOk; reflexivity|]. subst n. destruct tsOk; reflexivity. }
  rewrite Hnil.
  destruct (sackPermitted && negb (Nat.eqb (length blocks) 0)) eqn:ES; [|reflexivity].
  apply andb_true_iff in ES as [_ ES]. apply negb_true_iff, Nat.eqb_neq in ES.
  assert (Hne : blocks <> []) by (intros ->; apply ES; reflexivity).
  set (pre := (if tsOk then [INop; INop; ITS tsVal tsEcr] else []) ++ [INop; INop]).
  change ((if tsOk then [INop; INop; ITS tsVal tsEcr] else []) ++ [INop; INop; ISack blocks])
    with ((if tsOk then [INop; INop; ITS tsVal tsEcr] else []) ++ [INop; INop] ++ [ISack blocks]).
  change ((if tsOk then [INop; INop; ITS tsVal tsEcr] else []) ++ [INop; INop; ISack (firstn n blocks)])
    with ((if tsOk then [INop; INop; ITS tsVal tsEcr] else []) ++ [INop; INop] ++ [ISack (firstn n blocks)]).
  rewrite !app_assoc. fold pre. rewrite !emit_items_app.
  assert (Hpre : Forall wf_item pre) by (subst pre; destruct tsOk; cbn [app]; wf_items).
  assert (Lpre : length (wire pre) = if tsOk then 14%nat else 2%nat) by (subst pre; destruct tsOk; reflexivity).
  pose proof (emit_items_wire pre [] buf Hpre ltac:(rewrite Lpre, Hbuf; destruct tsOk; lia)) as E.
  cbn [app length] in E. rewrite E. clear E.
  unfold emit_items. cbn [fold_left]. unfold emit. rewrite skipn_app_exact.
  set (rest := skipn (length (wire pre)) buf).
  assert (Lrest : length rest = if tsOk then 26%nat else 38%nat).
  { subst rest. rewrite skipn_length, Lpre, Hbuf. destruct tsOk; reflexivity. }
  destruct (encodeSACKBlocks_trunc blocks rest Hne ltac:(rewrite Lrest; destruct tsOk; lia)) as (_ & _ & _ & _ & ET).
  assert (Hne' : firstn n blocks <> []).
  { destruct blocks as [|b bl]; [congruence|]. subst n. destruct tsOk; discriminate. }
  destruct (encodeSACKBlocks_trunc (firstn n blocks) rest Hne' ltac:(rewrite Lrest; destruct tsOk; lia)) as (_ & _ & _ & _ & ET').
  cbn [encode_item] in *. rewrite ET, ET'.
  assert (EN : firstn (sack_fit (length blocks) (length rest)) blocks = firstn n blocks).
  { rewrite Lrest. unfold sack_fit. subst n.
    destruct tsOk.
    - change ((Z.of_nat 26 - 2) / 8) with 3.
      destruct (Nat.le_gt_cases (length blocks) 3) as [Q|Q].
      + rewrite !firstn_all2 by lia. reflexivity.
      + f_equal. lia.
    - change ((Z.of_nat 38 - 2) / 8) with 4.
      destruct (Nat.le_gt_cases (length blocks) 4) as [Q|Q].
      + rewrite !firstn_all2 by lia. reflexivity.
      + f_equal. lia. }
  assert (EN' : firstn (sack_fit (length (firstn n blocks)) (length rest)) (firstn n blocks) = firstn n blocks).
  { apply firstn_all2. rewrite Lrest. unfold sack_fit. rewrite firstn_length. subst n.
    destruct tsOk.
    - change ((Z.of_nat 26 - 2) / 8) with 3. lia.
    - change ((Z.of_nat 38 - 2) / 8) with 4. lia. }
  rewrite EN, EN'. reflexivity.
Qed.

(* the segment theorem without the bound on the number of blocks *)
Theorem seg_frame_wf4_any r sp dp data fl sq ak wnd (tsOk : bool) tsVal tsEcr (sackPermitted : bool) blocks pool ttl c :
  rOffload r = false ->
  length (rLocal r) = 4%nat -> length (rRemote r) = 4%nat -> bytes_ok (rLocal r) -> bytes_ok (rRemote r) ->
  Rfc.src4_ok (rLocal r) = true ->
  0 <= sp < 65536 -> 0 <= dp < 65536 -> 0 <= fl < 256 -> flag_sane fl = true -> Rfc.has fl Rfc.SYN = false ->
  wf_opt tsVal tsEcr blocks -> length pool = maxOptionSize ->
  Forall bytes_ok data -> nonfinal_even data -> vsize data <= 65455 -> 1 <= ttl < 256 ->
  exists hdr frame c',
    send_raw r sp dp data fl sq ak wnd tsOk tsVal tsEcr sackPermitted blocks pool = Some hdr /\
    ipv4_write r hdr data 6 ttl c = Some (frame, c') /\
    Rfc.wf_ipv4 false frame = true /\
    Rfc.ivSrc (Rfc.view_ip4 frame) = rLocal r /\ Rfc.ivDst (Rfc.view_ip4 frame) = rRemote r /\
    Rfc.ivPayload (Rfc.view_ip4 frame) = hdr ++ concat data /\
    Rfc.tvSport (Rfc.view_tcp (hdr ++ concat data)) = sp /\ Rfc.tvDport (Rfc.view_tcp (hdr ++ concat data)) = dp /\
    Rfc.tvSeq (Rfc.view_tcp (hdr ++ concat data)) = w32 sq /\ Rfc.tvAck (Rfc.view_tcp (hdr ++ concat data)) = w32 ak /\
    Rfc.tvFlags (Rfc.view_tcp (hdr ++ concat data)) = fl /\
    Rfc.tvWnd (Rfc.view_tcp (hdr ++ concat data)) = w16 (clampw wnd) /\
    Rfc.tvPayload (Rfc.view_tcp (hdr ++ concat data)) = concat data /\
    parseTCPOptions (Rfc.tvOpts (Rfc.view_tcp (hdr ++ concat data))) =
      Ok (mkOpts tsOk (if tsOk then tsVal else 0) (if tsOk then tsEcr else 0)
                 (if sackPermitted then firstn (if tsOk then 3 else 4) blocks else [])).
Proof.
  intros Hoff Ls Ld Bs Bd Hsrc Hsp Hdp Hfl Hsane Hsyn Hwf Hpool Bdata Hev Hsz Httl.
  set (n := if tsOk then 3%nat else 4%nat).
  assert (Hwf' : wf_opt tsVal tsEcr (firstn n blocks)).
  { destruct Hwf as (A & B & C). split; [exact A|]. split; [exact B|]. apply Forall_firstn, C. }
  assert (Hn : (length (firstn n blocks) <= (if tsOk then 3%nat else 4%nat))%nat).
  { rewrite firstn_length. subst n. destruct tsOk; lia. }
  destruct (seg_frame_wf4 r sp dp data fl sq ak wnd tsOk tsVal tsEcr sackPermitted (firstn n blocks) pool ttl c
              Hoff Ls Ld Bs Bd Hsrc Hsp Hdp Hfl Hsane Hsyn Hwf' Hn Hpool Bdata Hev Hsz Httl)
    as (hdr & frame & c' & Hs & Rest).
  exists hdr, frame, c'. split; [|exact Rest].
  unfold send_raw, make_seg_options in *. rewrite (make_options_trunc tsOk tsVal tsEcr sackPermitted blocks pool Hwf Hpool).
  exact Hs.
Qed.
