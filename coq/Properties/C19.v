(* C19 -- Sleeper/Waker never lose or invent a wake-up.

   Model: Model/Sleep.v (transition system of pkg/sleep/sleep_unsafe.go at the granularity of its
   atomic operations; thread 0 owns the Sleeper, any number of threads call Assert / Clear /
   IsAsserted).  [reachable st] = st is reached from zero-valued Sleeper / Wakers by SOME client
   programs (any number of threads, any API calls; the client contract is built into the model:
   only thread 0 calls AddWaker / Fetch / Done, and AddWaker(w) only for w not currently attached)
   under SOME schedule.  Every theorem below is over all such states / runs.  Each theorem is closed
   by [exact] of a lemma of Proofs/SleepP.v; the invariant behind them is [inv]
   (Proofs/SleepBaseP.v), proved inductive in Proofs/SleepInvP.v and Proofs/SleepInv2P.v.

   Clause of the property text                         theorem
   "asserting a waker several times before it is       C19_queued_once (a waker occurs at most once in
    fetched yields one notification"                    sharedList ++ localList, is then switched away
                                                        from the sleeper and nobody is enqueuing it),
                                                        C19_fetch_sound (one Fetch per arming)
   "the identifiers it returns are only those of       C19_fetch_sound
    wakers that were asserted since they were last
    returned or cleared"
   "if a waker attached to a sleeper is asserted       C19_no_lost_wakeup, C19_not_stuck,
    and not cleared, a blocking fetch returns (does     C19_wakeup_is_near (PARTIAL as a liveness claim:
    not sleep forever)"                                 no reachable stuck state + the wake-up is at most
                                                        6 solo steps of one identified thread away; that
                                                        the Fetch then returns needs a fair scheduler and
                                                        is not stated as a temporal theorem)
   "a non-blocking fetch reports nothing only if no    C19_nonblocking_fetch_complete (completed = pushed);
    attached waker has a completed, unconsumed          C19_nonblocking_fetch_api_refuted: with
    assertion"                                          completed = "some Assert call returned" the clause
                                                        is false of the code (an Assert that finds the
                                                        waker already asserted returns before the
                                                        asserting call has pushed)
   "after Done returns, no waker can touch the         C19_done_detaches, C19_done_detaches_stays,
    sleeper again and each waker can be attached to     C19_done_can_reattach
    a new sleeper"
   the re-check of sharedList is necessary             C19_no_recheck_refuted, C19_recheck_saves
   non-vacuity                                         C19_classic_window_handled (the classic window),
                                                        C19_parked_with_asserted_reachable,
                                                        C19_done_race_example
   the model's panic / spin branches are dead          C19_no_panic *)
From Coq Require Import ZArith Bool List.
From NP Require Import Model.Sleep Model.SleepSpec Proofs.SleepBaseP Proofs.SleepP.
Import ListNotations.

(* queued_once -- full *)
Theorem C19_queued_once : forall st, reachable st ->
  NoDup (shared st ++ local st) /\
  forall w, In w (shared st ++ local st) ->
    ws st w <> WSlp /\ (forall t, pusherb w (pc_of st t) = false) /\ heldb w (pc_of st 0) = false.
Proof. exact queued_once_lemma. Qed.
Print Assumptions C19_queued_once.

(* fetch_sound -- full: the event monitor of Model/SleepSpec.v (a waker is armed from an Assert's
   switch until it is returned by Fetch or successfully cleared; a Fetch return is accepted only
   for an armed waker and with the id of its last AddWaker) accepts every run *)
Theorem C19_fetch_sound : forall ps sched st evs,
  run (init ps) sched = Some (st, evs) -> fetch_monitor evs = true.
Proof. exact fetch_sound_lemma. Qed.
Print Assumptions C19_fetch_sound.

(* no_lost_wakeup -- full (safety form) *)
Theorem C19_no_lost_wakeup : forall st, reachable st -> parked_in_fetch st ->
  wg st = GPark /\ local st = [] /\
  forall w, attached st w -> ws st w = WAst ->
    (exists t, t <> 0 /\ enqueuing st t w) \/
    (In w (shared st) /\ exists t, t <> 0 /\ signalling st t).
Proof. exact no_lost_wakeup_lemma. Qed.
Print Assumptions C19_no_lost_wakeup.

Theorem C19_not_stuck : forall st, reachable st -> parked_in_fetch st -> quiet st ->
  forall w, attached st w -> ws st w <> WAst.
Proof. exact not_stuck_lemma. Qed.
Print Assumptions C19_not_stuck.

(* liveness, partial: the thread that will goready is identified and at most 6 of its own steps away *)
Theorem C19_wakeup_is_near_partial : forall st b w, reachable st ->
  pc_of st 0 = PNwParked (CFetch b) -> attached st w -> ws st w = WAst ->
  exists t n st', t <> 0 /\ n <= 6 /\ solo st t n = Some st' /\
     pc_of st' 0 = PNwLoad1 (CFetch b) /\ wg st' = G0 /\ In w (shared st').
Proof. exact wakeup_is_near_lemma. Qed.
Print Assumptions C19_wakeup_is_near_partial.

(* nonblocking_fetch_complete -- full with completed = pushed *)
Theorem C19_nonblocking_fetch_complete : forall st st' evs t', reachable st ->
  step_ev st 0 = Some (st', evs) -> In (ERetFetchNone t') evs ->
  shared st = [] /\ local st = [] /\
  forall w, attached st w -> ws st w = WAst -> exists t, enqueuing st t w.
Proof. exact nonblocking_fetch_lemma. Qed.
Print Assumptions C19_nonblocking_fetch_complete.

Theorem C19_nonblocking_fetch_api_refuted :
  exists ps sched st pre,
    run (init ps) sched = Some (st, pre ++ [ERetFetchNone 0]) /\
    In (ERetAdd 0 0) pre /\ In (ERetAssert 2 0) pre /\
    (forall t w id, ~ In (ERetFetch t w id) pre) /\ (forall t w b, ~ In (ERetClear t w b) pre) /\
    attached st 0 /\ ws st 0 = WAst /\ enqueuing st 1 0.
Proof. exact nonblocking_fetch_api_refuted. Qed.
Print Assumptions C19_nonblocking_fetch_api_refuted.

(* done_detaches -- full *)
Theorem C19_done_detaches : forall st st' evs t', reachable st ->
  step_ev st 0 = Some (st', evs) -> In (ERetDone t') evs -> detached_all st'.
Proof. exact done_detaches_lemma. Qed.
Print Assumptions C19_done_detaches.

Theorem C19_done_detaches_stays : forall sched st st' evs, reachable st -> detached_all st ->
  (forall t, In t sched -> t <> 0) -> run st sched = Some (st', evs) -> detached_all st'.
Proof. exact detached_stays. Qed.
Print Assumptions C19_done_detaches_stays.

Theorem C19_done_can_reattach : forall st w id r, detached_all st -> 0 < length (pcs st) ->
  prog_of st 0 = OAdd w id :: r ->
  exists st' evs, step_ev st 0 = Some (st', evs) /\ pc_of st' 0 = PAwLoad w /\ attached st' w.
Proof. exact detached_can_add. Qed.
Print Assumptions C19_done_can_reattach.

(* the re-check *)
Theorem C19_no_recheck_refuted :
  exists ps sched st evs, run_gen false (init ps) sched = Some (st, evs) /\ lost_wakeup st evs.
Proof. exact no_recheck_refuted_lemma. Qed.
Print Assumptions C19_no_recheck_refuted.

Theorem C19_recheck_saves : exists st evs,
  run (init [[OAdd 0 7%Z; OFetch true]; [OAssert 0]]) [0; 0; 0; 0; 0; 1; 1; 1; 1; 1; 1; 0; 0; 0; 0; 0] = Some (st, evs) /\
  In (ERetFetch 0 0 7%Z) evs.
Proof. exact recheck_saves. Qed.
Print Assumptions C19_recheck_saves.

Theorem C19_classic_window_handled :
  exists pre st evs,
    run (init [[OAdd 0 7%Z; OFetch true]; [OAssert 0]]) pre = Some (st, evs) /\
    pc_of st 0 = PNwPark (CFetch true) /\ wg st = GPrep /\ shared st = [0] /\ ws st 0 = WAst /\
    (exists st1 e1, run st [1; 1; 0; 0; 0; 0] = Some (st1, e1) /\
       ~ In EPark e1 /\ In (ERetFetch 0 0 7%Z) e1) /\
    (exists st2 e2, run st [0; 1; 1; 0; 0; 0] = Some (st2, e2) /\
       In EPark e2 /\ In (EWake 1) e2 /\ In (ERetFetch 0 0 7%Z) e2).
Proof. exact classic_window_handled. Qed.
Print Assumptions C19_classic_window_handled.

(* non-vacuity: the hypotheses of C19_no_lost_wakeup / C19_wakeup_is_near_partial and of
   C19_done_detaches are met by non-trivial reachable states / runs *)
Theorem C19_parked_with_asserted_reachable :
  exists st, reachable st /\ parked_in_fetch st /\ attached st 0 /\ ws st 0 = WAst /\
             In 0 (shared st) /\ signalling st 1.
Proof. exact parked_with_asserted_reachable. Qed.
Print Assumptions C19_parked_with_asserted_reachable.

Theorem C19_done_race_example :
  exists st evs,
    run (init [[OAdd 0 7%Z; ODone; OAdd 0 8%Z; OFetch true]; [OAssert 0]])
        [0; 0; 0; 1; 1; 1; 0; 0; 0; 0; 0; 0; 1; 1; 1; 1; 0; 0; 0; 0; 0; 0; 0; 0; 0; 0; 0] = Some (st, evs) /\
    In EPark evs /\ In (EPull 0) evs /\ In (ERetDone 0) evs /\ In (ERetFetch 0 0 8%Z) evs.
Proof. exact done_race_example. Qed.
Print Assumptions C19_done_race_example.

Theorem C19_no_panic : forall st, reachable st ->
  (forall t, pc_of st t <> PPanic) /\ (forall c, pc_of st 0 = PNwPark c -> wg st <> GPark).
Proof. exact no_panic_lemma. Qed.
Print Assumptions C19_no_panic.
