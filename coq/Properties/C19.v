(* C19 -- Sleeper/Waker never lose or invent a wake-up.  (theorems under construction) *)
From Coq Require Import ZArith Bool List.
From NP Require Import Model.Sleep Proofs.SleepP.
Import ListNotations.

Theorem C19_no_recheck_refuted :
  exists ps sched st evs,
    run_gen false (init ps) sched = Some (st, evs) /\ lost_wakeup_state st.
Proof. exact no_recheck_refuted_lemma. Qed.
Print Assumptions C19_no_recheck_refuted.
