(* C10 — Port reservations are exclusive and ephemeral ports are found when free.
   Only the property theorems; each is closed by [exact] of a lemma of Proofs/PortsP.v and followed
   by Print Assumptions.  Model: Model/Ports.v (protocol/ports/ports.go, the tree after
   "fix: PickEphemeralPort wraps offset+i in uint16 and skips free ports").

   Vocabulary.  [run ops] executes a history of exported-API calls (ReservePort specific or
   ephemeral with the random offset as input, ReleasePort, IsPortAvailable) on the model of the
   code and returns (table, live) where [live] is the list of reservations the CODE granted and
   that were not released since (ghost).  A release gives back the named address on the named
   networks: a live reservation with the same transport/address/port loses those networks and
   disappears when none is left (this is what the code does when a release names a subset of the
   networks, or is repeated: the second release is a no-op).  [conflict] = same transport and
   port, a common network, and either address is the wildcard or the addresses are equal.

   clause "two conflicting reservations never both succeed"          -> C10_reservations_exclusive,
                                                                        C10_reserve_ok_iff, C10_refinement
   clause "a released reservation becomes available again"           -> C10_release_restores
   clause "releasing affects nothing else"                           -> C10_release_affects_nothing_else,
                                                                        C10_release_exact_under_contract
   clause "ephemeral: a port in [16000,65535] that was free"         -> C10_ephemeral_in_range_and_accepted(_gen),
                                                                        C10_reserve_ephemeral
   clause "fails only when no port in that range is acceptable"      -> C10_ephemeral_complete(_gen),
                                                                        C10_ephemeral_finds, C10_reserve_ephemeral(_succeeds)
   tester errors                                                     -> C10_ephemeral_error_propagates(_gen)
   the finding that was repaired (16-bit sum)                        -> C10_ephemeral16_complete_refuted
   All theorems are full strength (all histories, all offsets in [0,count), all testers); the only
   refuted statement is about [pickEphemeral16], the arithmetic before the fix, kept for the record. *)
From Coq Require Import ZArith Bool List.
From NP Require Import Model.Ports Proofs.PortsP.
Import ListNotations.
Open Scope Z_scope.

(* in every reachable state the live reservations are pairwise non-conflicting — full *)
Theorem C10_reservations_exclusive : forall ops, exclusive (snd (run ops)).
Proof. exact reservations_exclusive. Qed.
Print Assumptions C10_reservations_exclusive.

(* refinement: in every reachable state an address is bound at (network, transport, port) in the
   code's table iff a live reservation holds it; no empty descriptor is kept — full *)
Theorem C10_refinement : forall ops,
  (forall n tr port a, bound (fst (run ops)) (n, tr, port) a = true <->
     exists r, In r (snd (run ops)) /\ In n (r_nets r) /\ r_tr r = tr /\ r_port r = port /\ r_addr r = a)
  /\ wf (fst (run ops)).
Proof. exact run_refines. Qed.
Print Assumptions C10_refinement.

(* in every reachable state reserveSpecificPort / IsPortAvailable / ReservePort(port <> 0) succeed
   iff the request conflicts with no live reservation — full *)
Theorem C10_reserve_ok_iff : forall ops nets tr addr port,
  (snd (reserveSpecificPort (fst (run ops)) nets tr addr port) = true <->
   forall q, In q (snd (run ops)) -> ~ conflict (Resv nets tr addr port) q)
  /\ (isPortAvailable (fst (run ops)) nets tr addr port = true <->
   forall q, In q (snd (run ops)) -> ~ conflict (Resv nets tr addr port) q)
  /\ (port <> 0 -> forall off,
      snd (snd (reservePort (fst (run ops)) nets tr addr port off)) = errNone <->
      forall q, In q (snd (run ops)) -> ~ conflict (Resv nets tr addr port) q).
Proof. exact reserve_ok_iff. Qed.
Print Assumptions C10_reserve_ok_iff.

(* release after a successful reserve: the table is observationally what it was (same bound
   addresses, same descriptors present), every availability answer is what it was, and the
   released tuple is available again — full (wf holds in every reachable state, C10_refinement;
   satisfiable: ex_release_restores_applicable) *)
Theorem C10_release_restores : forall t nets tr addr port t',
  wf t -> reserveSpecificPort t nets tr addr port = (t', true) ->
  let t'' := releasePort t' nets tr addr port in
  teq t'' t /\ (forall d, lookup t'' d = None <-> lookup t d = None) /\
  (forall nets' tr' addr' port',
     isPortAvailableLocked t'' nets' tr' addr' port' = isPortAvailableLocked t nets' tr' addr' port') /\
  isPortAvailableLocked t'' nets tr addr port = true.
Proof. exact release_restores. Qed.
Print Assumptions C10_release_restores.

(* any release, in any table: only the named address at the named descriptors can change, nothing
   is added, and availability of every tuple not conflicting with the released one is unchanged — full *)
Theorem C10_release_affects_nothing_else : forall t nets tr addr port,
  (forall d a, a <> addr \/ names nets tr port d = false ->
     bound (releasePort t nets tr addr port) d a = bound t d a)
  /\ (forall d a, bound (releasePort t nets tr addr port) d a = true -> bound t d a = true)
  /\ (forall nets' tr' addr' port',
        ~ conflict (Resv nets' tr' addr' port') (Resv nets tr addr port) ->
        isPortAvailableLocked (releasePort t nets tr addr port) nets' tr' addr' port'
        = isPortAvailableLocked t nets' tr' addr' port').
Proof. exact release_affects_nothing_else. Qed.
Print Assumptions C10_release_affects_nothing_else.

(* under the API contract "release what you hold" (the release names a live reservation) exactly
   that reservation leaves the live set (satisfiable: ex_contract) *)
Theorem C10_release_exact_under_contract : forall live r,
  exclusive live -> In r live -> r_nets r <> [] ->
  forall q, In q (live_release live r) <-> (In q live /\ q <> r /\ r_nets q <> []).
Proof. exact live_release_exact. Qed.
Print Assumptions C10_release_exact_under_contract.

(* PickEphemeralPort, state-free tester f, EVERY offset the random draw can produce *)
Theorem C10_ephemeral_in_range_and_accepted : forall E (f : Z -> bool * option E) offset,
  0 <= offset < count -> forall p,
  pickEphemeral offset (pureTest f) tt = (tt, PickOk p) -> 16000 <= p <= 65535 /\ f p = (true, None).
Proof. exact ephemeral_in_range_and_accepted_pure. Qed.
Print Assumptions C10_ephemeral_in_range_and_accepted.

Theorem C10_ephemeral_complete : forall E (f : Z -> bool * option E) offset,
  0 <= offset < count ->
  (pickEphemeral offset (pureTest f) tt = (tt, PickNone) <->
   forall p, 16000 <= p <= 65535 -> f p = (false, None)).
Proof. exact ephemeral_complete_pure. Qed.
Print Assumptions C10_ephemeral_complete.

Theorem C10_ephemeral_finds : forall E (f : Z -> bool * option E) offset,
  0 <= offset < count ->
  (forall p, snd (f p) = None) -> (exists p, 16000 <= p <= 65535 /\ f p = (true, None)) ->
  exists p, pickEphemeral offset (pureTest f) tt = (tt, PickOk p).
Proof. exact ephemeral_finds_pure. Qed.
Print Assumptions C10_ephemeral_finds.

Theorem C10_ephemeral_error_propagates : forall E (f : Z -> bool * option E) offset e,
  (pickEphemeral offset (pureTest f) tt = (tt, PickErr e) <->
   exists j, 0 <= j < count /\ snd (f (probePort offset j)) = Some e /\
             forall k, 0 <= k < j -> f (probePort offset k) = (false, None)).
Proof. exact ephemeral_err_pure. Qed.
Print Assumptions C10_ephemeral_error_propagates.

(* the same for testers that change state (closures): a failed search was told "no" about every
   port of the range; a returned port is in range and was accepted; an error is the tester's *)
Theorem C10_ephemeral_complete_gen : forall St E (test : St -> Z -> St * (bool * option E)) offset s s',
  0 <= offset < count ->
  pickEphemeral offset test s = (s', PickNone) ->
  forall p, 16000 <= p <= 65535 -> exists s1 s2, test s1 p = (s2, (false, None)).
Proof. exact @ephemeral_complete_gen. Qed.
Print Assumptions C10_ephemeral_complete_gen.

Theorem C10_ephemeral_in_range_and_accepted_gen : forall St E (test : St -> Z -> St * (bool * option E)) offset s s' p,
  0 <= offset < count ->
  pickEphemeral offset test s = (s', PickOk p) ->
  16000 <= p <= 65535 /\ exists s1, test s1 p = (s', (true, None)).
Proof. exact @ephemeral_in_range_and_accepted_gen. Qed.
Print Assumptions C10_ephemeral_in_range_and_accepted_gen.

Theorem C10_ephemeral_error_propagates_gen : forall St E (test : St -> Z -> St * (bool * option E)) offset s s' e,
  pickEphemeral offset test s = (s', PickErr e) -> exists p s1 b, test s1 p = (s', (b, Some e)).
Proof. exact @ephemeral_error_gen. Qed.
Print Assumptions C10_ephemeral_error_propagates_gen.

(* ReservePort(port = 0) in every reachable state and for every offset: the granted port is in
   [16000,65535] and conflicts with no live reservation; failure is ErrNoPortAvailable, changes
   nothing, and happens only if EVERY port of the range conflicts with a live reservation *)
Theorem C10_reserve_ephemeral : forall ops nets tr addr off t' p e,
  0 <= off < count ->
  reservePort (fst (run ops)) nets tr addr 0 off = (t', (p, e)) ->
  (e = errNone /\ 16000 <= p <= 65535 /\ (forall q, In q (snd (run ops)) -> ~ conflict (Resv nets tr addr p) q))
  \/ (e = errNoPortAvailable /\ p = 0 /\ t' = fst (run ops) /\
      forall x, 16000 <= x <= 65535 -> exists q, In q (snd (run ops)) /\ conflict (Resv nets tr addr x) q).
Proof. exact reserve_ephemeral_history. Qed.
Print Assumptions C10_reserve_ephemeral.

Theorem C10_reserve_ephemeral_succeeds : forall t nets tr addr off q,
  0 <= off < count -> 16000 <= q <= 65535 -> isPortAvailableLocked t nets tr addr q = true ->
  snd (snd (reservePort t nets tr addr 0 off)) = errNone.
Proof. exact reservePort_ephemeral_succeeds. Qed.
Print Assumptions C10_reserve_ephemeral_succeeds.

(* the arithmetic before the repair: completeness is false (one acceptable port, not found) *)
Theorem C10_ephemeral16_complete_refuted :
  exists offset p, 0 <= offset < count /\ 16000 <= p <= 65535 /\
    pickEphemeral16 offset (pureTest (fun x => (x =? p, @None Z))) tt = (tt, PickNone).
Proof. exact ephemeral16_complete_refuted. Qed.
Print Assumptions C10_ephemeral16_complete_refuted.
