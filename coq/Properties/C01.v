(* C01 — "The bytes returned by reads on one side are at all times a prefix of the bytes accepted by
   writes on the other side: nothing is lost from the middle, duplicated, reordered, truncated or
   invented ... whatever the network does to packets short of altering them (drop, duplicate,
   reorder, delay, replay of stale segments)."
   This file contains only the property theorems; each is closed by [exact] of a lemma and followed
   by Print Assumptions.  Model: Model/Tcp.v (validated against the real code by lock-step traces,
   Corr/TcpTrace.v); proofs: Proofs/TcpRcvP.v, Proofs/TcpHeapP.v.

   RECEIVE DIRECTION.  P is the peer's byte stream, irs its initial sequence number.  Admissible
   events ([ev_ok]): any interleaving of application calls, timer expiries and arriving segments
   whose payload is the slice of P that their sequence number names, with FIN only on a segment
   ending at |P| ("short of altering them": any such segment may arrive any number of times, in
   any order, or never).  [reads_run t es] = the chunks the successful reads returned, in order.
   Hypothesis |P| < 2^31 (makes every slice fresh: C01_rcv_slices_fresh).

   clause                                              theorem
   "reads are at all times a prefix" (exact form:      C01_rcv_stream_prefix   (full, all runs, from any
     read ++ queued = first n bytes, n = rcvNxt's       state satisfying the invariant)
     offset: nothing lost from the middle, duplicated,
     reordered or invented)
   same, as a plain prefix statement                   C01_rcv_reads_prefix
   the starting point is not vacuous / composable      C01_rcv_established, C01_rcv_inv_run
   every successful read returns >= 1 byte             C01_rcv_no_empty_chunk
   "not truncated": at end-of-stream exactly P         C01_rcv_eof_complete
   nothing after end-of-stream, WHATEVER arrives       C01_rcv_closed_frozen   (no hypothesis on events)
   slices are fresh under the length bound             C01_rcv_slices_fresh
   all of the above with pure ACKs / window updates /  C01_rcv_inv_run_2, C01_rcv_stream_prefix_2,
     RSTs (no data, no FIN) at ANY sequence number       C01_rcv_reads_prefix_2, C01_rcv_no_empty_chunk_2,
     (ev_ok2; what a real peer sends after its FIN)      C01_rcv_eof_complete_2
   the slice hypothesis matters (mislabelled bytes     C01_rcv_needs_slice_refuted
     of P are delivered out of place)
   Examples (hypotheses satisfiable, run across the 2^32 wrap, out-of-order + overlapping segments,
   stale replay, FIN): TcpRcvP.ex_hyps, TcpRcvP.ex_run. *)
From Coq Require Import ZArith List Bool.
From NP Require Import Model.Seqnum Model.Tcp Proofs.SeqnumP Proofs.TcpRcvP.
Import ListNotations.
Open Scope Z_scope.

Theorem C01_rcv_established : forall P irs t,
  rcvNxt (RC t) = seq_of irs 0 -> rclosed (RC t) = false -> pending (RC t) = [] -> rcvList t = [] ->
  rcv_inv P irs [] t.
Proof. exact rcv_inv_established. Qed.
Print Assumptions C01_rcv_established.

Theorem C01_rcv_inv_run : forall P irs rd0 t es,
  zlen P < 2^31 -> rcv_inv P irs rd0 t -> Forall (ev_ok P irs) es ->
  rcv_inv P irs (rd0 ++ concat (reads_run t es)) (run t es).
Proof. exact rcv_inv_run. Qed.
Print Assumptions C01_rcv_inv_run.

Theorem C01_rcv_stream_prefix : forall P irs rd0 t es,
  zlen P < 2^31 -> rcv_inv P irs rd0 t -> Forall (ev_ok P irs) es ->
  exists n, 0 <= n <= zlen P /\
    rcvNxt (RC (run t es)) = seq_of irs (if rclosed (RC (run t es)) then n + 1 else n) /\
    (rclosed (RC (run t es)) = true -> n = zlen P) /\
    rd0 ++ concat (reads_run t es) ++ concat (rcvList (run t es)) = firstn (Z.to_nat n) P.
Proof. exact rcv_stream_prefix. Qed.
Print Assumptions C01_rcv_stream_prefix.

Theorem C01_rcv_reads_prefix : forall P irs rd0 t es,
  zlen P < 2^31 -> rcv_inv P irs rd0 t -> Forall (ev_ok P irs) es ->
  exists rest, rd0 ++ concat (reads_run t es) ++ rest = P.
Proof. exact rcv_reads_prefix. Qed.
Print Assumptions C01_rcv_reads_prefix.

Theorem C01_rcv_no_empty_chunk : forall P irs rd0 t es,
  zlen P < 2^31 -> rcv_inv P irs rd0 t -> Forall (ev_ok P irs) es ->
  Forall (fun c : list Z => c <> []) (reads_run t es) /\
  Forall (fun c : list Z => c <> []) (rcvList (run t es)).
Proof. exact rcv_no_empty_chunk. Qed.
Print Assumptions C01_rcv_no_empty_chunk.

Theorem C01_rcv_eof_complete : forall P irs rd0 t es,
  zlen P < 2^31 -> rcv_inv P irs rd0 t -> Forall (ev_ok P irs) es ->
  rclosed (RC (run t es)) = true ->
  rd0 ++ concat (reads_run t es) ++ concat (rcvList (run t es)) = P.
Proof. exact rcv_eof_complete. Qed.
Print Assumptions C01_rcv_eof_complete.

Theorem C01_rcv_closed_frozen : forall t es,
  rclosed (RC t) = true ->
  rclosed (RC (run t es)) = true /\ rcvNxt (RC (run t es)) = rcvNxt (RC t) /\
  reads_run t es ++ rcvList (run t es) = rcvList t.
Proof. exact rcv_closed_frozen. Qed.
Print Assumptions C01_rcv_closed_frozen.

Theorem C01_rcv_slices_fresh : forall P off d n,
  zlen P < 2^31 -> slice_at P off d -> 0 <= n <= zlen P -> - 2^31 < off - n < 2^31.
Proof. exact slice_fresh. Qed.
Print Assumptions C01_rcv_slices_fresh.

Theorem C01_rcv_needs_slice_refuted :
  exists P irs t es, zlen P < 2^31 /\ rcv_inv P irs [] t /\ Forall (data_of_P P) es /\
    ~ exists rest, concat (reads_run t es) ++ rest = P.
Proof. exact rcv_needs_slice_refuted. Qed.
Print Assumptions C01_rcv_needs_slice_refuted.

(* ---- general form: segments carrying neither data nor FIN (pure ACKs, window updates, RSTs) may
   have ANY sequence number (ev_ok2); the theorems above are the special case ev_ok -> ev_ok2 ---- *)
Theorem C01_rcv_inv_run_2 : forall P irs rd0 t es,
  zlen P < 2^31 -> rcv_inv P irs rd0 t -> Forall (ev_ok2 P irs) es ->
  rcv_inv P irs (rd0 ++ concat (reads_run t es)) (run t es).
Proof. exact rcv_inv_run2. Qed.
Print Assumptions C01_rcv_inv_run_2.

Theorem C01_rcv_stream_prefix_2 : forall P irs rd0 t es,
  zlen P < 2^31 -> rcv_inv P irs rd0 t -> Forall (ev_ok2 P irs) es ->
  exists n, 0 <= n <= zlen P /\
    rcvNxt (RC (run t es)) = seq_of irs (if rclosed (RC (run t es)) then n + 1 else n) /\
    (rclosed (RC (run t es)) = true -> n = zlen P) /\
    rd0 ++ concat (reads_run t es) ++ concat (rcvList (run t es)) = firstn (Z.to_nat n) P.
Proof. exact rcv_stream_prefix2. Qed.
Print Assumptions C01_rcv_stream_prefix_2.

Theorem C01_rcv_reads_prefix_2 : forall P irs rd0 t es,
  zlen P < 2^31 -> rcv_inv P irs rd0 t -> Forall (ev_ok2 P irs) es ->
  exists rest, rd0 ++ concat (reads_run t es) ++ rest = P.
Proof. exact rcv_reads_prefix2. Qed.
Print Assumptions C01_rcv_reads_prefix_2.

Theorem C01_rcv_no_empty_chunk_2 : forall P irs rd0 t es,
  zlen P < 2^31 -> rcv_inv P irs rd0 t -> Forall (ev_ok2 P irs) es ->
  Forall (fun c : list Z => c <> []) (reads_run t es) /\
  Forall (fun c : list Z => c <> []) (rcvList (run t es)).
Proof. exact rcv_no_empty_chunk2. Qed.
Print Assumptions C01_rcv_no_empty_chunk_2.

Theorem C01_rcv_eof_complete_2 : forall P irs rd0 t es,
  zlen P < 2^31 -> rcv_inv P irs rd0 t -> Forall (ev_ok2 P irs) es ->
  rclosed (RC (run t es)) = true ->
  rd0 ++ concat (reads_run t es) ++ concat (rcvList (run t es)) = P.
Proof. exact rcv_eof_complete2. Qed.
Print Assumptions C01_rcv_eof_complete_2.

(* ---------------------------------------------------------------- send direction
   (Proofs/TcpSndInvP.v, TcpSndLoopP.v, TcpSndP.v).  W = the concatenation of the accepted
   prefixes of the application's writes; TcpSndInvP.is_slice W off d says d = W[off, off+|d|). *)
From NP Require Proofs.TcpSndInvP Proofs.TcpSndP.

(* every data segment ever emitted - first transmission, split at window/MSS, after cumulative or
   partial ACK trimming, fast retransmit, time-out retransmission - carries exactly the bytes of W at
   the offset its sequence number names, from connection establishment on, for every ISS *)
Theorem C01_snd_emits_slices : forall iss t0 es,
  TcpSndP.established iss t0 -> Forall TcpSndP.ev_ok es -> len (TcpSndP.written t0 es) < 2^30 ->
  forall f, In f (run_out t0 es) -> f_data f <> [] ->
  exists off, f_seq f = seq_of iss off /\ TcpSndInvP.is_slice (TcpSndP.written t0 es) off (f_data f).
Proof. exact TcpSndP.snd_emits_slices_established. Qed.
Print Assumptions C01_snd_emits_slices.

(* the same from any state satisfying the write-list invariant *)
Theorem C01_snd_emits_slices_inv : forall iss W0 t0 es,
  TcpSndInvP.Inv iss W0 t0 -> Forall TcpSndP.ev_ok es -> len (W0 ++ TcpSndP.written t0 es) < 2^30 ->
  forall f, In f (run_out t0 es) -> f_data f <> [] ->
  exists off, f_seq f = seq_of iss off /\ TcpSndInvP.is_slice (W0 ++ TcpSndP.written t0 es) off (f_data f).
Proof. exact TcpSndP.snd_emits_slices. Qed.
Print Assumptions C01_snd_emits_slices_inv.

(* a FIN carries no data, sits at exactly |W| and only appears after the shutdown *)
Theorem C01_snd_fin_after_all_data : forall iss t0 es,
  TcpSndP.established iss t0 -> Forall TcpSndP.ev_ok es -> len (TcpSndP.written t0 es) < 2^30 ->
  forall f, In f (run_out t0 es) -> has (f_flags f) fFin = true ->
  f_data f = [] /\ f_seq f = seq_of iss (len (TcpSndP.written t0 es)) /\ sndClosedE (run t0 es) = true.
Proof. exact TcpSndP.fin_after_all_data_established. Qed.
Print Assumptions C01_snd_fin_after_all_data.

(* data segments never carry FIN and never reach beyond the FIN's offset *)
Theorem C01_snd_data_before_fin : forall iss W0 t0 es,
  TcpSndInvP.Inv iss W0 t0 -> Forall TcpSndP.ev_ok es -> len (W0 ++ TcpSndP.written t0 es) < 2^30 ->
  forall g, In g (run_out t0 es) -> f_data g <> [] ->
  has (f_flags g) fFin = false /\
  exists off, f_seq g = seq_of iss off /\ 0 <= off /\ off + len (f_data g) <= len (W0 ++ TcpSndP.written t0 es).
Proof. exact TcpSndP.data_before_fin. Qed.
Print Assumptions C01_snd_data_before_fin.

(* after the shutdown no byte is ever accepted again *)
Theorem C01_snd_no_write_after_shutdown : forall iss W t es,
  TcpSndInvP.Inv iss W t -> Forall TcpSndP.ev_ok es -> sndClosedE t = true ->
  TcpSndP.written t es = [] /\ sndClosedE (run t es) = true.
Proof. exact TcpSndP.no_write_after_shutdown. Qed.
Print Assumptions C01_snd_no_write_after_shutdown.

(* the code before the repair of the partial-ACK defect (ackLoop without advancing the sequence
   number) emits a retransmission that is not a slice at the offset its number names *)
Theorem C01_snd_partial_ack_old_refuted :
  exists t0 es f,
    TcpSndInvP.Inv 1000 [] t0 /\ Forall TcpSndP.ev_ok es /\ len ([] ++ TcpSndP.written t0 es) < 2^30 /\
    In f (TcpSndP.run_out_old t0 es) /\ f_data f <> [] /\
    ~ (exists off, f_seq f = seq_of 1000 off /\ TcpSndInvP.is_slice ([] ++ TcpSndP.written t0 es) off (f_data f)).
Proof. exact TcpSndP.snd_partial_ack_refuted. Qed.
Print Assumptions C01_snd_partial_ack_old_refuted.


(* ---------------------------------------------------------------- both directions at once: the closed system
   (Proofs/TcpNetP.v).  Two endpoints of the model joined by a network whose only power is to hand an
   endpoint a copy of ANY frame the other one has emitted so far - any number of times, in any order,
   arbitrarily late, or never (drop, duplicate, reorder, delay, replay of stale segments), never an
   altered one; applications write, read, shut down and timers fire in any interleaving (sys_run
   folds an arbitrary list of such moves).  For every ISS pair, every schedule, at every time:
   what B's application has read is a prefix of what A's writes were accepted for, and vice versa. *)
From NP Require Proofs.TcpNetP.

Theorem C01_tcp_stream_prefix : forall issA issB a0 b0 ms,
  TcpNetP.conn_init issA issB a0 b0 ->
  let ea := fst (TcpNetP.sys_run a0 b0 ms) in
  let eb := snd (TcpNetP.sys_run a0 b0 ms) in
  len (TcpSndP.written a0 ea) < 2^30 -> len (TcpSndP.written b0 eb) < 2^30 ->
  (exists rest, concat (TcpRcvP.reads_run b0 eb) ++ rest = TcpSndP.written a0 ea) /\
  (exists rest, concat (TcpRcvP.reads_run a0 ea) ++ rest = TcpSndP.written b0 eb).
Proof. exact TcpNetP.tcp_stream_prefix. Qed.
Print Assumptions C01_tcp_stream_prefix.

Theorem C01_tcp_stream_prefix_always : forall issA issB a0 b0 ms k,
  TcpNetP.conn_init issA issB a0 b0 ->
  let ms' := firstn k ms in
  let ea := fst (TcpNetP.sys_run a0 b0 ms') in
  let eb := snd (TcpNetP.sys_run a0 b0 ms') in
  len (TcpSndP.written a0 ea) < 2^30 -> len (TcpSndP.written b0 eb) < 2^30 ->
  (exists rest, concat (TcpRcvP.reads_run b0 eb) ++ rest = TcpSndP.written a0 ea) /\
  (exists rest, concat (TcpRcvP.reads_run a0 ea) ++ rest = TcpSndP.written b0 eb).
Proof. exact TcpNetP.tcp_stream_prefix_always. Qed.
Print Assumptions C01_tcp_stream_prefix_always.

(* ---------------------------------------------------------------- from the handshake on
   (Proofs/TcpEstP.v).  conn_init is not an assumption about an arbitrary state: it is what the
   code's "transfer handshake state to TCP connection" step (Model/TcpEst.v transfer = newSender +
   newReceiver applied to the handshake model's final state) produces for any two handshakes that
   acknowledged each other's SYN.  The first snapshot of every lock-step trace is compared with
   that function's result (Corr/TcpTrace.v init_corr). *)
From NP Require Model.TcpHs Model.TcpEst Proofs.TcpEstP.

Theorem C01_handshakes_establish_conn : forall hA hB rbA sbA mtuA rbB sbB mtuB,
  is_u32 (TcpHs.h_iss hA) -> is_u32 (TcpHs.h_iss hB) ->
  1 <= TcpHs.h_mss hA -> 1 <= TcpHs.h_mss hB ->
  TcpHs.h_ackNum hA = u32 (TcpHs.h_iss hB + 1) ->
  TcpHs.h_ackNum hB = u32 (TcpHs.h_iss hA + 1) ->
  TcpNetP.conn_init (TcpHs.h_iss hA) (TcpHs.h_iss hB)
                    (TcpEst.transfer hA rbA sbA mtuA) (TcpEst.transfer hB rbB sbB mtuB).
Proof. exact TcpEstP.handshakes_establish_conn. Qed.
Print Assumptions C01_handshakes_establish_conn.

Theorem C01_stream_prefix_from_handshakes : forall hA hB rbA sbA mtuA rbB sbB mtuB ms,
  is_u32 (TcpHs.h_iss hA) -> is_u32 (TcpHs.h_iss hB) ->
  1 <= TcpHs.h_mss hA -> 1 <= TcpHs.h_mss hB ->
  TcpHs.h_ackNum hA = u32 (TcpHs.h_iss hB + 1) ->
  TcpHs.h_ackNum hB = u32 (TcpHs.h_iss hA + 1) ->
  let a0 := TcpEst.transfer hA rbA sbA mtuA in
  let b0 := TcpEst.transfer hB rbB sbB mtuB in
  let ea := fst (TcpNetP.sys_run a0 b0 ms) in
  let eb := snd (TcpNetP.sys_run a0 b0 ms) in
  len (TcpSndP.written a0 ea) < 2^30 -> len (TcpSndP.written b0 eb) < 2^30 ->
  (exists rest, concat (TcpRcvP.reads_run b0 eb) ++ rest = TcpSndP.written a0 ea) /\
  (exists rest, concat (TcpRcvP.reads_run a0 ea) ++ rest = TcpSndP.written b0 eb).
Proof. exact TcpEstP.stream_prefix_from_handshakes. Qed.
Print Assumptions C01_stream_prefix_from_handshakes.

(* a client's active open (Model/TcpEst.v active_established: the handshake model run on the
   SYN-ACK, then transfer) and the listener's accepted connection (passive_established: what
   accept.go builds from the SYN) are a pair of states the stream theorem starts from - for every
   pair of initial sequence numbers, window fields and option sets *)
Theorem C01_active_passive_conn :
  forall issA issB wndA wndB oA oB skA skB rbA sbA linkMtuA iphdrA lrcvB sbB mtuB tA,
  is_u32 issA -> is_u32 issB -> 1 <= TcpHs.so_mss oA -> 1 <= TcpHs.so_mss oB ->
  TcpEst.active_established issA issB wndB oB skA rbA sbA linkMtuA iphdrA = Some tA ->
  TcpNetP.conn_init issA issB tA (TcpEst.passive_established issB issA wndA oA skB lrcvB sbB mtuB).
Proof. exact TcpEstP.active_passive_conn. Qed.
Print Assumptions C01_active_passive_conn.
