(* C15 — Header encode/decode round-trips and the Internet checksum matches RFC 1071.
   This file contains only the property theorems; each is closed by [exact] of a lemma from
   Proofs/{ChecksumP,TcpOptionsP,HdrP}.v and followed by Print Assumptions.
   Models: Model/Checksum.v, TcpOptions.v, HdrIP.v, HdrTransport.v, HdrLink.v, HdrDNS.v (Go code quoted there);
   specification vocabulary: Model/Bytes.v ([bits], the independent bit-level reader),
   Model/HdrRfc.v (each header as its RFC draws it), [rfc1071_sum], [item_bytes].

   Clause of the property text -> theorems
   (a) "the checksum routine returns the 16-bit one's-complement sum defined by RFC 1071 for every
       buffer up to 64 KiB and every initial value": C15_checksum_rfc1071, C15_checksum_value,
       C15_checksum_bound_refuted (the bound 131072 is exact), C15_combine, C15_pseudo_header,
       C15_checksum_chunks / C15_checksum_odd_chunk_refuted (view-by-view summation);
   (b) "so a packet carrying the complemented sum always verifies": C15_checksum_verifies (any buffer,
       any aligned field) and its instances C15_header_checksums_verify (IPv4 header checksum, UDP and
       TCP CalculateChecksum with a pseudo-header partial sum) and C15_encodePartial_verifies (the
       incremental helpers IPv4.EncodePartial and TCP.EncodePartial);
   (c) "parsers of variable-length parts (TCP options) never read outside their input":
       C15_parseSynOptions_no_oob, C15_parseTCPOptions_no_oob (also: terminate);
   (d) "and recover every option an encoder produced": C15_encoders_wire_format, C15_sack_space,
       C15_padding, C15_parseSynOptions_recovers, C15_parseTCPOptions_recovers,
       C15_syn_options_roundtrip, C15_options_roundtrip;
   (e) "reading the fields back from the encoded bytes returns the values that were encoded": first
       conjunct of C15_<hdr> (under the boolean field domain wf_<hdr>; the domains are tight where they
       restrict the Go types: C15_field_domains_tight_refuted), C15_dns_header, C15_dns_question;
   (f) "the bytes match the RFC layout as read by an independent decoder": second conjunct of
       C15_<hdr> (every accessor = the bit-level reader, on EVERY byte string long enough) and third
       conjunct (the bytes Encode wrote, read by the bit-level reader, are the fields). *)
From Coq Require Import ZArith Bool List.
From NP Require Import Model.Bytes Model.Checksum Model.TcpOptions Model.HdrIP Model.HdrTransport
  Model.HdrLink Model.HdrRfc Model.HdrDNS Proofs.BytesP Proofs.ChecksumP Proofs.TcpOptionsP Proofs.HdrP
  Proofs.HdrCkP Proofs.HdrDNSP.
Import ListNotations.
Open Scope Z_scope.

(* ------------------------------------------------------------------ (a) *)
(* full: every buffer of at most 131072 bytes (twice the 64 KiB the property asks for), every
   uint16 initial value *)
Theorem C15_checksum_rfc1071 : forall buf init,
  bytes_ok buf -> is_u16 init -> Z.of_nat (length buf) <= 131072 ->
  checksum buf init = rfc1071_sum buf init.
Proof. exact checksum_rfc1071. Qed.
Print Assumptions C15_checksum_rfc1071.

(* the value is pinned exactly (the +0 / -0 distinction included) *)
Theorem C15_checksum_value : forall buf init,
  bytes_ok buf -> is_u16 init -> Z.of_nat (length buf) <= 131072 ->
  is_u16 (checksum buf init) /\
  checksum buf init mod 65535 = (init + zsum (be_words buf)) mod 65535 /\
  (checksum buf init = 0 <-> init = 0 /\ zsum (be_words buf) = 0).
Proof. exact checksum_value. Qed.
Print Assumptions C15_checksum_value.

(* refuted beyond the bound: with 131073 bytes the uint32 accumulator wraps *)
Theorem C15_checksum_bound_refuted :
  exists buf init, bytes_ok buf /\ is_u16 init /\ Z.of_nat (length buf) = 131073 /\
    checksum buf init <> rfc1071_sum buf init.
Proof. exact checksum_overflow_refuted. Qed.
Print Assumptions C15_checksum_bound_refuted.

(* ChecksumCombine is one's-complement addition, for all 2^32 argument pairs *)
Theorem C15_combine : forall a b, is_u16 a -> is_u16 b -> checksumCombine a b = ocadd a b.
Proof. exact combine_spec. Qed.
Print Assumptions C15_combine.

Theorem C15_pseudo_header : forall proto src dst,
  bytes_ok src -> bytes_ok dst -> is_byte proto ->
  Nat.even (length src) = true -> Nat.even (length dst) = true ->
  Z.of_nat (length src + length dst) <= 131070 ->
  pseudoHeaderChecksum proto src dst = rfc1071_sum (src ++ dst ++ [0; proto]) 0.
Proof. exact pseudoHeaderChecksum_spec. Qed.
Print Assumptions C15_pseudo_header.

(* summing chunk by chunk = summing the concatenation, provided every non-final chunk has even
   length (partial); refuted for an odd non-final chunk *)
Theorem C15_checksum_chunks : forall chunks init,
  Forall bytes_ok chunks -> is_u16 init -> nonfinal_even chunks ->
  Z.of_nat (length (concat chunks)) <= 131072 ->
  checksum_chunks chunks init = checksum (concat chunks) init.
Proof. exact checksum_chunks_concat. Qed.
Print Assumptions C15_checksum_chunks.

Theorem C15_checksum_odd_chunk_refuted :
  exists c1 c2 init, bytes_ok c1 /\ bytes_ok c2 /\ is_u16 init /\
    checksum c2 (checksum c1 init) <> checksum (c1 ++ c2) init.
Proof. exact checksum_odd_chunk_refuted. Qed.
Print Assumptions C15_checksum_odd_chunk_refuted.

(* ------------------------------------------------------------------ (b) *)
Theorem C15_checksum_verifies : forall pkt k init pkt0 pkt',
  bytes_ok pkt -> is_u16 init -> Nat.even k = true -> Z.of_nat (length pkt) <= 131072 ->
  put16 pkt k 0 = Some pkt0 ->
  put16 pkt k (lnot16 (checksum pkt0 init)) = Some pkt' ->
  checksum pkt' init = 65535.
Proof. exact checksum_verifies. Qed.
Print Assumptions C15_checksum_verifies.

(* ------------------------------------------------------------------ (c) *)
Theorem C15_parseSynOptions_no_oob : forall opts isAck,
  bytes_ok opts -> exists r, parseSynOptions opts isAck = Ok r.
Proof. exact parseSynOptions_no_oob. Qed.
Print Assumptions C15_parseSynOptions_no_oob.

Theorem C15_parseTCPOptions_no_oob : forall b,
  bytes_ok b -> exists r, parseTCPOptions b = Ok r.
Proof. exact parseTCPOptions_no_oob. Qed.
Print Assumptions C15_parseTCPOptions_no_oob.

(* ------------------------------------------------------------------ (d) *)
(* any sequence of encoder calls that fits writes exactly the RFC wire format of the items *)
Theorem C15_encoders_wire_format : forall items P R,
  Forall wf_item items -> (length (wire items) <= length R)%nat ->
  emit_items items (P ++ R, length P) =
  ((P ++ wire items) ++ skipn (length (wire items)) R, length (P ++ wire items)).
Proof. exact emit_items_wire. Qed.
Print Assumptions C15_encoders_wire_format.

Theorem C15_sack_space : forall blocks b,
  blocks <> [] -> (10 <= length b)%nat ->
  let l := sack_fit (length blocks) (length b) in
  (1 <= l <= 4)%nat /\ (2 + 8 * l <= length b)%nat /\ length (firstn l blocks) = l /\
  (length b < 2 + 8 * (l + 1) \/ l = 4 \/ l = length blocks)%nat /\
  encodeSACKBlocks blocks b = encode_item (ISack (firstn l blocks)) b.
Proof. exact encodeSACKBlocks_trunc. Qed.
Print Assumptions C15_sack_space.

Theorem C15_padding : forall options offset b' p,
  addTCPOptionPadding options offset = Some (b', p) ->
  0 <= p < 4 /\ (Z.of_nat offset + p) mod 4 = 0 /\
  b' = firstn offset options ++ wire (repeat INop (Z.to_nat p)) ++ skipn (offset + Z.to_nat p) options.
Proof. exact addTCPOptionPadding_spec. Qed.
Print Assumptions C15_padding.

Theorem C15_parseSynOptions_recovers : forall items isAck, Forall wf_item items ->
  parseSynOptions (wire items) isAck = Ok (fold_left (apply_syn isAck) items syn_default).
Proof. exact parseSynOptions_items. Qed.
Print Assumptions C15_parseSynOptions_recovers.

Theorem C15_parseTCPOptions_recovers : forall items, Forall wf_item items ->
  parseTCPOptions (wire items) = Ok (fold_left apply_opt items opts_default).
Proof. exact parseTCPOptions_items. Qed.
Print Assumptions C15_parseTCPOptions_recovers.

(* the two option programs of transport/tcp/connect.go, end to end *)
Theorem C15_syn_options_roundtrip : forall o isAck buf,
  wf_syn o -> length buf = maxOptionSize ->
  exists bytes, make_options (syn_program o) buf = Some (bytes, 0) /\
    Z.of_nat (length bytes) mod 4 = 0 /\ (length bytes <= 40)%nat /\
    parseSynOptions bytes isAck = Ok (syn_expected o isAck).
Proof. exact parse_recovers_syn_options. Qed.
Print Assumptions C15_syn_options_roundtrip.

Theorem C15_options_roundtrip : forall tsOk tsVal tsEcr sackPermitted blocks buf,
  wf_opt tsVal tsEcr blocks -> length buf = maxOptionSize ->
  exists bytes, make_options (opt_program tsOk tsVal tsEcr sackPermitted blocks) buf = Some (bytes, 0) /\
    Z.of_nat (length bytes) mod 4 = 0 /\ (length bytes <= 40)%nat /\
    parseTCPOptions bytes =
      Ok (mkOpts tsOk (if tsOk then tsVal else 0) (if tsOk then tsEcr else 0)
                 (if sackPermitted then firstn (if tsOk then 3 else 4) blocks else [])).
Proof. exact parse_recovers_options. Qed.
Print Assumptions C15_options_roundtrip.

(* ------------------------------------------------------------------ (b): header instances *)
Theorem C15_header_checksums_verify :
  (forall b hl b0 c b1,
     bytes_ok b -> ipv4_headerLength b = Some hl -> 12 <= hl -> (Z.to_nat hl <= length b)%nat ->
     ipv4_setChecksum b 0 = Some b0 -> ipv4_calculateChecksum b0 = Some c ->
     ipv4_setChecksum b0 (lnot16 c) = Some b1 -> ipv4_calculateChecksum b1 = Some 65535) /\
  (forall b partialChecksum totalLen b0 c b1,
     bytes_ok b -> is_u16 partialChecksum -> is_u16 totalLen ->
     udp_setChecksum b 0 = Some b0 -> udp_calculateChecksum b0 partialChecksum totalLen = Some c ->
     udp_setChecksum b0 (lnot16 c) = Some b1 ->
     udp_calculateChecksum b1 partialChecksum totalLen = Some 65535) /\
  (forall b d partialChecksum totalLen b0 c b1,
     bytes_ok b -> is_u16 partialChecksum -> is_u16 totalLen ->
     tcp_dataOffset b = Some d -> 18 <= d -> (Z.to_nat d <= length b)%nat ->
     tcp_setChecksum b 0 = Some b0 -> tcp_calculateChecksum b0 partialChecksum totalLen = Some c ->
     tcp_setChecksum b0 (lnot16 c) = Some b1 ->
     tcp_calculateChecksum b1 partialChecksum totalLen = Some 65535).
Proof. exact header_checksums_verify. Qed.
Print Assumptions C15_header_checksums_verify.

(* the incremental helpers: when the caller's partial checksum is the sum of the header with the
   fields the helper writes zeroed (IPv4: total length + checksum; TCP: seq, ack, flags, window,
   checksum, summed from the pseudo-header/payload sum q), the header they produce verifies *)
Theorem C15_encodePartial_verifies :
  (forall b hl bz p tl b',
     bytes_ok b -> ipv4_headerLength b = Some hl -> 12 <= hl -> (Z.to_nat hl <= length b)%nat -> is_u16 tl ->
     obind (ipv4_setTotalLength b 0) (fun x => ipv4_setChecksum x 0) = Some bz ->
     ipv4_calculateChecksum bz = Some p ->
     ipv4_encodePartial b p tl = Some b' ->
     ipv4_totalLength b' = Some tl /\ ipv4_calculateChecksum b' = Some 65535) /\
  (forall b d bz q p len sq ak fl wnd b',
     bytes_ok b -> tcp_dataOffset b = Some d -> 20 <= d -> (Z.to_nat d <= length b)%nat ->
     is_u16 q -> is_u16 len -> 0 <= sq < 2^32 -> 0 <= ak < 2^32 -> 0 <= fl < 256 -> is_u16 wnd ->
     obind (tcp_encodeSubset b 0 0 0 0) (fun x => tcp_setChecksum x 0) = Some bz ->
     obind (getN bz 0 (Z.to_nat d)) (fun h => Some (checksum h q)) = Some p ->
     tcp_encodePartial b p len sq ak fl wnd = Some b' ->
     tcp_calculateChecksum b' q len = Some 65535).
Proof. exact encodePartial_verify. Qed.
Print Assumptions C15_encodePartial_verifies.

(* ------------------------------------------------------------------ (e), (f): one theorem per header:
   round trip /\ accessors = RFC reader on every byte string /\ encoded bytes read by the RFC reader *)
Theorem C15_ipv4 :
  (forall b f, (20 <= length b)%nat -> wf_ipv4 f = true ->
     exists b', ipv4_encode b f = Some b' /\ ipv4_decode b' = Some f /\
                length b' = length b /\ skipn 20 b' = skipn 20 b /\ ipVersion b' = 4) /\
  (forall b, bytes_ok b -> (20 <= length b)%nat -> ipv4_decode b = Some (ipv4_rfc791 b)) /\
  (forall b f, bytes_ok b -> (20 <= length b)%nat -> wf_ipv4 f = true ->
     exists b', ipv4_encode b f = Some b' /\ ipv4_rfc791 b' = f /\ ipv4_version_rfc b' = 4).
Proof. exact ipv4_codec. Qed.
Print Assumptions C15_ipv4.

Theorem C15_ipv6 :
  (forall b f, (40 <= length b)%nat -> wf_ipv6 f = true ->
     exists b', ipv6_encode b f = Some b' /\ ipv6_decode b' = Some f /\
                length b' = length b /\ skipn 40 b' = skipn 40 b /\ ipVersion b' = 6) /\
  (forall b, bytes_ok b -> (40 <= length b)%nat -> ipv6_decode b = Some (ipv6_rfc2460 b)) /\
  (forall b f, bytes_ok b -> (40 <= length b)%nat -> wf_ipv6 f = true ->
     exists b', ipv6_encode b f = Some b' /\ ipv6_rfc2460 b' = f /\ ipv6_version_rfc b' = 6).
Proof. exact ipv6_codec. Qed.
Print Assumptions C15_ipv6.

Theorem C15_ipv6frag :
  (forall b f, (8 <= length b)%nat -> wf_ipv6frag f = true ->
     exists b', ipv6frag_encode b f = Some b' /\ ipv6frag_decode b' = Some f /\
                length b' = length b /\ skipn 8 b' = skipn 8 b) /\
  (forall b, bytes_ok b -> (8 <= length b)%nat -> ipv6frag_decode b = Some (ipv6frag_rfc2460 b)) /\
  (forall b f, bytes_ok b -> (8 <= length b)%nat -> wf_ipv6frag f = true ->
     exists b', ipv6frag_encode b f = Some b' /\ ipv6frag_rfc2460 b' = f).
Proof. exact ipv6frag_codec. Qed.
Print Assumptions C15_ipv6frag.

Theorem C15_tcp :
  (forall b t, (20 <= length b)%nat -> wf_tcp t = true ->
     exists b', tcp_encode b t = Some b' /\ tcp_decode b' = Some t /\
                length b' = length b /\ skipn 20 b' = skipn 20 b) /\
  (forall b, bytes_ok b -> (20 <= length b)%nat -> tcp_decode b = Some (tcp_rfc793 b)) /\
  (forall b t, bytes_ok b -> (20 <= length b)%nat -> wf_tcp t = true ->
     exists b', tcp_encode b t = Some b' /\ tcp_rfc793 b' = t).
Proof. exact tcp_codec. Qed.
Print Assumptions C15_tcp.

Theorem C15_udp :
  (forall b u, (8 <= length b)%nat -> wf_udp u = true ->
     exists b', udp_encode b u = Some b' /\ udp_decode b' = Some u /\
                length b' = length b /\ skipn 8 b' = skipn 8 b) /\
  (forall b, bytes_ok b -> (8 <= length b)%nat -> udp_decode b = Some (udp_rfc768 b)) /\
  (forall b u, bytes_ok b -> (8 <= length b)%nat -> wf_udp u = true ->
     exists b', udp_encode b u = Some b' /\ udp_rfc768 b' = u).
Proof. exact udp_codec. Qed.
Print Assumptions C15_udp.

(* ICMPv4 and ICMPv6 share the model (type, code, checksum; the library has setters, no Encode) *)
Theorem C15_icmp :
  (forall b f, (4 <= length b)%nat -> wf_icmp f = true ->
     exists b', icmp_encode b f = Some b' /\ icmp_decode b' = Some f /\
                length b' = length b /\ skipn 4 b' = skipn 4 b) /\
  (forall b, bytes_ok b -> (4 <= length b)%nat -> icmp_decode b = Some (icmp_rfc792 b)) /\
  (forall b f, bytes_ok b -> (4 <= length b)%nat -> wf_icmp f = true ->
     exists b', icmp_encode b f = Some b' /\ icmp_rfc792 b' = f).
Proof. exact icmp_codec. Qed.
Print Assumptions C15_icmp.

Theorem C15_eth :
  (forall b e, (14 <= length b)%nat -> wf_eth e = true ->
     exists b', eth_encode b e = Some b' /\ eth_decode b' = Some e /\
                length b' = length b /\ skipn 14 b' = skipn 14 b) /\
  (forall b, bytes_ok b -> (14 <= length b)%nat -> eth_decode b = Some (eth_rfc894 b)) /\
  (forall b e, bytes_ok b -> (14 <= length b)%nat -> wf_eth e = true ->
     exists b', eth_encode b e = Some b' /\ eth_rfc894 b' = e).
Proof. exact eth_codec. Qed.
Print Assumptions C15_eth.

Theorem C15_arp :
  (forall a f, (28 <= length a)%nat -> wf_arp f = true ->
     exists a', arp_encode a f = Some a' /\ arp_decode a' = Some f /\ arp_isValid a' = Some true /\
                length a' = length a /\ skipn 28 a' = skipn 28 a) /\
  (forall a, bytes_ok a -> (28 <= length a)%nat ->
     arp_decode a = Some (arp_rfc826 a) /\
     arp_isValid a = Some (match arp_fixed_rfc826 a with
                           | [h; p; hl; pl] => (h =? 1) && (p =? 2048) && (hl =? 6) && (pl =? 4)
                           | _ => false end)).
Proof. exact arp_codec. Qed.
Print Assumptions C15_arp.

(* outside the stated field domains Encode loses information (so the domains are part of the
   statement, not a weakness of the proof): IHL = 64, fragment offset 8192, data offset 64 read back 0 *)
Theorem C15_field_domains_tight_refuted :
  (exists b f, (20 <= length b)%nat /\ ip4IHL f = 64 /\
     obind (ipv4_encode b f) ipv4_headerLength = Some 0) /\
  (exists b f, (8 <= length b)%nat /\ fragFragmentOffset f = 8192 /\
     obind (ipv6frag_encode b f) ipv6frag_fragmentOffset = Some 0) /\
  (exists b t, (20 <= length b)%nat /\ tcpDataOffset t = 64 /\
     obind (tcp_encode b t) tcp_dataOffset = Some 0).
Proof. exact field_domains_tight_refuted. Qed.
Print Assumptions C15_field_domains_tight_refuted.

(* ------------------------------------------------------------------ DNS query builder *)
Theorem C15_dns_header : forall d id qd an ns qa,
  (12 <= length d)%nat -> 0 <= id < 65536 -> 0 <= qd < 65536 -> 0 <= an < 65536 -> 0 <= ns < 65536 ->
  0 <= qa < 65536 ->
  exists d', obind (dns_setheader d id) (fun d1 => dns_setCount d1 qd an ns qa) = Some d' /\
    dns_getId d' = Some id /\ dns_getQDCount d' = Some qd /\ dns_getANCount d' = Some an /\
    dns_getNSCount d' = Some ns /\ dns_getARCount d' = Some qa /\
    get16 d' 2 = Some 256 /\ skipn 12 d' = skipn 12 d.
Proof. exact dns_header_roundtrip. Qed.
Print Assumptions C15_dns_header.

(* SetQuestion appends the RFC 1035 QNAME/QTYPE/QCLASS; GetDomainLen returns the QNAME length and an
   independent RFC 1035 label reader recovers the labels — for labels of 1..63 bytes *)
Theorem C15_dns_question : forall h labels qtype qclass,
  length h = 12%nat -> Forall wf_label labels -> 0 <= qtype < 65536 -> 0 <= qclass < 65536 ->
  let d := dns_setQuestion h labels qtype qclass in
  dns_getDomainLen d = DOk (Z.of_nat (length (dns_getDomain labels))) /\
  firstn 12 d = h /\
  exists rest, rfc1035_labels (S (length labels)) (skipn 12 d) = Some (labels, rest) /\
    get16 rest 0 = Some qtype /\ get16 rest 2 = Some qclass /\ length rest = 4%nat.
Proof. exact dns_question_roundtrip. Qed.
Print Assumptions C15_dns_question.
