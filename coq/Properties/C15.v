(* C15 — Header encode/decode round-trips and the Internet checksum matches RFC 1071.
   This file contains only the property theorems; each is closed by [exact] of a lemma from
   Proofs/*.v and followed by Print Assumptions. *)
From Coq Require Import ZArith Bool List.
From NP Require Import Model.Bytes Model.Checksum Proofs.ChecksumP.
Import ListNotations.
Open Scope Z_scope.

(* "The checksum routine returns the 16-bit one's-complement sum defined by RFC 1071 for every
   buffer up to 64 KiB and every initial value" — full, for every buffer of at most 131072 bytes
   (twice what the property asks for) and every uint16 initial value. *)
Theorem C15_checksum_rfc1071 : forall buf init,
  bytes_ok buf -> is_u16 init -> Z.of_nat (length buf) <= 131072 ->
  checksum buf init = rfc1071_sum buf init.
Proof. exact checksum_rfc1071. Qed.
Print Assumptions C15_checksum_rfc1071.
