(* C15 — Header encode/decode round-trips and the Internet checksum matches RFC 1071.
   This file contains only the property theorems; each is closed by [exact] of a lemma from
   Proofs/{ChecksumP,TcpOptionsP,HdrP}.v and followed by Print Assumptions.
   Models: Model/Checksum.v, TcpOptions.v, HdrIP.v, HdrTransport.v, HdrLink.v (Go code quoted there);
   specification vocabulary: Model/Bytes.v ([bits], the independent bit-level reader),
   Model/HdrRfc.v (each header as its RFC draws it), [rfc1071_sum], [item_bytes].

   Clause of the property text -> theorems
   (a) "the checksum routine returns the 16-bit one's-complement sum defined by RFC 1071 for every
       buffer up to 64 KiB and every initial value": C15_checksum_rfc1071, C15_checksum_value,
       C15_checksum_bound_refuted (the bound 131072 is exact), C15_combine, C15_pseudo_header,
       C15_checksum_chunks / C15_checksum_odd_chunk_refuted (view-by-view summation);
   (b) "so a packet carrying the complemented sum always verifies": C15_checksum_verifies;
   (c) "parsers of variable-length parts (TCP options) never read outside their input":
       C15_parseSynOptions_no_oob, C15_parseTCPOptions_no_oob (also: terminate);
   (d) "and recover every option an encoder produced": C15_encoders_wire_format, C15_sack_space,
       C15_padding, C15_parseSynOptions_recovers, C15_parseTCPOptions_recovers,
       C15_syn_options_roundtrip, C15_options_roundtrip;
   (e) "reading the fields back from the encoded bytes returns the values that were encoded":
       C15_<hdr>_roundtrip; the field domains are tight where stated: C15_<hdr>_outside_refuted;
   (f) "the bytes match the RFC layout as read by an independent decoder": C15_<hdr>_layout (every
       accessor = the bit-level reader, on every byte string) and C15_<hdr>_encode_layout. *)
From Coq Require Import ZArith Bool List.
From NP Require Import Model.Bytes Model.Checksum Model.TcpOptions Model.HdrIP Model.HdrTransport
  Model.HdrLink Model.HdrRfc Proofs.BytesP Proofs.ChecksumP Proofs.TcpOptionsP Proofs.HdrP.
Import ListNotations.
Open Scope Z_scope.

(* ------------------------------------------------------------------ (a) *)
(* full: every buffer of at most 131072 bytes (twice the 64 KiB the property asks for), every
   uint16 initial value *)
Theorem C15_checksum_rfc1071 : forall buf init,
  bytes_ok buf -> is_u16 init -> Z.of_nat (length buf) <= 131072 ->
  checksum buf init = rfc1071_sum buf init.
Proof. exact checksum_rfc1071. Qed.
Print Assumptions C15_checksum_rfc1071.

(* the value is pinned exactly (the +0 / -0 distinction included) *)
Theorem C15_checksum_value : forall buf init,
  bytes_ok buf -> is_u16 init -> Z.of_nat (length buf) <= 131072 ->
  is_u16 (checksum buf init) /\
  checksum buf init mod 65535 = (init + zsum (be_words buf)) mod 65535 /\
  (checksum buf init = 0 <-> init = 0 /\ zsum (be_words buf) = 0).
Proof. exact checksum_value. Qed.
Print Assumptions C15_checksum_value.

(* refuted beyond the bound: with 131073 bytes the uint32 accumulator wraps *)
Theorem C15_checksum_bound_refuted :
  exists buf init, bytes_ok buf /\ is_u16 init /\ Z.of_nat (length buf) = 131073 /\
    checksum buf init <> rfc1071_sum buf init.
Proof. exact checksum_overflow_refuted. Qed.
Print Assumptions C15_checksum_bound_refuted.

(* ChecksumCombine is one's-complement addition, for all 2^32 argument pairs *)
Theorem C15_combine : forall a b, is_u16 a -> is_u16 b -> checksumCombine a b = ocadd a b.
Proof. exact combine_spec. Qed.
Print Assumptions C15_combine.

Theorem C15_pseudo_header : forall proto src dst,
  bytes_ok src -> bytes_ok dst -> is_byte proto ->
  Nat.even (length src) = true -> Nat.even (length dst) = true ->
  Z.of_nat (length src + length dst) <= 131070 ->
  pseudoHeaderChecksum proto src dst = rfc1071_sum (src ++ dst ++ [0; proto]) 0.
Proof. exact pseudoHeaderChecksum_spec. Qed.
Print Assumptions C15_pseudo_header.

(* summing chunk by chunk = summing the concatenation, provided every non-final chunk has even
   length (partial); refuted for an odd non-final chunk *)
Theorem C15_checksum_chunks : forall chunks init,
  Forall bytes_ok chunks -> is_u16 init -> nonfinal_even chunks ->
  Z.of_nat (length (concat chunks)) <= 131072 ->
  checksum_chunks chunks init = checksum (concat chunks) init.
Proof. exact checksum_chunks_concat. Qed.
Print Assumptions C15_checksum_chunks.

Theorem C15_checksum_odd_chunk_refuted :
  exists c1 c2 init, bytes_ok c1 /\ bytes_ok c2 /\ is_u16 init /\
    checksum c2 (checksum c1 init) <> checksum (c1 ++ c2) init.
Proof. exact checksum_odd_chunk_refuted. Qed.
Print Assumptions C15_checksum_odd_chunk_refuted.

(* ------------------------------------------------------------------ (b) *)
Theorem C15_checksum_verifies : forall pkt k init pkt0 pkt',
  bytes_ok pkt -> is_u16 init -> Nat.even k = true -> Z.of_nat (length pkt) <= 131072 ->
  put16 pkt k 0 = Some pkt0 ->
  put16 pkt k (lnot16 (checksum pkt0 init)) = Some pkt' ->
  checksum pkt' init = 65535.
Proof. exact checksum_verifies. Qed.
Print Assumptions C15_checksum_verifies.

(* ------------------------------------------------------------------ (c) *)
Theorem C15_parseSynOptions_no_oob : forall opts isAck,
  bytes_ok opts -> exists r, parseSynOptions opts isAck = Ok r.
Proof. exact parseSynOptions_no_oob. Qed.
Print Assumptions C15_parseSynOptions_no_oob.

Theorem C15_parseTCPOptions_no_oob : forall b,
  bytes_ok b -> exists r, parseTCPOptions b = Ok r.
Proof. exact parseTCPOptions_no_oob. Qed.
Print Assumptions C15_parseTCPOptions_no_oob.

(* ------------------------------------------------------------------ (d) *)
(* any sequence of encoder calls that fits writes exactly the RFC wire format of the items *)
Theorem C15_encoders_wire_format : forall items P R,
  Forall wf_item items -> (length (wire items) <= length R)%nat ->
  emit_items items (P ++ R, length P) =
  ((P ++ wire items) ++ skipn (length (wire items)) R, length (P ++ wire items)).
Proof. exact emit_items_wire. Qed.
Print Assumptions C15_encoders_wire_format.

Theorem C15_sack_space : forall blocks b,
  blocks <> [] -> (10 <= length b)%nat ->
  let l := sack_fit (length blocks) (length b) in
  (1 <= l <= 4)%nat /\ (2 + 8 * l <= length b)%nat /\ length (firstn l blocks) = l /\
  (length b < 2 + 8 * (l + 1) \/ l = 4 \/ l = length blocks)%nat /\
  encodeSACKBlocks blocks b = encode_item (ISack (firstn l blocks)) b.
Proof. exact encodeSACKBlocks_trunc. Qed.
Print Assumptions C15_sack_space.

Theorem C15_padding : forall options offset b' p,
  addTCPOptionPadding options offset = Some (b', p) ->
  0 <= p < 4 /\ (Z.of_nat offset + p) mod 4 = 0 /\
  b' = firstn offset options ++ wire (repeat INop (Z.to_nat p)) ++ skipn (offset + Z.to_nat p) options.
Proof. exact addTCPOptionPadding_spec. Qed.
Print Assumptions C15_padding.

Theorem C15_parseSynOptions_recovers : forall items isAck, Forall wf_item items ->
  parseSynOptions (wire items) isAck = Ok (fold_left (apply_syn isAck) items syn_default).
Proof. exact parseSynOptions_items. Qed.
Print Assumptions C15_parseSynOptions_recovers.

Theorem C15_parseTCPOptions_recovers : forall items, Forall wf_item items ->
  parseTCPOptions (wire items) = Ok (fold_left apply_opt items opts_default).
Proof. exact parseTCPOptions_items. Qed.
Print Assumptions C15_parseTCPOptions_recovers.

(* the two option programs of transport/tcp/connect.go, end to end *)
Theorem C15_syn_options_roundtrip : forall o isAck buf,
  wf_syn o -> length buf = maxOptionSize ->
  exists bytes, make_options (syn_program o) buf = Some (bytes, 0) /\
    Z.of_nat (length bytes) mod 4 = 0 /\ (length bytes <= 40)%nat /\
    parseSynOptions bytes isAck = Ok (syn_expected o isAck).
Proof. exact parse_recovers_syn_options. Qed.
Print Assumptions C15_syn_options_roundtrip.

Theorem C15_options_roundtrip : forall tsOk tsVal tsEcr sackPermitted blocks buf,
  wf_opt tsVal tsEcr blocks -> length buf = maxOptionSize ->
  exists bytes, make_options (opt_program tsOk tsVal tsEcr sackPermitted blocks) buf = Some (bytes, 0) /\
    Z.of_nat (length bytes) mod 4 = 0 /\ (length bytes <= 40)%nat /\
    parseTCPOptions bytes =
      Ok (mkOpts tsOk (if tsOk then tsVal else 0) (if tsOk then tsEcr else 0)
                 (if sackPermitted then firstn (if tsOk then 3 else 4) blocks else [])).
Proof. exact parse_recovers_options. Qed.
Print Assumptions C15_options_roundtrip.

(* ------------------------------------------------------------------ (e), (f): IPv4 *)
Theorem C15_ipv4_roundtrip : forall b f, (20 <= length b)%nat -> wf_ipv4 f = true ->
  exists b', ipv4_encode b f = Some b' /\ ipv4_decode b' = Some f /\
             length b' = length b /\ skipn 20 b' = skipn 20 b /\ ipVersion b' = 4.
Proof. exact ipv4_roundtrip. Qed.
Print Assumptions C15_ipv4_roundtrip.

Theorem C15_ipv4_layout : forall b, bytes_ok b -> (20 <= length b)%nat ->
  ipv4_decode b = Some (ipv4_rfc791 b).
Proof. exact ipv4_rfc_layout. Qed.
Print Assumptions C15_ipv4_layout.

Theorem C15_ipv4_encode_layout : forall b f, bytes_ok b -> (20 <= length b)%nat -> wf_ipv4 f = true ->
  exists b', ipv4_encode b f = Some b' /\ ipv4_rfc791 b' = f /\ ipv4_version_rfc b' = 4.
Proof. exact ipv4_encode_rfc. Qed.
Print Assumptions C15_ipv4_encode_layout.

Theorem C15_ipv4_outside_refuted :
  exists b f, (20 <= length b)%nat /\ ip4IHL f = 64 /\
    obind (ipv4_encode b f) ipv4_headerLength = Some 0.
Proof. exact ipv4_outside_refuted. Qed.
Print Assumptions C15_ipv4_outside_refuted.

(* ------------------------------------------------------------------ IPv6 *)
Theorem C15_ipv6_roundtrip : forall b f, (40 <= length b)%nat -> wf_ipv6 f = true ->
  exists b', ipv6_encode b f = Some b' /\ ipv6_decode b' = Some f /\
             length b' = length b /\ skipn 40 b' = skipn 40 b /\ ipVersion b' = 6.
Proof. exact ipv6_roundtrip. Qed.
Print Assumptions C15_ipv6_roundtrip.

Theorem C15_ipv6_layout : forall b, bytes_ok b -> (40 <= length b)%nat ->
  ipv6_decode b = Some (ipv6_rfc2460 b).
Proof. exact ipv6_rfc_layout. Qed.
Print Assumptions C15_ipv6_layout.

Theorem C15_ipv6_encode_layout : forall b f, bytes_ok b -> (40 <= length b)%nat -> wf_ipv6 f = true ->
  exists b', ipv6_encode b f = Some b' /\ ipv6_rfc2460 b' = f /\ ipv6_version_rfc b' = 6.
Proof. exact ipv6_encode_rfc. Qed.
Print Assumptions C15_ipv6_encode_layout.

(* ------------------------------------------------------------------ IPv6 fragment header *)
Theorem C15_ipv6frag_roundtrip : forall b f, (8 <= length b)%nat -> wf_ipv6frag f = true ->
  exists b', ipv6frag_encode b f = Some b' /\ ipv6frag_decode b' = Some f /\
             length b' = length b /\ skipn 8 b' = skipn 8 b.
Proof. exact ipv6frag_roundtrip. Qed.
Print Assumptions C15_ipv6frag_roundtrip.

Theorem C15_ipv6frag_layout : forall b, bytes_ok b -> (8 <= length b)%nat ->
  ipv6frag_decode b = Some (ipv6frag_rfc2460 b).
Proof. exact ipv6frag_rfc_layout. Qed.
Print Assumptions C15_ipv6frag_layout.

Theorem C15_ipv6frag_encode_layout : forall b f, bytes_ok b -> (8 <= length b)%nat -> wf_ipv6frag f = true ->
  exists b', ipv6frag_encode b f = Some b' /\ ipv6frag_rfc2460 b' = f.
Proof. exact ipv6frag_encode_rfc. Qed.
Print Assumptions C15_ipv6frag_encode_layout.

Theorem C15_ipv6frag_outside_refuted :
  exists b f, (8 <= length b)%nat /\ fragFragmentOffset f = 8192 /\
    obind (ipv6frag_encode b f) ipv6frag_fragmentOffset = Some 0.
Proof. exact ipv6frag_outside_refuted. Qed.
Print Assumptions C15_ipv6frag_outside_refuted.

(* ------------------------------------------------------------------ TCP *)
Theorem C15_tcp_roundtrip : forall b t, (20 <= length b)%nat -> wf_tcp t = true ->
  exists b', tcp_encode b t = Some b' /\ tcp_decode b' = Some t /\
             length b' = length b /\ skipn 20 b' = skipn 20 b.
Proof. exact tcp_roundtrip. Qed.
Print Assumptions C15_tcp_roundtrip.

Theorem C15_tcp_layout : forall b, bytes_ok b -> (20 <= length b)%nat ->
  tcp_decode b = Some (tcp_rfc793 b).
Proof. exact tcp_rfc_layout. Qed.
Print Assumptions C15_tcp_layout.

Theorem C15_tcp_encode_layout : forall b t, bytes_ok b -> (20 <= length b)%nat -> wf_tcp t = true ->
  exists b', tcp_encode b t = Some b' /\ tcp_rfc793 b' = t.
Proof. exact tcp_encode_rfc. Qed.
Print Assumptions C15_tcp_encode_layout.

Theorem C15_tcp_outside_refuted :
  exists b t, (20 <= length b)%nat /\ tcpDataOffset t = 64 /\
    obind (tcp_encode b t) tcp_dataOffset = Some 0.
Proof. exact tcp_outside_refuted. Qed.
Print Assumptions C15_tcp_outside_refuted.

(* ------------------------------------------------------------------ UDP *)
Theorem C15_udp_roundtrip : forall b u, (8 <= length b)%nat -> wf_udp u = true ->
  exists b', udp_encode b u = Some b' /\ udp_decode b' = Some u /\
             length b' = length b /\ skipn 8 b' = skipn 8 b.
Proof. exact udp_roundtrip. Qed.
Print Assumptions C15_udp_roundtrip.

Theorem C15_udp_layout : forall b, bytes_ok b -> (8 <= length b)%nat -> udp_decode b = Some (udp_rfc768 b).
Proof. exact udp_rfc_layout. Qed.
Print Assumptions C15_udp_layout.

Theorem C15_udp_encode_layout : forall b u, bytes_ok b -> (8 <= length b)%nat -> wf_udp u = true ->
  exists b', udp_encode b u = Some b' /\ udp_rfc768 b' = u.
Proof. exact udp_encode_rfc. Qed.
Print Assumptions C15_udp_encode_layout.

(* ------------------------------------------------------------------ ICMPv4 / ICMPv6 *)
Theorem C15_icmp_roundtrip : forall b f, (4 <= length b)%nat -> wf_icmp f = true ->
  exists b', icmp_encode b f = Some b' /\ icmp_decode b' = Some f /\
             length b' = length b /\ skipn 4 b' = skipn 4 b.
Proof. exact icmp_roundtrip. Qed.
Print Assumptions C15_icmp_roundtrip.

Theorem C15_icmp_layout : forall b, bytes_ok b -> (4 <= length b)%nat -> icmp_decode b = Some (icmp_rfc792 b).
Proof. exact icmp_rfc_layout. Qed.
Print Assumptions C15_icmp_layout.

Theorem C15_icmp_encode_layout : forall b f, bytes_ok b -> (4 <= length b)%nat -> wf_icmp f = true ->
  exists b', icmp_encode b f = Some b' /\ icmp_rfc792 b' = f.
Proof. exact icmp_encode_rfc. Qed.
Print Assumptions C15_icmp_encode_layout.

(* ------------------------------------------------------------------ Ethernet *)
Theorem C15_eth_roundtrip : forall b e, (14 <= length b)%nat -> wf_eth e = true ->
  exists b', eth_encode b e = Some b' /\ eth_decode b' = Some e /\
             length b' = length b /\ skipn 14 b' = skipn 14 b.
Proof. exact eth_roundtrip. Qed.
Print Assumptions C15_eth_roundtrip.

Theorem C15_eth_layout : forall b, bytes_ok b -> (14 <= length b)%nat -> eth_decode b = Some (eth_rfc894 b).
Proof. exact eth_rfc_layout. Qed.
Print Assumptions C15_eth_layout.

Theorem C15_eth_encode_layout : forall b e, bytes_ok b -> (14 <= length b)%nat -> wf_eth e = true ->
  exists b', eth_encode b e = Some b' /\ eth_rfc894 b' = e.
Proof. exact eth_encode_rfc. Qed.
Print Assumptions C15_eth_encode_layout.

(* ------------------------------------------------------------------ ARP *)
Theorem C15_arp_roundtrip : forall a f, (28 <= length a)%nat -> wf_arp f = true ->
  exists a', arp_encode a f = Some a' /\ arp_decode a' = Some f /\ arp_isValid a' = Some true /\
             length a' = length a /\ skipn 28 a' = skipn 28 a.
Proof. exact arp_roundtrip. Qed.
Print Assumptions C15_arp_roundtrip.

Theorem C15_arp_layout : forall a, bytes_ok a -> (28 <= length a)%nat ->
  arp_decode a = Some (arp_rfc826 a) /\
  arp_isValid a = Some (match arp_fixed_rfc826 a with
                        | [h; p; hl; pl] => (h =? 1) && (p =? 2048) && (hl =? 6) && (pl =? 4)
                        | _ => false end).
Proof. exact arp_rfc_layout. Qed.
Print Assumptions C15_arp_layout.
