(* C09 — Inbound packets reach exactly the socket they are addressed to, or nobody.
   Only the property theorems: each is closed by [exact] of a lemma of Proofs/DemuxP.v and followed
   by Print Assumptions.  Model: Model/Demux.v (NIC address filter getRef, transport demultiplexer,
   registration; Subnet.Contains / Route.Match).

   Clause -> theorem
   "processed only if its destination address is currently assigned to the receiving interface (or
    the interface is explicitly promiscuous / owns the subnet)"
       C09_address_filter (iff, exactly getRef's three cases; "assigned" = the NIC holds a network
       endpoint for the address, which includes an address removed while routes still reference it),
       C09_filter_reject_no_transport (otherwise nothing runs and nothing changes),
       C09_transport_runs_iff_accepted, C09_temporary_endpoints_vanish (the endpoint created for a
       promiscuous NIC / subnet lives for that one packet),
       C09_subnet_contains_spec / C09_subnet_contains_prefix / C09_route_match_spec (mask semantics).
   "delivered to the single socket whose binding matches most specifically - a connected socket
    before a listener or bound socket, a specific local address before the wildcard"
       C09_demux_most_specific, C09_inbound_packet.  THE ORDER OF THE CODE, stated in
       [specificity]: NIC-local registrations before stack-wide ones; within a table
       (local address, remote) > (any local address, remote) > (local address, any remote) >
       (local port only)  (findEndpointLocked's probes 1-4; Example precedence_example).
   "and to no other"
       C09_deliver_unique (the declarative best match is a function of the tables),
       C09_register_refuses_duplicate, C09_register_adds_exactly, C09_unregister_removes_exactly,
       C09_register_all_or_nothing (rollback over the listed network protocols; needs a list
       without repetition: Example register_duplicate_protocol_refused shows [v4; v4] refuses itself).
   "If no socket matches, nothing is delivered anywhere (TCP answers with a reset)"
       C09_no_match_no_delivery (iff; what nic.go does: the unknown-destination handler runs; the
       RST's format is C03's).
   "for all ... registration/close orders" (histories)
       C09_history_refinement: for every history of register / unregister calls the table is the
       abstract set of live ids and every call returns the specified error.
   "with registrations and deliveries racing" (schedules): not a theorem here; every modelled
   method runs under the owning mutex (transportEndpoints.mu, NIC.mu), so each call is one atomic
   step of the histories above (linearizability argument, DESIGN.md C09).
   All theorems are full (no refuted / partial pairs); Examples nic_local_first_example,
   precedence_example, subnet_example show the hypotheses hold in non-trivial states. *)
From Coq Require Import ZArith Bool List.
From NP Require Import Model.Demux Proofs.DemuxP.
Import ListNotations.
Open Scope Z_scope.

Theorem C09_address_filter : forall n proto dst,
  knownNet proto = true -> wf_nic_subnets n -> bytes_ok dst ->
  (snd (getRef n proto dst) = true <->
   holds n dst \/ n_promisc n = true \/ exists s, In s (n_subnets n) /\ in_subnet s dst).
Proof. exact address_filter. Qed.
Print Assumptions C09_address_filter.

Theorem C09_filter_reject_no_transport : forall s nicID net src dst trans sport dport rst n,
  lookupNic (st_nics s) nicID = Some n ->
  snd (getRef n net dst) = false ->
  deliverNetworkPacket s nicID net src dst trans sport dport rst = (s, false, Dropped).
Proof. exact filter_reject_no_transport. Qed.
Print Assumptions C09_filter_reject_no_transport.

Theorem C09_transport_runs_iff_accepted : forall s nicID net src dst trans sport dport rst n,
  lookupNic (st_nics s) nicID = Some n -> knownNet net = true ->
  let '(_, acc, o) := deliverNetworkPacket s nicID net src dst trans sport dport rst in
  acc = snd (getRef n net dst) /\ (o = Dropped <-> acc = false).
Proof. exact transport_runs_iff_accepted. Qed.
Print Assumptions C09_transport_runs_iff_accepted.

Theorem C09_temporary_endpoints_vanish : forall n proto dst,
  wf_eps (n_eps n) ->
  let '(n1, ok) := getRef n proto dst in
  ok = true -> decRef (n_eps n1) dst = n_eps n.
Proof. exact packet_preserves_addresses. Qed.
Print Assumptions C09_temporary_endpoints_vanish.

Theorem C09_demux_most_specific : forall s n net trans p rst e,
  knownTrans trans = true -> wf_pkt p ->
  (deliverTransportPacket s n net trans p rst = Delivered e <-> best_match s n net trans p e).
Proof. exact demux_most_specific. Qed.
Print Assumptions C09_demux_most_specific.

Theorem C09_inbound_packet : forall s nicID n net src dst trans sport dport rst e,
  lookupNic (st_nics s) nicID = Some n -> knownNet net = true -> knownTrans trans = true ->
  dst <> [] -> src <> [] ->
  (snd (deliverNetworkPacket s nicID net src dst trans sport dport rst) = Delivered e <->
   snd (getRef n net dst) = true /\ best_match s n net trans (mkTid dport dst sport src) e).
Proof. exact inbound_packet_spec. Qed.
Print Assumptions C09_inbound_packet.

Theorem C09_deliver_unique : forall s n net trans p e1 e2,
  knownTrans trans = true -> wf_pkt p ->
  best_match s n net trans p e1 -> best_match s n net trans p e2 -> e1 = e2.
Proof. exact best_match_unique. Qed.
Print Assumptions C09_deliver_unique.

Theorem C09_no_match_no_delivery : forall s n net trans p rst,
  knownTrans trans = true ->
  ((forall lvl k e, reg s n net trans lvl k e -> ~ matches k p) <->
   deliverTransportPacket s n net trans p rst = Unknown ((trans =? TCP) && negb rst)).
Proof. exact no_match_no_delivery. Qed.
Print Assumptions C09_no_match_no_delivery.

Theorem C09_register_all_or_nothing : forall d nets trans id ep,
  NoDup nets ->
  let '(d', e) := registerEndpoint d nets trans id ep in
  (forall k, known d' k = known d k) /\
  if taken d nets trans id
  then e = ErrPortInUse /\ forall k id', look d' k id' = look d k id'
  else e = ErrNone /\ forall k id', look d' k id' = added d nets trans id ep k id'.
Proof. exact registerEndpoint_spec. Qed.
Print Assumptions C09_register_all_or_nothing.

Theorem C09_register_refuses_duplicate : forall d nets trans id ep n e0,
  NoDup nets -> In n nets -> look d (n, trans) id = Some e0 ->
  snd (registerEndpoint d nets trans id ep) = ErrPortInUse /\
  forall k id', look (fst (registerEndpoint d nets trans id ep)) k id' = look d k id'.
Proof. exact register_refuses_duplicate. Qed.
Print Assumptions C09_register_refuses_duplicate.

Theorem C09_register_adds_exactly : forall d nets trans id ep,
  NoDup nets -> snd (registerEndpoint d nets trans id ep) = ErrNone ->
  forall k id', look (fst (registerEndpoint d nets trans id ep)) k id' =
    if (snd k =? trans) && memZ (fst k) nets && known d k && tid_eqb id' id then Some ep else look d k id'.
Proof. exact register_adds_exactly. Qed.
Print Assumptions C09_register_adds_exactly.

Theorem C09_unregister_removes_exactly : forall d nets trans id k id',
  look (unregisterEndpoint d nets trans id) k id' =
    if (snd k =? trans) && memZ (fst k) nets && tid_eqb id' id then None else look d k id'.
Proof. exact unregister_removes_exactly. Qed.
Print Assumptions C09_unregister_removes_exactly.

Theorem C09_history_refinement : forall d0 ops,
  Forall wf_dop ops ->
  snd (drun d0 ops) = snd (arun (known d0) (look d0) ops) /\
  forall k id, look (fst (drun d0 ops)) k id = fst (arun (known d0) (look d0) ops) k id.
Proof. exact history_refinement. Qed.
Print Assumptions C09_history_refinement.

Theorem C09_subnet_contains_spec : forall s a, wf_subnet s -> bytes_ok a ->
  (contains s a = true <-> in_subnet s a).
Proof. exact subnet_contains_spec. Qed.
Print Assumptions C09_subnet_contains_spec.

Theorem C09_subnet_contains_prefix : forall s a h,
  wf_subnet s -> bytes_ok a ->
  0 <= h <= 8 * Z.of_nat (length (sn_addr s)) ->
  num (sn_mask s) = 2 ^ (8 * Z.of_nat (length (sn_addr s))) - 2 ^ h ->
  num (sn_addr s) mod 2 ^ h = 0 ->
  (contains s a = true <-> length a = length (sn_addr s) /\ num a / 2 ^ h = num (sn_addr s) / 2 ^ h).
Proof. exact subnet_contains_prefix. Qed.
Print Assumptions C09_subnet_contains_prefix.

Theorem C09_route_match_spec : forall r a,
  length (rt_mask r) = length (rt_dest r) -> bytes_ok (rt_mask r) -> bytes_ok (rt_dest r) -> bytes_ok a ->
  (routeMatch r a = true <-> length a = length (rt_dest r) /\ Z.land (num a) (num (rt_mask r)) = num (rt_dest r)).
Proof. exact route_match_spec. Qed.
Print Assumptions C09_route_match_spec.
