(* C06 — Every frame the stack emits is well-formed, checksummed and correctly addressed.
   This file contains only the property theorems; each is closed by [exact] of a lemma from
   Proofs/EmitP.v and followed by Print Assumptions.  Model: Model/Emit.v (builders);
   independent side: Model/Rfc.v (wf_frame and the route-selection answer).

   clause of the property text                                   theorem
   "consecutive large packets of one flow carry different IP identifiers"
                                                                 C06_ip_id_consecutive_distinct, C06_ip_id_distinct
     (the 16-bit field wraps after 65535 foreign allocations)    C06_ip_id_wrap_refuted
     (packets <= 68 bytes carry 0: the code's condition)          C06_ip_id_small
   "the source is an address of the interface chosen by the first matching route entry";
   ErrNoRoute iff none                                            C06_find_route_first_match,
                                                                 C06_route_selects_first_match, C06_route_none_iff
   "every frame ... decodes under an independent RFC-derived decoder: length fields equal the actual
   lengths, the IPv4 header checksum and the ... TCP checksums (with pseudo-header) verify, TCP
   options are well-formed and padded ... addresses and ports are those of the socket"
     TCP, any option list the encoders produce, IPv4 / IPv6     C06_tcp_frame_wf4, C06_tcp_frame_wf6
     sendSynTCP, every MSS/WS/TS/SACK-permitted combination      C06_syn_frame_wf4
     sendRaw, timestamps on/off, any number of SACK blocks       C06_seg_frame_wf4_any (C06_seg_frame_wf4: untruncated case)
     UDP, every datagram (payload <= 65507 / 65527); a computed checksum of 0 goes out as 0xffff
                                                                 C06_udp_frame_wf4, C06_udp_frame_wf6
       the code before /repo 723c609 transmitted 0 ("none", RFC 768; illegal over IPv6)
                                                                 C06_udp_zero_checksum_old_refuted
     ICMPv4 / ICMPv6 echo replies                                C06_icmp4_echo_reply_wf, C06_icmp6_echo_reply_wf
     ICMPv6 echo requests of the ping transport (sendPing6)      C06_ping6_echo_request_wf
       the code before /repo 65b8ba4 left the pseudo-header out of the checksum
                                                                 C06_ping6_no_pseudo_header_old_refuted
     ARP request / reply (RFC 826)                               C06_arp_request_wf, C06_arp_reply_wf
   "on Ethernet links the destination MAC is the one resolved for the next hop" (the route's
   RemoteLinkAddress, which Route.Resolve sets from the link-address cache, C12); the source is the
   route's LocalLinkAddress if it has one, else the NIC's own address
                                                                 C06_eth_write_frame, C06_eth_write_src_own
     neighbour solicitations (ipv6 LinkAddressRequest) through the fd-based link: whole frame
                                                                 C06_ndp_solicit_eth_wf
       the code before /repo 8cee966 sent them with source 00:00:00:00:00:00
                                                                 C06_eth_write_zero_src_old_refuted
   The three _old_refuted theorems are about the definitions [send_udp_old], [ping6_send_old],
   [eth_write_old] of Model/Emit.v, which keep the text of the code before the repairs; the witnesses
   are the inputs of the former known findings C06-udp-zero-checksum, C06-ping6-no-pseudo-header,
   C06-ndp-solicit-zero-src-mac, which the correspondence check keeps generating.
   All frame theorems assume what the callers establish: a unicast source address, a flag byte the
   TCP state machine can produce (flag_sane), for TCP and UDP payload views whose non-final members
   have even length (a single view in every code path of the stack itself; the view-by-view sum of
   sendTCP/sendUDP is wrong otherwise - the ICMPv6 echo reply no longer needs this since /repo 1404d7f
   sums the concatenation), no checksum offload. *)
From Coq Require Import ZArith List Bool.
From NP Require Import Model.Bytes Model.Checksum Model.TcpOptions Proofs.ChecksumP Proofs.TcpOptionsP.
From NP Require Import Model.Emit Proofs.EmitP.
From NP Require Model.Rfc.
Import ListNotations.
Open Scope Z_scope.

Theorem C06_ip_id_consecutive_distinct : forall c l1 l2,
  0 <= c < 2^32 -> 68 < l1 -> 68 < l2 ->
  id_of l1 c <> id_of l2 (bucket_after l1 c).
Proof. exact ip_id_consecutive_distinct. Qed.
Print Assumptions C06_ip_id_consecutive_distinct.

Theorem C06_ip_id_distinct : forall c l1 l2 k,
  0 <= c < 2^32 -> 68 < l1 -> 68 < l2 -> 0 <= k < 65535 ->
  id_of l1 c <> id_of l2 (w32 (bucket_after l1 c + k)).
Proof. exact ip_id_distinct. Qed.
Print Assumptions C06_ip_id_distinct.

Theorem C06_ip_id_wrap_refuted :
  exists c l1 l2 k, 0 <= c < 2^32 /\ 68 < l1 /\ 68 < l2 /\ k = 65535 /\
    id_of l1 c = id_of l2 (w32 (bucket_after l1 c + k)).
Proof. exact ip_id_wrap_refuted. Qed.
Print Assumptions C06_ip_id_wrap_refuted.

Theorem C06_ip_id_small : forall len c, len <= 68 -> id_of len c = 0 /\ bucket_after len c = c.
Proof. exact ip_id_small. Qed.
Print Assumptions C06_ip_id_small.

Theorem C06_find_route_first_match : forall table nics id laddr raddr,
  masks_long table ->
  find_route table nics id laddr raddr =
  Rfc.first_match (map to_rt table) (map to_if nics) id laddr raddr.
Proof. exact find_route_first_match. Qed.
Print Assumptions C06_find_route_first_match.

Theorem C06_route_selects_first_match : forall table nics id laddr raddr n a g,
  masks_long table ->
  (find_route table nics id laddr raddr = Some (n, a, g) <->
   exists pre e post, table = pre ++ e :: post /\
     Forall (fun x => Rfc.eligible (map to_if nics) id laddr raddr (to_rt x) = false) pre /\
     Rfc.eligible (map to_if nics) id laddr raddr (to_rt e) = true /\
     n = reNic e /\ g = reGw e /\ Rfc.usable_addr (map to_if nics) (reNic e) laddr = Some a).
Proof. exact route_selects_first_match. Qed.
Print Assumptions C06_route_selects_first_match.

Theorem C06_route_none_iff : forall table nics id laddr raddr,
  masks_long table ->
  (find_route table nics id laddr raddr = None <->
   Forall (fun x => Rfc.eligible (map to_if nics) id laddr raddr (to_rt x) = false) table).
Proof. exact route_none_iff. Qed.
Print Assumptions C06_route_none_iff.

Theorem C06_tcp_frame_wf4 : forall r sp dp data fl sq ak wnd items ttl c,
  let opts := wire items in
  let n := Z.of_nat (length opts) in
  let L := 20 + n + vsize data in
  rOffload r = false ->
  length (rLocal r) = 4%nat -> length (rRemote r) = 4%nat -> bytes_ok (rLocal r) -> bytes_ok (rRemote r) ->
  Rfc.src4_ok (rLocal r) = true ->
  0 <= sp < 65536 -> 0 <= dp < 65536 -> 0 <= fl < 256 -> flag_sane fl = true ->
  Forall wf_item items -> Forall (item_legal (Rfc.has fl Rfc.SYN)) items -> n <= 40 -> n mod 4 = 0 ->
  Forall bytes_ok data -> nonfinal_even data -> 20 + L <= 65535 -> 1 <= ttl < 256 ->
  exists hdr frame,
    send_tcp r sp dp data fl sq ak wnd opts = Some hdr /\
    ipv4_write r hdr data 6 ttl c = Some (frame, bucket_after (20 + L) c) /\
    Rfc.wf_ipv4 false frame = true /\
    Rfc.view_ip4 frame = Rfc.mkIV (rLocal r) (rRemote r) 6 ttl (id_of (20 + L) c) (hdr ++ concat data) /\
    Rfc.view_tcp (hdr ++ concat data) =
      Rfc.mkTV sp dp (w32 sq) (w32 ak) fl (w16 (clampw wnd)) 0 opts (concat data).
Proof. exact tcp_frame_wf4. Qed.
Print Assumptions C06_tcp_frame_wf4.

Theorem C06_tcp_frame_wf6 : forall r sp dp data fl sq ak wnd items ttl,
  let opts := wire items in
  let n := Z.of_nat (length opts) in
  let L := 20 + n + vsize data in
  rOffload r = false ->
  length (rLocal r) = 16%nat -> length (rRemote r) = 16%nat -> bytes_ok (rLocal r) -> bytes_ok (rRemote r) ->
  nth 0 (rLocal r) 0 <> 255 ->
  0 <= sp < 65536 -> 0 <= dp < 65536 -> 0 <= fl < 256 -> flag_sane fl = true ->
  Forall wf_item items -> Forall (item_legal (Rfc.has fl Rfc.SYN)) items -> n <= 40 -> n mod 4 = 0 ->
  Forall bytes_ok data -> nonfinal_even data -> L <= 65535 -> 1 <= ttl < 256 ->
  exists hdr frame,
    send_tcp r sp dp data fl sq ak wnd opts = Some hdr /\
    ipv6_write r hdr data 6 ttl = Some frame /\
    Rfc.wf_ipv6 false frame = true /\
    Rfc.view_ip6 frame = Rfc.mkIV (rLocal r) (rRemote r) 6 ttl 0 (hdr ++ concat data) /\
    Rfc.view_tcp (hdr ++ concat data) =
      Rfc.mkTV sp dp (w32 sq) (w32 ak) fl (w16 (clampw wnd)) 0 opts (concat data).
Proof. exact tcp_frame_wf6. Qed.
Print Assumptions C06_tcp_frame_wf6.

Theorem C06_syn_frame_wf4 : forall r mtu sp dp fl sq ak wnd o pool ttl c isAck,
  let oe := eff_syn o mtu in
  rOffload r = false ->
  length (rLocal r) = 4%nat -> length (rRemote r) = 4%nat -> bytes_ok (rLocal r) -> bytes_ok (rRemote r) ->
  Rfc.src4_ok (rLocal r) = true ->
  0 <= sp < 65536 -> 0 <= dp < 65536 -> 0 <= fl < 256 -> flag_sane fl = true -> Rfc.has fl Rfc.SYN = true ->
  wf_syn oe -> length pool = maxOptionSize -> 1 <= ttl < 256 ->
  exists hdr frame c',
    send_syn_tcp r mtu sp dp fl sq ak wnd o pool = Some hdr /\
    ipv4_write r hdr [] 6 ttl c = Some (frame, c') /\
    Rfc.wf_ipv4 false frame = true /\
    Rfc.ivSrc (Rfc.view_ip4 frame) = rLocal r /\ Rfc.ivDst (Rfc.view_ip4 frame) = rRemote r /\
    Rfc.ivPayload (Rfc.view_ip4 frame) = hdr /\
    Rfc.tvSport (Rfc.view_tcp hdr) = sp /\ Rfc.tvDport (Rfc.view_tcp hdr) = dp /\
    Rfc.tvSeq (Rfc.view_tcp hdr) = w32 sq /\ Rfc.tvAck (Rfc.view_tcp hdr) = w32 ak /\
    Rfc.tvFlags (Rfc.view_tcp hdr) = fl /\ Rfc.tvPayload (Rfc.view_tcp hdr) = [] /\
    parseSynOptions (Rfc.tvOpts (Rfc.view_tcp hdr)) isAck = Ok (syn_expected oe isAck).
Proof. exact syn_frame_wf4. Qed.
Print Assumptions C06_syn_frame_wf4.

Theorem C06_seg_frame_wf4 : forall r sp dp data fl sq ak wnd (tsOk : bool) tsVal tsEcr (sackPermitted : bool) blocks pool ttl c,
  rOffload r = false ->
  length (rLocal r) = 4%nat -> length (rRemote r) = 4%nat -> bytes_ok (rLocal r) -> bytes_ok (rRemote r) ->
  Rfc.src4_ok (rLocal r) = true ->
  0 <= sp < 65536 -> 0 <= dp < 65536 -> 0 <= fl < 256 -> flag_sane fl = true -> Rfc.has fl Rfc.SYN = false ->
  wf_opt tsVal tsEcr blocks -> (length blocks <= (if tsOk then 3%nat else 4%nat))%nat ->
  length pool = maxOptionSize ->
  Forall bytes_ok data -> nonfinal_even data -> vsize data <= 65455 -> 1 <= ttl < 256 ->
  exists hdr frame c',
    send_raw r sp dp data fl sq ak wnd tsOk tsVal tsEcr sackPermitted blocks pool = Some hdr /\
    ipv4_write r hdr data 6 ttl c = Some (frame, c') /\
    Rfc.wf_ipv4 false frame = true /\
    Rfc.ivSrc (Rfc.view_ip4 frame) = rLocal r /\ Rfc.ivDst (Rfc.view_ip4 frame) = rRemote r /\
    Rfc.ivPayload (Rfc.view_ip4 frame) = hdr ++ concat data /\
    Rfc.tvSport (Rfc.view_tcp (hdr ++ concat data)) = sp /\ Rfc.tvDport (Rfc.view_tcp (hdr ++ concat data)) = dp /\
    Rfc.tvSeq (Rfc.view_tcp (hdr ++ concat data)) = w32 sq /\ Rfc.tvAck (Rfc.view_tcp (hdr ++ concat data)) = w32 ak /\
    Rfc.tvFlags (Rfc.view_tcp (hdr ++ concat data)) = fl /\
    Rfc.tvWnd (Rfc.view_tcp (hdr ++ concat data)) = w16 (clampw wnd) /\
    Rfc.tvPayload (Rfc.view_tcp (hdr ++ concat data)) = concat data /\
    parseTCPOptions (Rfc.tvOpts (Rfc.view_tcp (hdr ++ concat data))) =
      Ok (mkOpts tsOk (if tsOk then tsVal else 0) (if tsOk then tsEcr else 0) (if sackPermitted then blocks else [])).
Proof. exact seg_frame_wf4. Qed.
Print Assumptions C06_seg_frame_wf4.

Theorem C06_udp_frame_wf4 : forall r data sp dp ttl c,
  let L := 8 + vsize data in
  rOffload r = false ->
  length (rLocal r) = 4%nat -> length (rRemote r) = 4%nat -> bytes_ok (rLocal r) -> bytes_ok (rRemote r) ->
  Rfc.src4_ok (rLocal r) = true ->
  0 <= sp < 65536 -> 0 <= dp < 65536 ->
  Forall bytes_ok data -> nonfinal_even data -> vsize data <= 65507 -> 1 <= ttl < 256 ->
  exists hdr frame,
    send_udp r data sp dp = Some hdr /\
    ipv4_write r hdr data 17 ttl c = Some (frame, bucket_after (20 + L) c) /\
    Rfc.wf_ipv4 false frame = true /\
    Rfc.view_ip4 frame = Rfc.mkIV (rLocal r) (rRemote r) 17 ttl (id_of (20 + L) c) (hdr ++ concat data) /\
    Rfc.view_udp (hdr ++ concat data) = Rfc.mkUV sp dp L (concat data).
Proof. exact udp_frame_wf4. Qed.
Print Assumptions C06_udp_frame_wf4.

Theorem C06_udp_frame_wf6 : forall r data sp dp ttl,
  let L := 8 + vsize data in
  rOffload r = false ->
  length (rLocal r) = 16%nat -> length (rRemote r) = 16%nat -> bytes_ok (rLocal r) -> bytes_ok (rRemote r) ->
  nth 0 (rLocal r) 0 <> 255 ->
  0 <= sp < 65536 -> 0 <= dp < 65536 ->
  Forall bytes_ok data -> nonfinal_even data -> vsize data <= 65527 -> 1 <= ttl < 256 ->
  exists hdr frame,
    send_udp r data sp dp = Some hdr /\
    ipv6_write r hdr data 17 ttl = Some frame /\
    Rfc.wf_ipv6 false frame = true /\
    Rfc.view_ip6 frame = Rfc.mkIV (rLocal r) (rRemote r) 17 ttl 0 (hdr ++ concat data) /\
    Rfc.view_udp (hdr ++ concat data) = Rfc.mkUV sp dp L (concat data).
Proof. exact udp_frame_wf6. Qed.
Print Assumptions C06_udp_frame_wf6.

Theorem C06_udp_zero_checksum_old_refuted :
  exists r data sp dp ttl c hdr frame c',
    rOffload r = false /\ length (rLocal r) = 4%nat /\ Forall bytes_ok data /\ vsize data <= 65507 /\
    send_udp_old r data sp dp = Some hdr /\ ipv4_write r hdr data 17 ttl c = Some (frame, c') /\
    Rfc.wf_ipv4 false frame = false /\ Rfc.b16 hdr 6 = 0.
Proof. exact udp_zero_checksum_old_refuted. Qed.
Print Assumptions C06_udp_zero_checksum_old_refuted.

Theorem C06_icmp4_echo_reply_wf : forall r data ttl c,
  length (rLocal r) = 4%nat -> length (rRemote r) = 4%nat -> bytes_ok (rLocal r) -> bytes_ok (rRemote r) ->
  Rfc.src4_ok (rLocal r) = true ->
  bytes_ok data -> (4 <= length data)%nat -> Z.of_nat (length data) <= 65511 -> 1 <= ttl < 256 ->
  let L := 4 + Z.of_nat (length data) in
  exists hdr pl frame,
    send_ping4 0 data = Some (hdr, pl) /\
    ipv4_write r hdr [pl] 1 ttl c = Some (frame, bucket_after (20 + L) c) /\
    Rfc.wf_ipv4 false frame = true /\
    Rfc.view_ip4 frame = Rfc.mkIV (rLocal r) (rRemote r) 1 ttl (id_of (20 + L) c) (hdr ++ pl) /\
    Rfc.b8 (hdr ++ pl) 0 = 0 /\ Rfc.b8 (hdr ++ pl) 1 = 0 /\ skipn 4 (hdr ++ pl) = data.
Proof. exact icmp4_echo_reply_wf. Qed.
Print Assumptions C06_icmp4_echo_reply_wf.

Theorem C06_icmp6_echo_reply_wf : forall r x2 x3 i0 i1 q0 q1 more vv ttl,
  length (rLocal r) = 16%nat -> length (rRemote r) = 16%nat -> bytes_ok (rLocal r) -> bytes_ok (rRemote r) ->
  nth 0 (rLocal r) 0 <> 255 ->
  is_byte i0 -> is_byte i1 -> is_byte q0 -> is_byte q1 ->
  Forall bytes_ok vv -> 8 + vsize vv <= 65535 -> 1 <= ttl < 256 ->
  let h := 128 :: 0 :: x2 :: x3 :: i0 :: i1 :: q0 :: q1 :: more in
  exists pkt frame,
    icmp6_echo_reply r h vv = Some pkt /\
    ipv6_write r pkt vv 58 ttl = Some frame /\
    Rfc.wf_ipv6 false frame = true /\
    Rfc.view_ip6 frame = Rfc.mkIV (rLocal r) (rRemote r) 58 ttl 0 (pkt ++ concat vv) /\
    Rfc.b8 pkt 0 = 129 /\ Rfc.b8 pkt 1 = 0 /\ skipn 4 (pkt ++ concat vv) = [i0; i1; q0; q1] ++ concat vv.
Proof. exact icmp6_echo_reply_wf. Qed.
Print Assumptions C06_icmp6_echo_reply_wf.

Theorem C06_ping6_echo_request_wf : forall r ident x2 x3 i0 i1 q0 q1 rest ttl,
  length (rLocal r) = 16%nat -> length (rRemote r) = 16%nat -> bytes_ok (rLocal r) -> bytes_ok (rRemote r) ->
  nth 0 (rLocal r) 0 <> 255 ->
  0 <= ident < 65536 -> is_byte q0 -> is_byte q1 -> bytes_ok rest ->
  8 + Z.of_nat (length rest) <= 65535 -> 1 <= ttl < 256 ->
  let data := 128 :: 0 :: x2 :: x3 :: i0 :: i1 :: q0 :: q1 :: rest in
  exists icmp frame,
    ping6_send r ident data = Some (Some (icmp, rest)) /\
    ipv6_write r icmp [rest] 58 ttl = Some frame /\
    Rfc.wf_ipv6 false frame = true /\
    Rfc.view_ip6 frame = Rfc.mkIV (rLocal r) (rRemote r) 58 ttl 0 (icmp ++ rest) /\
    Rfc.b8 icmp 0 = 128 /\ Rfc.b8 icmp 1 = 0 /\ Rfc.b16 icmp 4 = ident /\
    skipn 6 (icmp ++ rest) = q0 :: q1 :: rest.
Proof. exact ping6_echo_request_wf. Qed.
Print Assumptions C06_ping6_echo_request_wf.

Theorem C06_ping6_no_pseudo_header_old_refuted :
  exists r ident data icmp pl frame,
    length (rLocal r) = 16%nat /\ length (rRemote r) = 16%nat /\ bytes_ok data /\
    ping6_send_old ident data = Some (Some (icmp, pl)) /\
    ipv6_write r icmp [pl] 58 64 = Some frame /\
    Rfc.wf_ipv6 false frame = false /\
    Rfc.sums_to_ffff (icmp ++ pl) = true /\
    (exists icmp' frame', ping6_send r ident data = Some (Some (icmp', pl)) /\
       ipv6_write r icmp' [pl] 58 64 = Some frame' /\ Rfc.wf_ipv6 false frame' = true).
Proof. exact ping6_no_pseudo_header_old_refuted. Qed.
Print Assumptions C06_ping6_no_pseudo_header_old_refuted.

Theorem C06_arp_request_wf : forall mac spa tpa,
  length mac = 6%nat -> length spa = 4%nat -> length tpa = 4%nat -> nth 0 mac 0 mod 2 = 0 ->
  exists p, arp_request mac spa tpa = Some p /\ Rfc.wf_arp p = true /\
    Rfc.arp_op_of p = 1 /\ Rfc.arp_sha p = mac /\ Rfc.arp_spa p = spa /\ Rfc.arp_tpa p = tpa.
Proof. exact arp_request_wf. Qed.
Print Assumptions C06_arp_request_wf.

Theorem C06_arp_reply_wf : forall mac reqSHA reqTPA reqSPA,
  length mac = 6%nat -> length reqSHA = 6%nat -> length reqTPA = 4%nat -> length reqSPA = 4%nat ->
  nth 0 mac 0 mod 2 = 0 -> nth 0 reqSHA 0 mod 2 = 0 -> Rfc.all_eq 0 reqSHA = false ->
  exists p, arp_reply mac reqSHA reqTPA reqSPA = Some p /\ Rfc.wf_arp p = true /\
    Rfc.arp_op_of p = 2 /\ Rfc.arp_sha p = mac /\ Rfc.arp_spa p = reqTPA /\
    Rfc.arp_tha p = reqSHA /\ Rfc.arp_tpa p = reqSPA.
Proof. exact arp_reply_wf. Qed.
Print Assumptions C06_arp_reply_wf.

Theorem C06_eth_write_frame : forall r ep proto pkt,
  length (rRemoteLink r) = 6%nat -> 0 <= proto < 65536 ->
  let src := match rLocalLink r with [] => ep | _ => rLocalLink r end in
  length src = 6%nat ->
  exists f, eth_write r ep proto pkt = Some f /\
    Rfc.eth_dst f = rRemoteLink r /\ Rfc.eth_src f = src /\ Rfc.eth_type_of f = proto /\ skipn 14 f = pkt.
Proof. exact eth_write_frame. Qed.
Print Assumptions C06_eth_write_frame.

Theorem C06_eth_write_src_own : forall r ep proto pkt,
  length (rRemoteLink r) = 6%nat -> 0 <= proto < 65536 -> length ep = 6%nat ->
  rLocalLink r = [] \/ rLocalLink r = ep ->
  exists f, eth_write r ep proto pkt = Some f /\
    Rfc.eth_dst f = rRemoteLink r /\ Rfc.eth_src f = ep /\ Rfc.eth_type_of f = proto /\ skipn 14 f = pkt.
Proof. exact eth_write_src_own. Qed.
Print Assumptions C06_eth_write_src_own.

Theorem C06_ndp_solicit_eth_wf : forall addr localAddr mac,
  length addr = 16%nat -> length localAddr = 16%nat -> length mac = 6%nat ->
  bytes_ok addr -> bytes_ok localAddr -> bytes_ok mac ->
  nth 0 addr 0 <> 255 -> nth 0 localAddr 0 <> 255 -> nth 0 mac 0 mod 2 = 0 ->
  let r := mkRoute localAddr (solicited_node addr) [] bcast_mac false in
  exists pkt f,
    ndp_solicit addr localAddr mac = Some pkt /\
    eth_write r mac 34525 pkt = Some f /\
    Rfc.wf_eth false f = true /\
    Rfc.eth_src f = mac /\ Rfc.eth_dst f = bcast_mac /\ Rfc.eth_type_of f = 34525 /\ skipn 14 f = pkt /\
    Rfc.view_ip6 pkt = Rfc.mkIV localAddr (solicited_node addr) 58 255 0 (Rfc.ip6_payload pkt) /\
    Rfc.b8 (Rfc.ip6_payload pkt) 0 = 135 /\ Rfc.sub (Rfc.ip6_payload pkt) 8 16 = addr /\
    Rfc.sub (Rfc.ip6_payload pkt) 24 8 = [1; 1] ++ mac.
Proof. exact ndp_solicit_eth_wf. Qed.
Print Assumptions C06_ndp_solicit_eth_wf.

Theorem C06_eth_write_zero_src_old_refuted :
  exists r ep proto pkt f, rLocal r <> [] /\ rLocalLink r = [] /\ length ep = 6%nat /\ Rfc.all_eq 0 ep = false /\
    eth_write_old r ep proto pkt = Some f /\ Rfc.eth_src f = [0; 0; 0; 0; 0; 0] /\
    (exists f', eth_write r ep proto pkt = Some f' /\ Rfc.eth_src f' = ep).
Proof. exact eth_write_zero_src_old_refuted. Qed.
Print Assumptions C06_eth_write_zero_src_old_refuted.

Theorem C06_seg_frame_wf4_any : forall r sp dp data fl sq ak wnd (tsOk : bool) tsVal tsEcr (sackPermitted : bool) blocks pool ttl c,
  rOffload r = false ->
  length (rLocal r) = 4%nat -> length (rRemote r) = 4%nat -> bytes_ok (rLocal r) -> bytes_ok (rRemote r) ->
  Rfc.src4_ok (rLocal r) = true ->
  0 <= sp < 65536 -> 0 <= dp < 65536 -> 0 <= fl < 256 -> flag_sane fl = true -> Rfc.has fl Rfc.SYN = false ->
  wf_opt tsVal tsEcr blocks -> length pool = maxOptionSize ->
  Forall bytes_ok data -> nonfinal_even data -> vsize data <= 65455 -> 1 <= ttl < 256 ->
  exists hdr frame c',
    send_raw r sp dp data fl sq ak wnd tsOk tsVal tsEcr sackPermitted blocks pool = Some hdr /\
    ipv4_write r hdr data 6 ttl c = Some (frame, c') /\
    Rfc.wf_ipv4 false frame = true /\
    Rfc.ivSrc (Rfc.view_ip4 frame) = rLocal r /\ Rfc.ivDst (Rfc.view_ip4 frame) = rRemote r /\
    Rfc.ivPayload (Rfc.view_ip4 frame) = hdr ++ concat data /\
    Rfc.tvSport (Rfc.view_tcp (hdr ++ concat data)) = sp /\ Rfc.tvDport (Rfc.view_tcp (hdr ++ concat data)) = dp /\
    Rfc.tvSeq (Rfc.view_tcp (hdr ++ concat data)) = w32 sq /\ Rfc.tvAck (Rfc.view_tcp (hdr ++ concat data)) = w32 ak /\
    Rfc.tvFlags (Rfc.view_tcp (hdr ++ concat data)) = fl /\
    Rfc.tvWnd (Rfc.view_tcp (hdr ++ concat data)) = w16 (clampw wnd) /\
    Rfc.tvPayload (Rfc.view_tcp (hdr ++ concat data)) = concat data /\
    parseTCPOptions (Rfc.tvOpts (Rfc.view_tcp (hdr ++ concat data))) =
      Ok (mkOpts tsOk (if tsOk then tsVal else 0) (if tsOk then tsEcr else 0)
                 (if sackPermitted then firstn (if tsOk then 3 else 4) blocks else [])).
Proof. exact seg_frame_wf4_any. Qed.
Print Assumptions C06_seg_frame_wf4_any.
