(* C06 — Every frame the stack emits is well-formed, checksummed and correctly addressed.
   This file contains only the property theorems; each is closed by [exact] of a lemma from
   Proofs/EmitP.v and followed by Print Assumptions.  Model: Model/Emit.v (builders);
   independent side: Model/Rfc.v (wf_frame and the route-selection answer).

   clause of the property text                                   theorem
   "consecutive large packets of one flow carry different IP identifiers"
                                                                 C06_ip_id_consecutive_distinct, C06_ip_id_distinct
     (the 16-bit field wraps after 65535 foreign allocations)    C06_ip_id_wrap_refuted
     (packets <= 68 bytes carry 0: the code's condition)          C06_ip_id_small
   "the source is an address of the interface chosen by the first matching route entry";
   ErrNoRoute iff none                                            C06_find_route_first_match,
                                                                 C06_route_selects_first_match, C06_route_none_iff *)
From Coq Require Import ZArith List Bool.
From NP Require Import Model.Bytes Model.Emit Proofs.EmitP.
From NP Require Model.Rfc.
Import ListNotations.
Open Scope Z_scope.

Theorem C06_ip_id_consecutive_distinct : forall c l1 l2,
  0 <= c < 2^32 -> 68 < l1 -> 68 < l2 ->
  id_of l1 c <> id_of l2 (bucket_after l1 c).
Proof. exact ip_id_consecutive_distinct. Qed.
Print Assumptions C06_ip_id_consecutive_distinct.

Theorem C06_ip_id_distinct : forall c l1 l2 k,
  0 <= c < 2^32 -> 68 < l1 -> 68 < l2 -> 0 <= k < 65535 ->
  id_of l1 c <> id_of l2 (w32 (bucket_after l1 c + k)).
Proof. exact ip_id_distinct. Qed.
Print Assumptions C06_ip_id_distinct.

Theorem C06_ip_id_wrap_refuted :
  exists c l1 l2 k, 0 <= c < 2^32 /\ 68 < l1 /\ 68 < l2 /\ k = 65535 /\
    id_of l1 c = id_of l2 (w32 (bucket_after l1 c + k)).
Proof. exact ip_id_wrap_refuted. Qed.
Print Assumptions C06_ip_id_wrap_refuted.

Theorem C06_ip_id_small : forall len c, len <= 68 -> id_of len c = 0 /\ bucket_after len c = c.
Proof. exact ip_id_small. Qed.
Print Assumptions C06_ip_id_small.

Theorem C06_find_route_first_match : forall table nics id laddr raddr,
  masks_long table ->
  find_route table nics id laddr raddr =
  Rfc.first_match (map to_rt table) (map to_if nics) id laddr raddr.
Proof. exact find_route_first_match. Qed.
Print Assumptions C06_find_route_first_match.

Theorem C06_route_selects_first_match : forall table nics id laddr raddr n a g,
  masks_long table ->
  (find_route table nics id laddr raddr = Some (n, a, g) <->
   exists pre e post, table = pre ++ e :: post /\
     Forall (fun x => Rfc.eligible (map to_if nics) id laddr raddr (to_rt x) = false) pre /\
     Rfc.eligible (map to_if nics) id laddr raddr (to_rt e) = true /\
     n = reNic e /\ g = reGw e /\ Rfc.usable_addr (map to_if nics) (reNic e) laddr = Some a).
Proof. exact route_selects_first_match. Qed.
Print Assumptions C06_route_selects_first_match.

Theorem C06_route_none_iff : forall table nics id laddr raddr,
  masks_long table ->
  (find_route table nics id laddr raddr = None <->
   Forall (fun x => Rfc.eligible (map to_if nics) id laddr raddr (to_rt x) = false) table).
Proof. exact route_none_iff. Qed.
Print Assumptions C06_route_none_iff.
