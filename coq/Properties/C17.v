(* C17 — Readiness notifications reach exactly the registered, interested waiters.
   Only the property theorems; each is closed by [exact] of a lemma of Proofs/IlistP.v or
   Proofs/WaiterP.v and followed by Print Assumptions.
   Models: Model/Ilist.v (pkg/ilist/list.go), Model/Waiter.v (pkg/waiter/waiter.go).
   Specification vocabulary (not a model): Model/WaiterSpec.v —
     [registered ops]   the (entry, mask) pairs registered after history [ops], oldest first;
     [to_notify m r]    = map fst (filter (mask intersects m) r);
     [contract [] ops]  the API contract: register only unregistered entries, unregister only
                        registered ones;
     [sobs k a0 ops]    the observations the abstract queue makes on [ops].
   [run fuel k w0 ops] runs the MODEL of the Go code from the zero-value Queue; its second
   component is [None] when some operation does not return (walk fuel exhausted).

   Clause of the property text                                   theorem
   -----------------------------------------------------------   ---------------------------
   list invariant (mechanism: doubly-linked insert/remove)       C17_pushBack_repr, C17_remove_repr,
                                                                 C17_pushFront_repr, C17_insertAfter_repr,
                                                                 C17_insertBefore_repr, C17_pushBackList_repr,
                                                                 C17_iteration_terminates, C17_prev_mirrors
   for all histories: refinement, no walk runs out of fuel       C17_refines_spec
   notify invokes exactly once every entry registered at that
     moment with an intersecting mask and no other entry         C17_notify_exact (+ C17_registered_means)
   no callback after unregistration has returned                 C17_no_callback_after_unregister
   (un)registering one entry never loses/duplicates another      C17_other_entries_untouched
   channel entries: token held until taken                       C17_channel_token_kept
   Events = union of masks, IsEmpty                              C17_events_is_union, C17_union_bitwise,
                                                                 C17_isEmpty_spec
   why the contract is a hypothesis (full statement is false
     without it: refuted)                                        C17_contract_needed_refuted
   The statement over schedules (goroutines racing) is not proved: each method body runs under
   q.mu (sync.RWMutex, trusted), so concurrent executions are interleavings of the atomic steps
   quantified over here; the harness's concurrent variant is a search aid only. *)
From Coq Require Import ZArith List Bool.
From NP Require Import Model.Ilist Model.WaiterSpec Model.Waiter Proofs.IlistP Proofs.WaiterP.
Import ListNotations.
Open Scope Z_scope.

(* ---- the intrusive list (full) ---- *)

Theorem C17_pushBack_repr : forall s l e,
  dll_repr s l -> ~ In e l -> dll_repr (pushBack s e) (l ++ [e]).
Proof. exact pushBack_repr. Qed.
Print Assumptions C17_pushBack_repr.

Theorem C17_remove_repr : forall s l e,
  dll_repr s l -> In e l -> dll_repr (removeE s e) (filter (fun x => negb (x =? e)) l).
Proof. exact remove_repr. Qed.
Print Assumptions C17_remove_repr.

Theorem C17_pushFront_repr : forall s l e,
  dll_repr s l -> ~ In e l -> dll_repr (pushFront s e) (e :: l).
Proof. exact pushFront_repr. Qed.
Print Assumptions C17_pushFront_repr.

Theorem C17_insertAfter_repr : forall s l1 l2 b e,
  dll_repr s (l1 ++ b :: l2) -> ~ In e (l1 ++ b :: l2) ->
  dll_repr (insertAfter s b e) (l1 ++ b :: e :: l2).
Proof. exact insertAfter_repr. Qed.
Print Assumptions C17_insertAfter_repr.

Theorem C17_insertBefore_repr : forall s l1 l2 a e,
  dll_repr s (l1 ++ a :: l2) -> ~ In e (l1 ++ a :: l2) ->
  dll_repr (insertBefore s a e) (l1 ++ e :: a :: l2).
Proof. exact insertBefore_repr. Qed.
Print Assumptions C17_insertBefore_repr.

Theorem C17_pushBackList_repr : forall s mh mt l1 l2,
  dll_repr s l1 -> dll_repr (mkSt (nxt s) (prv s) mh mt) l2 -> NoDup (l1 ++ l2) ->
  exists s', pushBackList s mh mt = Some (s', (None, None)) /\ dll_repr s' (l1 ++ l2).
Proof. exact pushBackList_repr. Qed.
Print Assumptions C17_pushBackList_repr.

(* acyclicity: iterating a represented list ends after length-many steps and visits exactly it *)
Theorem C17_iteration_terminates : forall s l fuel,
  dll_repr s l -> (length l <= fuel)%nat -> toList fuel s = Some l.
Proof. exact toList_repr. Qed.
Print Assumptions C17_iteration_terminates.

Theorem C17_prev_mirrors : forall s l fuel,
  dll_repr s l -> (length l <= fuel)%nat -> toListRev fuel s = Some (rev l).
Proof. exact toListRev_repr. Qed.
Print Assumptions C17_prev_mirrors.

(* ---- the wait queue, for all histories (full under the contract) ---- *)

(* every contract-respecting history, over any number of entries, masks and callback kinds:
   all operations return (no walk exhausts its fuel), the observations are exactly the abstract
   queue's, the heap represents the registered entries in registration order with their masks,
   and every channel holds 0 or 1 token *)
Theorem C17_refines_spec : forall k fuel ops,
  contract [] ops -> (length ops <= fuel)%nat ->
  exists w, run fuel k w0 ops = (sobs k a0 ops, Some w) /\
            dll_repr (wl w) (map fst (registered ops)) /\
            contents fuel w = Some (registered ops) /\
            (forall e, wch w e = 0 \/ wch w e = 1).
Proof. exact refines_spec. Qed.
Print Assumptions C17_refines_spec.

(* what [registered] means in terms of the history alone *)
Theorem C17_registered_means : forall ops e mk,
  contract [] ops ->
  (In (e, mk) (registered ops) <->
   exists ops1 ops2, ops = ops1 ++ ORegister e mk :: ops2 /\ forall o, In o ops2 -> ~ touches e o).
Proof. exact registered_last_op. Qed.
Print Assumptions C17_registered_means.

Theorem C17_notify_exact : forall k fuel ops m,
  contract [] ops -> (S (length ops) <= fuel)%nat ->
  exists w inv,
    run fuel k w0 (ops ++ [ONotify m]) = (sobs k a0 ops ++ [Ob inv 0], Some w) /\
    inv = to_notify m (registered ops) /\
    NoDup inv /\
    (forall e, In e inv <-> exists mk, In (e, mk) (registered ops) /\ Z.land m mk <> 0).
Proof. exact notify_exact. Qed.
Print Assumptions C17_notify_exact.

Theorem C17_no_callback_after_unregister : forall k fuel ops1 e ops2,
  contract [] (ops1 ++ OUnregister e :: ops2) -> (forall m, ~ In (ORegister e m) ops2) ->
  (length (ops1 ++ OUnregister e :: ops2) <= fuel)%nat ->
  exists w obs, run fuel k w0 (ops1 ++ OUnregister e :: ops2) = (obs, Some w) /\
    Forall (fun ob => ~ In e (invoked ob)) (skipn (length ops1) obs).
Proof. exact no_callback_after_unregister. Qed.
Print Assumptions C17_no_callback_after_unregister.

Theorem C17_other_entries_untouched : forall k fuel ops o e,
  contract [] (ops ++ [o]) -> (o = OUnregister e \/ exists m, o = ORegister e m) ->
  (S (length ops) <= fuel)%nat ->
  exists w w' c c',
    run fuel k w0 ops = (sobs k a0 ops, Some w) /\ step fuel k w o = Some (w', Ob [] 0) /\
    contents fuel w = Some c /\ contents fuel w' = Some c' /\
    filter (other e) c' = filter (other e) c.
Proof. exact other_entries_untouched. Qed.
Print Assumptions C17_other_entries_untouched.

(* after a Notify that matched channel entry e, whatever follows short of the waiter taking the
   token (further notifies included: they return and do not add a second token), e's channel
   holds exactly one token, and the waiter's receive gets it *)
Theorem C17_channel_token_kept : forall k fuel ops m e mk ops2,
  contract [] (ops ++ ONotify m :: ops2) -> k e = KChan ->
  In (e, mk) (registered ops) -> Z.land m mk <> 0 -> ~ In (OTake e) ops2 ->
  (length (ops ++ ONotify m :: ops2) <= fuel)%nat ->
  exists w obs w',
    run fuel k w0 (ops ++ ONotify m :: ops2) = (obs, Some w) /\ length obs = length (ops ++ ONotify m :: ops2) /\
    wch w e = 1 /\
    step fuel k w (OTake e) = Some (w', Ob [] 1) /\ wch w' e = 0.
Proof. exact channel_token_kept. Qed.
Print Assumptions C17_channel_token_kept.

Theorem C17_events_is_union : forall k fuel ops,
  contract [] ops -> (S (length ops) <= fuel)%nat ->
  exists w, run fuel k w0 (ops ++ [OEvents]) =
            (sobs k a0 ops ++ [Ob [] (union_masks (registered ops))], Some w).
Proof. exact events_is_union. Qed.
Print Assumptions C17_events_is_union.

Theorem C17_union_bitwise : forall r i,
  Z.testbit (union_masks r) i = existsb (fun p => Z.testbit (snd p) i) r.
Proof. exact union_masks_testbit. Qed.
Print Assumptions C17_union_bitwise.

Theorem C17_isEmpty_spec : forall k fuel ops,
  contract [] ops -> (S (length ops) <= fuel)%nat ->
  exists w, run fuel k w0 (ops ++ [OIsEmpty]) =
            (sobs k a0 ops ++ [Ob [] (match registered ops with [] => 1 | _ => 0 end)], Some w).
Proof. exact isEmpty_spec. Qed.
Print Assumptions C17_isEmpty_spec.

(* ---- the contract cannot be dropped (refuted without it) ---- *)

(* (1) a history registering an entry twice after which a still-registered, interested, never
   unregistered entry is not called back; (2) a history registering an entry twice in a row
   after which Notify never returns, whatever the fuel *)
Theorem C17_contract_needed_refuted :
  (exists k fuel ops e mk m,
     ~ contract [] ops /\ In (e, mk) (registered ops) /\ Z.land m mk <> 0 /\
     ~ In (OUnregister e) ops /\
     exists obs inv, fst (run fuel k w0 (ops ++ [ONotify m])) = obs ++ [Ob inv 0] /\ ~ In e inv) /\
  (exists ops, ~ contract [] ops /\ forall fuel k, snd (run fuel k w0 (ops ++ [ONotify 1])) = None).
Proof. exact contract_needed_refuted. Qed.
Print Assumptions C17_contract_needed_refuted.
