(* C05 - TCP loss recovery is prompt and the congestion window is obeyed.
   Only the property theorems; each is closed by [exact] of a lemma from Proofs/TcpCc*.v and
   followed by Print Assumptions.  Model: Model/Tcp.v (sender of snd.go, reno.go, timer.go),
   validated against the real code by the lock-step traces of Corr/C05.v.

   Clause of the property text                              -> theorem
   "after three duplicate ACKs the earliest unacknowledged
    segment is retransmitted without waiting for the RTO"   -> C05_fast_retransmit_on_third_dupack (partial:
                                                               when no earlier recovery covers the segment),
                                                               C05_fast_retransmit_covered_refuted,
                                                               C05_fast_retransmit_after_recovery_refuted,
                                                               C05_partial_ack_retransmits, C05_recovery_ends
   "otherwise it is retransmitted by timeout ... exactly
    one segment sent per timeout while the peer stays
    silent"                                                  -> C05_rto_one_segment_and_doubling,
                                                               C05_rto_emits_head_partial (window open),
                                                               C05_rto_zero_window_refuted, C05_sendLoop_budget
   "the timeout at least doubling between successive
    retransmissions"                                         -> C05_rto_one_segment_and_doubling,
                                                               C05_rto_backoff_terminates
   "never sooner than 200 ms after its previous
    transmission"                                            -> C05_rto_floor, C05_expiry_after_arming_partial,
                                                               C05_fast_retransmit_does_not_rearm,
                                                               C05_rto_after_fast_retransmit_refuted (F11)
   "no more than 10 segments are sent before the first ACK" -> C05_initial_window_10
   "with Reno the number of segments in flight never
    exceeds 10 + one per segment acknowledged or duplicate
    ACK received so far"                                     -> C05_reno_cwnd_bound, C05_reno_cwnd_bound_inv
   Every hypothesis set is shown satisfiable by a reachable state in Proofs/TcpCcExP.v
   (ex_third_dupack, ex_partial_ack, ex_recovery_ack, ex_rto_live, ex_backoff, ex_bound, ...). *)
From Coq Require Import ZArith List Bool.
From RecordUpdate Require Import RecordSet.
From NP Require Import Model.Seqnum Model.GoHeap Model.Tcp
  Proofs.TcpCcP Proofs.TcpCcInvP Proofs.TcpCcRtoP Proofs.TcpCcExP Proofs.TcpCcTimeP.
Import ListNotations RecordSetNotations.
Open Scope Z_scope.

(* (1) third duplicate ACK (by the code's definition: [third_dupack]) in a state not in recovery,
   with data outstanding and no earlier recovery covering sndUna: IN THAT STEP the head of the
   write list is emitted (the first data-bearing frame of the step; under the write-list
   invariant of C01 its w_seq is sndUna), fast recovery is entered with
   ssthresh = max 2 (outstanding/2), cwnd = ssthresh + 3; an enabled timer stays as it was. *)
Theorem C05_fast_retransmit_on_third_dupack : forall t sg newRto w rest,
  third_dupack t sg -> wsent (SN t) ++ wunsent (SN t) = w :: rest ->
  let t' := fst (step t (ESeg sg newRto)) in
  (exists pre post ak wn, out t' = pre ++ mkF (w_seq w) ak (w_flags w) wn (w_data w) :: post /\ dcount pre = 0) /\
  frActive (SN t') = true /\ ssthresh (SN t') = Z.max 2 (Z.quot (outstanding (SN t)) 2) /\
  cwnd (SN t') = ssthresh (SN t') + 3 /\ frFirst (SN t') = sndUna (SN t) /\
  frLast (SN t') = u32 (sndNxt (SN t) - 1) /\ dupAck (SN t') = 0 /\ sndUna (SN t') = sndUna (SN t) /\
  (tstate (SN t) = tEnabled -> tstate (SN t') = tEnabled).
Proof. exact fast_retransmit. Qed.
Print Assumptions C05_fast_retransmit_on_third_dupack.

(* the hypothesis "no earlier recovery covers sndUna" (lessThan fr.last sndUna) cannot be dropped:
   after a time-out three exact duplicates trigger nothing (RFC 6582 guard) *)
Theorem C05_fast_retransmit_covered_refuted :
  exists t sg, processed t sg = true /\ frActive (SN t) = false /\ dupAck (SN t) = 2 /\
     sndUna (SN t) <> sndNxt (SN t) /\ s_ack sg = sndUna (SN t) /\ seglen sg = 0 /\
     wndOf t sg = sndWnd (SN t) /\ lessThan (frLast (SN t)) (sndUna (SN t)) = false /\
     dcount (out (fst (step t (ESeg sg 1000000000)))) = 0 /\
     frActive (SN (fst (step t (ESeg sg 1000000000)))) = false.
Proof. exact fast_retransmit_covered_refuted. Qed.
Print Assumptions C05_fast_retransmit_covered_refuted.

(* nor after a finished FAST recovery: leaveFastRecovery advances fr.last to sndNxt-1, so three
   duplicate ACKs for a segment that was in flight when the recovery ended trigger nothing, although
   sndUna is beyond the recovery point recorded at its entry (RFC 6582 would retransmit).
   Candidate finding; the same pattern is seen on traces of the real code (Corr.C05 tag bit 32). *)
Theorem C05_fast_retransmit_after_recovery_refuted :
  exists t sg recover,
     recover = frLast (SN exB) /\ frActive (SN exB) = true /\ frActive (SN t) = false /\
     lessThan recover (sndUna (SN t)) = true /\ gRto (snd (grun ex0 g0 [wr; ack 1010; ack 1010; ack 1010; ack 1010; ack 1010; ack 1010; ack 1010; ack 1010; ack 1120; ack 1120; ack 1120])) = 0 /\
     processed t sg = true /\ dupAck (SN t) = 2 /\ outstanding (SN t) = 7 /\
     sndUna (SN t) <> sndNxt (SN t) /\ s_ack sg = sndUna (SN t) /\ seglen sg = 0 /\
     wndOf t sg = sndWnd (SN t) /\
     dcount (out (fst (step t (ESeg sg 1000000000)))) = 0 /\
     frActive (SN (fst (step t (ESeg sg 1000000000)))) = false.
Proof. exact fast_retransmit_after_recovery_refuted. Qed.
Print Assumptions C05_fast_retransmit_after_recovery_refuted.

(* partial ACK during recovery: the new head of the write list (after removing the newly
   acknowledged bytes, [trimmed]) is retransmitted in that step; recovery continues *)
Theorem C05_partial_ack_retransmits : forall t sg newRto w rest,
  partial_ack t sg ->
  trimmed (wsent (SN t) ++ wunsent (SN t)) (newlyAcked (SN t) sg) = w :: rest ->
  let t' := fst (step t (ESeg sg newRto)) in
  (exists pre post ak wn, out t' = pre ++ mkF (w_seq w) ak (w_flags w) wn (w_data w) :: post /\ dcount pre = 0) /\
  frActive (SN t') = true /\ frFirst (SN t') = s_ack sg /\ cwnd (SN t') = cwnd (SN t) /\
  ssthresh (SN t') = ssthresh (SN t) /\ frLast (SN t') = frLast (SN t).
Proof. exact partial_ack_retransmits. Qed.
Print Assumptions C05_partial_ack_retransmits.

(* recovery ends on the first ACK beyond fr.last; cwnd deflates to ssthresh (plus the regular
   congestion-avoidance increment for what this ACK acknowledged) *)
Theorem C05_recovery_ends : forall t sg newRto,
  recovery_ack t sg -> 2 <= ssthresh (SN t) -> 0 <= caCount (SN t) ->
  let t' := fst (step t (ESeg sg newRto)) in
  frActive (SN t') = false /\ ssthresh (SN t') = ssthresh (SN t) /\ dupAck (SN t') = 0 /\
  ssthresh (SN t) <= cwnd (SN t') <= ssthresh (SN t) + caCount (SN t) / ssthresh (SN t) + ackedSegs (SN t) sg.
Proof. exact recovery_ends. Qed.
Print Assumptions C05_recovery_ends.

(* (2) a real expiry (timer enabled, rto < 60 s): rto doubles exactly, cwnd = 1, outstanding is
   counted from 0, at most ONE data segment is emitted (and outstanding counts it), the timer is
   re-armed as long as data is outstanding *)
Theorem C05_rto_one_segment_and_doubling : forall t,
  live t -> rto (SN t) < maxRTO ->
  let t' := fst (step t ERto) in
  rto (SN t') = 2 * rto (SN t) /\ cwnd (SN t') = 1 /\ frActive (SN t') = false /\
  ssthresh (SN t') = Z.max 2 (Z.quot (outstanding (SN t)) 2) /\
  sndUna (SN t') = sndUna (SN t) /\
  0 <= outstanding (SN t') <= 1 /\ dcount (out t') <= outstanding (SN t') /\
  (1 <= maxPayload (SN t) -> dcount (out t') = outstanding (SN t')) /\
  (tstate (SN t') = if sndUna (SN t) =? sndNxt (SN t') then tDisabled else tEnabled).
Proof. exact rto_step. Qed.
Print Assumptions C05_rto_one_segment_and_doubling.

(* ... and it is exactly one frame, the head of the write list (or its window/MSS-limited prefix),
   when that head was transmitted before and the peer's window still covers its start *)
Theorem C05_rto_emits_head_partial : forall t w rest,
  live t -> rto (SN t) < maxRTO ->
  wsent (SN t) ++ wunsent (SN t) = w :: rest ->
  w_flags w <> 0 -> w_data w <> [] ->
  lessThan (w_seq w) (add (sndUna (SN t)) (sndWnd (SN t))) = true ->
  let avail := Z.min (maxPayload (SN t)) (size (w_seq w) (add (sndUna (SN t)) (sndWnd (SN t)))) in
  exists ak wn,
    out (fst (step t ERto)) =
      [mkF (w_seq w) ak (w_flags w) wn (if avail <? len (w_data w) then takeZ avail (w_data w) else w_data w)].
Proof. exact rto_emits_head. Qed.
Print Assumptions C05_rto_emits_head_partial.

(* "exactly one segment per timeout" is false when the peer's window is zero: nothing is sent
   (there is no window probe), the back-off continues *)
Theorem C05_rto_zero_window_refuted :
  exists t, live t /\ rto (SN t) < maxRTO /\ sndUna (SN t) <> sndNxt (SN t) /\
            wsent (SN t) ++ wunsent (SN t) <> [] /\ sndWnd (SN t) = 0 /\
            out (fst (step t ERto)) = [] /\ tstate (SN (fst (step t ERto))) = tEnabled /\
            rto (SN (fst (step t ERto))) = 2 * rto (SN t).
Proof. exact rto_zero_window_refuted. Qed.
Print Assumptions C05_rto_zero_window_refuted.

(* the send loop never emits more than cwnd - outstanding data segments *)
Theorem C05_sendLoop_budget : forall fuel t endv limit,
  exists fs, out (sendLoop fuel t endv limit) = out t ++ fs /\
             dcount fs <= Z.max 0 (cwnd (SN t) - outstanding (SN t)).
Proof. exact sendLoop_budget. Qed.
Print Assumptions C05_sendLoop_budget.

(* silent peer: as long as the expiries happen on a live connection, each doubles rto, and there
   can be at most 10 of them (200 ms * 2^9 >= 60 s); an expiry with rto >= 60 s resets the
   connection with an explicit error and a RST *)
Theorem C05_rto_backoff_terminates : forall t n,
  minRTO <= rto (SN t) ->
  (forall i, (i < n)%nat -> live (silent i t)) ->
  (forall j, (j < n)%nat -> rto (SN (silent j t)) = rto (SN t) * 2 ^ Z.of_nat j) /\ (n <= 10)%nat.
Proof. exact rto_backoff. Qed.
Print Assumptions C05_rto_backoff_terminates.

Theorem C05_rto_gives_up_with_reset : forall t,
  live t -> maxRTO <= rto (SN t) ->
  estate (fst (step t ERto)) = stError /\
  out (fst (step t ERto)) = [mkF (sndUna (SN t)) (rcvNxt (RC t)) (Z.lor fAck fRst) 0 []].
Proof. exact step_rto_dead. Qed.
Print Assumptions C05_rto_gives_up_with_reset.

(* rto >= 200 ms in every reachable state (updateRTO is an oracle value clamped at minRTO, as the
   code clamps it) *)
Theorem C05_rto_floor : forall t g es, CC (SN t) (bnd g) -> minRTO <= rto (SN (run t es)).
Proof. exact rto_floor. Qed.
Print Assumptions C05_rto_floor.

(* timing, with time stamps on the events and a deadline on the timer (Proofs/TcpCcTimeP.v):
   every real expiry comes at least 200 ms after the last (re)arming of the timer ... *)
Theorem C05_expiry_after_arming_partial : forall es t c g,
  CC (SN t) (bnd g) -> armed_ok t c -> legal_run t c es = true -> expiries_ok t c es = true.
Proof. exact expiry_after_arming. Qed.
Print Assumptions C05_expiry_after_arming_partial.

(* ... but the fast retransmit does not re-arm: the timer state handed to sendData is still
   "enabled", so sendData's guard [!enabled()] is false and the old deadline stays ... *)
Theorem C05_fast_retransmit_does_not_rearm : forall t sg newRto,
  third_dupack t sg -> tstate (SN t) = tEnabled ->
  tstate (SN (preSend (rcvHandle (t <| out := [] |>) sg) sg (wndOf t sg) newRto)) = tEnabled /\
  tstate (SN (fst (step t (ESeg sg newRto)))) = tEnabled.
Proof. exact fast_retransmit_does_not_rearm. Qed.
Print Assumptions C05_fast_retransmit_does_not_rearm.

(* ... whereas an ACK of new data takes the timer out of "enabled", so sendData re-arms it *)
Theorem C05_new_ack_disables_timer : forall t sg wnd newRto,
  inRange (u32 (s_ack sg - 1)) (sndUna (SN t)) (sndNxt (SN t)) = true ->
  tstate (SN t) = tEnabled ->
  tstate (SN (preSend t sg wnd newRto)) = tOrphaned.
Proof. exact new_ack_disables_timer. Qed.
Print Assumptions C05_new_ack_disables_timer.

(* ... hence (known finding F11, replayed on the real code at 152 ms / 201 ms): a legal timed
   history in which the time-out retransmission of a segment follows its fast retransmission by
   49 ms < 200 ms *)
Theorem C05_rto_after_fast_retransmit_refuted :
  exists t c es,
    cwnd (SN t) = InitialCwnd /\ ssthresh (SN t) = maxInt /\ outstanding (SN t) = 0 /\ frActive (SN t) = false /\
    rto (SN t) = minRTO /\
    legal_run t c es = true /\ expiries_ok t c es = true /\
    third_dupack (fst (trun t c (firstn 3 es))) (mkSeg 5000 1000 fAck 30000 [] false true) /\
    dseqs (fst (trun t c (firstn 4 es))) = [1000] /\
    nth 4 es (0, ERead) = (ms 201, ERto) /\ liveb (fst (trun t c (firstn 4 es))) = true /\
    dseqs (fst (trun t c es)) = [1000] /\
    ms 201 - ms 152 < minRTO.
Proof. exact rto_after_fast_retransmit_refuted. Qed.
Print Assumptions C05_rto_after_fast_retransmit_refuted.

(* (3) before any ACK-bearing segment or time-out, at most 10 data segments are emitted in total,
   whatever is written *)
Theorem C05_initial_window_10 : forall t es,
  fresh_sender (SN t) -> forallb noAck es = true -> dcount (run_out t es) <= 10.
Proof. exact initial_window_10. Qed.
Print Assumptions C05_initial_window_10.

(* (4) every history of a fresh sender: with A = write-list segments covered by new ACKs and
   D = duplicate ACKs so far (ghost fold [grun] alongside [run]),
   1 <= cwnd <= 10 + A + D, outstanding (the segments sent since the last time-out and not yet
   acknowledged) <= 10 + A + D, ssthresh >= 2, rto >= 200 ms *)
Theorem C05_reno_cwnd_bound : forall t es,
  fresh_sender (SN t) ->
  let r := grun t g0 es in
  let s := SN (fst r) in
  let B := InitialCwnd + gA (snd r) + gD (snd r) in
  1 <= cwnd s <= B /\ 2 <= ssthresh s /\ 0 <= outstanding s <= B /\ minRTO <= rto s.
Proof. exact reno_cwnd_bound. Qed.
Print Assumptions C05_reno_cwnd_bound.

(* the same as an inductive invariant from ANY state satisfying it *)
Theorem C05_reno_cwnd_bound_inv : forall es t g,
  CC (SN t) (bnd g) -> CC (SN (fst (grun t g es))) (bnd (snd (grun t g es))).
Proof. exact CC_run. Qed.
Print Assumptions C05_reno_cwnd_bound_inv.

Theorem C05_fresh_sender_satisfies_invariant : forall s, fresh_sender s -> CC s (bnd g0).
Proof. exact fresh_CC. Qed.
Print Assumptions C05_fresh_sender_satisfies_invariant.

(* the duplicate-ACK counter of (4) is the strict RFC 5681 one whenever the recovery point is in
   step with sndUna *)
Theorem C05_isDup_strict : forall s sg wnd,
  (frActive s = true -> frFirst s = sndUna s /\ sndUna s <> sndNxt s) -> isDup s sg wnd = isDupStrict s sg wnd.
Proof. exact isDup_strict. Qed.
Print Assumptions C05_isDup_strict.

(* the congestion state a completed active handshake hands to the connection (Proofs/TcpEstP.v;
   compared with the implementation's first snapshot in every lock-step trace): initial window of
   10 segments, nothing in flight, timer off, RTO 1 s *)
From NP Require Model.TcpHs Model.TcpEst Proofs.TcpEstP.

Theorem C05_initial_window_after_handshake : forall iss irs peerWnd o stackSack rb sb linkMtu iphdr t,
  is_u32 iss ->
  TcpEst.active_established iss irs peerWnd o stackSack rb sb linkMtu iphdr = Some t ->
  cwnd (SN t) = 10 /\ outstanding (SN t) = 0 /\ tstate (SN t) = tDisabled /\ rto (SN t) = 1000000000.
Proof. exact TcpEstP.active_established_cc. Qed.
Print Assumptions C05_initial_window_after_handshake.
