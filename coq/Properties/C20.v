(* C20 -- HTTP requests and WebSocket messages survive the round trip through the stack.

   Property text -> theorem
   "An HTTP request sent by the bundled client ... reaches the handler registered for its path
    with the same method, path, headers and body"
        C20_http_request_roundtrip      parse (send r) = r for every request of the grammar G (Gb, stated
                                        in full in Proofs/HttpP.v), in the header order given
        C20_http_request_roundtrip_map  the same for every iteration order of the Go header map
        C20_parse_fuel_adequate         the fuel of the model's header loop never runs out (the Go loop is not cut short)
        C20_grammar_*_refuted           each clause of G is needed (the boundary of G is tight)
        C20_http_body_crlf_old_refuted  the fixed finding F8: the loop before the repair returned "\r\n" ++ body
        C20_dispatch_exact              exact-match dispatch; "a path nobody registered never invokes a handler"
   "and the client receives the status and body the handler produced"
        C20_response_roundtrip          response through the client's (request) parser; status in the uri field
        C20_http_exchange               request -> handler -> response -> client, composed
        C20_http_unregistered           unregistered path: no handler, 200 + default page
        C20_handler_status_refuted      REFUTED clause (known finding C20-error-noop): Response.Error is a no-op
   "After a WebSocket upgrade the server's accept key is the RFC 6455 function of the client's key"
        C20_b64_decode_encode / _length / _alphabet   base64 against RFC 4648
        C20_accept_key_rfc6455          base64 (H (key ++ GUID)), H = SHA-1 as a section variable
        C20_upgrade_checks              101 is written iff the five checks of upgrade.go hold
        C20_upgrade_response_parsed     what the client's parser makes of the 101 response
   "every text message -- of any length class, masked or not -- is received with exactly the bytes
    that were sent, in order"
        C20_ws_read_frame               any legal frame (any class, any key) decodes to its payload
        C20_ws_roundtrip / _masked      ws_read (ws_encode m) = m for every length < 2^63 / every key
        C20_ws_length_class             7-bit iff <= 125, 16-bit iff 126..65535, 64-bit iff >= 65536
        C20_ws_stream_roundtrip         sequences of frames, by induction, one Readn-exact frame each
        C20_mask_involutive             unmasking undoes masking
   The transport (stack's own TCP) is not part of these theorems: the end-to-end cases of the
   correspondence driver run the bundled client and server over a loopback NIC. *)
From Coq Require Import String.
From Coq Require Import ZArith List Bool Permutation.
From NP Require Import Model.Http Model.Base64 Model.Ws Proofs.HttpP Proofs.WsP.
Import ListNotations.
Open Scope Z_scope.

Theorem C20_index_first_occurrence : forall d s i, index d s = Some i ->
  has_prefix d (skipn i s) = true /\ (i <= length s)%nat
  /\ forall j, (j < i)%nat -> has_prefix d (skipn j s) = false.
Proof. exact index_some. Qed.
Print Assumptions C20_index_first_occurrence.

Theorem C20_contains_spec : forall d s, contains d s = true <-> exists l r, s = l ++ d ++ r.
Proof. exact contains_spec. Qed.
Print Assumptions C20_contains_spec.

Theorem C20_http_request_roundtrip : forall m u hs b, Gb m u hs = true ->
  parse 200 (send m u hs b) = (mkReq m (get_method m) u HTTP11 HTTP_VERSION_11 hs b, 200).
Proof. exact parse_send. Qed.
Print Assumptions C20_http_request_roundtrip.

Theorem C20_http_request_roundtrip_map : forall m u hs b hs', Gb m u hs = true -> Permutation hs hs' ->
  let '(r, st) := parse 200 (send m u hs' b) in
  method_raw r = m /\ method r = get_method m /\ uri r = u /\ version r = HTTP_VERSION_11
  /\ body r = b /\ st = 200
  /\ (forall k, hlookup k (headers r) = hlookup k hs) /\ Permutation hs (headers r).
Proof. exact http_request_roundtrip_map. Qed.
Print Assumptions C20_http_request_roundtrip_map.

Theorem C20_parse_fuel_adequate : forall p h k,
  header_loop (S (length p)) p h = header_loop (S (length p) + k) p h.
Proof. exact parse_fuel_adequate. Qed.
Print Assumptions C20_parse_fuel_adequate.

Theorem C20_grammar_key_crlf_refuted :
  rt_fails (s2b "GET") (s2b "/x") [(CRLF ++ s2b "K", s2b "v")] (s2b "hello").
Proof. exact grammar_key_crlf_refuted. Qed.
Print Assumptions C20_grammar_key_crlf_refuted.

Theorem C20_grammar_key_colsp_refuted :
  rt_fails (s2b "GET") (s2b "/x") [(s2b "K: L", s2b "v")] (s2b "hello").
Proof. exact grammar_key_colsp_refuted. Qed.
Print Assumptions C20_grammar_key_colsp_refuted.

Theorem C20_grammar_value_empty_refuted :
  rt_fails (s2b "GET") (s2b "/x") [(s2b "K", []); (s2b "L", s2b "w")] (s2b "hello").
Proof. exact grammar_value_empty_refuted. Qed.
Print Assumptions C20_grammar_value_empty_refuted.

Theorem C20_grammar_value_crlf_refuted :
  rt_fails (s2b "GET") (s2b "/x") [(s2b "K", s2b "v" ++ CRLF ++ s2b "w")] (s2b "hello").
Proof. exact grammar_value_crlf_refuted. Qed.
Print Assumptions C20_grammar_value_crlf_refuted.

Theorem C20_grammar_uri_space_refuted : rt_fails (s2b "GET") (s2b "/x y") [] (s2b "hello").
Proof. exact grammar_uri_space_refuted. Qed.
Print Assumptions C20_grammar_uri_space_refuted.

Theorem C20_http_body_crlf_old_refuted :
  exists m u hs b, Gb m u hs = true /\ body (fst (parse_old 200 (send m u hs b))) <> b
                   /\ body (fst (parse_old 200 (send m u hs b))) = CRLF ++ b
                   /\ body (fst (parse 200 (send m u hs b))) = b.
Proof. exact http_body_crlf_old_refuted. Qed.
Print Assumptions C20_http_body_crlf_old_refuted.

Theorem C20_http_body_old_relation : forall m u hs b, Gb m u hs = true -> contains COLSP b = false ->
  parse_old 200 (send m u hs b) = (mkReq m (get_method m) u HTTP11 HTTP_VERSION_11 hs (CRLF ++ b), 200).
Proof. exact parse_old_send. Qed.
Print Assumptions C20_http_body_old_relation.

Theorem C20_dispatch_exact : forall {A} (run : A -> request -> hresult) (m : mux A) r st, built m ->
  (forall a, In (uri r, a) m ->
     dispatch run m r st = (Some a, h_body (run a r), fold_left set_status (h_errors (run a r)) st))
  /\ ((forall a, ~ In (uri r, a) m) -> dispatch run m r st = (None, [], set_status st 400))
  /\ (forall a eb st', dispatch run m r st = (Some a, eb, st') -> In (uri r, a) m).
Proof. exact @dispatch_exact. Qed.
Print Assumptions C20_dispatch_exact.

Theorem C20_response_roundtrip : forall vraw st hs eb,
  uri_ok vraw = true -> status_text st <> [] -> hdrs_ok hs = true ->
  let c := fst (client_parse (build_response vraw st hs eb)) in
  c = mkReq vraw (get_method vraw) (itoa st) (status_text st) HTTP_VERSION_UNKNOWN hs eb
  /\ dval (uri c) = st.
Proof. exact response_roundtrip. Qed.
Print Assumptions C20_response_roundtrip.

Theorem C20_http_exchange : forall {A} (run : A -> request -> hresult) (m : mux A) meth u hs b hs' a,
  Gb meth u hs = true -> Permutation hs hs' -> built m -> In (u, a) m ->
  let req := mkReq meth (get_method meth) u HTTP11 HTTP_VERSION_11 hs' b in
  let sv := serve run m (send meth u hs' b) in
  sv_invoked sv = Some a /\ sv_request sv = req /\ sv_status sv = 200
  /\ forall order, Permutation (sv_headers sv) order ->
       let c := fst (client_parse (served_bytes sv order)) in
       dval (uri c) = 200 /\ uri c = s2b "200" /\ version_raw c = s2b "OK" /\ method_raw c = HTTP11
       /\ body c = (if isnil (h_body (run a req)) then default_success_msg else h_body (run a req))
       /\ forall k, hlookup k (headers c) = hlookup k server_headers.
Proof. exact @http_exchange. Qed.
Print Assumptions C20_http_exchange.

Theorem C20_http_unregistered : forall {A} (run : A -> request -> hresult) (m : mux A) meth u hs b,
  Gb meth u hs = true -> built m -> (forall a, ~ In (u, a) m) ->
  let sv := serve run m (send meth u hs b) in
  sv_invoked sv = None /\ sv_status sv = 200 /\ sv_body sv = default_success_msg.
Proof. exact @http_unregistered. Qed.
Print Assumptions C20_http_unregistered.

Theorem C20_handler_status_refuted :
  exists (run : unit -> request -> hresult) m raw,
    built m /\ h_errors (run tt (fst (parse 200 raw))) = [404]
    /\ sv_invoked (serve run m raw) = Some tt
    /\ sv_status (serve run m raw) = 200
    /\ uri (fst (client_parse (served_bytes (serve run m raw) (sv_headers (serve run m raw))))) = s2b "200".
Proof. exact handler_status_refuted. Qed.
Print Assumptions C20_handler_status_refuted.

Theorem C20_ws_read_frame : forall mask cls payload rest,
  class_ok cls (zlen payload) -> mask_ok mask ->
  ws_read (rfc_frame 1 1 mask cls payload ++ rest) = (WOk payload, rest).
Proof. exact ws_read_frame. Qed.
Print Assumptions C20_ws_read_frame.

Theorem C20_ws_roundtrip : forall data rest, zlen data < 2 ^ 63 ->
  ws_read (ws_encode data ++ rest) = (WOk data, rest).
Proof. exact ws_roundtrip_plain. Qed.
Print Assumptions C20_ws_roundtrip.

Theorem C20_ws_roundtrip_masked : forall key data rest, length key = 4%nat -> zlen data < 2 ^ 63 ->
  ws_read (ws_encode_masked key data ++ rest) = (WOk data, rest).
Proof. exact ws_roundtrip_masked. Qed.
Print Assumptions C20_ws_roundtrip_masked.

Theorem C20_ws_length_class : forall data, zlen data < 2 ^ 63 ->
  (zlen data <= 125 -> ws_encode data = [129; zlen data] ++ data)
  /\ (126 <= zlen data <= 65535 -> ws_encode data = [129; 126] ++ be16 (zlen data) ++ data)
  /\ (65536 <= zlen data -> ws_encode data = [129; 127] ++ be64 (zlen data) ++ data)
  /\ (nth 1 (ws_encode data) 0 = 126 <-> 126 <= zlen data <= 65535)
  /\ (nth 1 (ws_encode data) 0 = 127 <-> 65536 <= zlen data)
  /\ (nth 1 (ws_encode data) 0 <= 125 <-> zlen data <= 125).
Proof. exact ws_length_class. Qed.
Print Assumptions C20_ws_length_class.

Theorem C20_ws_stream_roundtrip : forall msgs rest, Forall msg_ok msgs ->
  ws_read_many (length msgs) (flat_map wire msgs ++ rest) = (map (fun km => WOk (snd km)) msgs, rest).
Proof. exact ws_stream_roundtrip. Qed.
Print Assumptions C20_ws_stream_roundtrip.

Theorem C20_mask_involutive : forall key b, mask_bytes key (mask_bytes key b) = b.
Proof. exact mask_bytes_involutive. Qed.
Print Assumptions C20_mask_involutive.

Theorem C20_b64_decode_encode : forall l, Forall is_byte l -> b64_decode (b64_encode l) = Some l.
Proof. exact b64_decode_encode. Qed.
Print Assumptions C20_b64_decode_encode.

Theorem C20_b64_encode_length : forall l, zlen (b64_encode l) = 4 * ((zlen l + 2) / 3).
Proof. exact b64_encode_length. Qed.
Print Assumptions C20_b64_encode_length.

Theorem C20_b64_encode_alphabet : forall l, Forall is_byte l ->
  Forall (fun c => In c b64_alphabet \/ c = PAD) (b64_encode l).
Proof. exact b64_encode_alphabet. Qed.
Print Assumptions C20_b64_encode_alphabet.

Theorem C20_accept_key_rfc6455 : forall (H : list Z -> list Z),
  (forall x, length (H x) = 20%nat /\ Forall is_byte (H x)) ->
  forall key,
    b64_decode (compute_accept_key H key) = Some (H (key ++ GUID_RFC6455))
    /\ zlen (compute_accept_key H key) = 28
    /\ Forall (fun c => In c b64_alphabet \/ c = PAD) (compute_accept_key H key)
    /\ nth 27 (compute_accept_key H key) 0 = PAD.
Proof. exact accept_key_rfc6455. Qed.
Print Assumptions C20_accept_key_rfc6455.

Theorem C20_upgrade_checks : forall (H : list Z -> list Z) r st,
  (upgrade_conditions r = true ->
     upgrade H r st = (Some (upgrade_response H (get_header (s2b "Sec-WebSocket-Key") (headers r))), st))
  /\ (upgrade_conditions r = false -> fst (upgrade H r st) = None)
  /\ (st <> 0 -> snd (upgrade H r st) = st).
Proof. exact upgrade_checks. Qed.
Print Assumptions C20_upgrade_checks.

Theorem C20_upgrade_response_parsed : forall (H : list Z -> list Z),
  (forall x, length (H x) = 20%nat /\ Forall is_byte (H x)) ->
  forall key,
    fst (client_parse (upgrade_response H key))
    = mkReq HTTP11 HTTP_METHOD_UNKNOWN (s2b "101") (s2b "Switching Protocols") HTTP_VERSION_UNKNOWN
            (handshake_headers H key) [].
Proof. exact upgrade_response_parsed. Qed.
Print Assumptions C20_upgrade_response_parsed.
