(* C16 — Buffer views behave like the byte string they represent.
   Only the property theorems; each is closed by [exact] of a lemma of Proofs/BufferP.v and
   followed by Print Assumptions.  Model: Model/Buffer.v (slice headers over a heap of mutable
   header arrays); vocabulary ([vv_wf], [vv_bytes], [str_trim], [str_cap], [bstep], [both_step],
   [wf_world], [wabs], [frame], [reslice], [wf_p], [pspec_step]) is defined at the end of the model.

   Clause -> theorem
   * "trim from the front / cap the length / remove the first chunk ... yields exactly the bytes
     and size that the same operations yield on a plain byte string, regardless of how the
     content is split into chunks" (chunks of any length incl. 0, any count in Z):
       C16_vv_trimFront, C16_vv_capLength, C16_vv_removeFirst (one call: result is Ok, i.e. no
       panic; well-formedness size = sum of chunk lengths preserved; bytes refined; only the
       object's own header array is written), C16_vv_size, C16_vv_toView ("flatten"),
       C16_vv_first, C16_newVectorisedView, C16_view_toVectorisedView;
       Views(): [vv_bytes] IS the concatenation of the bytes of Views() (definition of the
       abstraction), C16_newVectorisedView shows Views() returns the views passed in.
   * "any sequence of operations ... clone": C16_history_refines (fold_left over every history
       of TrimFront / CapLength / RemoveFirst / Clone on an original and any number of clones:
       the objects behave like a family of independent byte strings, sizes in step);
       C16_history_from_new: NewVectorisedView(sum of lengths, views) is a legal starting point.
   * "a clone is unaffected by later trimming or capping of the original": C16_clone_independent
       (any buffer that does not alias the original's header array), C16_untouched_by_others
       (no history on OTHER objects changes an object), and C16_clone_aliased_buffer_refuted
       (the disjointness hypothesis is needed: b.Clone(a.Views()) corrupts a).
   * "a capped view cannot be re-extended": C16_cap_not_reextendable (every chain of legal
       re-slices after CapLength n reaches only the first n bytes), C16_cap_two_index_refuted
       (the two-index form would expose more), C16_view_capLength_partial / _panic_iff /
       _beyond_len_refuted (View.CapLength n shows the first n bytes for n <= len; for
       len < n <= cap Go does not panic and the view GROWS into its spare capacity: full
       statement refuted, partial under n <= len).
   * View-level "operations on a view": C16_view_trimFront, C16_view_nextBytes (result or Panic
       exactly when Go panics).
   * "prepend": C16_prepend_call (every k in Z), C16_prependable_refines (every history),
       C16_newPrependable, C16_newPrependableFromView.
   * non-vacuity: C16_history_example, C16_cap_example, C16_prependable_example. *)
From Coq Require Import ZArith Bool List.
From NP Require Import Model.Buffer Proofs.BufferP.
Import ListNotations.
Open Scope Z_scope.

(* ---------------------------------------------------------------- one VectorisedView, one call *)

Theorem C16_vv_trimFront : forall h vv n,
  vv_wf h vv ->
  exists h' vv', vv_trimFront h vv n = Ok (h', vv') /\ vv_wf h' vv' /\
    vv_bytes h' vv' = str_trim n (vv_bytes h vv) /\
    harr (views vv') = harr (views vv) /\ frame h h' (harr (views vv)).
Proof. exact vv_trimFront_spec. Qed.
Print Assumptions C16_vv_trimFront.

Theorem C16_vv_capLength : forall h vv n,
  vv_wf h vv ->
  exists h' vv', vv_capLength h vv n = Ok (h', vv') /\ vv_wf h' vv' /\
    vv_bytes h' vv' = str_cap n (vv_bytes h vv) /\
    harr (views vv') = harr (views vv) /\ frame h h' (harr (views vv)).
Proof. exact vv_capLength_spec. Qed.
Print Assumptions C16_vv_capLength.

(* RemoveFirst drops exactly the bytes that First() shows *)
Theorem C16_vv_removeFirst : forall h vv,
  vv_wf h vv ->
  vv_wf h (vv_removeFirst h vv) /\
  vv_bytes h vv = vbytes (vv_first h vv) ++ vv_bytes h (vv_removeFirst h vv) /\
  vv_bytes h (vv_removeFirst h vv) =
    str_trim (Z.of_nat (length (vbytes (vv_first h vv)))) (vv_bytes h vv) /\
  harr (views (vv_removeFirst h vv)) = harr (views vv).
Proof. exact vv_removeFirst_wf. Qed.
Print Assumptions C16_vv_removeFirst.

Theorem C16_vv_size : forall h vv,
  vv_wf h vv -> vv_size vv = Z.of_nat (length (vv_bytes h vv)).
Proof. exact vv_size_spec. Qed.
Print Assumptions C16_vv_size.

Theorem C16_vv_toView : forall h vv,
  vv_wf h vv -> exists u, vv_toView h vv = Ok u /\ wf_view u /\ vbytes u = vv_bytes h vv.
Proof. exact vv_toView_spec. Qed.
Print Assumptions C16_vv_toView.

Theorem C16_vv_first : forall h vv,
  vv_wf h vv -> vv_bytes h vv = vbytes (vv_first h vv) ++ vv_bytes h (vv_removeFirst h vv).
Proof. exact vv_first_spec. Qed.
Print Assumptions C16_vv_first.

Theorem C16_newVectorisedView : forall h sz vs,
  Forall wf_view vs ->
  exists h' vv, newVectorisedView h sz vs = (h', vv) /\
    vv_views h' vv = vs /\ vv_bytes h' vv = concat (map vbytes vs) /\ vv_size vv = sz /\
    (sz = sumlen vs -> vv_wf h' vv) /\ harr (views vv) = length h /\ h' = h ++ [vs].
Proof. exact newVectorisedView_spec. Qed.
Print Assumptions C16_newVectorisedView.

Theorem C16_view_toVectorisedView : forall h v,
  wf_view v ->
  exists h' vv, view_toVectorisedView h v = (h', vv) /\ vv_wf h' vv /\
    vv_bytes h' vv = vbytes v /\ vv_size vv = Z.of_nat (length (vbytes v)).
Proof. exact view_toVectorisedView_spec. Qed.
Print Assumptions C16_view_toVectorisedView.

(* ---------------------------------------------------------------- histories over an original and its clones *)

Theorem C16_history_refines : forall ops w,
  wf_world w ->
  exists w', fst (fold_left both_step ops (Ok w, wabs w)) = Ok w' /\ wf_world w' /\
             wabs w' = snd (fold_left both_step ops (Ok w, wabs w)) /\
             map vv_size (wobjs w') = map (fun b => Z.of_nat (length b)) (wabs w').
Proof. exact world_refines. Qed.
Print Assumptions C16_history_refines.

Theorem C16_history_from_new : forall h vs,
  Forall wf_view vs ->
  exists h' vv, newVectorisedView h (sumlen vs) vs = (h', vv) /\
    wf_world (mkW h' [vv]) /\ wabs (mkW h' [vv]) = [concat (map vbytes vs)].
Proof. exact world_init_wf. Qed.
Print Assumptions C16_history_from_new.

Theorem C16_clone_independent : forall h vv buf h' c,
  vv_wf h vv -> hs_ok h buf -> harr buf <> harr (views vv) -> vv_clone h vv buf = (h', c) ->
  wf_world (mkW h' [vv; c]) /\ wabs (mkW h' [vv; c]) = [vv_bytes h vv; vv_bytes h vv] /\
  vv_size c = vv_size vv.
Proof. exact clone_independent. Qed.
Print Assumptions C16_clone_independent.

Theorem C16_untouched_by_others : forall ops w i,
  wf_world w -> (i < length (wobjs w))%nat ->
  (forall op, In op ops -> wop_writes op <> Some i) ->
  exists w', wrun w ops = Ok w' /\ wf_world w' /\ nth_error (wabs w') i = nth_error (wabs w) i.
Proof. exact world_untouched. Qed.
Print Assumptions C16_untouched_by_others.

Theorem C16_clone_aliased_buffer_refuted :
  exists h a b h' c, vv_wf h a /\ vv_wf h b /\ vv_clone h b (views a) = (h', c) /\
    vv_bytes h a = [1; 2; 3; 4; 5] /\ vv_bytes h' a = [6; 7; 8; 3; 4; 5].
Proof. exact clone_into_aliased_buffer_refuted. Qed.
Print Assumptions C16_clone_aliased_buffer_refuted.

Theorem C16_history_example :
  exists w ops w', wf_world w /\ wrun w ops = Ok w' /\
    wabs w = [[1; 2; 3; 4; 5]] /\ wabs w' = [[2; 3]; [1; 2; 3; 4]; [3; 4]].
Proof. exact world_nonvacuous. Qed.
Print Assumptions C16_history_example.

(* ---------------------------------------------------------------- a single View *)

Theorem C16_view_trimFront : forall v n,
  wf_view v ->
  (0 <= n <= vlen v ->
     exists v', view_trimFront v n = Ok v' /\ wf_view v' /\
                vbytes v' = skipn (Z.to_nat n) (vbytes v) /\
                vlen v' = vlen v - n /\ vcap v' = vcap v - n /\
                vfull v' = skipn (Z.to_nat n) (vfull v)) /\
  (view_trimFront v n = Panic <-> n < 0 \/ vlen v < n).
Proof. exact view_trimFront_spec. Qed.
Print Assumptions C16_view_trimFront.

Theorem C16_view_capLength_partial : forall v n,
  wf_view v -> 0 <= n <= vlen v ->
  exists v', view_capLength v n = Ok v' /\ wf_view v' /\
             vbytes v' = firstn (Z.to_nat n) (vbytes v) /\
             vlen v' = n /\ vcap v' = n /\ vfull v' = vbytes v'.
Proof. exact view_capLength_ok. Qed.
Print Assumptions C16_view_capLength_partial.

Theorem C16_view_capLength_panic_iff : forall v n,
  view_capLength v n = Panic <-> n < 0 \/ vcap v < n.
Proof. exact view_capLength_panic_iff. Qed.
Print Assumptions C16_view_capLength_panic_iff.

Theorem C16_view_capLength_beyond_len_refuted :
  exists v n v', wf_view v /\ vlen v < n /\ view_capLength v n = Ok v' /\
                 vbytes v = [1; 2] /\ vbytes v' = [1; 2; 3].
Proof. exact view_capLength_beyond_len_refuted. Qed.
Print Assumptions C16_view_capLength_beyond_len_refuted.

Theorem C16_view_nextBytes : forall v n,
  wf_view v ->
  (0 <= n <= vlen v ->
     exists r v', view_nextBytes v n = Ok (r, v') /\ wf_view v' /\
                  vbytes r = firstn (Z.to_nat n) (vbytes v) /\
                  vbytes v' = skipn (Z.to_nat n) (vbytes v)) /\
  (view_nextBytes v n = Panic <-> n < 0 \/ vlen v < n).
Proof. exact view_nextBytes_spec. Qed.
Print Assumptions C16_view_nextBytes.

Theorem C16_cap_not_reextendable : forall v n rs r,
  wf_view v -> 0 <= n <= vlen v ->
  fold_left reslice rs (view_capLength v n) = Ok r ->
  exists a, 0 <= a /\ a + vcap r <= n /\ vlen r <= vcap r /\
            vfull r = seg a (vcap r) (firstn (Z.to_nat n) (vbytes v)).
Proof. exact cap_not_reextendable. Qed.
Print Assumptions C16_cap_not_reextendable.

Theorem C16_cap_two_index_refuted :
  exists v n rs r, wf_view v /\ 0 <= n <= vlen v /\
    fold_left reslice rs (view_capLength_twoIndex v n) = Ok r /\
    firstn (Z.to_nat n) (vbytes v) = [1] /\ vbytes r = [1; 2; 3].
Proof. exact cap_two_index_refuted. Qed.
Print Assumptions C16_cap_two_index_refuted.

Theorem C16_cap_example :
  exists v n rs r, wf_view v /\ 0 <= n <= vlen v /\ rs <> [] /\
    fold_left reslice rs (view_capLength v n) = Ok r /\ vbytes r = [3].
Proof. exact cap_not_reextendable_nonvacuous. Qed.
Print Assumptions C16_cap_example.

(* ---------------------------------------------------------------- Prependable *)

Theorem C16_prepend_call : forall p k,
  wf_p p ->
  (usedIdx p < k -> p_prepend p k = (p, PNil)) /\
  (0 <= k <= usedIdx p ->
     exists r, p_prepend p k = (mkP (pbuf p) (usedIdx p - k), PRegion r) /\
               wf_view r /\ vlen r = k /\ vcap r = k /\ varr r = varr (pbuf p) /\
               voff r = voff (pbuf p) + (usedIdx p - k)) /\
  (k < 0 -> snd (p_prepend p k) = PPanic /\ usedIdx (fst (p_prepend p k)) = usedIdx p - k).
Proof. exact p_prepend_spec. Qed.
Print Assumptions C16_prepend_call.

Theorem C16_prependable_refines : forall ops p v0,
  wf_p p -> p_view p = Ok v0 ->
  Forall (fun op => Z.of_nat (length (snd op)) = fst op) ops ->
  let p' := fold_left p_step ops p in
  let st := fold_left pspec_step ops (usedIdx p, []) in
  wf_p p' /\ usedIdx p' = fst st /\
  exists v, p_view p' = Ok v /\ vbytes v = concat (rev (snd st)) ++ vbytes v0 /\
            p_usedLength p' = Z.of_nat (length (concat (rev (snd st)))) + p_usedLength p.
Proof. exact prependable_refines. Qed.
Print Assumptions C16_prependable_refines.

Theorem C16_newPrependable : forall size,
  0 <= size ->
  exists p v, newPrependable size = Ok p /\ wf_p p /\ usedIdx p = size /\
              p_view p = Ok v /\ vbytes v = [] /\ p_usedLength p = 0.
Proof. exact newPrependable_spec. Qed.
Print Assumptions C16_newPrependable.

Theorem C16_newPrependableFromView : forall v,
  wf_view v ->
  let p := newPrependableFromView v in
  wf_p p /\ usedIdx p = 0 /\ exists v', p_view p = Ok v' /\ vbytes v' = vbytes v.
Proof. exact newPrependableFromView_spec. Qed.
Print Assumptions C16_newPrependableFromView.

Theorem C16_prependable_example :
  exists p ops v, newPrependable 6 = Ok p /\
    fold_left pspec_step ops (6, []) = (1, [[7; 8]; [5; 6; 9]]) /\
    p_view (fold_left p_step ops p) = Ok v /\ vbytes v = [5; 6; 9; 7; 8] /\
    p_usedLength (fold_left p_step ops p) = 5.
Proof. exact prependable_nonvacuous. Qed.
Print Assumptions C16_prependable_example.
