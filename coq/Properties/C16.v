(* C16 — buffer views behave like the byte string they represent (work in progress). *)
From Coq Require Import ZArith Bool List.
From NP Require Import Model.Buffer Proofs.BufferP.
Import ListNotations.
Open Scope Z_scope.

Theorem C16_slice3_bounds : forall v i j k r,
  slice3 v i j k = Ok r -> 0 <= i <= j /\ j <= k <= vcap v.
Proof. exact slice3_ok_iff. Qed.
Print Assumptions C16_slice3_bounds.
