(* C04 — TCP respects the peer's window and MSS and keeps its own window honest.
   Only the property theorems; each is closed by [exact] of a lemma of Proofs/TcpWnd*P.v and
   followed by Print Assumptions.  Model: Model/Tcp.v (rcv.go, snd.go, reno.go, timer.go, the
   established-state parts of connect.go and endpoint.go), validated against the real code by
   lock-step traces (Corr/TcpTrace.v, Corr/C04.v).

   Vocabulary (Proofs/TcpWndP.v, TcpWndRcvP.v, TcpWndRcv2P.v, TcpWndThmP.v):
   [within_window una wnd f]: f carries no data, or f_seq precedes una+wnd and the distance from
     f_seq to una+wnd is at least the number of bytes f carries (its bytes end at or before the edge).
   [fast_rexmit_event t e]: e is a pure ACK (no data, SYN, FIN) whose scaled window equals the
     window already in force — the only kind of event on which the code retransmits through
     resendSegment (fast retransmit / NewReno partial ACK).
   [seq_of b off] = u32 (b + 1 + off): the sequence number of stream offset off for initial number b.
   [RInvAt b n a t]: the receiver invariant between events: rcvNxt = maxSentAck = seq_of b n,
     rcvAcc = seq_of b a, n <= a <= n + 2^30, 0 <= rcvWndScale <= 14, 0 <= rcvBufSize <= 2^30,
     rcvBufUsed = number of bytes in the delivery queue, a - n <= max 0 (rcvBufSize - rcvBufUsed),
     and the pending heap's accounting (sum of logical lengths <= pendUsed <= pendSize + 2^17,
     pendSize <= 2^28).  [ev_ok e]: an arriving segment carries at most 65535 bytes (IP limit).
   [edge s f] = f_ack + (f_wnd << s): the right edge f advertises.  [adv_edge t]: the edge the
     most recent segment advertised, read off the state (maxSentAck, rcvAcc).
   [monok s k last l]: along l, starting after edge [last], no edge lies more than k to the left of
     its predecessor (serial comparison: lessThan (edge + k) previous = false).
   [isReset f]: the RST|ACK with window 0 of resetConnection; after it the connection is dead
     (state error, nothing is ever emitted again: Proofs dead_run).

   clause "never sends a byte beyond the right edge of the window the peer has offered (after scaling)"
       -> C04_never_beyond_peer_window_sendData (FULL, all states, for everything the send loop
          emits: new data and ALL retransmissions after a retransmission time-out, which are
          re-split against the window in force),
          C04_never_beyond_peer_window_partial (all states, every event: every data frame lies
          within sndUna+sndWnd of the resulting state, except possibly the frame re-sent by
          resendSegment on a fast_rexmit_event),
          C04_never_beyond_peer_window_refuted (the clause as worded is FALSE for fast
          retransmissions after the peer shrank its window: reachable witness),
          C04_never_beyond_offered_edge_step / C04_never_beyond_offered_edge (under the sender
          invariant SInv, write side open: EVERY data frame, fast retransmissions included, ends
          at or before the HIGHEST right edge the peer has offered so far, starts at or after
          sndUna), C04_never_beyond_peer_window_noshrink (hence within the window in force
          whenever the event does not move the peer's right edge to the left),
          C04_window_scaling_applied_in (the window used is s_wnd << sndWndScale).
          FIN carries no data and is exempt, as in the code; histories containing a shutdown of
          the write side are covered by the first three theorems only.
   clause "nor a segment larger than the peer's MSS or the path MTU allows"
       -> C04_seg_within_mss (all states: len <= maxPayload for every frame of the send loop;
          maxPayload never changes in the model), C04_never_beyond_offered_edge_step (under SInv:
          len <= maxPayload for EVERY data frame, fast retransmissions included).
          maxPayload itself is computed by the handshake from the peer's MSS option and the route
          MTU minus headers/options (newSender, updateMaxPayloadSize) and may shrink on ICMP
          packet-too-big: OUTSIDE this model; the correspondence monitor checks every emitted
          segment against the MSS option and the MTU on every trace.
   clause "the right edge it advertises never moves left"
       -> C04_right_edge_monotone_partial (all histories: rcvNxt and rcvAcc offsets never decrease,
          every advertised edge <= rcvAcc, consecutive edges never move left by 2^scale or more),
          C04_right_edge_monotone_unscaled (scale 0: never moves left at all),
          C04_right_edge_monotone_refuted (scale > 0: FALSE as worded, the edge moves left by up
          to 2^scale - 1 through truncation: witness, also seen on the real code = known finding
          C04-edge-rounding).
   clause "in-order data inside the advertised window is accepted and delivered"
       -> C04_in_window_accepted_and_delivered (FULL)
   clause "data wholly outside it is never delivered"
       -> C04_outside_never_delivered, C04_outside_never_delivered_offsets (FULL, in that event; a
          segment parked in the pending heap is delivered later only when rcvNxt reaches it, where
          C01's rcv_delivers_prefix applies)
   clause "when the application stops reading the advertised window closes and reopens once it reads again"
       -> C04_advertised_window_step (FULL under the invariant: every frame's window << scale is
          at most the free buffer space left after the event, so it is 0 once rcvBufUsed >=
          rcvBufSize; also the exact window formula = clause "after window scaling" for the own
          window), C04_window_reopens (the read after which zeroReceiveWindow turns false sends a
          window update with a non-zero window iff the window advertised before was (.. >> scale) = 0).
   Satisfiability of the hypotheses: Examples ex_* in Proofs/TcpWndThmP.v (vm_compute), quoted below. *)
From Coq Require Import ZArith Bool List.
From RecordUpdate Require Import RecordSet.
From NP Require Import Model.Seqnum Model.Tcp Proofs.SeqnumP Proofs.TcpWndP Proofs.TcpWndRcvP Proofs.TcpWndRcv2P
  Proofs.TcpWndRcv3P Proofs.TcpWndThmP Proofs.TcpWndSndP Proofs.TcpWndSnd2P Proofs.TcpWndSnd3P.
Import ListNotations RecordSetNotations.
Open Scope Z_scope.

(* ---- clause 1: the peer's window ---- *)
(* everything sendData emits lies within the window in force — full *)
Theorem C04_never_beyond_peer_window_sendData : forall t idle, 0 <= maxPayload (SN t) ->
  exists l, out (sendData t idle) = out t ++ l /\
            Forall (within_window (sndUna (SN t)) (sndWnd (SN t))) l /\
            sndUna (SN (sendData t idle)) = sndUna (SN t) /\ sndWnd (SN (sendData t idle)) = sndWnd (SN t).
Proof. exact never_beyond_peer_window_sendData. Qed.
Print Assumptions C04_never_beyond_peer_window_sendData.

(* every event, every state: partial (exception = the resendSegment frame) *)
Theorem C04_never_beyond_peer_window_partial : forall t e, 0 <= maxPayload (SN t) ->
  let t' := fst (step t e) in
  Forall (fun f => within_window (sndUna (SN t')) (sndWnd (SN t')) f \/ fast_rexmit_event t e) (out t').
Proof. exact never_beyond_peer_window_partial. Qed.
Print Assumptions C04_never_beyond_peer_window_partial.

(* the clause as worded is false: a reachable state and an event whose fast retransmission ends
   beyond the (shrunk) window — refuted *)
Theorem C04_never_beyond_peer_window_refuted :
  exists t0 es e f,
    t0 = w1_init /\
    let t := run t0 es in let t' := fst (step t e) in
    In f (out t') /\ f_data f <> [] /\ fast_rexmit_event t e /\
    ~ within_window (sndUna (SN t')) (sndWnd (SN t')) f.
Proof. exact never_beyond_peer_window_refuted. Qed.
Print Assumptions C04_never_beyond_peer_window_refuted.

(* incoming windows are shifted by the negotiated scale before use — full *)
Theorem C04_window_scaling_applied_in : forall t sg r,
  0 <= maxPayload (SN t) ->
  estate t = stConnected -> has (s_flags sg) fRst = false -> has (s_flags sg) fAck = true ->
  (tsOk t && negb (s_ts sg)) = false ->
  let t' := fst (step t (ESeg sg r)) in
  sndWnd (SN t') = u32 (Z.shiftl (s_wnd sg) (sndWndScale (SN t))) /\ sndWndScale (SN t') = sndWndScale (SN t).
Proof. exact window_scaling_applied_in. Qed.
Print Assumptions C04_window_scaling_applied_in.

(* ---- clause 2: segment size ---- *)
Theorem C04_seg_within_mss : forall t e, 0 <= maxPayload (SN t) ->
  let t' := fst (step t e) in
  Forall (fun f => len (f_data f) <= maxPayload (SN t) \/ fast_rexmit_event t e) (out t') /\
  maxPayload (SN t') = maxPayload (SN t).
Proof. exact seg_within_mss. Qed.
Print Assumptions C04_seg_within_mss.

(* ---- clauses 1 and 2 for EVERY data frame, fast retransmissions included, while the write side is
   open (no FIN queued).  [SInv b E u m x t]: the sender invariant in stream offsets relative to
   b = iss: sndUna = seq_of b u, sndNxt = seq_of b x (x <= u + 2^30), the write list before writeNext
   is a contiguous chain of sent segments from u to m, each of at most maxPayload bytes and ending
   at or before E; from writeNext on: sent segments up to x (after a time-out), then at most one
   numbered unsent element at x, then unnumbered ones; 1 <= maxPayload <= 65535; sndWnd <= 2^30;
   u + sndWnd <= E <= u + 2^30 (E = highest right edge offered so far); in fast recovery
   u <= offset(frLast) < x.  [SFr b u E mp f]: f has no data, or f_seq = seq_of b o with
   u <= o, o + len <= E, len <= mp.  [ev_snd_ok]: ack field is a uint32, raw window <= 65535, and
   the event is not a shutdown of the write side. ---- *)
(* one event: every data frame lies in [sndUna', E') with E' = max E (sndUna' + sndWnd') — the
   highest right edge the peer has offered so far — and is at most maxPayload long — full under SInv *)
Theorem C04_never_beyond_offered_edge_step : forall b E u m x t e,
  SInv b E u m x t -> ev_snd_ok e ->
  let t' := fst (step t e) in
  exists u' m' x', u <= u' /\ x <= x' /\
    SInv b (Z.max E (u' + sndWnd (SN t'))) u' m' x' t' /\
    Forall (SFr b u' (Z.max E (u' + sndWnd (SN t'))) (maxPayload (SN t))) (out t') /\
    maxPayload (SN t') = maxPayload (SN t).
Proof. exact snd_step. Qed.
Print Assumptions C04_never_beyond_offered_edge_step.

Theorem C04_never_beyond_offered_edge : forall b es E u m x t,
  SInv b E u m x t -> Forall ev_snd_ok es ->
  exists E' u' m' x', E <= E' /\ u <= u' /\ SInv b E' u' m' x' (run t es) /\
    Forall (SFr b u E' (maxPayload (SN t))) (run_out t es) /\
    maxPayload (SN (run t es)) = maxPayload (SN t).
Proof. exact snd_run. Qed.
Print Assumptions C04_never_beyond_offered_edge.

(* if the event does not move the peer's right edge to the left, every data frame — new data,
   time-out retransmissions and fast retransmissions — lies within the window in force — partial
   (this is the hypothesis under which the clause as worded holds) *)
Theorem C04_never_beyond_peer_window_noshrink : forall b u m x t e,
  SInv b (u + sndWnd (SN t)) u m x t -> ev_snd_ok e ->
  let t' := fst (step t e) in
  lessThan (add (sndUna (SN t')) (sndWnd (SN t'))) (add (sndUna (SN t)) (sndWnd (SN t))) = false ->
  exists u' m' x', SInv b (u' + sndWnd (SN t')) u' m' x' t' /\
    Forall (within_window (sndUna (SN t')) (sndWnd (SN t'))) (out t') /\
    Forall (fun f => len (f_data f) <= maxPayload (SN t)) (out t').
Proof. exact snd_step_noshrink. Qed.
Print Assumptions C04_never_beyond_peer_window_noshrink.

(* ---- clauses 3, 4, 6: what one event advertises ---- *)
Theorem C04_advertised_window_step : forall b n a t e,
  RInvAt b n a t -> ev_ok e ->
  let s := rcvWndScale (RC t) in let t' := fst (step t e) in
  exists n' a' l r,
    n <= n' /\ a <= a' /\ RInvAt b n' a' t' /\ out t' = l ++ r /\
    (r = [] \/ exists f, r = [f] /\ isReset f /\ estate t' = stError) /\
    monok s (2^s - 1) (adv_edge t) l /\ last_edge s (adv_edge t) l = adv_edge t' /\
    Forall (fun f => exists nf af,
              f_ack f = seq_of b nf /\ f_wnd f = Z.min 65535 (Z.shiftr (af - nf) s) /\
              n <= nf <= af /\ a <= af <= a' /\
              Z.shiftl (f_wnd f) s <= Z.max 0 (rcvBufSize t' - rcvBufUsed t') /\
              (rcvBufSize t' <= rcvBufUsed t' -> f_wnd f = 0)) l.
Proof. exact advertised_window_step. Qed.
Print Assumptions C04_advertised_window_step.

(* ---- clause 4: histories ---- *)
Theorem C04_right_edge_monotone_partial : forall b es n a t,
  RInvAt b n a t -> Forall ev_ok es ->
  let s := rcvWndScale (RC t) in
  exists n' a' l r,
    n <= n' /\ a <= a' /\ RInvAt b n' a' (run t es) /\ run_out t es = l ++ r /\
    (r = [] \/ exists f, r = [f] /\ isReset f /\ estate (run t es) = stError) /\
    monok s (2^s - 1) (adv_edge t) l /\
    Forall (fun f => exists nf af, f_ack f = seq_of b nf /\ f_wnd f = Z.min 65535 (Z.shiftr (af - nf) s) /\
                                   n <= nf <= af /\ af <= a') l.
Proof. exact right_edge_monotone_partial. Qed.
Print Assumptions C04_right_edge_monotone_partial.

Theorem C04_right_edge_monotone_unscaled : forall b es n a t,
  RInvAt b n a t -> Forall ev_ok es -> rcvWndScale (RC t) = 0 ->
  exists l r, run_out t es = l ++ r /\
    (r = [] \/ exists f, r = [f] /\ isReset f /\ estate (run t es) = stError) /\
    monok 0 0 (adv_edge t) l.
Proof. exact right_edge_monotone_unscaled. Qed.
Print Assumptions C04_right_edge_monotone_unscaled.

(* with a window shift the edge does move left (by 12 here) — refuted *)
Theorem C04_right_edge_monotone_refuted :
  exists b n a t e f,
    t = w2_init /\ RInvAt b n a t /\ ev_ok e /\ out (fst (step t e)) = [f] /\
    lessThan (edge (rcvWndScale (RC t)) f) (adv_edge t) = true /\
    size (edge (rcvWndScale (RC t)) f) (adv_edge t) = 12.
Proof. exact right_edge_monotone_refuted. Qed.
Print Assumptions C04_right_edge_monotone_refuted.

(* ---- clause 5 ---- *)
Theorem C04_in_window_accepted_and_delivered : forall t sg r,
  estate t = stConnected -> has (s_flags sg) fRst = false -> has (s_flags sg) fAck = true ->
  (tsOk t && negb (s_ts sg)) = false ->
  rclosed (RC t) = false -> is_u32 (rcvNxt (RC t)) ->
  s_seq sg = rcvNxt (RC t) -> 0 < len (s_data sg) < 2^31 ->
  size (rcvNxt (RC t)) (rcvAcc (RC t)) <> 0 ->
  acceptable (RC t) (s_seq sg) (len (s_data sg)) = true /\
  exists rest, rcvList (fst (step t (ESeg sg r))) = rcvList t ++ [s_data sg] ++ rest.
Proof. exact in_window_accepted_and_delivered. Qed.
Print Assumptions C04_in_window_accepted_and_delivered.

Theorem C04_outside_never_delivered : forall t sg r,
  0 < len (s_data sg) ->
  acceptable (RC t) (s_seq sg) (len (s_data sg)) = false \/
  inWindow (rcvNxt (RC t)) (s_seq sg) (len (s_data sg)) = false ->
  rcvList (fst (step t (ESeg sg r))) = rcvList t.
Proof. exact outside_never_delivered. Qed.
Print Assumptions C04_outside_never_delivered.

Theorem C04_outside_never_delivered_offsets : forall b n a o t sg r,
  rcvNxt (RC t) = seq_of b n -> rcvAcc (RC t) = seq_of b a -> s_seq sg = seq_of b o ->
  0 < len (s_data sg) < 2^31 -> n <= a <= n + 2^30 -> - 2^30 <= o - n <= 2^30 ->
  (o + len (s_data sg) <= n \/ a <= o) ->
  rcvList (fst (step t (ESeg sg r))) = rcvList t.
Proof. exact outside_never_delivered_offsets. Qed.
Print Assumptions C04_outside_never_delivered_offsets.

(* ---- clause 6: reopening ---- *)
Theorem C04_window_reopens : forall b n a t v rest,
  RInvAt b n a t -> estate t = stConnected -> rcvList t = v :: rest -> rcvBufUsed t <> 0 ->
  let t1 := t <| rcvList := rest |> <| rcvBufUsed := rcvBufUsed t - len v |> in
  zeroReceiveWindow t = true -> zeroReceiveWindow t1 = false ->
  snd (fst (appRead t)) = Some v /\
  out (fst (fst (appRead t))) =
    out t ++ (if Z.shiftr (u32 (rcvAcc (RC t) - rcvNxt (RC t))) (rcvWndScale (RC t)) =? 0
              then [mkF (sndNxt (SN t)) (rcvNxt (RC t)) fAck
                        (adv_wnd (rcvNxt (RC t)) (newAcc t1) (rcvWndScale (RC t))) []]
              else []) /\
  0 < adv_wnd (rcvNxt (RC t)) (newAcc t1) (rcvWndScale (RC t)).
Proof. exact window_reopens. Qed.
Print Assumptions C04_window_reopens.

(* ---------------------------------------------------------------- what the handshake leaves behind
   (Proofs/TcpEstP.v): an active open answered by a SYN-ACK starts the connection with the SYN-ACK's
   window field taken as it is (the window of a SYN segment is never scaled, RFC 7323 2.2), the send
   scale the peer's option names (none: 0) and its own receive scale only if the peer sent the
   option.  The first snapshot of every lock-step trace is compared with active_established. *)
From NP Require Model.TcpHs Model.TcpEst Proofs.TcpEstP.

Theorem C04_handshake_window_state : forall iss irs peerWnd o stackSack rb sb linkMtu iphdr t,
  is_u32 iss ->
  TcpEst.active_established iss irs peerWnd o stackSack rb sb linkMtu iphdr = Some t ->
  cwnd (SN t) = 10 /\ outstanding (SN t) = 0 /\ tstate (SN t) = tDisabled /\ rto (SN t) = 1000000000 /\
  sndWnd (SN t) = peerWnd /\
  sndWndScale (SN t) = (if 0 <? TcpHs.so_ws o then TcpHs.so_ws o else 0) /\
  rcvWndScale (RC t) = (if TcpHs.so_ws o <? 0 then 0 else TcpHs.findWndScale rb) /\
  sndUna (SN t) = u32 (iss + 1) /\ sndNxt (SN t) = u32 (iss + 1) /\
  rcvNxt (RC t) = u32 (irs + 1).
Proof. exact TcpEstP.active_established_spec. Qed.
Print Assumptions C04_handshake_window_state.

Theorem C04_initial_mss_bound : forall mss mtu ts sack,
  1 <= mss ->
  1 <= TcpEst.initMaxPayload mss mtu ts sack /\
  (TcpEst.initMaxPayload mss mtu ts sack <= mss \/ TcpEst.initMaxPayload mss mtu ts sack = 1).
Proof. exact TcpEstP.initMaxPayload_bound. Qed.
Print Assumptions C04_initial_mss_bound.

(* the accepted side: the connection a listener hands out starts from the SYN's window field as it
   is, the SYN's scale option, and its own scale only if the SYN carried the option
   (compared with the accepted endpoint's first snapshot by the C03 check) *)
Theorem C04_passive_window_state : forall iss irs synWnd o stackSack lrcv sb mtu,
  let t := TcpEst.passive_established iss irs synWnd o stackSack lrcv sb mtu in
  sndWnd (SN t) = synWnd /\
  sndWndScale (SN t) = (if 0 <? TcpHs.so_ws o then TcpHs.so_ws o else 0) /\
  rcvWndScale (RC t) = (if TcpHs.so_ws o <? 0 then 0 else TcpHs.findWndScale lrcv) /\
  cwnd (SN t) = 10 /\ outstanding (SN t) = 0 /\ tstate (SN t) = tDisabled /\
  sndNxt (SN t) = u32 (iss + 1) /\ rcvNxt (RC t) = u32 (irs + 1).
Proof. exact TcpEstP.passive_established_spec. Qed.
Print Assumptions C04_passive_window_state.
