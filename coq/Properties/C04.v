(* C04: placeholder, theorems follow *)
From NP Require Import Model.Tcp.
