(* C13 — Echo requests are answered once, mirroring identifier, sequence and payload.

   "An ICMP (v4 or v6) echo request addressed to the stack is answered by at most one echo reply,
    sent to the requester from the address that was pinged, carrying the same identifier, sequence
    number and payload bytes and a valid checksum; while fewer than ten requests are pending every
    request is answered.  The stack never emits an echo reply that does not correspond to a
    request, and never answers a request addressed to someone else."

   Model: Model/Echo.v (ipv4/icmp.go handleICMP + echoRequests channel + echoReplier + sendPing4,
   ipv6/icmp.go handleICMP echo branch + icmpChecksum, the inbound path through nic.go /
   HandlePacket).  Lemmas: Proofs/EchoP.v.  Vocabulary (Model/Echo.v, Model/Checksum.v):
   [is_echo_request4/6 views]  the ICMP message (as a list of views) has the code's minimum of 6 / 8
                               bytes in its first view and type 8 / 128;
   [echo_body m]               the bytes of m behind the checksum field: identifier, sequence, data;
   [is_reply_to rq p]          p goes from rq's local (pinged) address to its remote address, is an
                               ICMP message of type 0 code 0 with echo_body = the request's, and its
                               RFC 1071 sum is 0xffff (the checksum verifies);
   [subseq a l]                a is l with some elements left out (order kept);
   [views_ok], [op_ok]         byte values in 0..255 and at most 65535 bytes (the Go types' range).

   Clause -> theorem
   mirrors id/seq/payload, valid checksum, from the pinged address to the requester (IPv4):
        C13_echo4_mirrors (full), C13_reply_route4 (full)
   at most one reply / never a reply without a request (IPv4, all histories):
        C13_echo4_at_most_one (full)
   while fewer than ten are pending every request is answered; beyond that dropped:
        C13_echo4_answered_when_room (full), C13_echo4_dropped_when_full (full)
   short messages / other types are ignored: C13_echo4_ignored, C13_echo6_ignored (full)
   IPv6: C13_echo6_mirrors (full: every request, every split of the message into views whose first
        view holds the 8-byte header, odd-length views included; the reply mirrors identifier,
        sequence number and data and its checksum passes the RFC 4443 pseudo-header verification),
        C13_echo6_odd_chunk_old_refuted (the fixed finding C13-echo6-odd-chunk: the code before
        /repo commit 1404d7f, which summed the echo data view by view, answered data in views of
        3 + 4 bytes with a checksum that does not verify; the repaired code's reply to the same
        input verifies), C13_reply_route6 (full)
   never answers a request addressed to someone else: C13_echo_foreign_ignored (full on the model
        of the NIC filter used here: exact-match endpoints, no promiscuous mode / subnets /
        forwarding; the general address filter is property C09)
   "every request": refuted for a request whose 8-byte ICMP header is not inside the first view
        handed up by the link endpoint: C13_echo_split_header_refuted (known finding
        C13-split-header); the positive theorems take the first-view condition as hypothesis
        ([is_echo_request4/6]).
   No Go panic on any input: part of C13_echo4_at_most_one (crashed = false) and C13_no_panic. *)
From Coq Require Import ZArith List Bool.
From NP Require Import Model.Bytes Model.Checksum Model.HdrIP Model.Echo Proofs.ChecksumP Proofs.EchoP.
Import ListNotations.
Open Scope Z_scope.

(* one request on an idle endpoint: exactly one packet, a correct reply, of the request's length *)
Theorem C13_echo4_mirrors : forall r views,
  views_ok views -> is_echo_request4 views = true ->
  exists p,
    run4 ep4_init [Arrive r views; Drain] = mkEp4 [] [p] false /\
    is_reply_to (mkReq r (echo_body (concat views))) p /\
    length (p_msg p) = length (concat views) /\
    echo4 views 0 = Ok (EReply (p_msg p)).
Proof. exact echo4_mirrors_l. Qed.
Print Assumptions C13_echo4_mirrors.

(* every history of arrivals (any ICMP message, any route) and replier iterations *)
Theorem C13_echo4_at_most_one : forall ops, Forall op_ok ops ->
  let s := run4 ep4_init ops in
  crashed s = false /\ (length (pending s) <= 10)%nat /\
  exists acc, subseq acc (requests ops) /\
              Forall2 is_reply_to (firstn (length (sent s)) acc) (sent s) /\
              pending s = skipn (length (sent s)) acc.
Proof. exact echo4_at_most_one_l. Qed.
Print Assumptions C13_echo4_at_most_one.

Theorem C13_echo4_answered_when_room : forall ops r views,
  Forall op_ok ops -> views_ok views -> is_echo_request4 views = true ->
  let s := run4 ep4_init ops in
  (length (pending s) < 10)%nat ->
  exists ps p,
    run4 s (Arrive r views :: repeat Drain (S (length (pending s)))) = mkEp4 [] (sent s ++ ps ++ [p]) false /\
    Forall2 is_reply_to (pending s) ps /\
    is_reply_to (mkReq r (echo_body (concat views))) p.
Proof. exact echo4_answered_when_room_l. Qed.
Print Assumptions C13_echo4_answered_when_room.

Theorem C13_echo4_dropped_when_full : forall s r views,
  is_echo_request4 views = true -> (10 <= length (pending s))%nat -> step4 s (Arrive r views) = s.
Proof. exact echo4_dropped_when_full_l. Qed.
Print Assumptions C13_echo4_dropped_when_full.

Theorem C13_echo4_ignored : forall s r views,
  (length (vv_first views) < 6)%nat \/ nth 0 (vv_first views) 0 <> 8 -> step4 s (Arrive r views) = s.
Proof. exact echo4_ignored_l. Qed.
Print Assumptions C13_echo4_ignored.

(* every IPv6 echo request, however the link endpoint split it into views (first view >= the 8 header
   bytes): one reply from the pinged address to the requester, type 129, code / identifier / sequence
   number / data copied, and a checksum that passes the RFC 4443 pseudo-header verification *)
Theorem C13_echo6_mirrors : forall r views,
  views_ok views -> bytes_ok (r_local r) -> bytes_ok (r_remote r) ->
  length (r_local r) = 16%nat -> length (r_remote r) = 16%nat ->
  is_echo_request6 views = true ->
  exists p, handleICMP6 r views = Some (A6Reply p) /\
    p_src p = r_local r /\ p_dst p = r_remote r /\ p_proto p = 58 /\
    length (p_msg p) = length (concat views) /\
    nth 0 (p_msg p) 0 = 129 /\ nth 1 (p_msg p) 0 = nth 1 (concat views) 0 /\
    echo_body (p_msg p) = echo_body (concat views) /\
    rfc1071_sum (pseudo6 (r_local r) (r_remote r) (Z.of_nat (length (p_msg p))) ++ p_msg p) 0 = 65535.
Proof. exact handleICMP6_echo. Qed.
Print Assumptions C13_echo6_mirrors.

(* [echo6_reply_old]: the echo branch with the icmpChecksum of before 1404d7f ([icmp6Checksum_old]) *)
Theorem C13_echo6_odd_chunk_old_refuted :
  exists r views p_old p,
    views_ok views /\ bytes_ok (r_local r) /\ bytes_ok (r_remote r) /\
    length (r_local r) = 16%nat /\ length (r_remote r) = 16%nat /\
    is_echo_request6 views = true /\ map (@length Z) (vv_trimFront views 8) = [3; 4]%nat /\
    echo6_reply_old r views = Some p_old /\
    nth 0 (p_msg p_old) 0 = 129 /\ echo_body (p_msg p_old) = echo_body (concat views) /\
    rfc1071_sum (pseudo6 (r_local r) (r_remote r) (Z.of_nat (length (p_msg p_old))) ++ p_msg p_old) 0 <> 65535 /\
    handleICMP6 r views = Some (A6Reply p) /\
    rfc1071_sum (pseudo6 (r_local r) (r_remote r) (Z.of_nat (length (p_msg p))) ++ p_msg p) 0 = 65535.
Proof. exact echo6_odd_chunk_old_refuted_l. Qed.
Print Assumptions C13_echo6_odd_chunk_old_refuted.

Theorem C13_echo6_ignored : forall r views,
  (length (vv_first views) < 8)%nat \/ nth 0 (vv_first views) 0 <> 128 -> echo6 r views = Ok EIgnored.
Proof. exact echo6_ignored_l. Qed.
Print Assumptions C13_echo6_ignored.

Theorem C13_echo_split_header_refuted :
  exists v4 v6 a b,
    views_ok v4 /\ (8 <= length (concat v4))%nat /\ nth 0 (concat v4) 0 = 8 /\ nth 1 (concat v4) 0 = 0 /\
    rfc1071_sum (concat v4) 0 = 65535 /\
    (forall s r, step4 s (Arrive r v4) = s) /\
    views_ok v6 /\ (8 <= length (concat v6))%nat /\ nth 0 (concat v6) 0 = 128 /\ nth 1 (concat v6) 0 = 0 /\
    length a = 16%nat /\ length b = 16%nat /\
    rfc1071_sum (pseudo6 b a (Z.of_nat (length (concat v6))) ++ concat v6) 0 = 65535 /\
    echo6 (mkRoute a b) v6 = Ok EIgnored.
Proof. exact echo_split_header_refuted_l. Qed.
Print Assumptions C13_echo_split_header_refuted.

(* the route a message reaches handleICMP with: local = the packet's destination (an address of
   the NIC), remote = the packet's source; replies go from local to remote (is_reply_to, p_src/p_dst) *)
Theorem C13_reply_route4 : forall owned views r v, nic4_deliver owned views = Some (NICMP r v) ->
  ipv4_destinationAddress (vv_first views) = Some (r_local r) /\
  ipv4_sourceAddress (vv_first views) = Some (r_remote r) /\ In (r_local r) owned.
Proof. exact nic4_route_l. Qed.
Print Assumptions C13_reply_route4.

Theorem C13_reply_route6 : forall owned views r v, nic6_deliver owned views = Some (NICMP r v) ->
  ipv6_destinationAddress (vv_first views) = Some (r_local r) /\
  ipv6_sourceAddress (vv_first views) = Some (r_remote r) /\ In (r_local r) owned.
Proof. exact nic6_route_l. Qed.
Print Assumptions C13_reply_route6.

Theorem C13_echo_foreign_ignored : forall owned views dst,
  ~ In dst owned ->
  (ipv4_destinationAddress (vv_first views) = Some dst -> nic4_deliver owned views = Some NDrop) /\
  (ipv6_destinationAddress (vv_first views) = Some dst -> nic6_deliver owned views = Some NDrop).
Proof. exact echo_foreign_ignored_l. Qed.
Print Assumptions C13_echo_foreign_ignored.

(* no out-of-range read or slice in either handleICMP, whatever arrives *)
Theorem C13_no_panic : forall r views, handleICMP4 views <> None /\ handleICMP6 r views <> None.
Proof. exact no_panic_l. Qed.
Print Assumptions C13_no_panic.
