(* C14 — Sequence-space arithmetic is correct modulo 2^32, wherever a connection starts.
   This file contains only the property theorems; each is closed by [exact] of a lemma from
   Proofs/SeqnumP.v and followed by Print Assumptions.  Model: Model/Seqnum.v. *)
From Coq Require Import ZArith Bool.
From NP Require Import Model.Seqnum Proofs.SeqnumP.
Open Scope Z_scope.

(* "a value is in [a,b) exactly when its distance from a is less than b's" — full *)
Theorem C14_inRange : forall v a b, inRange v a b = true <-> fdist a v < fdist a b.
Proof. exact inRange_spec. Qed.
Print Assumptions C14_inRange.

Theorem C14_inWindow : forall v f s, is_u32 s -> (inWindow v f s = true <-> fdist f v < s).
Proof. exact inWindow_spec. Qed.
Print Assumptions C14_inWindow.

(* "v precedes w exactly when the forward distance from v to w is between 1 and 2^31-1"
   — holds everywhere except at distance exactly 2^31 (partial), where the code says true in
   both directions (refuted: known finding C14-half). *)
Theorem C14_lessThan_partial : forall v w,
  fdist v w <> 2^31 -> (lessThan v w = true <-> 1 <= fdist v w <= 2^31 - 1).
Proof. exact lessThan_spec_partial. Qed.
Print Assumptions C14_lessThan_partial.

Theorem C14_lessThan_half_refuted :
  exists v w, is_u32 v /\ is_u32 w /\ lessThan v w = true /\ precedes_spec v w = false.
Proof. exact lessThan_half_refuted. Qed.
Print Assumptions C14_lessThan_half_refuted.

Theorem C14_lessThanEq : forall v w, is_u32 v -> is_u32 w -> fdist v w <> 2^31 ->
  (lessThanEq v w = true <-> fdist v w <= 2^31 - 1).
Proof. exact lessThanEq_spec. Qed.
Print Assumptions C14_lessThanEq.

(* "two windows overlap exactly when they share a sequence number" — for non-empty windows whose
   sizes sum to at most 2^31 (partial); refuted for an empty window (known finding C14-empty). *)
Theorem C14_overlap_partial : forall a b x y,
  1 <= b -> 1 <= y -> b + y <= 2^31 ->
  (overlap a b x y = true <->
   exists s, is_u32 s /\ inWindow s a b = true /\ inWindow s x y = true).
Proof. exact overlap_spec_partial. Qed.
Print Assumptions C14_overlap_partial.

Theorem C14_overlap_empty_refuted :
  exists a b x y, is_u32 a /\ is_u32 b /\ is_u32 x /\ is_u32 y /\
    overlap a b x y = true /\ ~ (exists s, inWindow s a b = true /\ inWindow s x y = true).
Proof. exact overlap_empty_refuted. Qed.
Print Assumptions C14_overlap_empty_refuted.

Theorem C14_add_size : forall v w, is_u32 w -> add v (size v w) = w.
Proof. exact add_size_inverse. Qed.
Print Assumptions C14_add_size.

(* "wherever a connection starts": for every initial sequence number, comparisons of sequence
   numbers of stream offsets less than 2^31 apart equal the integer comparison of the offsets *)
Theorem C14_order_iss_independent : forall iss o1 o2,
  - 2^31 < o2 - o1 < 2^31 -> lessThan (seq_of iss o1) (seq_of iss o2) = (o1 <? o2).
Proof. exact lessThan_offsets. Qed.
Print Assumptions C14_order_iss_independent.

Theorem C14_window_iss_independent : forall iss o f s,
  is_u32 s -> f - (2^32 - s) <= o < f + 2^32 ->
  inWindow (seq_of iss o) (seq_of iss f) s = (f <=? o) && (o <? f + s).
Proof. exact inWindow_offsets. Qed.
Print Assumptions C14_window_iss_independent.
