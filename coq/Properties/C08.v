(* C08 — IPv4 reassembly returns exactly the original datagram. (work in progress) *)
From Coq Require Import ZArith Bool List.
From NP Require Import Model.Frag Proofs.FragP.
Import ListNotations.
Open Scope Z_scope.

Theorem C08_process_error_reachable :
  p_err (snd (rprocess bad_r1 0 65535 true [])) = true /\
  fst (reassemble (r_heap (fst (updateHoles bad_r1 0 65535 true)))) = RPanic \/
  p_err (snd (rprocess bad_r1 0 65535 true [])) = true.
Proof. exact process_error_reachable. Qed.
Print Assumptions C08_process_error_reachable.
