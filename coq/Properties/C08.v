(* C08 — IPv4 reassembly returns exactly the original datagram.
   Model: Model/Frag.v (fragmentation/{fragmentation,reassembler,frag_heap}.go, container/heap as
   used there, hash.go, the fragment branch of ipv4.HandlePacket).  This file contains only the
   property theorems, each closed by [exact] of a lemma from Proofs/Frag*P.v.

   Clause of the property text                                   -> theorem
   "in any order, with duplicates and with overlaps that agree on content, the payload handed up
    is byte-for-byte the original datagram, and only once a complete set (including the last
    fragment) has been received"                                 -> C08_reassembly_exact (through
        Fragmentation.Process), C08_reassembly_exact_reassembler (reassembler.process alone),
        C08_reassemble_tie_independent (independence from the heap's tie order)
   "incomplete sets deliver nothing"                             -> C08_incomplete_returns_nothing,
        C08_returns_only_when_done (all inputs)
   "fragments of different datagrams are never mixed"            -> C08_ids_frame, C08_ids_local,
        C08_ids_isolated, C08_reassembly_exact_interleaved; key level: C08_key_respects_tuple,
        C08_key_range (the 32-bit key cannot be injective over the 72-bit tuple: documented limit)
   "fragments older than the reassembly timeout are not combined with newer ones"
                                                                 -> C08_timeout_discards,
        C08_timeout_separates
   memory accounting / eviction                                  -> C08_size_accounting,
        C08_eviction_reaches_low
   robustness for all inputs                                     -> C08_process_never_panics;
        C08_process_error_reachable documents the input on which the unrepaired code panicked
   call site in ipv4.HandlePacket                                -> C08_ipv4_frag_args,
        C08_ipv4_empty_fragment
   C08_example: the hypotheses are satisfiable by a non-trivial history.
   C08_monitor_coverage_test: the executable coverage test of the correspondence monitor
        (Corr/C08.v, coveredb) decides exactly the predicate [covers] of the theorems.

   "also delivered concurrently from several goroutines" (Model/FragConc.v: any number of
    goroutines inside Process at once, one scheduled step = one mutex-protected phase of one
    call, reassemblers are objects with identity; EVERY schedule, any calls)
                                                                 -> C08_concurrent_never_panics (no panic,
        no goroutine dies, map and list stay consistent, done <-> unlinked),
        C08_concurrent_old_refuted (the code before /repo commit 3ed1739 panics on a concrete
        two-goroutine schedule of the two-fragment datagram; the repaired code delivers it once),
        C08_concurrent_sequential_refinement (whole-call schedules = the sequential model),
        C08_concurrent_object_exact (per reassembler object: linearization of its r.process calls
        and done-mark; consistent fragments -> delivered exactly once, by the call that first
        completes the coverage in P2 order, byte for byte; every other call returns nothing),
        C08_concurrent_completed_returns_nothing (any arguments: a call on a completed-but-not-
        yet-released reassembler [RComp: the branch added by 3ed1739] or on a released one [r.done]
        returns nothing and changes nothing),
        C08_concurrent_return_is_p2 (Process returns what its r.process call returned),
        C08_concurrent_example (hypotheses satisfiable: a 3-goroutine schedule through the
        branch added by 3ed1739; FragConcSeqP.sequential_refinement_example for the refinement),
        C08_concurrent_size_drift_reachable (a documented limit outside the property text: f.size
        accounting is not an invariant under concurrency)

   Datagram sizes: the theorems hold for 1 <= |D| <= 65535, which includes the IPv4 maximum
   payload 65515.  time.Now() is the explicit [c_now] of each call.  The theorems above the
   "concurrent" block are about sequential calls; the only assumption about the Go runtime in the
   concurrent block is that sync.Mutex gives mutual exclusion (each phase atomic; see the header
   of Model/FragConc.v for why that granularity loses nothing). *)
From Coq Require Import ZArith Bool List Permutation.
From NP Require Import Model.Frag Model.FragConc Proofs.FragHeapP Proofs.FragReasmP Proofs.FragP Proofs.FragTopP Proofs.FragExactP
  Proofs.FragCoverP Proofs.FragConcP Proofs.FragConcSeqP.
Import ListNotations.
Open Scope Z_scope.

(* ---- exact reassembly *)
Theorem C08_reassembly_exact : forall D id f cs,
  1 <= zlen D <= 65535 ->
  FInv f -> lookup id (f_rs f) = None ->
  Forall (fun c => c_id c = id /\ frag_of D (frag_in c)) cs ->
  (forall c0, hd_error cs = Some c0 -> Forall (fun c => c_now c - c_now c0 <= f_timeout f) cs) ->
  f_size f + bytes_in cs <= f_high f ->
  forall k, (k < length cs)%nat ->
    (forall j, (j < k)%nat -> ~ covers (firstn (S j) (map frag_in cs)) (zlen D)) ->
    (covers (firstn (S k) (map frag_in cs)) (zlen D) -> nth k (snd (run f cs)) dout = (D, true, false)) /\
    (~ covers (firstn (S k) (map frag_in cs)) (zlen D) -> nth k (snd (run f cs)) dout = ([], false, false)).
Proof. exact reassembly_exact. Qed.
Print Assumptions C08_reassembly_exact.

(* the initial state of the theorem above is satisfiable by every fresh Fragmentation *)
Theorem C08_fresh_state_ok : forall high low timeout, FInv (newFragmentation high low timeout).
Proof. exact FInv_new. Qed.
Print Assumptions C08_fresh_state_ok.

Theorem C08_reassembly_exact_reassembler : forall D id now fs,
  1 <= zlen D <= 65535 -> Forall (frag_of D) fs ->
  forall k, (k < length fs)%nat ->
    (forall j, (j < k)%nat -> ~ covers (firstn (S j) fs) (zlen D)) ->
    let o := nth k (run_r (newReassembler id now) fs) dpres in
    p_panic o = false /\ p_err o = false /\
    (covers (firstn (S k) fs) (zlen D) -> p_done o = true /\ p_res o = D) /\
    (~ covers (firstn (S k) fs) (zlen D) -> p_done o = false /\ p_res o = []).
Proof. exact reassembly_exact_reassembler. Qed.
Print Assumptions C08_reassembly_exact_reassembler.

Theorem C08_reassemble_tie_independent : forall D, 1 <= zlen D <= 65535 ->
  forall h1 h2, Permutation h1 h2 -> heap_ok h1 (length h1) -> heap_ok h2 (length h2) ->
  Forall (slice_of D) h1 ->
  (forall x, 0 <= x < zlen D -> exists it, In it h1 /\ it_covers it x) ->
  reassemble h1 = reassemble h2.
Proof. exact reassemble_tie_independent. Qed.
Print Assumptions C08_reassemble_tie_independent.

Theorem C08_reassembly_exact_interleaved : forall D i high low timeout cs,
  1 <= zlen D <= 65535 ->
  Forall call_ok cs -> bytes_in cs <= high ->
  let ci := filter (on_id i) cs in
  Forall (fun c => frag_of D (frag_in c)) ci ->
  (forall c0, hd_error ci = Some c0 -> Forall (fun c => c_now c - c_now c0 <= timeout) ci) ->
  let outs := outs_of i cs (snd (run (newFragmentation high low timeout) cs)) in
  forall k, (k < length ci)%nat ->
    (forall j, (j < k)%nat -> ~ covers (firstn (S j) (map frag_in ci)) (zlen D)) ->
    (covers (firstn (S k) (map frag_in ci)) (zlen D) -> nth k outs dout = (D, true, false)) /\
    (~ covers (firstn (S k) (map frag_in ci)) (zlen D) -> nth k outs dout = ([], false, false)).
Proof. exact reassembly_exact_interleaved. Qed.
Print Assumptions C08_reassembly_exact_interleaved.

(* ---- incomplete sets *)
Theorem C08_incomplete_returns_nothing : forall D id f cs,
  1 <= zlen D <= 65535 ->
  FInv f -> lookup id (f_rs f) = None ->
  Forall (fun c => c_id c = id /\ frag_of D (frag_in c)) cs ->
  (forall c0, hd_error cs = Some c0 -> Forall (fun c => c_now c - c_now c0 <= f_timeout f) cs) ->
  f_size f + bytes_in cs <= f_high f ->
  ~ covers (map frag_in cs) (zlen D) ->
  forall k, (k < length cs)%nat -> nth k (snd (run f cs)) dout = ([], false, false).
Proof. exact incomplete_returns_nothing. Qed.
Print Assumptions C08_incomplete_returns_nothing.

Theorem C08_returns_only_when_done : forall high low timeout cs, Forall call_ok cs ->
  Forall only_when_done (snd (run (newFragmentation high low timeout) cs)).
Proof. exact returns_only_when_done. Qed.
Print Assumptions C08_returns_only_when_done.

(* ---- isolation of ids (no eviction: the memory limit is not reached) *)
Theorem C08_ids_frame : forall f c f' out j, FInv f -> call_ok c -> step f c = (f', out) ->
  f_size f + zlen (c_pl c) <= f_high f -> j <> c_id c ->
  lookup j (f_rs f') = lookup j (f_rs f).
Proof. exact ids_frame. Qed.
Print Assumptions C08_ids_frame.

Theorem C08_ids_local : forall f g c f' g' out out', FInv f -> FInv g -> call_ok c ->
  lookup (c_id c) (f_rs f) = lookup (c_id c) (f_rs g) -> f_timeout f = f_timeout g ->
  f_size f + zlen (c_pl c) <= f_high f -> f_size g + zlen (c_pl c) <= f_high g ->
  step f c = (f', out) -> step g c = (g', out') ->
  out = out' /\ lookup (c_id c) (f_rs f') = lookup (c_id c) (f_rs g').
Proof. exact ids_local. Qed.
Print Assumptions C08_ids_local.

Theorem C08_ids_isolated : forall i high low timeout cs, Forall call_ok cs -> bytes_in cs <= high ->
  outs_of i cs (snd (run (newFragmentation high low timeout) cs)) =
  snd (run (newFragmentation high low timeout) (filter (on_id i) cs)).
Proof. exact ids_isolated. Qed.
Print Assumptions C08_ids_isolated.

Theorem C08_key_respects_tuple : forall iv h1 h2,
  (forall i, In i [4; 5; 9; 12; 13; 14; 15; 16; 17; 18; 19]%nat -> byte_at h1 i = byte_at h2 i) ->
  ipv4FragmentHash iv h1 = ipv4FragmentHash iv h2.
Proof. exact key_respects_tuple. Qed.
Print Assumptions C08_key_respects_tuple.

Theorem C08_key_range : forall iv h, 0 <= ipv4FragmentHash iv h < 2^32.
Proof. exact key_range. Qed.
Print Assumptions C08_key_range.

(* ---- timeouts *)
Theorem C08_timeout_discards : forall f c r0 f' out, FInv f -> call_ok c ->
  lookup (c_id c) (f_rs f) = Some r0 -> f_timeout f < c_now c - r_ctime r0 ->
  step f c = (f', out) ->
  out = conv (snd (rprocess (newReassembler (c_id c) (c_now c)) (c_first c) (c_last c) (c_more c) (c_pl c))).
Proof. exact timeout_discards. Qed.
Print Assumptions C08_timeout_discards.

Theorem C08_timeout_separates : forall high low timeout cs c, 0 <= timeout ->
  Forall call_ok cs -> call_ok c ->
  let f := fst (run (newFragmentation high low timeout) cs) in
  forall f' res done p, step f c = (f', (res, done, p)) -> done = true ->
  exists t0 H, fst (reassemble H) = ROk res /\
    created_by (cs ++ [c]) (c_id c) t0 /\
    forall it, In it H -> from_hist (cs ++ [c]) (c_id c) t0 timeout it.
Proof. exact timeout_separates. Qed.
Print Assumptions C08_timeout_separates.

(* ---- memory accounting *)
Theorem C08_size_accounting : forall high low timeout cs, Forall call_ok cs ->
  let f := fst (run (newFragmentation high low timeout) cs) in
  f_size f = sum_sizes (f_rs f) /\ f_size f = stored_bytes (f_rs f) /\ 0 <= f_size f /\
  NoDup (map r_id (f_rs f)) /\
  (cs <> [] -> f_size f <= f_high f \/ f_size f <= f_low f \/ f_rs f = []).
Proof. exact size_accounting. Qed.
Print Assumptions C08_size_accounting.

Theorem C08_eviction_reaches_low : forall f, FInv f ->
  let f' := evict_loop f (rev (f_rs f)) in
  FInv f' /\ (f_size f' <= f_low f' \/ f_rs f' = []).
Proof. exact eviction_reaches_low. Qed.
Print Assumptions C08_eviction_reaches_low.

(* ---- robustness *)
Theorem C08_process_never_panics : forall high low timeout cs, Forall call_ok cs ->
  Forall no_panic (snd (run (newFragmentation high low timeout) cs)).
Proof. exact process_never_panics. Qed.
Print Assumptions C08_process_never_panics.

Theorem C08_process_error_reachable :
  r_deleted bad_r2 = Z.of_nat (length (r_holes bad_r2)) /\
  fst (reassemble (heap_push (r_heap bad_r2) (mkFrag 0 []))) = RErr /\
  p_err (snd (rprocess bad_r1 0 65535 true [])) = true /\
  snd (fprocess (fst (fprocess (newFragmentation 100 50 10) 0 8 7 true [] 0)) 0 0 65535 true [] 0) = ([], false, false).
Proof. exact process_error_reachable. Qed.
Print Assumptions C08_process_error_reachable.

(* ---- the call site *)
Theorem C08_ipv4_frag_args : forall D fo len,
  zlen D <= 65535 -> 0 <= fo -> fo mod 8 = 0 -> 1 <= len -> fo + len <= zlen D ->
  let pl := slice D fo len in
  let more := fo + len <? zlen D in
  (more = true \/ fo <> 0) ->
  ipv4_frag_args fo more pl = Some (fo, fo + len - 1, more, pl) /\
  frag_of D (mkIn fo (fo + len - 1) more pl).
Proof. exact ipv4_frag_args_spec. Qed.
Print Assumptions C08_ipv4_frag_args.

Theorem C08_ipv4_empty_fragment : ipv4_frag_args 8 true [] = Some (8, 7, true, []).
Proof. exact ipv4_empty_fragment. Qed.
Print Assumptions C08_ipv4_empty_fragment.

(* ---- non-vacuity *)
Theorem C08_example :
  1 <= zlen exD <= 65535 /\
  Forall call_ok exCalls /\ bytes_in exCalls <= 100 /\
  Forall (fun c => frag_of exD (frag_in c)) (filter (on_id 7) exCalls) /\
  Forall (fun c => c_now c - 0 <= 10) (filter (on_id 7) exCalls) /\
  ~ covers (firstn 3 (map frag_in (filter (on_id 7) exCalls))) (zlen exD) /\
  covers (map frag_in (filter (on_id 7) exCalls)) (zlen exD) /\
  snd (run (newFragmentation 100 50 10) exCalls) =
    [([], false, false); ([], false, false); ([], false, false); ([], false, false); (exD, true, false)].
Proof. exact reassembly_example. Qed.
Print Assumptions C08_example.

(* ---- the monitor's coverage test is the theorems' predicate *)
Theorem C08_monitor_coverage_test : forall fs n,
  coveredb (map (fun f => (i_first f, i_last f)) fs) n = true <-> covers fs n.
Proof. exact coveredb_covers. Qed.
Print Assumptions C08_monitor_coverage_test.

(* ---- concurrent delivery (Model/FragConc.v) *)
Theorem C08_concurrent_never_panics : forall high low timeout progs sched,
  let cf := crun0 high low timeout progs sched in
  let s := cf_s cf in
  panics (trace s) = [] /\
  Forall (fun th => t_pc th <> PCdead) (cf_thr cf) /\
  c_fault s = false /\
  NoDup (c_list s) /\
  (forall id o, mlookup id (c_map s) = Some o <-> In o (c_list s) /\ r_id (getobj s o) = id) /\
  (forall o, (o < length (c_objs s))%nat -> (r_done (getobj s o) = false <-> In o (c_list s))).
Proof. exact concurrent_never_panics. Qed.
Print Assumptions C08_concurrent_never_panics.

Theorem C08_concurrent_old_refuted :
  length raceProgs = 2%nat /\
  panics (trace (cf_s (crun0_old 1000 500 10 raceProgs raceSched))) = [1%nat] /\
  rets (trace (cf_s (crun0 1000 500 10 raceProgs (raceSched ++ [0; 1]%nat)))) =
    [(0%nat, ([], false, false)); (0%nat, (raceD, true, false)); (1%nat, ([], false, false))].
Proof. exact concurrent_old_refuted. Qed.
Print Assumptions C08_concurrent_old_refuted.

Theorem C08_concurrent_sequential_refinement : forall high low timeout progs bs,
  let cf := crun0 high low timeout progs (blocks bs) in
  let ser := serialize progs bs in
  let fo := run (newFragmentation high low timeout) (map snd ser) in
  cabs (cf_s cf) = fst fo /\
  rets (trace (cf_s cf)) = combine (map fst ser) (snd fo) /\
  length (snd fo) = length ser /\
  Forall (fun th => t_pc th = PC1) (cf_thr cf).
Proof. exact concurrent_sequential_refinement. Qed.
Print Assumptions C08_concurrent_sequential_refinement.

Theorem C08_concurrent_object_exact : forall D high low timeout progs sched o,
  1 <= zlen D <= 65535 ->
  let s := cf_s (crun0 high low timeout progs sched) in
  let h := ohist o (trace s) in
  Forall (frag_of D) (hfrags h) ->
  ((o < length (c_objs s))%nat -> replay (creation (getobj s o)) h = (getobj s o, houts h)) /\
  (forall pre fin out post, h = pre ++ HP2 fin out :: post ->
     let seen := hfrags pre in
     p_panic out = false /\ p_err out = false /\
     (p_done out = false -> p_res out = []) /\
     (p_done out = true -> p_res out = D /\ covers (seen ++ [fin]) (zlen D) /\ ~ covers seen (zlen D)) /\
     (covers (seen ++ [fin]) (zlen D) -> ~ covers seen (zlen D) -> ~ In HMark pre ->
        p_done out = true /\ p_res out = D)) /\
  (forall pre1 f1 o1 post1 pre2 f2 o2 post2,
     h = pre1 ++ HP2 f1 o1 :: post1 -> h = pre2 ++ HP2 f2 o2 :: post2 ->
     p_done o1 = true -> p_done o2 = true -> pre1 = pre2).
Proof. exact concurrent_object_exact. Qed.
Print Assumptions C08_concurrent_object_exact.

Theorem C08_concurrent_completed_returns_nothing : forall r first last more pl,
  RComp r \/ r_done r = true ->
  rprocess r first last more pl = (r, mkPres [] false 0 false false).
Proof. exact rprocess_completed_or_done. Qed.
Print Assumptions C08_concurrent_completed_returns_nothing.

Theorem C08_concurrent_return_is_p2 : forall high low timeout progs sched pre t res done post,
  trace (cf_s (crun0 high low timeout progs sched)) = pre ++ EvRet t res done :: post ->
  exists o fin out, last_p2 t (rev pre) = Some (o, fin, out) /\ res = p_res out /\ done = p_done out.
Proof. exact concurrent_return_is_p2. Qed.
Print Assumptions C08_concurrent_return_is_p2.

Theorem C08_concurrent_example :
  let s := cf_s (crun0 1000 500 10 exProgs3 exSched3) in
  1 <= zlen raceD <= 65535 /\
  ohist 0 (trace s) =
    [HP2 (frag_in raceA) (mkPres [] false 8 false false);
     HP2 (frag_in raceB) (mkPres raceD true 8 false false);
     HP2 (frag_in raceB) nothing;
     HMark] /\
  Forall (frag_of raceD) (hfrags (ohist 0 (trace s))) /\
  ~ covers [frag_in raceA] (zlen raceD) /\
  covers [frag_in raceA; frag_in raceB] (zlen raceD) /\
  rets (trace s) = [(0%nat, ([], false, false)); (1%nat, (raceD, true, false)); (2%nat, ([], false, false))] /\
  c_list s = [] /\ c_size s = 0 /\ length (c_objs s) = 1%nat.
Proof. exact concurrent_example. Qed.
Print Assumptions C08_concurrent_example.

(* documents a limit (not a clause of the property): f.size accounting is not an invariant of
   concurrent executions; see the comment in Proofs/FragConcP.v *)
Theorem C08_concurrent_size_drift_reachable :
  let s := cf_s (crun0 1000 500 10 driftProgs [0; 0; 1; 0; 1; 1]%nat) in
  c_size s = 16 /\ map (fun o => r_size (getobj s o)) (c_list s) = [8] /\ panics (trace s) = [].
Proof. exact concurrent_size_drift_reachable. Qed.
Print Assumptions C08_concurrent_size_drift_reachable.
