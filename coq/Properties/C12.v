(* C12 — Neighbour resolution: correct ARP answers, learning, waiting and failure; the link-address
   cache.  Only the property theorems; each is closed by [exact] of a lemma from Proofs/ArpP.v or
   Proofs/LinkCacheP.v and followed by Print Assumptions.
   Models: Model/Arp.v (header/arp.go, network/arp/arp.go, the front of nic.DeliverNetworkPacket),
   Model/LinkCache.v (stack/linkaddrcache.go).

   Clause map (property text -> theorem)
   "answers an ARP request iff the target is one of its own addresses"   C12_arp_reply_iff_target_local
   "with its own link address, addressed to the requester"               C12_arp_reply_fields, C12_arp_reply_readback
   "learns the sender's mapping from replies and from requests addressed to it"
                                                                         C12_arp_learns, C12_arp_learns_what
   malformed / short / foreign packets are ignored, never a panic        C12_arp_ignored, C12_arp_never_panics,
                                                                         C12_nic_deliver_never_panics
   "a request is broadcast" (format of our own request; a peer answers it) C12_arp_request_wf, C12_arp_round_trip
   "a cached entry is never reported for a different address or after it has expired"
                                                                         C12_cache_get_sound (all histories, all ring sizes)
   "a request is ... repeated ... fails with a no-link-address error after the retry budget
    (3 attempts, about 3 s)"                                             C12_resolver_budget_upper (any interference),
                                                                         C12_resolution_budget (no reply: exact times, failure,
                                                                         every waiter notified exactly once, then and not before),
                                                                         C12_resolution_budget_stack (3 requests 1 s apart, 3 s)
   "the waiting operation then proceeds using the learned address"       C12_resolution_completes_on_add
   no history reaches a panic branch (changeState, nil waker map)        C12_cache_never_panics, C12_changeState_panics_iff
   Not stated as theorems (covered by the scenario runs of the driver only): "traffic ... is not put
   on the wire before resolution completes" for the TCP/UDP callers; the IPv6 neighbour discovery
   handlers. *)
From Coq Require Import ZArith Bool List.
From NP Require Import Model.Bytes Model.Arp Proofs.ArpP Model.LinkCache Proofs.LinkCacheP.
Import ListNotations.
Open Scope Z_scope.

Theorem C12_arp_reply_iff_target_local : forall L myMAC srcMAC p, bytes_ok p ->
  ((exists r l, arp_handle L myMAC srcMAC p = Done (Some r) l) <->
   (is_request p /\ In (target_ip p) L)).
Proof. exact arp_reply_iff_target_local. Qed.
Print Assumptions C12_arp_reply_iff_target_local.

Theorem C12_arp_reply_fields : forall L myMAC srcMAC p pkt dst l,
  arp_handle L myMAC srcMAC p = Done (Some (pkt, dst)) l ->
  pkt = expected_reply myMAC p /\ dst = srcMAC /\ l = Some (sender_ip p, sender_mac p).
Proof. exact arp_reply_fields. Qed.
Print Assumptions C12_arp_reply_fields.

Theorem C12_arp_reply_readback : forall myMAC p, length myMAC = 6%nat -> (28 <= length p)%nat ->
  let r := expected_reply myMAC p in
  length r = 28%nat /\ is_reply r /\
  sender_mac r = myMAC /\ sender_ip r = target_ip p /\
  target_mac r = sender_mac p /\ target_ip r = sender_ip p.
Proof. exact expected_reply_fields. Qed.
Print Assumptions C12_arp_reply_readback.

Theorem C12_arp_learns : forall L myMAC srcMAC p, bytes_ok p ->
  ((exists r a, arp_handle L myMAC srcMAC p = Done r (Some a)) <->
   (is_reply p \/ (is_request p /\ In (target_ip p) L))).
Proof. exact arp_learns. Qed.
Print Assumptions C12_arp_learns.

Theorem C12_arp_learns_what : forall L myMAC srcMAC p r a,
  arp_handle L myMAC srcMAC p = Done r (Some a) -> a = (sender_ip p, sender_mac p).
Proof. exact arp_learns_what. Qed.
Print Assumptions C12_arp_learns_what.

Theorem C12_arp_ignored : forall L myMAC srcMAC p, bytes_ok p ->
  ~ is_reply p -> ~ (is_request p /\ In (target_ip p) L) ->
  arp_handle L myMAC srcMAC p = Done None None.
Proof. exact arp_ignored. Qed.
Print Assumptions C12_arp_ignored.

Theorem C12_arp_never_panics : forall L myMAC srcMAC p, arp_handle L myMAC srcMAC p <> Panic.
Proof. exact arp_never_panics. Qed.
Print Assumptions C12_arp_never_panics.

Theorem C12_nic_deliver_never_panics : forall en L myMAC srcMAC p,
  nic_deliver_arp en L myMAC srcMAC p <> Panic.
Proof. exact nic_deliver_never_panics. Qed.
Print Assumptions C12_nic_deliver_never_panics.

Theorem C12_arp_request_wf : forall addr localAddr myMAC,
  length myMAC = 6%nat -> length localAddr = 4%nat -> length addr = 4%nat ->
  exists h, link_address_request addr localAddr myMAC = Some (h, [255; 255; 255; 255; 255; 255]) /\
    h = [0; 1; 8; 0; 6; 4; 0; 1] ++ myMAC ++ localAddr ++ [0; 0; 0; 0; 0; 0] ++ addr /\
    is_request h /\ sender_mac h = myMAC /\ sender_ip h = localAddr /\ target_ip h = addr.
Proof. exact arp_request_wf. Qed.
Print Assumptions C12_arp_request_wf.

Theorem C12_arp_round_trip : forall addr localAddr myMAC peerMAC h,
  length myMAC = 6%nat -> length localAddr = 4%nat -> length addr = 4%nat -> length peerMAC = 6%nat ->
  bytes_ok myMAC -> bytes_ok localAddr -> bytes_ok addr -> bytes_ok peerMAC ->
  link_address_request addr localAddr myMAC = Some (h, broadcastMAC) ->
  exists rep,
    arp_handle [addr] peerMAC myMAC h = Done (Some (rep, myMAC)) (Some (localAddr, myMAC)) /\
    arp_handle [localAddr] myMAC peerMAC rep = Done None (Some (addr, peerMAC)).
Proof. exact arp_round_trip. Qed.
Print Assumptions C12_arp_round_trip.

(* ------------------------------------------------------------------ the link-address cache *)

(* every history of add / get / checkLinkRequest / removeWaker, at any times, for any ring size,
   age limit and attempt budget, runs to completion: no panic branch is reachable *)
Theorem C12_cache_never_panics : forall P ops, exists c outs, exec P init ops = Some (c, outs).
Proof. exact cache_never_panics. Qed.
Print Assumptions C12_cache_never_panics.

(* the panic branches of changeState are exactly the transitions out of ready/failed to anything
   but expired and out of expired (so the theorem above says those are never attempted) *)
Theorem C12_changeState_panics_iff : forall e ns, changeState e ns = None <-> ~ legal (e_s e) ns.
Proof. exact changeState_panics_iff. Qed.
Print Assumptions C12_changeState_panics_iff.

Theorem C12_cache_get_sound : forall P t0 h c outs now k res w c' v evs,
  mono t0 (h ++ [OGet now k res w]) ->
  exec P init h = Some (c, outs) ->
  get P c now k res w = Some (c', GAddr v, evs) ->
  no_static res ->
  exists h1 t h2, h = h1 ++ OAdd t k v :: h2 /\
    (forall t' v', In (OAdd t' k v') h2 -> v' = v) /\ now <= t + p_age P.
Proof. exact cache_get_sound. Qed.
Print Assumptions C12_cache_get_sound.

Theorem C12_resolver_budget_upper : forall P T k envs c t att c' reqs fin outs,
  att < p_attempts P ->
  res_run P T k c t att envs = Some (c', reqs, fin, outs) ->
  att + 1 + Z.of_nat (length reqs) <= p_attempts P /\ reqs = req_times t T (length reqs).
Proof. exact resolver_budget_upper. Qed.
Print Assumptions C12_resolver_budget_upper.

Theorem C12_resolution_budget : forall P T k c0 t0 w c1 ch evs0 envs,
  Inv c0 -> (0 < p_N P)%nat -> 0 <= T ->
  get P c0 t0 k (Some None) w = Some (c1, GBlock (Some ch) true, evs0) ->
  Z.of_nat (length envs) = p_attempts P -> envs <> [] ->
  p_attempts P * T <= p_age P ->
  (length (concat envs) < p_N P)%nat ->
  Forall (fun o => calm k o /\ time_of o <= t0 + p_age P) (concat envs) ->
  exists c2 outs wsf c3,
    res_run P T k c1 t0 0 envs =
      Some (c2, req_times t0 T (length envs - 1), Some (t0 + p_attempts P * T),
            outs ++ [(RCheck true, map (Notify (Some ch)) wsf ++ [Close ch])]) /\
    wsf = fold_left (ws_step k) (concat envs) [w] /\ NoDup wsf /\
    outs_quiet ch outs /\
    get P c2 (t0 + p_attempts P * T) k None w = Some (c3, GNoLink, []).
Proof. exact resolution_budget. Qed.
Print Assumptions C12_resolution_budget.

(* [Inv] holds of every reachable cache (so the hypothesis above is satisfiable from [init]) *)
Theorem C12_inv_reachable : forall P ops c, Inv c ->
  exists c' outs, exec P c ops = Some (c', outs) /\ Inv c'.
Proof. exact exec_total. Qed.
Print Assumptions C12_inv_reachable.

Theorem C12_resolution_budget_stack : forall k c0 t0 w c1 ch evs0 env0 env1 env2,
  Inv c0 ->
  get stackParams c0 t0 k (Some None) w = Some (c1, GBlock (Some ch) true, evs0) ->
  (length (env0 ++ env1 ++ env2) < 512)%nat ->
  Forall (fun o => calm k o /\ time_of o <= t0 + 60000000000) (env0 ++ env1 ++ env2) ->
  exists c2 outs wsf c3,
    res_run stackParams stackTimeout k c1 t0 0 [env0; env1; env2] =
      Some (c2, [t0 + 1000000000; t0 + 2000000000], Some (t0 + 3000000000),
            outs ++ [(RCheck true, map (Notify (Some ch)) wsf ++ [Close ch])]) /\
    NoDup wsf /\ outs_quiet ch outs /\
    get stackParams c2 (t0 + 3000000000) k None w = Some (c3, GNoLink, []).
Proof. exact resolution_budget_stack. Qed.
Print Assumptions C12_resolution_budget_stack.

Theorem C12_resolution_completes_on_add : forall P c k i ch t0 ws now v,
  Inv c -> waiting P c k i ch t0 ws -> now <= t0 + p_age P -> v <> 0 ->
  exists c', add P c now k v = Some (c', map (Notify (Some ch)) ws ++ [Close ch]) /\
    (forall now' res w', now' <= t0 + p_age P -> no_static res ->
       exists c'', get P c' now' k res w' = Some (c'', GAddr v, [])) /\
    (forall now' att, now' <= t0 + p_age P ->
       exists c'', checkLinkRequest P c' now' k att = Some (c'', true, [])).
Proof. exact resolution_completes_on_add_get. Qed.
Print Assumptions C12_resolution_completes_on_add.

(* ================================================================== IPv6 neighbour discovery
   Model: Model/Ndp.v (ipv6/icmp.go handleICMP: ICMPv6NeighborSolicit / ICMPv6NeighborAdvert branches,
   LinkAddressRequest, ResolveStaticAddress; header/ipv6.go SolicitedNodeAddr) on top of Model/Echo.v
   (NIC.DeliverNetworkPacket + ipv6 HandlePacket = nic6_deliver, icmpChecksum, ipv6 WritePacket).
   Lemmas: Proofs/NdpP.v.  [views] is the ICMPv6 message as handleICMP gets it (a VectorisedView; the
   code reads its first view only), [r] the route of the packet: local = IPv6 destination, remote =
   IPv6 source, localLink = the link endpoint's address, remoteLink = link-layer source of the frame.

   Clause map (property text, read for "IPv6 neighbour solicitation" -> theorem)
   "answers a neighbour solicitation iff the target is one of its own addresses"
        handler, exactly what the code tests (>= 24 bytes in the first view, type 135, target has an
        endpoint on the NIC)                                      C12_ndp_advert_iff_target_local   (full, handler level)
        whole inbound path: only if destination and target are NIC addresses
                                                                  C12_ndp_deliver_answer_iff (in terms of the NIC filter),
                                                                  C12_ndp_deliver_answer_partial    (partial)
                                                                  C12_ndp_foreign_destination_silent
        NOT answered when sent, as RFC 4861 prescribes, to the solicited-node multicast address of an own
        address that the application did not add to the NIC       C12_ndp_answers_iff_target_own_refuted
        (this is the theorem behind the known finding C12-ndp-solicited-node-not-joined)
        deviations from RFC 4861, NOT from the property text:
        answered for a target that is a multicast group the NIC holds, advertisement sourced from the
        group address                                             C12_ndp_multicast_target_refuted
        answered without any RFC 4861 7.1.1 validity check (hop limit, code, checksum)
                                                                  C12_ndp_validity_checks_refuted
   "with its own link address, addressed to the requester"        C12_ndp_advert_fields, C12_ndp_advert_readback,
        checksum verifies against the RFC 2460 pseudo-header      C12_ndp_advert_checksum,
        the IPv6 header around it                                 C12_ndp_frame
        (RFC 4861 deviation, not of the property text) a probe from the unspecified address is answered
        TO the unspecified address and recorded
                                                                  C12_ndp_unspecified_source_refuted
   "learns the sender's mapping from replies and from requests addressed to it", and nothing else
                                                                  C12_ndp_learns_from_advert, C12_ndp_learns_iff,
                                                                  C12_ndp_ignored
        the mapping is (address, link-layer source of the frame), as the property text has it; the
        link-layer address OPTIONS are never read (RFC 4861 deviation, not of the property text)
                                                                  C12_ndp_learns_stated_address_refuted
   never a panic on any input                                     C12_ndp_handle_never_panics, C12_ndp_deliver_never_panics
   "a request is broadcast" (our own solicitation: solicited-node multicast destination, source
   link-layer option, checksum; Ethernet destination ff:ff:ff:ff:ff:ff, not 33:33:ff:xx:xx:xx)
                                                                  C12_ndp_request_wf, C12_ndp_request_link_destination,
                                                                  C12_ndp_request_eth_multicast_refuted
        LinkAddressRequest panics on addresses shorter than 3 / longer than 24 bytes (never passed by
        the IPv6 callers, reachable through the exported Stack.GetLinkAddress)
                                                                  C12_ndp_request_panics_short, C12_ndp_request_panics_long
   satisfiability of the hypotheses: Examples nd_example, nd_round_trip_example in Proofs/NdpP.v *)
From NP Require Import Model.Checksum Model.HdrIP Model.Echo Model.Ndp Proofs.NdpP.

Theorem C12_ndp_advert_iff_target_local : forall locals r views,
  (exists p l, nd_handle locals r views = NdDone (Some p) l) <->
  (nd_is_solicit (vv_first views) /\ In (nd_target (vv_first views)) locals).
Proof. exact nd_advert_iff_target_local. Qed.
Print Assumptions C12_ndp_advert_iff_target_local.

Theorem C12_ndp_advert_fields : forall locals r views p l,
  nd_handle locals r views = NdDone (Some p) l ->
  let v := vv_first views in
  np_src p = nd_target v /\ np_dst p = nr_remote r /\ np_hop p = 255 /\
  np_linkdst p = nr_remoteLink r /\
  (exists c, 0 <= c < 65536 /\ np_icmp p = adv_msg (nd_target v) (nr_localLink r) c) /\
  l = [(nr_remote r, nr_remoteLink r)].
Proof. exact nd_advert_fields. Qed.
Print Assumptions C12_ndp_advert_fields.

Theorem C12_ndp_advert_readback : forall target ll c, length target = 16%nat -> length ll = 6%nat ->
  let m := adv_msg target ll c in
  length m = 32%nat /\ nd_is_advert m /\ nth 1 m 0 = 0 /\ nth 4 m 0 = 64 + 32 /\
  nd_target m = target /\ bytes_at m 24 8 = [2; 1] ++ ll.
Proof. exact adv_msg_readback. Qed.
Print Assumptions C12_ndp_advert_readback.

Theorem C12_ndp_advert_checksum : forall locals r views p l,
  nd_handle locals r views = NdDone (Some p) l ->
  bytes_ok (vv_first views) -> bytes_ok (nr_localLink r) -> bytes_ok (nr_remote r) ->
  length (nr_remote r) = 16%nat ->
  length (np_icmp p) = 32%nat /\
  rfc1071_sum (pseudo6 (np_src p) (np_dst p) (Z.of_nat (length (np_icmp p))) ++ np_icmp p) 0 = 65535.
Proof. exact nd_advert_checksum. Qed.
Print Assumptions C12_ndp_advert_checksum.

Theorem C12_ndp_frame : forall p, length (np_src p) = 16%nat -> length (np_dst p) = 16%nat ->
  length (np_icmp p) = 32%nat -> np_hop p = 255 ->
  nd_frame p = Some (([96; 0; 0; 0; 0; 32; 58; 255] ++ np_src p ++ np_dst p) ++ np_icmp p).
Proof. exact nd_frame_flat. Qed.
Print Assumptions C12_ndp_frame.

Theorem C12_ndp_learns_from_advert : forall locals r views,
  nd_is_advert (vv_first views) ->
  exists l, nd_handle locals r views = NdDone None l /\
    (forall a m, In (a, m) l <->
       (m = nr_remoteLink r /\ (a = nd_target (vv_first views) \/ a = nr_remote r))) /\
    (length l <= 2)%nat.
Proof. exact nd_learns_from_advert. Qed.
Print Assumptions C12_ndp_learns_from_advert.

Theorem C12_ndp_learns_iff : forall locals r views,
  (exists p l, nd_handle locals r views = NdDone p l /\ l <> []) <->
  (nd_is_advert (vv_first views) \/
   (nd_is_solicit (vv_first views) /\ In (nd_target (vv_first views)) locals)).
Proof. exact nd_learns_iff. Qed.
Print Assumptions C12_ndp_learns_iff.

Theorem C12_ndp_ignored : forall locals r views,
  ~ nd_is_advert (vv_first views) ->
  ~ (nd_is_solicit (vv_first views) /\ In (nd_target (vv_first views)) locals) ->
  nd_handle locals r views = NdDone None [] \/ nd_handle locals r views = NdOther.
Proof. exact nd_ignored. Qed.
Print Assumptions C12_ndp_ignored.

Theorem C12_ndp_handle_never_panics : forall locals r views, nd_handle locals r views <> NdPanic.
Proof. exact nd_handle_never_panics. Qed.
Print Assumptions C12_ndp_handle_never_panics.

Theorem C12_ndp_deliver_never_panics : forall locals myMAC srcMAC views,
  nd_deliver locals myMAC srcMAC views <> NdPanic.
Proof. exact nd_deliver_never_panics. Qed.
Print Assumptions C12_ndp_deliver_never_panics.

Theorem C12_ndp_deliver_answer_partial : forall locals myMAC srcMAC views p l,
  nd_deliver locals myMAC srcMAC views = NdDone (Some p) l ->
  exists dst src vs,
    ipv6_destinationAddress (vv_first views) = Some dst /\
    ipv6_sourceAddress (vv_first views) = Some src /\
    nic6_deliver locals views = Some (NICMP (mkRoute dst src) vs) /\
    In dst locals /\ nd_is_solicit (vv_first vs) /\ In (nd_target (vv_first vs)) locals /\
    np_src p = nd_target (vv_first vs) /\ np_dst p = src /\ np_linkdst p = srcMAC /\
    (exists c, 0 <= c < 65536 /\ np_icmp p = adv_msg (nd_target (vv_first vs)) myMAC c) /\
    l = [(src, srcMAC)].
Proof. exact nd_deliver_answer_partial. Qed.
Print Assumptions C12_ndp_deliver_answer_partial.

Theorem C12_ndp_deliver_answer_iff : forall locals myMAC srcMAC views,
  (exists p l, nd_deliver locals myMAC srcMAC views = NdDone (Some p) l) <->
  (exists r vs, nic6_deliver locals views = Some (NICMP r vs) /\
     nd_is_solicit (vv_first vs) /\ In (nd_target (vv_first vs)) locals).
Proof. exact nd_deliver_answer_iff. Qed.
Print Assumptions C12_ndp_deliver_answer_iff.

Theorem C12_ndp_foreign_destination_silent : forall locals myMAC srcMAC views dst,
  ipv6_destinationAddress (vv_first views) = Some dst -> ~ In dst locals ->
  nd_deliver locals myMAC srcMAC views = NdDone None [].
Proof. exact nd_deliver_foreign_destination_silent. Qed.
Print Assumptions C12_ndp_foreign_destination_silent.

Theorem C12_ndp_answers_iff_target_own_refuted :
  exists locals myMAC srcMAC pkt src msg,
    rfc_valid_nd pkt src (sn_addr (nd_target msg)) msg /\ nd_is_solicit msg /\
    In (nd_target msg) locals /\
    nd_deliver locals myMAC srcMAC [pkt] = NdDone None [].
Proof. exact nd_answers_iff_target_own_refuted. Qed.
Print Assumptions C12_ndp_answers_iff_target_own_refuted.

Theorem C12_ndp_multicast_target_refuted :
  exists locals myMAC srcMAC pkt src dst msg p l,
    rfc_valid_nd pkt src dst msg /\ nd_is_solicit msg /\ nth 0 (nd_target msg) 0 = 255 /\
    nd_deliver locals myMAC srcMAC [pkt] = NdDone (Some p) l /\ np_src p = nd_target msg.
Proof. exact nd_multicast_target_refuted. Qed.
Print Assumptions C12_ndp_multicast_target_refuted.

Theorem C12_ndp_validity_checks_refuted :
  exists locals myMAC srcMAC pkt src dst msg p,
    pkt = ip6_hdr_n src dst (Z.of_nat (length msg)) 1 ++ msg /\ nth 1 msg 0 = 7 /\
    ~ icmp6_verifies src dst msg /\
    nd_deliver locals myMAC srcMAC [pkt] = NdDone (Some p) [(src, srcMAC)].
Proof. exact nd_validity_checks_refuted. Qed.
Print Assumptions C12_ndp_validity_checks_refuted.

Theorem C12_ndp_learns_stated_address_refuted :
  exists locals myMAC srcMAC pkt src dst msg stated,
    rfc_valid_nd pkt src dst msg /\ nd_is_advert msg /\ bytes_at msg 24 8 = [2; 1] ++ stated /\
    stated <> srcMAC /\
    nd_deliver locals myMAC srcMAC [pkt] = NdDone None [(nd_target msg, srcMAC)].
Proof. exact nd_learns_stated_address_refuted. Qed.
Print Assumptions C12_ndp_learns_stated_address_refuted.

Theorem C12_ndp_unspecified_source_refuted :
  exists locals myMAC srcMAC pkt dst msg p,
    rfc_valid_nd pkt Z16 dst msg /\ nd_is_solicit msg /\
    nd_deliver locals myMAC srcMAC [pkt] = NdDone (Some p) [(Z16, srcMAC)] /\ np_dst p = Z16.
Proof. exact nd_unspecified_source_refuted. Qed.
Print Assumptions C12_ndp_unspecified_source_refuted.

Theorem C12_ndp_request_wf : forall addr localAddr myMAC,
  length addr = 16%nat -> length localAddr = 16%nat ->
  exists c, 0 <= c < 65536 /\
    nd_link_address_request addr localAddr myMAC =
      Some (([96; 0; 0; 0; 0; 32; 58; 255] ++ localAddr ++
             [255; 2; 0; 0; 0; 0; 0; 0; 0; 0; 0; 1; 255] ++ skipn 13 addr) ++ sol_msg addr myMAC c,
            [255; 255; 255; 255; 255; 255], []) /\
    (bytes_ok addr -> bytes_ok localAddr -> bytes_ok myMAC ->
     icmp6_verifies localAddr (sn_addr addr) (sol_msg addr myMAC c)).
Proof. exact nd_request_wf. Qed.
Print Assumptions C12_ndp_request_wf.

Theorem C12_ndp_request_link_destination : forall addr localAddr myMAC pkt d s,
  nd_link_address_request addr localAddr myMAC = Some (pkt, d, s) ->
  d = [255; 255; 255; 255; 255; 255] /\ s = [].
Proof. exact nd_request_link_destination. Qed.
Print Assumptions C12_ndp_request_link_destination.

Theorem C12_ndp_request_eth_multicast_refuted :
  exists addr localAddr myMAC pkt d s,
    length addr = 16%nat /\ nd_link_address_request addr localAddr myMAC = Some (pkt, d, s) /\
    d <> eth_mcast (sn_addr addr).
Proof. exact nd_request_eth_multicast_refuted. Qed.
Print Assumptions C12_ndp_request_eth_multicast_refuted.

Theorem C12_ndp_request_panics_short : forall addr localAddr myMAC,
  (length addr < 3)%nat -> nd_link_address_request addr localAddr myMAC = None.
Proof. exact nd_request_panics_short. Qed.
Print Assumptions C12_ndp_request_panics_short.

Theorem C12_ndp_request_panics_long : forall addr localAddr myMAC,
  (24 < length addr)%nat -> nd_link_address_request addr localAddr myMAC = None.
Proof. exact nd_request_panics_long. Qed.
Print Assumptions C12_ndp_request_panics_long.
