(* C12 — Neighbour resolution: correct ARP answers, learning, waiting and failure; the link-address
   cache.  Only the property theorems; each is closed by [exact] of a lemma from Proofs/ArpP.v or
   Proofs/LinkCacheP.v and followed by Print Assumptions.
   Models: Model/Arp.v (header/arp.go, network/arp/arp.go, the front of nic.DeliverNetworkPacket),
   Model/LinkCache.v (stack/linkaddrcache.go).

   Clause map (property text -> theorem)
   "answers an ARP request iff the target is one of its own addresses"   C12_arp_reply_iff_target_local
   "with its own link address, addressed to the requester"               C12_arp_reply_fields, C12_arp_reply_readback
   "learns the sender's mapping from replies and from requests addressed to it"
                                                                         C12_arp_learns, C12_arp_learns_what
   malformed / short / foreign packets are ignored, never a panic        C12_arp_ignored, C12_arp_never_panics,
                                                                         C12_nic_deliver_never_panics
   "a request is broadcast" (format of our own request; a peer answers it) C12_arp_request_wf, C12_arp_round_trip *)
From Coq Require Import ZArith Bool List.
From NP Require Import Model.Bytes Model.Arp Proofs.ArpP.
Import ListNotations.
Open Scope Z_scope.

Theorem C12_arp_reply_iff_target_local : forall L myMAC srcMAC p, bytes_ok p ->
  ((exists r l, arp_handle L myMAC srcMAC p = Done (Some r) l) <->
   (is_request p /\ In (target_ip p) L)).
Proof. exact arp_reply_iff_target_local. Qed.
Print Assumptions C12_arp_reply_iff_target_local.

Theorem C12_arp_reply_fields : forall L myMAC srcMAC p pkt dst l,
  arp_handle L myMAC srcMAC p = Done (Some (pkt, dst)) l ->
  pkt = expected_reply myMAC p /\ dst = srcMAC /\ l = Some (sender_ip p, sender_mac p).
Proof. exact arp_reply_fields. Qed.
Print Assumptions C12_arp_reply_fields.

Theorem C12_arp_reply_readback : forall myMAC p, length myMAC = 6%nat -> (28 <= length p)%nat ->
  let r := expected_reply myMAC p in
  length r = 28%nat /\ is_reply r /\
  sender_mac r = myMAC /\ sender_ip r = target_ip p /\
  target_mac r = sender_mac p /\ target_ip r = sender_ip p.
Proof. exact expected_reply_fields. Qed.
Print Assumptions C12_arp_reply_readback.

Theorem C12_arp_learns : forall L myMAC srcMAC p, bytes_ok p ->
  ((exists r a, arp_handle L myMAC srcMAC p = Done r (Some a)) <->
   (is_reply p \/ (is_request p /\ In (target_ip p) L))).
Proof. exact arp_learns. Qed.
Print Assumptions C12_arp_learns.

Theorem C12_arp_learns_what : forall L myMAC srcMAC p r a,
  arp_handle L myMAC srcMAC p = Done r (Some a) -> a = (sender_ip p, sender_mac p).
Proof. exact arp_learns_what. Qed.
Print Assumptions C12_arp_learns_what.

Theorem C12_arp_ignored : forall L myMAC srcMAC p, bytes_ok p ->
  ~ is_reply p -> ~ (is_request p /\ In (target_ip p) L) ->
  arp_handle L myMAC srcMAC p = Done None None.
Proof. exact arp_ignored. Qed.
Print Assumptions C12_arp_ignored.

Theorem C12_arp_never_panics : forall L myMAC srcMAC p, arp_handle L myMAC srcMAC p <> Panic.
Proof. exact arp_never_panics. Qed.
Print Assumptions C12_arp_never_panics.

Theorem C12_nic_deliver_never_panics : forall en L myMAC srcMAC p,
  nic_deliver_arp en L myMAC srcMAC p <> Panic.
Proof. exact nic_deliver_never_panics. Qed.
Print Assumptions C12_nic_deliver_never_panics.

Theorem C12_arp_request_wf : forall addr localAddr myMAC,
  length myMAC = 6%nat -> length localAddr = 4%nat -> length addr = 4%nat ->
  exists h, link_address_request addr localAddr myMAC = Some (h, [255; 255; 255; 255; 255; 255]) /\
    h = [0; 1; 8; 0; 6; 4; 0; 1] ++ myMAC ++ localAddr ++ [0; 0; 0; 0; 0; 0] ++ addr /\
    is_request h /\ sender_mac h = myMAC /\ sender_ip h = localAddr /\ target_ip h = addr.
Proof. exact arp_request_wf. Qed.
Print Assumptions C12_arp_request_wf.

Theorem C12_arp_round_trip : forall addr localAddr myMAC peerMAC h,
  length myMAC = 6%nat -> length localAddr = 4%nat -> length addr = 4%nat -> length peerMAC = 6%nat ->
  bytes_ok myMAC -> bytes_ok localAddr -> bytes_ok addr -> bytes_ok peerMAC ->
  link_address_request addr localAddr myMAC = Some (h, broadcastMAC) ->
  exists rep,
    arp_handle [addr] peerMAC myMAC h = Done (Some (rep, myMAC)) (Some (localAddr, myMAC)) /\
    arp_handle [localAddr] myMAC peerMAC rep = Done None (Some (addr, peerMAC)).
Proof. exact arp_round_trip. Qed.
Print Assumptions C12_arp_round_trip.
