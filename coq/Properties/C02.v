(* C02 — TCP transfers complete and close in order; no connection stalls silently.
   Statements about Model/Tcp.v (validated against the Go code by lock-step traces, Corr/C02.v).
   (work in progress header; see the final header below) *)
From Coq Require Import ZArith List Bool.
From NP Require Import Model.Seqnum Model.Tcp Proofs.TcpCloseP.
Import ListNotations.
Open Scope Z_scope.

Theorem C02_timer_armed_when_outstanding : forall t es, timer_ok t -> timer_ok (run t es).
Proof. exact timer_armed_when_outstanding. Qed.
Print Assumptions C02_timer_armed_when_outstanding.
