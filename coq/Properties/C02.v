(* C02 — TCP transfers complete and close in order; no connection stalls silently.

   All statements are about Model/Tcp.v, the executable model of the established-state logic of
   protocol/transport/tcp (rcv.go, snd.go, reno.go, timer.go, parts of connect.go / endpoint.go), which
   is tied to the Go code by lock-step traces (Corr/TcpTrace.v, Corr/C02.v).  [run t es] folds
   [step] over an arbitrary event list (segments from the peer, application writes / reads /
   shutdown of the write side, expiries of the retransmission timer); [run_out] are the frames
   emitted.  Real time is not modelled: a timer expiry is an event.  So the liveness clauses of the
   property are given in safety form (what makes progress possible in every reachable state) plus
   finite-measure termination facts; "eventually" under a fair network / Go runtime is NOT proved
   (level: partial for liveness).

   Invariants of all reachable states ([reach_inv] = write-list invariant of C01 (Proofs/TcpSndInvP.v)
   + close bookkeeping + timer invariant; [rcv_buf_inv]); a freshly established connection
   satisfies them (Examples fresh_reach_inv, fresh_rcv_buf_inv, fresh_idle in Proofs/TcpClose*P.v):
     C02_reachable_invariants, C02_rcv_buf_invariant

   "never goes permanently quiet with data or a FIN outstanding ... recovered from by
    retransmission ... or the connection fails with an explicit error":
     C02_timer_armed_when_outstanding   in every reachable connected state, sndUna <> sndNxt (data or a
                                        FIN in flight) implies the retransmission timer is running
     C02_outstanding_implies_progress   ... and the expiry of that timer either resets the connection
                                        (RST, error state) when rto >= 60 s, or doubles rto, re-arms the
                                        timer and retransmits the oldest unacknowledged segment (nothing
                                        is emitted only if the peer's window is closed for it)
     C02_rto_backoff_terminates         with a silent peer, at most 10 expiries (exactly
                                        expiries_left 9 rto, the number of doublings to 60 s, + 1) lead
                                        to the error state; every earlier expiry re-arms the timer
   "a closed receive window [is] recovered from by ... probing": FALSE of the code (no persist timer):
     C02_zero_window_stall_refuted      a reachable state with data queued behind a zero window, nothing
                                        in flight, timer not running, in which no run without a segment
                                        from the peer ever emits anything but pure ACKs, nor fails
     C02_stalled_state_is_stuck         the same for EVERY state of that shape (one step)
     C02_no_silent_stall_partial        what does hold: the stall needs "nothing in flight"; with
                                        anything in flight (also behind a zero window) the timer runs
                                        and backs off to an explicit error (= the two theorems above)

   "everything written before the write side is shut down is ... delivered ..., followed by
    end-of-stream" (sender side; delivery itself needs the peer and the network: not proved):
     C02_fin_after_all_data             every FIN frame ever emitted is empty, numbered
                                        iss+1+|everything accepted|, and emitted after the shutdown
     C02_data_before_fin                no data frame carries FIN or reaches beyond that number
     C02_fin_queued_last                after the shutdown the write list is data elements followed by
                                        exactly one FIN element (or everything incl. the FIN is
                                        acknowledged); sndNxtList counts the FIN as one number
     C02_no_fin_before_shutdown         before it, data only
     C02_shutdown_takes_effect, C02_no_write_after_shutdown
   "end-of-stream after which no data ever appears" (receiver side):
     C02_read_eof_iff                   a read on a connected endpoint reports end of stream exactly when
                                        the receive queue is empty and the peer's FIN has been consumed;
                                        it returns the first queued chunk exactly when there is one
     C02_no_data_after_eof              once the FIN is consumed the receive queue only shrinks
     C02_eof_is_final                   ... so after end of stream the queue stays empty for ever
   "both endpoints end in the closed state without error" (one endpoint, scripted lossless peer):
     C02_closed_iff_all_done            connected -> the exit test (rcv closed, snd closed, FIN acked) is
                                        false; closed -> it is true (all reachable states)
     C02_error_is_final, C02_closed_is_final   closed is never reached from the error state
     C02_orderly_close_active / _passive / _simultaneous / _fin_ack
                                        from ANY state in which everything written is acknowledged, the
                                        closing exchange in each of the four possible orders ends in the
                                        closed state having emitted exactly [FIN|ACK; ACK of the peer's
                                        FIN] (resp. [ACK; FIN|ACK]) and no RST *)
From Coq Require Import ZArith List Bool.
From NP Require Import Model.Seqnum Model.Tcp Proofs.SeqnumP.
From NP Require Proofs.TcpSndInvP Proofs.TcpSndP.
From NP Require Import Proofs.TcpCloseP Proofs.TcpCloseOrderP Proofs.TcpCloseSeqP.
Import ListNotations.
Open Scope Z_scope.

(* ---------------------------------------------------------------- invariants of all reachable states *)

Theorem C02_reachable_invariants : forall iss W t es,
  reach_inv iss W t -> Forall TcpSndP.ev_ok es -> len (W ++ TcpSndP.written t es) < 2^30 ->
  reach_inv iss (W ++ TcpSndP.written t es) (run t es).
Proof. exact reach_inv_run. Qed.
Print Assumptions C02_reachable_invariants.

Theorem C02_rcv_buf_invariant : forall t e, rcv_buf_inv t -> rcv_buf_inv (fst (step t e)).
Proof. exact step_rcv_buf_inv. Qed.
Print Assumptions C02_rcv_buf_invariant.

(* ---------------------------------------------------------------- never quiet with something in flight *)

Theorem C02_timer_armed_when_outstanding : forall t es,
  (estate t = stConnected -> sndUna (SN t) <> sndNxt (SN t) -> tstate (SN t) = tEnabled) ->
  estate (run t es) = stConnected -> sndUna (SN (run t es)) <> sndNxt (SN (run t es)) ->
  tstate (SN (run t es)) = tEnabled.
Proof. exact timer_armed_when_outstanding. Qed.
Print Assumptions C02_timer_armed_when_outstanding.

Theorem C02_outstanding_implies_progress : forall iss W t,
  reach_inv iss W t -> estate t = stConnected -> sndUna (SN t) <> sndNxt (SN t) ->
  tstate (SN t) = tEnabled /\
  let t' := fst (step t ERto) in
  (maxRTO <= rto (SN t) /\ estate t' = stError /\
   out t' = [mkF (sndUna (SN t)) (rcvNxt (RC t)) (Z.lor fAck fRst) 0 []]) \/
  (rto (SN t) < maxRTO /\ rto_ready t' /\ rto (SN t') = 2 * rto (SN t) /\ sndUna (SN t') = sndUna (SN t) /\
   (out t' = [] \/
    exists f w rest, out t' = [f] /\ wsent (SN t) ++ wunsent (SN t) = w :: rest /\
      f_seq f = sndUna (SN t) /\ f_flags f = w_flags w /\
      f_data f = takeZ (len (f_data f)) (w_data w) /\ (w_data w <> [] -> f_data f <> []))).
Proof. exact outstanding_implies_progress. Qed.
Print Assumptions C02_outstanding_implies_progress.

Theorem C02_rto_backoff_terminates : forall iss W t,
  reach_inv iss W t -> estate t = stConnected -> sndUna (SN t) <> sndNxt (SN t) -> minRTO <= rto (SN t) ->
  let k := expiries_left 9 (rto (SN t)) in
  (1 <= k <= 10)%nat /\
  estate (run t (repeat ERto k)) = stError /\
  (forall j, (j < k)%nat ->
     rto_ready (run t (repeat ERto j)) /\ rto (SN (run t (repeat ERto j))) = 2 ^ Z.of_nat j * rto (SN t) /\
     sndUna (SN (run t (repeat ERto j))) = sndUna (SN t)).
Proof. exact rto_backoff_reachable. Qed.
Print Assumptions C02_rto_backoff_terminates.

(* ---------------------------------------------------------------- the zero-window stall (finding) *)

Theorem C02_stalled_state_is_stuck : forall t e,
  stalled t -> (forall sg nr, e <> ESeg sg nr) ->
  let t' := fst (step t e) in
  stalled t' /\ Forall pure_ack (out t') /\
  sndUna (SN t') = sndUna (SN t) /\ sndNxt (SN t') = sndNxt (SN t).
Proof. exact stalled_state_is_stuck. Qed.
Print Assumptions C02_stalled_state_is_stuck.

Theorem C02_zero_window_stall_refuted :
  exists t, (exists es, t = run (fresh_conn 1000 5000 1460 30000) es) /\
    estate t = stConnected /\ wunsent (SN t) <> [] /\ sndWnd (SN t) = 0 /\
    sndUna (SN t) = sndNxt (SN t) /\ tstate (SN t) <> tEnabled /\
    forall es', no_segment es' ->
      estate (run t es') = stConnected /\ wunsent (SN (run t es')) <> [] /\
      tstate (SN (run t es')) <> tEnabled /\ Forall pure_ack (run_out t es').
Proof. exact zero_window_stall_witness. Qed.
Print Assumptions C02_zero_window_stall_refuted.

Theorem C02_no_silent_stall_partial : forall iss W t,
  reach_inv iss W t -> estate t = stConnected -> sndUna (SN t) <> sndNxt (SN t) -> minRTO <= rto (SN t) ->
  tstate (SN t) = tEnabled /\
  exists k, (1 <= k <= 10)%nat /\ estate (run t (repeat ERto k)) = stError.
Proof. exact no_silent_stall_partial. Qed.
Print Assumptions C02_no_silent_stall_partial.

(* ---------------------------------------------------------------- FIN after all data (sender side) *)

Theorem C02_fin_after_all_data : forall iss W0 t0 es,
  TcpSndInvP.Inv iss W0 t0 -> Forall TcpSndP.ev_ok es -> len (W0 ++ TcpSndP.written t0 es) < 2^30 ->
  forall f, In f (run_out t0 es) -> has (f_flags f) fFin = true ->
  f_data f = [] /\ f_seq f = seq_of iss (len (W0 ++ TcpSndP.written t0 es)) /\ sndClosedE (run t0 es) = true.
Proof. exact TcpSndP.fin_after_all_data. Qed.
Print Assumptions C02_fin_after_all_data.

Theorem C02_data_before_fin : forall iss W0 t0 es,
  TcpSndInvP.Inv iss W0 t0 -> Forall TcpSndP.ev_ok es -> len (W0 ++ TcpSndP.written t0 es) < 2^30 ->
  forall g, In g (run_out t0 es) -> f_data g <> [] ->
  has (f_flags g) fFin = false /\
  exists off, f_seq g = seq_of iss off /\ 0 <= off /\ off + len (f_data g) <= len (W0 ++ TcpSndP.written t0 es).
Proof. exact TcpSndP.data_before_fin. Qed.
Print Assumptions C02_data_before_fin.

Theorem C02_fin_queued_last : forall iss W t,
  TcpSndInvP.Inv iss W t -> sndClosedE t = true ->
  sndNxtList (SN t) = seq_of iss (len W + 1) /\
  ((wsent (SN t) ++ wunsent (SN t) = [] /\ sndUna (SN t) = sndNxtList (SN t)) \/
   exists l f, wsent (SN t) ++ wunsent (SN t) = l ++ [f] /\
     Forall (fun w => w_data w <> []) l /\ w_data f = []).
Proof. exact fin_queued_last. Qed.
Print Assumptions C02_fin_queued_last.

Theorem C02_no_fin_before_shutdown : forall iss W t,
  TcpSndInvP.Inv iss W t -> sndClosedE t = false ->
  sndNxtList (SN t) = seq_of iss (len W) /\
  Forall (fun w => w_data w <> []) (wsent (SN t) ++ wunsent (SN t)).
Proof. exact no_fin_before_shutdown. Qed.
Print Assumptions C02_no_fin_before_shutdown.

Theorem C02_shutdown_takes_effect : forall t,
  estate t = stConnected -> sndClosedE (fst (step t EShutW)) = true.
Proof. exact (TcpSndP.shutdown_closes 0). Qed.
Print Assumptions C02_shutdown_takes_effect.

Theorem C02_no_write_after_shutdown : forall iss W t es,
  TcpSndInvP.Inv iss W t -> Forall TcpSndP.ev_ok es -> sndClosedE t = true ->
  TcpSndP.written t es = [] /\ sndClosedE (run t es) = true.
Proof. exact TcpSndP.no_write_after_shutdown. Qed.
Print Assumptions C02_no_write_after_shutdown.

(* ---------------------------------------------------------------- end of stream (receiver side) *)

Theorem C02_read_eof_iff : forall t, estate t = stConnected -> rcv_buf_inv t ->
  (snd (step t ERead) = RErr (-6) <-> rcvList t = [] /\ rcvClosedE t = true) /\
  (forall v, snd (step t ERead) = RBytes v <-> exists r, rcvList t = v :: r).
Proof. exact read_eof_iff. Qed.
Print Assumptions C02_read_eof_iff.

Theorem C02_no_data_after_eof : forall t es, rclosed (RC t) = true ->
  rclosed (RC (run t es)) = true /\ rcvNxt (RC (run t es)) = rcvNxt (RC t) /\
  exists k, rcvList (run t es) = skipn k (rcvList t).
Proof. exact no_data_after_eof. Qed.
Print Assumptions C02_no_data_after_eof.

Theorem C02_eof_is_final : forall t es, rclosed (RC t) = true -> rcvList t = [] -> rcvList (run t es) = [].
Proof. exact eof_is_final. Qed.
Print Assumptions C02_eof_is_final.

(* ---------------------------------------------------------------- reaching the closed state *)

Theorem C02_closed_iff_all_done : forall t es, close_inv t ->
  let t' := run t es in
  sclosed (SN t') = sndClosedE t' /\ rclosed (RC t') = rcvClosedE t' /\
  (estate t' = stConnected ->
     rclosed (RC t') && sclosed (SN t') && (sndUna (SN t') =? sndNxtList (SN t')) = false) /\
  (estate t' = stClosed ->
     rclosed (RC t') && sclosed (SN t') && (sndUna (SN t') =? sndNxtList (SN t')) = true) /\
  (estate t' = stConnected \/ estate t' = stClosed \/ estate t' = stError).
Proof. exact closed_iff_all_done_explicit. Qed.
Print Assumptions C02_closed_iff_all_done.

Theorem C02_error_is_final : forall t es, estate t = stError -> estate (run t es) = stError.
Proof. exact error_is_final. Qed.
Print Assumptions C02_error_is_final.

Theorem C02_closed_is_final : forall t es, estate t = stClosed -> estate (run t es) = stClosed.
Proof. exact closed_is_final. Qed.
Print Assumptions C02_closed_is_final.

(* the closing exchange without loss, from any state in which everything written is acknowledged;
   n = our next sequence number, r = the peer's; the peer's segments carry arbitrary windows,
   timestamp flags consistent with the negotiation, arbitrary RTT samples *)

Theorem C02_orderly_close_active : forall n r t ts w1 e1 nr1 w2 e2 nr2,
  idle_state n r false t -> (tsOk t && negb ts) = false ->
  let es := [EShutW; ESeg (mkSeg r (add n 1) fAck w1 [] ts e1) nr1;
             ESeg (mkSeg r (add n 1) (Z.lor fAck fFin) w2 [] ts e2) nr2] in
  estate (run t es) = stClosed /\
  exists f1 f2, run_out t es = [f1; f2] /\
    (f_seq f1 = n /\ f_ack f1 = r /\ f_flags f1 = Z.lor fAck fFin /\ f_data f1 = []) /\
    (f_seq f2 = add n 1 /\ f_ack f2 = u32 (r + 1) /\ f_flags f2 = fAck /\ f_data f2 = []).
Proof. exact orderly_close_active. Qed.
Print Assumptions C02_orderly_close_active.

Theorem C02_orderly_close_passive : forall n r t ts w1 e1 nr1 w2 e2 nr2,
  idle_state n r false t -> (tsOk t && negb ts) = false ->
  let es := [ESeg (mkSeg r n (Z.lor fAck fFin) w1 [] ts e1) nr1; EShutW;
             ESeg (mkSeg (u32 (r + 1)) (add n 1) fAck w2 [] ts e2) nr2] in
  estate (run t es) = stClosed /\
  exists f1 f2, run_out t es = [f1; f2] /\
    (f_seq f1 = n /\ f_ack f1 = u32 (r + 1) /\ f_flags f1 = fAck /\ f_data f1 = []) /\
    (f_seq f2 = n /\ f_ack f2 = u32 (r + 1) /\ f_flags f2 = Z.lor fAck fFin /\ f_data f2 = []).
Proof. exact orderly_close_passive. Qed.
Print Assumptions C02_orderly_close_passive.

Theorem C02_orderly_close_simultaneous : forall n r t ts w1 e1 nr1 w2 e2 nr2,
  idle_state n r false t -> (tsOk t && negb ts) = false ->
  let es := [EShutW; ESeg (mkSeg r n (Z.lor fAck fFin) w1 [] ts e1) nr1;
             ESeg (mkSeg (u32 (r + 1)) (add n 1) fAck w2 [] ts e2) nr2] in
  estate (run t es) = stClosed /\
  exists f1 f2, run_out t es = [f1; f2] /\
    (f_seq f1 = n /\ f_ack f1 = r /\ f_flags f1 = Z.lor fAck fFin /\ f_data f1 = []) /\
    (f_seq f2 = add n 1 /\ f_ack f2 = u32 (r + 1) /\ f_flags f2 = fAck /\ f_data f2 = []).
Proof. exact orderly_close_simultaneous. Qed.
Print Assumptions C02_orderly_close_simultaneous.

Theorem C02_orderly_close_fin_ack : forall n r t ts w1 e1 nr1,
  idle_state n r false t -> (tsOk t && negb ts) = false ->
  let es := [EShutW; ESeg (mkSeg r (add n 1) (Z.lor fAck fFin) w1 [] ts e1) nr1] in
  estate (run t es) = stClosed /\
  exists f1 f2, run_out t es = [f1; f2] /\
    (f_seq f1 = n /\ f_ack f1 = r /\ f_flags f1 = Z.lor fAck fFin /\ f_data f1 = []) /\
    (f_seq f2 = add n 1 /\ f_ack f2 = u32 (r + 1) /\ f_flags f2 = fAck /\ f_data f2 = []).
Proof. exact orderly_close_fin_ack. Qed.
Print Assumptions C02_orderly_close_fin_ack.

(* ------------------------------------------------------------------------------------------------
   TWO endpoints and the network (Proofs/TcpNetP.v closed system): fault enumeration over a FINITE
   domain.  Property quantifier: "all fault schedules that drop any single packet or any pair of
   packets of the exchange (data, pure ACK, window update, FIN), all shutdown/close orders".
   Loss of HANDSHAKE packets is not covered: the runs start from the two states a completed
   handshake leaves behind (Model/TcpEst.v; the handshake itself runs in real time inside
   handshake.execute and is modelled separately in Model/TcpHs.v / C03).

     C02_closed_system_incremental   the incremental two-endpoint system (Model/TcpSys.v: both states
                                     and both output logs are carried along) is TcpNetP.sys_run: endpoint
                                     X's state = run x0 evX, its frames so far = run_out x0 evX
     C02_pump_is_schedule            whatever the fair pump with drops (Model/TcpSys.v pump: scripted
                                     applications; every emitted frame delivered once, in emission order,
                                     unless it is in the drop set; retransmission time-outs fired only when
                                     nothing else can happen) does is a schedule of that closed system
     C02_single_and_double_drops_outcome_bounded
                                     BOUNDED-DOMAIN theorem (evaluation of the pump inside the kernel, 2 708
                                     runs) - not the unbounded liveness claim.  Domain: one established
                                     connection (initial sequence numbers 6 below 2^32 / 8 below 2^31, MTU 88,
                                     4096-byte buffers, timestamps) x 4 close orders (A first, B first,
                                     simultaneous, duplex; half-close then data the other way when w2 > 0) x w1
                                     in {0, mss, 2*mss+3 in two chunks} x w2 in {0, 5} x EVERY drop set of
                                     [dsets]: every single packet of the loss-free exchange, every pair of them,
                                     every pair of one of them and one of the next 4 frames of either side (a
                                     retransmission = the same packet lost again, or a provoked ACK).  For every
                                     element: the pump stops within 200 rounds; everything written is delivered,
                                     followed by end of stream, in both directions; and either both endpoints end
                                     closed, no reset, at most 4 frames more than the loss-free count per side (so
                                     the drop sets reached every frame of the run) - or the drop set contains the
                                     LAST frame emitted by an endpoint that reached the closed state and its peer
                                     fails explicitly (error state, exactly one reset).  The property text
                                     promises closed/closed only "when no packet of the closing exchange is
                                     lost"; otherwise "the connection fails with an explicit error"
     C02_single_and_double_drops_recovered_bounded
                                     the same domain, as a recovery statement: a run that did not lose the last
                                     frame of an endpoint that closed ends closed/closed, everything delivered
                                     with end of stream both ways, no reset
     C02_single_drops_outcome_bounded_conn2
                                     a second connection (initial sequence numbers 2^31-1 / 2^32-1, MTU 120/100,
                                     buffers 1000/4096, SACK negotiated), the same 24 scenarios, every SINGLE
                                     packet of the exchange dropped (224 runs): same outcome
     C02_closing_window_drops_outcome_bounded
                                     BOUNDED-DOMAIN theorem for a connection whose receiver's window CLOSES during
                                     the transfer (64-byte receive buffer; 4 close orders x w1 = 80 x w2 in
                                     {0, 5} x the drop sets of [dsets] = 1 404 runs, so the drop sets also hit
                                     window updates): every run ends within the budget either with everything
                                     delivered and closed/closed (or the final-ACK failure) or in the KNOWN
                                     zero-window stall (an endpoint connected with data queued behind a zero
                                     window, nothing in flight, no timer)
     C02_single_drop_final_ack_refuted
                                     "every single drop is recovered to closed/closed" is FALSE: there is no
                                     TIME-WAIT state; once an endpoint's main loop has exited it ignores every
                                     segment, so if its last ACK is lost the peer retransmits its FIN nine times
                                     and then resets (witness: A first, 75 + 5 bytes, A's frame 6)
     C02_window_update_drop_stalls_refuted
                                     the KNOWN finding C02-zero-window-stall on two endpoints: a 64-byte receive
                                     buffer, 80 bytes written, the window-reopening ACK dropped - both endpoints
                                     stay connected for ever with 16 bytes queued and no timer running (the
                                     loss-free run of the same scenario completes) *)
From NP Require Import Model.TcpHs Model.TcpEst Proofs.TcpNetP Model.TcpSys Proofs.TcpSysLiveBaseP Proofs.TcpSysLiveP.

Theorem C02_closed_system_incremental : forall a0 b0 ms,
  isys_run a0 b0 ms =
  mkSys (run a0 (fst (sys_run a0 b0 ms))) (run_out a0 (fst (sys_run a0 b0 ms)))
        (run b0 (snd (sys_run a0 b0 ms))) (run_out b0 (snd (sys_run a0 b0 ms))).
Proof. exact isys_run_sys_run. Qed.
Print Assumptions C02_closed_system_incremental.

Theorem C02_pump_is_schedule : forall fuel orc a0 b0 sc ds,
  let p := pump_run fuel orc a0 b0 sc ds in
  p_sys p = sys_of a0 b0 (sys_run a0 b0 (rev (p_moves p))).
Proof. exact pump_is_schedule. Qed.
Print Assumptions C02_pump_is_schedule.

Theorem C02_single_and_double_drops_outcome_bounded :
  forall sc ds, In sc (scens cfg1) -> In ds (dsets cfg1 sc) ->
  let p := pump_run budget orc (fst cfg1) (snd cfg1) sc ds in
  p_done p = true /\
  a_rd (p_appB p) = a_wr (p_appA p) /\ a_rd (p_appA p) = a_wr (p_appB p) /\
  a_eof (p_appA p) = true /\ a_eof (p_appB p) = true /\
  ((estate (sA (p_sys p)) = stClosed /\ estate (sB (p_sys p)) = stClosed /\
    no_rst (oA (p_sys p)) = true /\ no_rst (oB (p_sys p)) = true /\
    (length (oA (p_sys p)) <= margin + fst (nfr cfg1 sc))%nat /\
    (length (oB (p_sys p)) <= margin + snd (nfr cfg1 sc))%nat /\ lost_final p ds = false)
   \/
   (lost_final p ds = true /\ explicit_failure p = true)).
Proof. exact single_and_double_drops_outcome_bounded. Qed.
Print Assumptions C02_single_and_double_drops_outcome_bounded.

Theorem C02_single_and_double_drops_recovered_bounded :
  forall sc ds, In sc (scens cfg1) -> In ds (dsets cfg1 sc) ->
  let p := pump_run budget orc (fst cfg1) (snd cfg1) sc ds in
  lost_final p ds = false -> recovered p = true.
Proof. exact single_and_double_drops_recovered_bounded. Qed.
Print Assumptions C02_single_and_double_drops_recovered_bounded.

Theorem C02_single_drops_outcome_bounded_conn2 :
  forall sc ds, In sc (scens cfg2) -> In ds (singles cfg2 sc) ->
  let p := pump_run budget orc (fst cfg2) (snd cfg2) sc ds in
  p_done p = true /\
  a_rd (p_appB p) = a_wr (p_appA p) /\ a_rd (p_appA p) = a_wr (p_appB p) /\
  a_eof (p_appA p) = true /\ a_eof (p_appB p) = true /\
  ((estate (sA (p_sys p)) = stClosed /\ estate (sB (p_sys p)) = stClosed /\
    no_rst (oA (p_sys p)) = true /\ no_rst (oB (p_sys p)) = true /\
    (length (oA (p_sys p)) <= margin + fst (nfr cfg2 sc))%nat /\
    (length (oB (p_sys p)) <= margin + snd (nfr cfg2 sc))%nat /\ lost_final p ds = false)
   \/
   (lost_final p ds = true /\ explicit_failure p = true)).
Proof. exact single_drops_outcome_bounded_conn2. Qed.
Print Assumptions C02_single_drops_outcome_bounded_conn2.

Theorem C02_closing_window_drops_outcome_bounded :
  forall sc ds, In sc zw_scens -> In ds (dsets zw_pair sc) ->
  let p := pump_run budget orc (fst zw_pair) (snd zw_pair) sc ds in
  p_done p = true /\
  ((a_rd (p_appB p) = a_wr (p_appA p) /\ a_rd (p_appA p) = a_wr (p_appB p) /\
    a_eof (p_appA p) = true /\ a_eof (p_appB p) = true /\
    ((estate (sA (p_sys p)) = stClosed /\ estate (sB (p_sys p)) = stClosed /\
      no_rst (oA (p_sys p)) = true /\ no_rst (oB (p_sys p)) = true /\
      (length (oA (p_sys p)) <= margin + fst (nfr zw_pair sc))%nat /\
      (length (oB (p_sys p)) <= margin + snd (nfr zw_pair sc))%nat)
     \/ (lost_final p ds = true /\ explicit_failure p = true)))
   \/ (zw_stalled (sA (p_sys p)) = true \/ zw_stalled (sB (p_sys p)) = true)).
Proof. exact closing_window_drops_outcome_bounded. Qed.
Print Assumptions C02_closing_window_drops_outcome_bounded.

Theorem C02_single_drop_final_ack_refuted :
  exists sc ds, In sc (scens cfg1) /\ In ds (dsets cfg1 sc) /\ ds = [(true, 6%nat)] /\
    let p := pump_run budget orc (fst cfg1) (snd cfg1) sc ds in
    p_done p = true /\ delivered p = true /\
    estate (sA (p_sys p)) = stClosed /\ estate (sB (p_sys p)) = stError /\
    length (oA (p_sys p)) = 7%nat /\
    length (filter (fun m => match m with MAppB ARto => true | _ => false end) (p_moves p)) = 10%nat /\
    nrst p = 1%nat.
Proof. exact single_drop_final_ack_refuted. Qed.
Print Assumptions C02_single_drop_final_ack_refuted.

Theorem C02_window_update_drop_stalls_refuted :
  exists a0 b0, zw_cfg = Some (a0, b0) /\
    recovered (pump_run budget orc a0 b0 (scenario 0 80 1 5) []) = true /\
    let p := pump_run budget orc a0 b0 (scenario 0 80 1 5) [(false, 2%nat)] in
    p_done p = true /\ delivered p = false /\
    estate (sA (p_sys p)) = stConnected /\ estate (sB (p_sys p)) = stConnected /\
    zw_stalled (sA (p_sys p)) = true /\
    tstate (SN (sA (p_sys p))) <> tEnabled /\ tstate (SN (sB (p_sys p))) <> tEnabled /\
    len (a_rd (p_appB p)) = 64 /\ len (a_wr (p_appA p)) = 80.
Proof. exact window_update_drop_stalls_refuted. Qed.
Print Assumptions C02_window_update_drop_stalls_refuted.
