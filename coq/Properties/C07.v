(* C07 - No inbound frame sequence can crash the stack or stop it serving.
   This file contains only the property theorems; each is closed by [exact] of a lemma from
   Proofs/InboundP.v and followed by Print Assumptions.  Model: Model/Inbound.v (with Model/Frag.v,
   Model/Arp.v, Model/TcpOptions.v, Model/HdrIP.v, Model/HdrTransport.v underneath).

   What is proved, and what is not.  The theorems are about the MODELLED inbound path: from the
   link endpoint (fdbased.dispatch or the recording link) through DeliverNetworkPacket, the IPv4 /
   IPv6 / ARP handlers, reassembly, ICMP, DeliverTransportPacket, udp.HandlePacket, and TCP segment
   parsing with both option parsers, i.e. everything that runs synchronously in the link's
   dispatch goroutine, plus the slice expressions of the ICMPv4 echo replier.  In the model a Go
   index / slice expression out of range, the reassembler's panic and an out-of-bounds read of the
   option parsers are the result [None].
     "does not panic"         C07_inbound_never_panics: for EVERY history of frames (any byte
                              strings, any first-view split on the recording link, any frame length
                              on fdbased) from any state satisfying the invariant, no frame yields
                              None;  C07_inbound_never_panics_from_boot: in particular from boot.
     "does not corrupt itself" the same theorems: the reassembly state invariant [st_ok] (FragP.FInv:
                              distinct keys, well-formed hole lists / heaps, the memory counter equals
                              the bytes stored, never negative) holds after every history.
     "does not stop serving"  C07_dispatch_continues: whatever frame arrives, fdbased.dispatch tells
                              dispatchLoop to continue (the Boolean in every [run] result is true);
                              C07_dispatch_stops_old_refuted: the code before the repair
                              ("fix: one runt frame stops the fd-based link endpoint for good") did
                              not: a 10-byte frame returns "stop".
     "does not corrupt"       also C07_fd_views_carry_the_frame: the views fdbased builds from a
                              frame (cut at the BufConfig sizes, Ethernet header trimmed) carry
                              exactly the frame's bytes behind the header, nothing lost or added.
   NOT proved (partial by nature): what the TCP protocol goroutines do with a queued segment, the
   application-facing halves of the endpoints, the link-address cache, locks, goroutines, timers,
   memory.  Deadlock-freedom and the three liveness probes of the property text (echo answered,
   new connection completes, datagram delivered) are checked only by the barrage correspondence
   (Corr/C07.v, harness/cmd/h_c07), which runs the real code. *)
From Coq Require Import ZArith List Bool.
From NP Require Import Model.Inbound Proofs.InboundP.
Import ListNotations.
Open Scope Z_scope.

Theorem C07_inbound_never_panics : forall c mac fs st, Forall frame_ok fs -> st_ok st ->
  exists st' os, Inbound.run c mac st fs = Some (true, st', os) /\ st_ok st' /\ length os = length fs.
Proof. exact inbound_never_panics. Qed.
Print Assumptions C07_inbound_never_panics.

Theorem C07_inbound_never_panics_from_boot : forall c mac fs, Forall frame_ok fs ->
  exists st' os, Inbound.run c mac state0 fs = Some (true, st', os) /\ st_ok st' /\ length os = length fs.
Proof. exact inbound_never_panics_from_boot. Qed.
Print Assumptions C07_inbound_never_panics_from_boot.

Theorem C07_dispatch_continues : forall c st frame cont st' o,
  fd_dispatch c st frame = Some (cont, st', o) -> cont = true.
Proof. exact dispatch_continues. Qed.
Print Assumptions C07_dispatch_continues.

Theorem C07_dispatch_stops_old_refuted : forall c st,
  exists frame, fd_dispatch_old c st frame = Some (false, st, out0 kRunt).
Proof. exact dispatch_stops_old_refuted. Qed.
Print Assumptions C07_dispatch_stops_old_refuted.

Theorem C07_fd_views_carry_the_frame : forall frame, zlength frame <= 65664 ->
  vbytes (vv_trimFront (split_views BufConfig frame) 14) = skipn 14 frame.
Proof. exact fd_views_carry_the_frame. Qed.
Print Assumptions C07_fd_views_carry_the_frame.
