(* C18 — The try-lock mutex (pkg/tmutex) gives mutual exclusion and never loses a wake-up.

   Model: Model/Tmutex.v, a transition system whose steps are the individual atomic operations of
   tmutex.go (AddInt32 / LoadInt32 / SwapInt32 / CompareAndSwapInt32, the channel receive — enabled
   only when the 1-slot channel holds a token — and the non-blocking select-send), with any number
   of identified threads running arbitrary client programs (lists of Lock/TryLock/Unlock).
   [reachable s] = s is reached from [init progs] (v = 1, empty channel) for SOME list of programs
   by SOME schedule ([reachable_from progs s <-> exists sched, run (init progs) sched = Some s]).
   Client contract (built into the client semantics [next_op], and into the harness client):
   Unlock is issued only by the holder, and the holder does not call Lock.
   Assumption: fewer than 2^31 goroutines inside Lock at once (v is an unbounded Z).
   Only statements here; proofs in Proofs/TmutexP.v.

   Property text                                   -> theorem
   "At most one goroutine holds the mutex"         -> C18_mutex_inv, C18_mutual_exclusion,
                                                      C18_mutual_exclusion_threads        (full)
   "TryLock never blocks"                          -> C18_trylock_nonblocking              (full)
   "succeeds only by acquiring the mutex"          -> C18_trylock_sound                    (full)
   "succeeds whenever the mutex is free and nobody
    else is contending"                            -> C18_trylock_succeeds_when_free       (full)
   "an unlock that finds waiters always leads to
    one of them (or a later arrival) acquiring"    -> C18_unlock_with_waiters_signals,
                                                      C18_free_mutex_wakes_sleeper         (full)
   "no goroutine sleeps forever while the mutex is
    free"                                          -> C18_no_lost_wakeup, C18_not_stuck,
                                                      C18_deadlock_free                    (full)
   "Every Lock call returns once the holders ahead
    of it have unlocked"                           -> C18_lock_returns_finite: for FINITE client
        programs that end by unlocking, under EVERY schedule (no fairness assumption): runs are
        bounded, a run that cannot continue has finished every program, and every run prefix
        extends to a complete run.  Gap (named): for non-terminating clients under a fair
        scheduler a particular Lock call may be overtaken for ever (the algorithm allows barging;
        the property text itself allows "a later arrival"); no theorem about infinite runs.
   teeth of the invariant                          -> C18_naive_unlock_refuted
   non-vacuity                                     -> C18_contended_reachable,
                                                      C18_contended_run_completes,
                                                      C18_free_with_sleeper_reachable,
                                                      C18_trylock_true_reachable *)
From Coq Require Import ZArith Bool List.
From NP Require Import Model.Tmutex Proofs.TmutexP.
Import ListNotations.
Open Scope Z_scope.

Theorem C18_reachable_is_run : forall progs s,
  reachable_from progs s <-> exists sched, run (init progs) sched = Some s.
Proof. exact reachable_from_iff_run. Qed.
Print Assumptions C18_reachable_is_run.

(* the mutex word is 1 exactly when nobody holds; otherwise exactly one holder and v <= 0 *)
Theorem C18_mutex_inv : forall s, reachable s ->
  (holders s = 0 /\ s_v s = 1) \/ (holders s = 1 /\ s_v s <= 0).
Proof. exact mutex_inv. Qed.
Print Assumptions C18_mutex_inv.

Theorem C18_mutual_exclusion : forall s, reachable s -> holders s <= 1.
Proof. exact mutual_exclusion. Qed.
Print Assumptions C18_mutual_exclusion.

Theorem C18_mutual_exclusion_threads : forall s i j a b, reachable s ->
  nth_error (s_thr s) i = Some a -> nth_error (s_thr s) j = Some b ->
  t_held a = true -> t_held b = true -> i = j.
Proof. exact mutual_exclusion_threads. Qed.
Print Assumptions C18_mutual_exclusion_threads.

(* TryLock returns true only through the CAS 1 -> 0 from a free mutex, and then holds *)
Theorem C18_trylock_sound : forall s i s', reachable s -> step_ev s i = Some (s', EvTryT) ->
  thread_at s i (fun th => t_pc th = PTcas) /\ s_v s = 1 /\ s_v s' = 0 /\
  holders s = 0 /\ holders s' = 1 /\
  thread_at s' i (fun th => t_held th = true /\ t_pc th = PIdle /\ exists r, t_res th = true :: r).
Proof. exact trylock_sound. Qed.
Print Assumptions C18_trylock_sound.

(* both steps of a TryLock are enabled in every state (it never reaches the receive) *)
Theorem C18_trylock_nonblocking : forall s i th,
  nth_error (s_thr s) i = Some th ->
  (t_pc th = PIdle -> (exists r, next_op (t_held th) (t_prog th) = Some (OTryLock, r)) ->
     exists s' ev, step_ev s i = Some (s', ev) /\
       ((ev = EvTryF /\ thread_at s' i (fun t => t_pc t = PIdle)) \/
        (ev = EvNone /\ thread_at s' i (fun t => t_pc t = PTcas)))) /\
  (t_pc th = PTcas ->
     exists s' ev, step_ev s i = Some (s', ev) /\ (ev = EvTryT \/ ev = EvTryF) /\
       thread_at s' i (fun t => t_pc t = PIdle)).
Proof. exact trylock_nonblocking. Qed.
Print Assumptions C18_trylock_nonblocking.

(* free mutex + the caller's two steps not interleaved with anybody's => true *)
Theorem C18_trylock_succeeds_when_free : forall s i th r, reachable s -> holders s = 0 ->
  nth_error (s_thr s) i = Some th -> t_pc th = PIdle ->
  next_op (t_held th) (t_prog th) = Some (OTryLock, r) ->
  exists s1 s2, step_ev s i = Some (s1, EvNone) /\ step_ev s1 i = Some (s2, EvTryT) /\
    holders s2 = 1 /\ thread_at s2 i (fun t => t_held t = true /\ exists q, t_res t = true :: q).
Proof. exact trylock_succeeds_when_free. Qed.
Print Assumptions C18_trylock_succeeds_when_free.

(* whenever a thread is committed to the channel receive, a wake source exists *)
Theorem C18_no_lost_wakeup : forall s, reachable s -> 0 < at_pc PLrecv s ->
  s_ch s = true \/ 0 < at_pc PUsend s \/ 0 < at_pc PLload s + at_pc PLswap s \/
  (holders s = 1 /\ s_v s < 0).
Proof. exact no_lost_wakeup. Qed.
Print Assumptions C18_no_lost_wakeup.

Theorem C18_not_stuck : forall s, reachable s -> ~ stuck s.
Proof. exact not_stuck. Qed.
Print Assumptions C18_not_stuck.

(* an Unlock that swapped out a non-zero value sends: whatever the others do meanwhile, its next
   step is enabled, returns, and leaves a token in the channel *)
Theorem C18_unlock_with_waiters_signals : forall s i th r s1,
  nth_error (s_thr s) i = Some th -> t_pc th = PIdle ->
  next_op (t_held th) (t_prog th) = Some (OUnlock, r) -> s_v s <> 0 ->
  step s i = Some s1 ->
  thread_at s1 i (fun t => t_pc t = PUsend) /\
  forall sched s2, (forall j, In j sched -> j <> i) -> run s1 sched = Some s2 ->
    exists s3, step_ev s2 i = Some (s3, EvUnlock) /\ s_ch s3 = true /\
               thread_at s3 i (fun t => t_pc t = PIdle /\ t_held t = false).
Proof. exact unlock_with_waiters_signals. Qed.
Print Assumptions C18_unlock_with_waiters_signals.

(* ... and the holder does find a non-zero value when a sleeper depends on it *)
Theorem C18_sleeper_forces_signal : forall s, reachable s -> 0 < at_pc PLrecv s -> s_ch s = false ->
  at_pc PUsend s = 0 -> at_pc PLload s + at_pc PLswap s = 0 -> holders s = 1 /\ s_v s < 0.
Proof. exact sleeper_forces_signal. Qed.
Print Assumptions C18_sleeper_forces_signal.

(* a free mutex with sleepers can be taken by a slow-path contender within 3 of its own steps *)
Theorem C18_free_mutex_wakes_sleeper : forall s, reachable s ->
  holders s = 0 -> at_pc PUsend s = 0 -> 0 < at_pc PLrecv s ->
  exists i sched s', thread_at s i in_slow_path /\ (forall j, In j sched -> j = i) /\
    (length sched <= 3)%nat /\ run s sched = Some s' /\ thread_at s' i (fun t => t_held t = true).
Proof. exact free_mutex_wakes_sleeper. Qed.
Print Assumptions C18_free_mutex_wakes_sleeper.

(* if every client program ends by unlocking, then as long as some thread is unfinished some step
   is enabled *)
Theorem C18_deadlock_free : forall progs s, Forall ends_unlock progs -> reachable_from progs s ->
  (exists th, In th (s_thr s) /\ ~ finished th) -> exists i s', step s i = Some s'.
Proof. exact deadlock_free. Qed.
Print Assumptions C18_deadlock_free.

Theorem C18_lock_returns_finite : forall progs sched s, Forall ends_unlock progs ->
  run (init progs) sched = Some s ->
  Z.of_nat (length sched) <= 7 * total_ops progs /\
  ((forall i, step s i = None) -> Forall finished (s_thr s)) /\
  (exists more s', run s more = Some s' /\ Forall finished (s_thr s')).
Proof. exact lock_returns_finite. Qed.
Print Assumptions C18_lock_returns_finite.

(* variant in which Unlock signals only when the swapped-out value is < -1: one sleeper, free
   mutex, nothing enabled, program unfinished *)
Theorem C18_naive_unlock_refuted :
  exists progs sched s, Forall ends_unlock progs /\
    run_gen sig_naive (init progs) sched = Some s /\
    stuck s /\ (forall i, step_gen sig_naive s i = None) /\ ~ Forall finished (s_thr s).
Proof. exact naive_unlock_refuted. Qed.
Print Assumptions C18_naive_unlock_refuted.

Theorem C18_contended_reachable :
  exists s, reachable s /\ at_pc PLrecv s = 2 /\ holders s = 1 /\ s_v s = -2 /\ s_ch s = false.
Proof. exact contended_reachable. Qed.
Print Assumptions C18_contended_reachable.

Theorem C18_contended_run_completes :
  exists s, run (init [LU; LU; LU]) [0; 1; 1; 2; 2; 0; 0; 1; 1; 1; 1; 1; 2; 2; 2; 2; 2]%nat = Some s /\
            forallb finishedb (s_thr s) = true /\ s_v s = 1 /\ s_ch s = true /\
            (forall i, step s i = None).
Proof. exact contended_run_completes. Qed.
Print Assumptions C18_contended_run_completes.

Theorem C18_free_with_sleeper_reachable :
  exists s, reachable s /\ holders s = 0 /\ at_pc PUsend s = 0 /\ 0 < at_pc PLrecv s.
Proof. exact free_with_sleeper_reachable. Qed.
Print Assumptions C18_free_with_sleeper_reachable.

Theorem C18_trylock_true_reachable :
  exists s s', reachable s /\ step_ev s 1%nat = Some (s', EvTryT).
Proof. exact trylock_true_reachable. Qed.
Print Assumptions C18_trylock_true_reachable.
