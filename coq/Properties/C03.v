(* C03 — TCP connections exist only after a correct handshake; strays are reset.
   Model: Model/TcpHs.v (connect.go handshake, accept.go listener and SYN cookies, protocol.go
   unknown-destination reset).  Only theorems here, each closed by [exact].

   clause of the property text                                   theorem
   "an active open completes only on a SYN-ACK that acknowledges  C03_active_completes_iff (one step, iff)
    exactly its SYN"                                              C03_completes_needs_exact_ack (all histories, incl. restarts)
   "a listening socket hands out a connection only after ... the  C03_passive_completes_iff (one step, iff)
    peer's final ACK acknowledges exactly the sequence number     C03_passive_history (all histories)
    the stack chose"
   "a handshake segment acknowledging anything else creates no    C03_wrong_ack_reset (SYN-SENT and SYN-RCVD; state unchanged,
    connection and ... is answered by a reset whose sequence       exactly one RST|ACK with seq = that ack number)
    number is that acknowledgement number"
   "unless the listener is in SYN-flood (cookie) mode"            C03_cookie_roundtrip, C03_cookie_valid_iff, C03_listener_accepts_only_valid_cookie,
                                                                  C03_listener_ignores_other_flags; C03_cookie_lowbits_refuted (known finding)
   "A segment for which no socket exists is answered by exactly   C03_stray_one_reset, C03_reset_format
    one reset that acknowledges it (sequence 0 if no ACK)"
   "a reset is never answered"                                    C03_rst_never_answered (no-socket path; for an established
                                                                  connection see DESIGN.md, finding F12)
   SHA-1 is abstract: the cookie theorems hold for every hash function H. *)
From Coq Require Import ZArith List Bool.
From NP Require Import Model.Seqnum Model.TcpHs Proofs.TcpHsP.
Import ListNotations.
Open Scope Z_scope.

Theorem C03_active_completes_iff : forall h s ni,
  h_state h = stSynSent ->
  (h_state (st_of (hsHandle h s ni)) = stCompleted <->
   has (hs_flags s) fRst = false /\ has (hs_flags s) fSyn = true /\ has (hs_flags s) fAck = true
   /\ hs_ack s = u32 (h_iss h + 1)).
Proof. exact synSent_completes_iff. Qed.
Print Assumptions C03_active_completes_iff.

Theorem C03_passive_completes_iff : forall h s ni,
  h_state h = stSynRcvd ->
  (h_state (st_of (hsHandle h s ni)) = stCompleted <->
   has (hs_flags s) fRst = false /\ has (hs_flags s) fAck = true /\ hs_ack s = u32 (h_iss h + 1)
   /\ (has (hs_flags s) fSyn = true -> hs_seq s = u32 (h_ackNum h - 1))
   /\ (h_tsOk h = true -> hs_hasts s = true)).
Proof. exact synRcvd_completes_iff. Qed.
Print Assumptions C03_passive_completes_iff.

Theorem C03_wrong_ack_reset : forall h s ni,
  (h_state h = stSynSent \/ h_state h = stSynRcvd) ->
  has (hs_flags s) fRst = false -> has (hs_flags s) fAck = true -> hs_ack s <> u32 (h_iss h + 1) ->
  fr_of (hsHandle h s ni) = [reset_for s] /\ err_of (hsHandle h s ni) = 0 /\
  h_state (st_of (hsHandle h s ni)) = h_state h /\ h_iss (st_of (hsHandle h s ni)) = h_iss h /\
  h_ackNum (st_of (hsHandle h s ni)) = h_ackNum h.
Proof. exact wrong_ack_reset. Qed.
Print Assumptions C03_wrong_ack_reset.

Theorem C03_completes_needs_exact_ack : forall ss h,
  h_state h <> stCompleted -> h_state (st_of (hsRun h ss)) = stCompleted ->
  exists s iss', In s (map fst ss) /\ In iss' (h_iss h :: map snd ss) /\
    has (hs_flags s) fRst = false /\ has (hs_flags s) fAck = true /\ hs_ack s = u32 (iss' + 1).
Proof. exact hsRun_completes_needs_ack. Qed.
Print Assumptions C03_completes_needs_exact_ack.

Theorem C03_passive_history : forall ss h,
  h_active h = false -> h_state h = stSynRcvd -> h_state (st_of (hsRun h ss)) = stCompleted ->
  exists s, In s (map fst ss) /\ has (hs_flags s) fRst = false /\ has (hs_flags s) fAck = true
            /\ hs_ack s = u32 (h_iss h + 1).
Proof. exact hsRun_passive_completes. Qed.
Print Assumptions C03_passive_history.

Theorem C03_stray_one_reset : forall s, has (hs_flags s) fRst = false ->
  unknownDestination s = [reset_for s].
Proof. exact unknown_one_reset. Qed.
Print Assumptions C03_stray_one_reset.

Theorem C03_reset_format : forall s,
  hf_flags (reset_for s) = 20 /\ hf_wnd (reset_for s) = 0 /\
  hf_seq (reset_for s) = (if has (hs_flags s) fAck then hs_ack s else 0) /\
  hf_ack (reset_for s) = (hs_seq s + hs_len s + (if has (hs_flags s) fSyn then 1 else 0)
                          + (if has (hs_flags s) fFin then 1 else 0)) mod 2^32.
Proof. exact reset_for_fields. Qed.
Print Assumptions C03_reset_format.

Theorem C03_rst_never_answered : forall s, has (hs_flags s) fRst = true -> unknownDestination s = [].
Proof. exact unknown_rst_never_answered. Qed.
Print Assumptions C03_rst_never_answered.

Theorem C03_cookie_roundtrip : forall (H : Z -> Z -> Z) ts ts' seq data,
  0 <= ts < 256 -> 0 <= data < 2^24 -> Z.land (u32 (ts' - ts)) tsMask <= maxTSDiff ->
  isCookieValid H ts' (createCookie H ts seq data) seq = Some data.
Proof. exact cookie_roundtrip. Qed.
Print Assumptions C03_cookie_roundtrip.

Theorem C03_cookie_valid_iff : forall (H : Z -> Z -> Z) c ts' seq d, 0 <= c < 2^32 ->
  (isCookieValid H ts' c seq = Some d <->
   exists cts, 0 <= cts < 256 /\ Z.land (u32 (ts' - cts)) tsMask <= maxTSDiff /\ 0 <= d < 2^24 /\
               c = createCookie H cts seq d).
Proof. exact cookie_valid_iff. Qed.
Print Assumptions C03_cookie_valid_iff.

Theorem C03_listener_accepts_only_valid_cookie : forall (H : Z -> Z -> Z) cm ts rcvWnd mtuMss s iss irs mss t,
  listenHandle H cm ts rcvWnd mtuMss s = LAccept iss irs mss t ->
  hs_flags s = fAck /\ iss = u32 (hs_ack s - 1) /\ irs = u32 (hs_seq s - 1) /\
  exists d, isCookieValid H ts iss irs = Some d /\ 0 <= d < 4 /\ mss = nth (Z.to_nat d) mssTable 0.
Proof. exact listen_accept_only. Qed.
Print Assumptions C03_listener_accepts_only_valid_cookie.

Theorem C03_listener_ignores_other_flags : forall (H : Z -> Z -> Z) cm ts rcvWnd mtuMss s,
  hs_flags s <> fSyn -> hs_flags s <> fAck -> listenHandle H cm ts rcvWnd mtuMss s = LIgnore.
Proof. exact listen_other_flags_ignored. Qed.
Print Assumptions C03_listener_ignores_other_flags.

Theorem C03_cookie_synack : forall (H : Z -> Z -> Z) ts rcvWnd mtuMss s,
  hs_flags s = fSyn ->
  exists f, listenHandle H true ts rcvWnd mtuMss s = LCookieSynAck f /\
            hf_flags f = Z.lor fSyn fAck /\ hf_ack f = u32 (hs_seq s + 1) /\
            hf_seq f = createCookie H ts (hs_seq s) (encodeMSS (so_mss (hs_opts s))).
Proof. exact listen_syn_cookie. Qed.
Print Assumptions C03_cookie_synack.

(* in cookie mode "exactly the sequence number the stack chose" is false: neighbouring values that
   decode to another MSS class are accepted too (known finding C03-cookie-lowbits) *)
Theorem C03_cookie_lowbits_refuted :
  exists (H : Z -> Z -> Z) ts seq c',
    c' <> createCookie H ts seq 0 /\ isCookieValid H ts c' seq = Some 1.
Proof. exact cookie_lowbits_refuted. Qed.
Print Assumptions C03_cookie_lowbits_refuted.

(* "a reset is never answered", established connection (Model/Tcp.v; finding F16, repaired):
   no frame is emitted in the step that processes a RST segment, acceptable or not, when the
   endpoint owes no acknowledgement; an acceptable one aborts the connection.  The pre-repair
   code answered it with RST|ACK (witness). *)
From NP Require Model.Tcp Proofs.TcpRstP.

Theorem C03_established_rst_not_answered : forall t sg r,
  Tcp.has (Tcp.s_flags sg) Tcp.fRst = true -> Tcp.rcvNxt (Tcp.RC t) = Tcp.maxSentAck (Tcp.SN t) ->
  Tcp.out (fst (Tcp.step t (Tcp.ESeg sg r))) = [].
Proof. exact TcpRstP.established_rst_not_answered. Qed.
Print Assumptions C03_established_rst_not_answered.

Theorem C03_established_rst_aborts : forall t sg r,
  Tcp.estate t = Tcp.stConnected -> Tcp.has (Tcp.s_flags sg) Tcp.fRst = true ->
  Tcp.acceptable (Tcp.RC t) (Tcp.s_seq sg) 0 = true ->
  Tcp.estate (fst (Tcp.step t (Tcp.ESeg sg r))) = Tcp.stError.
Proof. exact TcpRstP.established_rst_aborts. Qed.
Print Assumptions C03_established_rst_aborts.

Theorem C03_rst_answered_old_refuted :
  exists t sg, Tcp.estate t = Tcp.stConnected /\ Tcp.out t = [] /\ Tcp.has (Tcp.s_flags sg) Tcp.fRst = true /\
    exists f, Tcp.out (TcpRstP.handleSegment_rst_old t sg) = [f] /\ Tcp.has (Tcp.f_flags f) Tcp.fRst = true.
Proof. exact TcpRstP.rst_answered_old_refuted. Qed.
Print Assumptions C03_rst_answered_old_refuted.
