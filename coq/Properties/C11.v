(* C11 — UDP datagrams arrive whole, unmerged, at most once each, from the right sender.
   Only the property theorems; each is closed by [exact] of a lemma of Proofs/UdpP.v and followed by
   Print Assumptions.  Model: Model/Udp.v (protocol/transport/udp/endpoint.go of the CURRENT tree,
   i.e. with the two repairs "UDP receive delivers bytes beyond the UDP length field" and "UDP Write
   emits wrapped length fields"); the specification vocabulary (fifo, fifo_step, fifo_run, f_sport,
   f_length, f_payload, pseudo4/6) is at the end of Model/Udp.v and uses list/arithmetic primitives
   only.

   Clause of the property text                                   theorem
   "each datagram returned is byte-for-byte one datagram sent   C11_udp_fifo_whole, C11_udp_refines_fifo,
    to it, boundaries preserved, in arrival order, true source,  C11_accepted_from_arrivals,
    each arrival returned at most once"                          C11_arrival_accept_iff
   "do not fit the receive buffer / arrive after the read side  C11_arrival_accept_iff (else-branch: e' = e),
    is closed: dropped whole, never truncated, split, merged"    C11_shutdown_read_drops, C11_closed_arrival_dropped
   zero-length datagrams                                         C11_empty_datagram_delivered, C11_no_phantom_read
   buffer accounting                                             C11_rcvbuf_accounting, C11_rcvbuf_overshoot_example
   "a datagram written is emitted as one packet carrying        C11_udp_write_one_packet, C11_udp_write_size_limit,
    exactly those bytes, or the write fails"                     C11_shutdown_write_refuses, C11_write_example
   old behaviour (before the repairs), kept as refutations       C11_udp_trailing_bytes_old_refuted,
                                                                 C11_udp_short_length_old_refuted,
                                                                 C11_udp_write_wrap_old_refuted
   RFC 768 "computed 0 is sent as all ones": NOT done            C11_write_checksum_zero_possible
   the hypothesis [arrival_ok] is needed                         C11_short_view_panics *)
From Coq Require Import ZArith List Bool.
From NP Require Import Model.Bytes Model.Checksum Model.Udp Proofs.UdpP.
Import ListNotations.
Open Scope Z_scope.

(* FULL.  For every history of arrivals (any bytes, any senders, any view split the stack can
   deliver), reads, shutdowns, close, binds, connects, control messages and writes on a fresh socket
   of any capacity: the model never panics; the datagrams its successful Reads return are those of
   the bounded FIFO [fifo_run] (whose step accepts an arrival iff bound, read side open, queued
   bytes < capacity and 8 <= Length <= size, and then enqueues (NIC, network source, header source
   port, bytes 8..Length-1)); the final queue and flags are the FIFO's; rcvBufSize is the number of
   queued payload bytes; accepted = returned ++ still queued ++ discarded by Close, so the k-th
   successful Read returns exactly the k-th accepted datagram. *)
Theorem C11_udp_fifo_whole : forall ops max,
  Forall arrival_ok ops ->
  let e := fst (run ops (newEndpoint max)) in
  let outs := snd (run ops (newEndpoint max)) in
  let s := fst (fst (fifo_run ops (fifo_new max))) in
  ~ In OutPanic outs /\
  reads_of outs = snd (fst (fifo_run ops (fifo_new max))) /\
  abs e = s /\
  rcvBufSize e = qbytes (q_items s) /\
  (exists lost, accepted ops max = reads_of outs ++ q_items s ++ lost) /\
  reads_of outs = firstn (length (reads_of outs)) (accepted ops max).
Proof. exact fifo_whole. Qed.
Print Assumptions C11_udp_fifo_whole.

(* the hypotheses are satisfiable and every branch is taken: empty datagram, trailing bytes beyond
   the length field cut off, drop on a full buffer, drop on Length < 8, FIFO reads, ErrWouldBlock *)
Theorem C11_fifo_example :
  let ops := [OBind (inr 53);
              OArrive 1 [10;0;0;2] 8 [15;160; 0;53; 0;8; 0;0];
              OArrive 2 [10;0;0;3] 12 [15;161; 0;53; 0;11; 0;0; 7;8;9; 200;201];
              OArrive 1 [10;0;0;2] 9 [15;160; 0;53; 0;9; 0;0; 1];
              OArrive 1 [10;0;0;2] 9 [15;160; 0;53; 0;7; 0;0; 1];
              ORead; ORead; ORead] in
  Forall arrival_ok ops /\
  reads_of (snd (run ops (newEndpoint 3))) =
    [mkDg 1 [10;0;0;2] 4000 []; mkDg 2 [10;0;0;3] 4001 [7;8;9]] /\
  accepted ops 3 = [mkDg 1 [10;0;0;2] 4000 []; mkDg 2 [10;0;0;3] 4001 [7;8;9]] /\
  last (snd (run ops (newEndpoint 3))) OutNone = OutRead (RErr ErrWouldBlock).
Proof. exact fifo_example. Qed.
Print Assumptions C11_fifo_example.

(* FULL.  The refinement from any consistent state (rcvBufSize = queued bytes, flags agree with the
   endpoint state), for every continuation. *)
Theorem C11_udp_refines_fifo : forall ops e,
  inv e -> Forall arrival_ok ops ->
  inv (fst (run ops e)) /\
  abs (fst (run ops e)) = fst (fst (fifo_run ops (abs e))) /\
  reads_of (snd (run ops e)) = snd (fst (fifo_run ops (abs e))) /\
  ~ In OutPanic (snd (run ops e)).
Proof. exact refines_fifo. Qed.
Print Assumptions C11_udp_refines_fifo.

(* FULL.  The accepted datagrams are a subsequence of the arrivals' (NIC, source address, header
   source port, bytes 8..Length-1): each arrival contributes at most one, order is kept, nothing is
   invented, merged or split. *)
Theorem C11_accepted_from_arrivals : forall ops max, subseq (accepted ops max) (arrivals ops).
Proof. exact accepted_from_arrivals. Qed.
Print Assumptions C11_accepted_from_arrivals.

(* FULL.  One arrival in any consistent state: accepted iff the abstract test says so; then exactly
   one packet is appended and only the queue and its size change; otherwise NOTHING changes. *)
Theorem C11_arrival_accept_iff : forall e nic remote first vv,
  inv e -> (8 <= first <= length vv)%nat ->
  exists e', handlePacket e nic remote first vv = Some e' /\
  if fifo_accepts (abs e) vv
  then rcvList e' = rcvList e ++ [mkPkt (mkFA nic remote (f_sport vv)) (f_payload vv)] /\
       rcvBufSize e' = rcvBufSize e + len (f_payload vv) /\
       e' = set_rcv e (rcvList e') (rcvBufSize e')
  else e' = e.
Proof. exact arrival_accept_iff. Qed.
Print Assumptions C11_arrival_accept_iff.

(* FULL.  Length = 8: queued as an empty message, Read returns it as data with the sender's address
   (nil error), it does not consume buffer space and never blocks later arrivals. *)
Theorem C11_empty_datagram_delivered : forall e nic remote first vv,
  inv e -> (8 <= first <= length vv)%nat -> f_length vv = 8 -> rcvList e = [] ->
  fifo_accepts (abs e) vv = true ->
  exists e1, handlePacket e nic remote first vv = Some e1 /\
             snd (read e1) = RData (mkFA nic remote (f_sport vv)) [] /\
             rcvBufSize e1 = rcvBufSize e /\
             fifo_accepts (abs e1) vv = true.
Proof. exact empty_datagram_delivered. Qed.
Print Assumptions C11_empty_datagram_delivered.

(* FULL.  Read never returns (empty view, nil error) from an empty queue — an empty result is always
   a queued empty datagram — as long as control messages are of the two types the network layers
   pass (ipv4/icmp.go, ipv6/icmp.go: ControlPacketTooBig = 0, ControlPortUnreachable = 1). *)
Theorem C11_no_phantom_read : forall ops e,
  Forall control_ok ops -> icmp_inv e -> ~ In (OutRead (RErr 0)) (snd (run ops e)).
Proof. exact no_phantom_read. Qed.
Print Assumptions C11_no_phantom_read.

(* FULL.  Accounting: rcvBufSize = sum of the queued payload sizes, never negative, and above the
   maximum by less than one datagram (so the int addition cannot overflow); the maximum never
   changes. *)
Theorem C11_rcvbuf_accounting : forall ops max,
  Forall arrival_ok ops -> Forall arrival_bytes ops ->
  let e := fst (run ops (newEndpoint max)) in
  rcvBufSize e = qbytes (map dg_of_pkt (rcvList e)) /\
  0 <= rcvBufSize e <= Z.max 0 (max + 65526) /\ rcvBufSizeMax e = max.
Proof. exact rcvbuf_accounting. Qed.
Print Assumptions C11_rcvbuf_accounting.

(* the test is "already full?", not "does it fit?": capacity 1 accepts a 4-byte datagram *)
Theorem C11_rcvbuf_overshoot_example :
  exists vv, bytes_ok vv /\
    let e := fst (run [OBind (inr 53); OArrive 1 [10;0;0;2] 8 vv] (newEndpoint 1)) in
    rcvBufSize e = 4 /\ rcvBufSizeMax e = 1.
Proof. exact rcvbuf_overshoot_example. Qed.
Print Assumptions C11_rcvbuf_overshoot_example.

(* FULL.  shutdown_read_drops: once the read side is closed (Shutdown(ShutdownRead) on a bound or
   connected socket sets rcvClosed and keeps the queue; Close sets it and empties the queue), for
   every continuation: it stays closed, no arrival is accepted, and what was queued is returned in
   order by the following Reads (reads ++ rest ++ discarded-by-Close = old queue). *)
Theorem C11_shutdown_read_drops : forall e ops,
  inv e -> rcvClosed e = true -> Forall arrival_ok ops ->
  let e' := fst (run ops e) in
  rcvClosed e' = true /\
  (exists lost, map dg_of_pkt (rcvList e) = reads_of (snd (run ops e)) ++ map dg_of_pkt (rcvList e') ++ lost) /\
  snd (fifo_run ops (abs e)) = [].
Proof. exact read_closed_drops. Qed.
Print Assumptions C11_shutdown_read_drops.

Theorem C11_shutdown_read_effect : forall e wr,
  (state e = stateBound \/ state e = stateConnected) ->
  let e1 := fst (shutdown e true wr) in
  snd (shutdown e true wr) = ErrNil /\ rcvClosed e1 = true /\ rcvList e1 = rcvList e /\ rcvBufSize e1 = rcvBufSize e.
Proof. exact shutdown_read_effect. Qed.
Print Assumptions C11_shutdown_read_effect.

Theorem C11_closed_arrival_dropped : forall e nic remote first vv,
  (8 <= first <= length vv)%nat -> rcvClosed e = true -> handlePacket e nic remote first vv = Some e.
Proof. exact closed_arrival_dropped. Qed.
Print Assumptions C11_closed_arrival_dropped.

(* FULL.  udp_write_one_packet: for every state, destination, payload and every answer of the rest
   of the stack (well-formed: 16-bit ports, even-length byte addresses, non-nil oracle errors), Write
   never panics and either hands nothing to the network layer and returns an error with count 0, or
   hands over exactly one segment with source port = the socket's, destination port = the
   destination's, Length = 8 + n, bytes 8.. = the written bytes, n <= 65535 - 8 (- 20 over IPv4),
   and (no checksum offload) an RFC 1071 sum over pseudo header + segment of 0xffff. *)
Theorem C11_udp_write_one_packet : forall e more to env v,
  bytes_ok v -> wf_write e to env ->
  write_post (fst (write e more to env v)) to env v (snd (write e more to env v)).
Proof. exact write_one_packet. Qed.
Print Assumptions C11_udp_write_one_packet.

(* FULL.  The limit is exact: when Write gets as far as sending, n <= maximum gives one packet with
   those bytes, n above it gives ErrMessageTooLong and nothing emitted. *)
Theorem C11_udp_write_size_limit : forall e to env v rt dport,
  bytes_ok v -> wf_write e to env -> can_send e to env ->
  route_used e to env = Some (rt, dport) -> we_resolve env = 0 ->
  let r := snd (write e false to env v) in
  if len v <=? maxPayload (r_netProto rt)
  then exists sg, w_emitted r = [sg] /\ skipn 8 (sg_bytes sg) = v /\ f_length (sg_bytes sg) = 8 + len v
  else w_emitted r = [] /\ w_n r = 0 /\ w_err r = ErrMessageTooLong.
Proof. exact write_size_limit. Qed.
Print Assumptions C11_udp_write_size_limit.

(* FULL.  shutdown_write_refuses *)
Theorem C11_shutdown_write_refuses : forall e to env v,
  shutWrite e = true -> len v <= 65535 ->
  write e false to env v = (e, mkWR [] 0 ErrClosedForSend false).
Proof. exact shutdown_write_refuses. Qed.
Print Assumptions C11_shutdown_write_refuses.

(* the hypotheses of the two write theorems hold of a connected socket, and the success branch is
   taken: the exact bytes of a 3-byte datagram *)
Theorem C11_write_example :
  wf_write ex_conn None ex_env /\ can_send ex_conn None ex_env /\
  snd (write ex_conn false None ex_env [104; 105; 33]) =
  mkWR [mkSeg IPv4ProtocolNumber [10;0;0;1] [10;0;0;2] 255
          [156;64; 0;53; 0;11; 197;246; 104;105;33]] 3 0 false.
Proof. exact write_example. Qed.
Print Assumptions C11_write_example.

(* REFUTED for the code before "fix: UDP receive delivers bytes beyond the UDP length field":
   Length 12 inside an 18-byte network payload delivered 10 bytes; the current model delivers 4. *)
Theorem C11_udp_trailing_bytes_old_refuted :
  exists e vv e', bytes_ok vv /\ length vv = 18%nat /\ f_length vv = 12 /\
    handlePacket_old e 1 [10;0;0;2] 18 vv = Some e' /\
    (exists p, rcvList e' = [p] /\ length (pdata p) = 10%nat /\ pdata p <> f_payload vv) /\
    (exists e'' p, handlePacket e 1 [10;0;0;2] 18 vv = Some e'' /\ rcvList e'' = [p] /\ pdata p = f_payload vv /\
                   length (pdata p) = 4%nat).
Proof. exact trailing_bytes_old_refuted. Qed.
Print Assumptions C11_udp_trailing_bytes_old_refuted.

Theorem C11_udp_short_length_old_refuted :
  exists e vv e', bytes_ok vv /\ f_length vv = 3 /\
    handlePacket_old e 1 [10;0;0;2] 12 vv = Some e' /\ length (rcvList e') = 1%nat /\
    handlePacket e 1 [10;0;0;2] 12 vv = Some e.
Proof. exact short_length_old_refuted. Qed.
Print Assumptions C11_udp_short_length_old_refuted.

(* REFUTED for the code before "fix: UDP Write emits wrapped length fields": n = 65530 was accepted
   and emitted with a UDP length field of 2; the current model returns ErrMessageTooLong. *)
Theorem C11_udp_write_wrap_old_refuted :
  exists v, bytes_ok v /\ len v = 65530 /\
    let r := snd (write_old ex_conn false None ex_env v) in
    w_err r = 0 /\ w_n r = 65530 /\ Z.of_nat (length (w_emitted r)) = 1 /\
    f_length (sg_bytes (first_seg r)) = 2 /\ len (sg_bytes (first_seg r)) = 65538 /\
    snd (write ex_conn false None ex_env v) = mkWR [] 0 ErrMessageTooLong false.
Proof. exact write_wrap_old_refuted. Qed.
Print Assumptions C11_udp_write_wrap_old_refuted.

(* The code does NOT replace a computed checksum of 0 by 0xffff (RFC 768): such a segment goes out
   with checksum field 0 ("no checksum" over IPv4, to be discarded over IPv6).  It still carries
   exactly the written bytes and sums to 0xffff, so the property text is not violated; checksum
   validity belongs to C06. *)
Theorem C11_write_checksum_zero_possible :
  exists v, bytes_ok v /\
    exists sg, w_emitted (snd (write ex_conn false None ex_env v)) = [sg] /\
               f_checksum (sg_bytes sg) = 0 /\
               rfc1071_sum (pseudo4 (sg_src sg) (sg_dst sg) (sg_bytes sg)) 0 = 65535.
Proof. exact write_checksum_zero_possible. Qed.
Print Assumptions C11_write_checksum_zero_possible.

(* the view guarantee of NIC.DeliverTransportPacket is needed: a 5-byte first view makes
   header.UDP.Length() index out of range *)
Theorem C11_short_view_panics : forall e nic remote vv, handlePacket e nic remote 5 vv = None.
Proof. exact handlePacket_short_view_panics. Qed.
Print Assumptions C11_short_view_panics.
