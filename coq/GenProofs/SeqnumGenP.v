(* Second tie for C14: the definitions in SeqnumGen.v are REGENERATED from /repo/pkg/seqnum/seqnum.go
   by harness/cmd/tr_seqnum on every run of the C14 check; this file proves that each generated
   function equals the hand-written model function the C14 theorems are about, for all integers.
   It is compiled in a scratch directory together with the freshly generated file
   (-Q <scratch> NPGen).  If the source changes so that one of these equalities fails, the check
   reports the broken obligation and falls through to the differential search for a failing input. *)
From Coq Require Import ZArith Bool Lia.
From NP Require Import Model.Seqnum.
From NPGen Require Import SeqnumGen.
Open Scope Z_scope.

Ltac unf_all :=
  cbv beta delta [gen_LessThan gen_LessThanEq gen_InRange gen_InWindow gen_Overlap gen_Add gen_Size
         gen_UpdateForward g_u32 g_i32
         lessThan lessThanEq inRange inWindow overlap add size updateForward u32] in *.
Ltac consts := change (2^32) with 4294967296 in *; change (2^31) with 2147483648 in *.
Ltac splitifs :=
  repeat match goal with
         | |- context [if ?c then _ else _] => let E := fresh "E" in destruct c eqn:E; cbv iota in *
         | H : context [if ?c then _ else _] |- _ => let E := fresh "E" in destruct c eqn:E; cbv iota in *
         end.
Ltac toprop :=
  repeat match goal with
         | H : (_ <? _) = true |- _ => apply Z.ltb_lt in H
         | H : (_ <? _) = false |- _ => apply Z.ltb_ge in H
         | H : (_ <=? _) = true |- _ => apply Z.leb_le in H
         | H : (_ <=? _) = false |- _ => apply Z.leb_gt in H
         | H : (_ =? _) = true |- _ => apply Z.eqb_eq in H
         | H : (_ =? _) = false |- _ => apply Z.eqb_neq in H
         | H : (_ && _) = true |- _ => apply andb_true_iff in H; destruct H
         | H : (_ && _) = false |- _ => apply andb_false_iff in H; destruct H
         | H : (_ || _) = true |- _ => apply orb_true_iff in H; destruct H
         | H : (_ || _) = false |- _ => apply orb_false_iff in H; destruct H
         | H : negb _ = true |- _ => apply negb_true_iff in H
         | H : negb _ = false |- _ => apply negb_false_iff in H
         end.
Ltac bool_eq :=
  unf_all; cbv zeta in *; consts;
  match goal with |- ?a = ?b => destruct a eqn:Ea; destruct b eqn:Eb; try reflexivity; exfalso end;
  splitifs; toprop; try discriminate; Z.div_mod_to_equations; lia.
Ltac z_eq := unf_all; cbv zeta in *; consts; splitifs; toprop; Z.div_mod_to_equations; lia.

Theorem gen_LessThan_eq : forall v w, gen_LessThan v w = lessThan v w.
Proof. intros. bool_eq. Qed.
Theorem gen_LessThanEq_eq : forall v w, gen_LessThanEq v w = lessThanEq v w.
Proof. intros. bool_eq. Qed.
Theorem gen_InRange_eq : forall v a b, gen_InRange v a b = inRange v a b.
Proof. intros. bool_eq. Qed.
Theorem gen_InWindow_eq : forall v f s, gen_InWindow v f s = inWindow v f s.
Proof. intros. bool_eq. Qed.
Theorem gen_Overlap_eq : forall a b x y, gen_Overlap a b x y = overlap a b x y.
Proof. intros. bool_eq. Qed.
Theorem gen_Add_eq : forall v s, gen_Add v s = add v s.
Proof. intros. z_eq. Qed.
Theorem gen_Size_eq : forall v w, gen_Size v w = size v w.
Proof. intros. z_eq. Qed.
Theorem gen_UpdateForward_eq : forall v s, gen_UpdateForward v s = updateForward v s.
Proof. intros. z_eq. Qed.
Print Assumptions gen_LessThan_eq.
Print Assumptions gen_Overlap_eq.
