(* Proof obligations of the second tie of C15: the definitions that harness/cmd/tr_header generates
   from the CURRENT protocol/header/{tcp,udp,ipv4,ipv6,icmpv4,icmpv6,eth}.go (HeaderGen.v, regenerated on
   every run) are equal to the hand-written model functions the C15 theorems are stated about, for
   every byte string and every argument.  A changed offset, width, shift, mask or store order in the
   Go source changes HeaderGen.v and breaks the corresponding theorem here. *)
From Coq Require Import ZArith List.
From NP Require Import Model.Bytes Model.HdrIP Model.HdrTransport Model.HdrLink.
From NPGen Require Import HeaderGen.
Open Scope Z_scope.

Theorem gen_TCP_SourcePort_eq : forall b, gen_TCP_SourcePort b = tcp_sourcePort b.
Proof. reflexivity. Qed.

Theorem gen_TCP_DestinationPort_eq : forall b, gen_TCP_DestinationPort b = tcp_destinationPort b.
Proof. reflexivity. Qed.

Theorem gen_TCP_SequenceNumber_eq : forall b, gen_TCP_SequenceNumber b = tcp_sequenceNumber b.
Proof. reflexivity. Qed.

Theorem gen_TCP_AckNumber_eq : forall b, gen_TCP_AckNumber b = tcp_ackNumber b.
Proof. reflexivity. Qed.

Theorem gen_TCP_DataOffset_eq : forall b, gen_TCP_DataOffset b = tcp_dataOffset b.
Proof. reflexivity. Qed.

Theorem gen_TCP_Flags_eq : forall b, gen_TCP_Flags b = tcp_flags b.
Proof. reflexivity. Qed.

Theorem gen_TCP_WindowSize_eq : forall b, gen_TCP_WindowSize b = tcp_windowSize b.
Proof. reflexivity. Qed.

Theorem gen_TCP_Checksum_eq : forall b, gen_TCP_Checksum b = tcp_checksum b.
Proof. reflexivity. Qed.

Theorem gen_TCP_SetSourcePort_eq : forall b port, gen_TCP_SetSourcePort b port = tcp_setSourcePort b port.
Proof. reflexivity. Qed.

Theorem gen_TCP_SetDestinationPort_eq : forall b port, gen_TCP_SetDestinationPort b port = tcp_setDestinationPort b port.
Proof. reflexivity. Qed.

Theorem gen_TCP_SetChecksum_eq : forall b checksum, gen_TCP_SetChecksum b checksum = tcp_setChecksum b checksum.
Proof. reflexivity. Qed.

Theorem gen_TCP_encodeSubset_eq : forall b seq ack flags rcvwnd, gen_TCP_encodeSubset b seq ack flags rcvwnd = tcp_encodeSubset b seq ack flags rcvwnd.
Proof. reflexivity. Qed.

Theorem gen_UDP_SourcePort_eq : forall b, gen_UDP_SourcePort b = udp_sourcePort b.
Proof. reflexivity. Qed.

Theorem gen_UDP_DestinationPort_eq : forall b, gen_UDP_DestinationPort b = udp_destinationPort b.
Proof. reflexivity. Qed.

Theorem gen_UDP_Length_eq : forall b, gen_UDP_Length b = udp_length b.
Proof. reflexivity. Qed.

Theorem gen_UDP_Checksum_eq : forall b, gen_UDP_Checksum b = udp_checksum b.
Proof. reflexivity. Qed.

Theorem gen_UDP_SetSourcePort_eq : forall b port, gen_UDP_SetSourcePort b port = udp_setSourcePort b port.
Proof. reflexivity. Qed.

Theorem gen_UDP_SetDestinationPort_eq : forall b port, gen_UDP_SetDestinationPort b port = udp_setDestinationPort b port.
Proof. reflexivity. Qed.

Theorem gen_UDP_SetChecksum_eq : forall b checksum, gen_UDP_SetChecksum b checksum = udp_setChecksum b checksum.
Proof. reflexivity. Qed.

Theorem gen_IPv4_HeaderLength_eq : forall b, gen_IPv4_HeaderLength b = ipv4_headerLength b.
Proof. reflexivity. Qed.

Theorem gen_IPv4_ID_eq : forall b, gen_IPv4_ID b = ipv4_id b.
Proof. reflexivity. Qed.

Theorem gen_IPv4_Protocol_eq : forall b, gen_IPv4_Protocol b = ipv4_protocol b.
Proof. reflexivity. Qed.

Theorem gen_IPv4_Flags_eq : forall b, gen_IPv4_Flags b = ipv4_flags b.
Proof. reflexivity. Qed.

Theorem gen_IPv4_TTL_eq : forall b, gen_IPv4_TTL b = ipv4_ttl b.
Proof. reflexivity. Qed.

Theorem gen_IPv4_FragmentOffset_eq : forall b, gen_IPv4_FragmentOffset b = ipv4_fragmentOffset b.
Proof. reflexivity. Qed.

Theorem gen_IPv4_TotalLength_eq : forall b, gen_IPv4_TotalLength b = ipv4_totalLength b.
Proof. reflexivity. Qed.

Theorem gen_IPv4_Checksum_eq : forall b, gen_IPv4_Checksum b = ipv4_checksum b.
Proof. reflexivity. Qed.

Theorem gen_IPv4_SetTotalLength_eq : forall b totalLength, gen_IPv4_SetTotalLength b totalLength = ipv4_setTotalLength b totalLength.
Proof. reflexivity. Qed.

Theorem gen_IPv4_SetChecksum_eq : forall b v, gen_IPv4_SetChecksum b v = ipv4_setChecksum b v.
Proof. reflexivity. Qed.

Theorem gen_IPv6_PayloadLength_eq : forall b, gen_IPv6_PayloadLength b = ipv6_payloadLength b.
Proof. reflexivity. Qed.

Theorem gen_IPv6_HopLimit_eq : forall b, gen_IPv6_HopLimit b = ipv6_hopLimit b.
Proof. reflexivity. Qed.

Theorem gen_IPv6_NextHeader_eq : forall b, gen_IPv6_NextHeader b = ipv6_nextHeader b.
Proof. reflexivity. Qed.

Theorem gen_IPv6_SetPayloadLength_eq : forall b payloadLength, gen_IPv6_SetPayloadLength b payloadLength = ipv6_setPayloadLength b payloadLength.
Proof. reflexivity. Qed.

Theorem gen_IPv6_SetNextHeader_eq : forall b v, gen_IPv6_SetNextHeader b v = ipv6_setNextHeader b v.
Proof. reflexivity. Qed.

Theorem gen_ICMPv4_Type_eq : forall b, gen_ICMPv4_Type b = icmp_type b.
Proof. reflexivity. Qed.

Theorem gen_ICMPv4_SetType_eq : forall b t, gen_ICMPv4_SetType b t = icmp_setType b t.
Proof. reflexivity. Qed.

Theorem gen_ICMPv4_Code_eq : forall b, gen_ICMPv4_Code b = icmp_code b.
Proof. reflexivity. Qed.

Theorem gen_ICMPv4_SetCode_eq : forall b c, gen_ICMPv4_SetCode b c = icmp_setCode b c.
Proof. reflexivity. Qed.

Theorem gen_ICMPv4_Checksum_eq : forall b, gen_ICMPv4_Checksum b = icmp_checksum b.
Proof. reflexivity. Qed.

Theorem gen_ICMPv4_SetChecksum_eq : forall b checksum, gen_ICMPv4_SetChecksum b checksum = icmp_setChecksum b checksum.
Proof. reflexivity. Qed.

Theorem gen_ICMPv6_Type_eq : forall b, gen_ICMPv6_Type b = icmp_type b.
Proof. reflexivity. Qed.

Theorem gen_ICMPv6_SetType_eq : forall b t, gen_ICMPv6_SetType b t = icmp_setType b t.
Proof. reflexivity. Qed.

Theorem gen_ICMPv6_Code_eq : forall b, gen_ICMPv6_Code b = icmp_code b.
Proof. reflexivity. Qed.

Theorem gen_ICMPv6_SetCode_eq : forall b c, gen_ICMPv6_SetCode b c = icmp_setCode b c.
Proof. reflexivity. Qed.

Theorem gen_ICMPv6_Checksum_eq : forall b, gen_ICMPv6_Checksum b = icmp_checksum b.
Proof. reflexivity. Qed.

Theorem gen_ICMPv6_SetChecksum_eq : forall b checksum, gen_ICMPv6_SetChecksum b checksum = icmp_setChecksum b checksum.
Proof. reflexivity. Qed.

Theorem gen_Ethernet_Type_eq : forall b, gen_Ethernet_Type b = eth_type b.
Proof. reflexivity. Qed.
