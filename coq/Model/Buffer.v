(* Model of /repo/pkg/buffer/view.go and prependable.go.  Executable definitions only; no proofs.

   Go slices are modelled as slice headers, because the property is partly ABOUT aliasing:

   * a [View] ([]byte) is a header (underlying array contents, offset, len, cap).  None of the
     operations of view.go writes a byte, so the underlying byte array is carried by value in
     the header; two Views with the same [varr] alias the same Go array.  The only byte writes in
     scope are the caller filling the region returned by Prependable.Prepend; that region
     aliases the Prependable's own array and the write is modelled on the Prependable ([p_fill]).
   * a [VectorisedView] is (views, size) where [views] is a header slice: a header
     (array id, offset, len, cap) into a [heap] of MUTABLE arrays of View headers.
     TrimFront writes views[0] in place and re-slices views[1:], CapLength writes views[i] in
     place and re-slices views[:i+1], Clone(buf) is append(buf[:0], views...): it writes into
     buf's array when len(views) <= cap(buf) and allocates a fresh array otherwise.
     Positions inside header arrays are [nat] (they are never compared with caller-supplied
     integers except in len(views) <= cap(buffer)); byte counts / offsets are [Z].
   * a slice expression that Go rejects at run time yields [Panic]; a panicking assignment
     "*v = ( *v)[..]" leaves the receiver unchanged (the right-hand side panics first).

   Proof structure (Proofs/BufferP.v), two levels: (1) the loops of TrimFront / CapLength as
   pure functions on the list of headers a header slice exposes, shown to act on the
   concatenated bytes like trim / cap on a plain byte string for every chunking and every count
   in Z; (2) the heap-level operations below are shown to compute exactly those functions and to
   write only the object's own header array (frame), which gives the independence of clones.

   Abstractions: nil slices are modelled as empty slices over a fresh zero-length array
   (nil-ness of the results of First/ToView/Prepend is not part of the View model, the driver
   reports it separately where it matters: Prepend); the capacity of the array that append
   allocates is modelled as exactly len (Go rounds up to a size class; no operation of the
   package depends on it); machine-integer overflow of int (64 bit) is out of scope. *)
From Coq Require Import ZArith Bool List.
Import ListNotations.
Open Scope Z_scope.

Inductive res (A : Type) : Type := Ok (a : A) | Panic.
Arguments Ok {A} a.
Arguments Panic {A}.

(* ------------------------------------------------------------------ []byte / View *)

Record View := mkView { varr : list Z; voff : Z; vlen : Z; vcap : Z }.

Definition nilView : View := mkView [] 0 0 0.

(* l[off : off+len] on the underlying array *)
Definition seg {A : Type} (off len : Z) (l : list A) : list A :=
  firstn (Z.to_nat len) (skipn (Z.to_nat off) l).

(* the visible bytes v[0:len(v)] and everything reachable by re-slicing, v[:cap(v)] *)
Definition vbytes (v : View) : list Z := seg (voff v) (vlen v) (varr v).
Definition vfull (v : View) : list Z := seg (voff v) (vcap v) (varr v).

(* Go: s[i:j:k] panics unless 0 <= i <= j <= k <= cap(s); result len j-i, cap k-i *)
Definition slice3 (v : View) (i j k : Z) : res View :=
  if (0 <=? i) && (i <=? j) && (j <=? k) && (k <=? vcap v)
  then Ok (mkView (varr v) (voff v + i) (j - i) (k - i))
  else Panic.

(* Go: s[i:j] panics unless 0 <= i <= j <= cap(s); result len j-i, cap cap(s)-i *)
Definition slice2 (v : View) (i j : Z) : res View := slice3 v i j (vcap v).

(* func NewView(size int) View { return make(View, size) }      (make panics on size < 0) *)
Definition newView (size : Z) : res View :=
  if size <? 0 then Panic else Ok (mkView (repeat 0 (Z.to_nat size)) 0 size size).

(* a View over arr[off : off+len] with the capacity running to the end of arr, as produced by
   the Go expression arr[off:off+len] (used to build test inputs) *)
Definition viewOf (arr : list Z) (off len : Z) : View :=
  mkView arr off len (Z.of_nat (length arr) - off).

(* func (v *View) TrimFront(count int) { *v = ( *v)[count:] } *)
Definition view_trimFront (v : View) (count : Z) : res View := slice2 v count (vlen v).

(* func (v *View) CapLength(length int) { *v = ( *v)[:length:length] } *)
Definition view_capLength (v : View) (length : Z) : res View := slice3 v 0 length length.

(* the variant the comment in CapLength warns against: *v = ( *v)[:length]  (NOT the code;
   used only to show that the three-index form matters) *)
Definition view_capLength_twoIndex (v : View) (length : Z) : res View := slice2 v 0 length.

(* func (v *View) NextBytes(size int) []byte { defer v.TrimFront(size); return ( *v)[:size] }
   the result expression is evaluated first, the deferred TrimFront runs in either case and the
   call panics if either panics; result = (returned slice, new receiver).  Whenever the call
   panics, TrimFront itself panics (size < 0 or size > len: view_nextBytes_panic_iff), so the
   receiver is unchanged by a panicking call *)
Definition view_nextBytes (v : View) (size : Z) : res (View * View) :=
  match slice2 v 0 size, view_trimFront v size with
  | Ok r, Ok v' => Ok (r, v')
  | _, _ => Panic
  end.

(* ------------------------------------------------------------------ heap of []View arrays *)

Definition heap := list (list View).

Record hslice := mkH { harr : nat; hoff : nat; hlen : nat; hcap : nat }.

Record VV := mkVV { views : hslice; size : Z }.

Fixpoint upd {A : Type} (i : nat) (x : A) (l : list A) : list A :=
  match l, i with
  | [], _ => []
  | _ :: t, O => x :: t
  | y :: t, S i' => y :: upd i' x t
  end.

Definition harray (h : heap) (a : nat) : list View := nth a h [].
Definition hget (h : heap) (a i : nat) : View := nth i (harray h a) nilView.
Definition hset (h : heap) (a i : nat) (v : View) : heap := upd a (upd i v (harray h a)) h.
Definition halloc (h : heap) (cells : list View) : heap * nat := (h ++ [cells], length h).

(* copy(dst[off:], vs): overwrite the cells off .. off+len(vs)-1 of an array *)
Definition overwrite {A : Type} (off : nat) (vs l : list A) : list A :=
  firstn off l ++ vs ++ skipn (off + length vs) l.
Definition hwrite (h : heap) (a off : nat) (vs : list View) : heap :=
  upd a (overwrite off vs (harray h a)) h.

(* the View headers a header slice exposes: s[0:len(s)] *)
Definition hviews (h : heap) (s : hslice) : list View :=
  firstn (hlen s) (skipn (hoff s) (harray h (harr s))).

(* func NewVectorisedView(size int, views []View) VectorisedView
     { return VectorisedView{views: views, size: size} }
   with the []View freshly allocated by the caller from the given headers *)
Definition newVectorisedView (h : heap) (sz : Z) (vs : list View) : heap * VV :=
  let '(h', a) := halloc h vs in (h', mkVV (mkH a 0 (length vs) (length vs)) sz).

(* func (v View) ToVectorisedView() VectorisedView
     { return NewVectorisedView(len(v), []View{v}) } *)
Definition view_toVectorisedView (h : heap) (v : View) : heap * VV :=
  newVectorisedView h (vlen v) [v].

(* func (vv *VectorisedView) RemoveFirst() {
     if len(vv.views) == 0 { return }
     vv.size -= len(vv.views[0])
     vv.views = vv.views[1:] } *)
Definition vv_removeFirst (h : heap) (vv : VV) : VV :=
  let s := views vv in
  match hlen s with
  | O => vv
  | S n => mkVV (mkH (harr s) (S (hoff s)) n (hcap s - 1))
                (size vv - vlen (hget h (harr s) (hoff s)))
  end.

(* func (vv *VectorisedView) TrimFront(count int) {
     for count > 0 && len(vv.views) > 0 {
       if count < len(vv.views[0]) {
         vv.size -= count
         vv.views[0].TrimFront(count)
         return
       }
       count -= len(vv.views[0])
       vv.RemoveFirst()
     } }
   every iteration that does not return removes a view, so fuel = len(views)+1 is enough *)
Fixpoint vv_trimFront_loop (fuel : nat) (h : heap) (vv : VV) (count : Z) : res (heap * VV) :=
  match fuel with
  | O => Ok (h, vv)
  | S f =>
    let s := views vv in
    if (0 <? count) && (0 <? hlen s)%nat then
      let v0 := hget h (harr s) (hoff s) in
      if count <? vlen v0 then
        match view_trimFront v0 count with
        | Ok v' => Ok (hset h (harr s) (hoff s) v', mkVV s (size vv - count))
        | Panic => Panic
        end
      else vv_trimFront_loop f h (vv_removeFirst h vv) (count - vlen v0)
    else Ok (h, vv)
  end.

Definition vv_trimFront (h : heap) (vv : VV) (count : Z) : res (heap * VV) :=
  vv_trimFront_loop (S (hlen (views vv))) h vv count.

(* func (vv *VectorisedView) CapLength(length int) {
     if length < 0 { length = 0 }
     if vv.size < length { return }
     vv.size = length
     for i := range vv.views {
       v := &vv.views[i]
       if len( *v) >= length {
         if length == 0 { vv.views = vv.views[:i] }
         else { v.CapLength(length); vv.views = vv.views[:i+1] }
         return
       }
       length -= len( *v)
     } }
   [n] = iterations left (the range expression is evaluated once), [i] = loop index *)
Fixpoint vv_capLength_loop (n i : nat) (h : heap) (vv : VV) (length : Z) : res (heap * VV) :=
  match n with
  | O => Ok (h, vv)
  | S n' =>
    let s := views vv in
    let v := hget h (harr s) (hoff s + i) in
    if length <=? vlen v then
      if length =? 0 then Ok (h, mkVV (mkH (harr s) (hoff s) i (hcap s)) (size vv))
      else
        match view_capLength v length with
        | Ok v' => Ok (hset h (harr s) (hoff s + i) v',
                       mkVV (mkH (harr s) (hoff s) (S i) (hcap s)) (size vv))
        | Panic => Panic
        end
    else vv_capLength_loop n' (S i) h vv (length - vlen v)
  end.

Definition vv_capLength (h : heap) (vv : VV) (length : Z) : res (heap * VV) :=
  let length := if length <? 0 then 0 else length in
  if size vv <? length then Ok (h, vv)
  else vv_capLength_loop (hlen (views vv)) 0 h (mkVV (views vv) length) length.

(* func (vv VectorisedView) Clone(buffer []View) VectorisedView {
     return VectorisedView{views: append(buffer[:0], vv.views...), size: vv.size} }
   append copies into buffer's array when the views fit its capacity (memmove semantics: the
   source is read before the destination is written), else it allocates *)
Definition vv_clone (h : heap) (vv : VV) (buf : hslice) : heap * VV :=
  let vs := hviews h (views vv) in
  let n := hlen (views vv) in
  if (n <=? hcap buf)%nat then
    (hwrite h (harr buf) (hoff buf) vs, mkVV (mkH (harr buf) (hoff buf) n (hcap buf)) (size vv))
  else
    let '(h', a) := halloc h vs in (h', mkVV (mkH a 0 n n) (size vv)).

(* func (vv VectorisedView) First() View {
     if len(vv.views) == 0 { return nil }; return vv.views[0] } *)
Definition vv_first (h : heap) (vv : VV) : View :=
  match hlen (views vv) with
  | O => nilView
  | S _ => hget h (harr (views vv)) (hoff (views vv))
  end.

(* func (vv VectorisedView) Size() int { return vv.size } *)
Definition vv_size (vv : VV) : Z := size vv.

(* func (vv VectorisedView) Views() []View { return vv.views } *)
Definition vv_views (h : heap) (vv : VV) : list View := hviews h (views vv).

(* func (vv VectorisedView) ToView() View {
     u := make([]byte, 0, vv.size)           (panics when size < 0)
     for _, v := range vv.views { u = append(u, v...) }
     return u }
   the result is a fresh array; its capacity is at least max(size, total) *)
Definition vv_toView (h : heap) (vv : VV) : res View :=
  if size vv <? 0 then Panic
  else
    let bs := concat (map vbytes (hviews h (views vv))) in
    let n := Z.of_nat (length bs) in
    Ok (mkView bs 0 n (Z.max n (size vv))).

(* ------------------------------------------------------------------ several objects, one heap *)

(* the original and its clones, all living in one heap *)
Record world := mkW { wheap : heap; wobjs : list VV }.

(* operations of a history; objects are named by their index.  [WClone o k] clones object o
   into a buffer freshly made by the caller: make([]View, k) for k >= 0, nil for k < 0, and
   appends the clone to the object list *)
Inductive wop :=
| WTrim (o : Z) (count : Z)
| WCap (o : Z) (length : Z)
| WRemoveFirst (o : Z)
| WClone (o : Z) (k : Z).

Definition setobj (objs : list VV) (o : nat) (vv : VV) : list VV := upd o vv objs.

Definition wstep (w : world) (op : wop) : res world :=
  match op with
  | WTrim o n =>
    match nth_error (wobjs w) (Z.to_nat o) with
    | None => Ok w
    | Some vv =>
      match vv_trimFront (wheap w) vv n with
      | Ok (h', vv') => Ok (mkW h' (setobj (wobjs w) (Z.to_nat o) vv'))
      | Panic => Panic
      end
    end
  | WCap o n =>
    match nth_error (wobjs w) (Z.to_nat o) with
    | None => Ok w
    | Some vv =>
      match vv_capLength (wheap w) vv n with
      | Ok (h', vv') => Ok (mkW h' (setobj (wobjs w) (Z.to_nat o) vv'))
      | Panic => Panic
      end
    end
  | WRemoveFirst o =>
    match nth_error (wobjs w) (Z.to_nat o) with
    | None => Ok w
    | Some vv => Ok (mkW (wheap w) (setobj (wobjs w) (Z.to_nat o) (vv_removeFirst (wheap w) vv)))
    end
  | WClone o k =>
    match nth_error (wobjs w) (Z.to_nat o) with
    | None => Ok w
    | Some vv =>
      let '(h1, a) := halloc (wheap w) (repeat nilView (Z.to_nat k)) in
      let buf := mkH a 0 (Z.to_nat k) (Z.to_nat k) in
      let '(h2, c) := vv_clone h1 vv buf in
      Ok (mkW h2 (wobjs w ++ [c]))
    end
  end.

Definition wstep_res (r : res world) (op : wop) : res world :=
  match r with Ok w => wstep w op | Panic => Panic end.

Definition wrun (w : world) (ops : list wop) : res world := fold_left wstep_res ops (Ok w).

(* ------------------------------------------------------------------ Prependable *)

Record Prependable := mkP { pbuf : View; usedIdx : Z }.

(* func NewPrependable(size int) Prependable
     { return Prependable{buf: NewView(size), usedIdx: size} } *)
Definition newPrependable (size : Z) : res Prependable :=
  match newView size with Ok v => Ok (mkP v size) | Panic => Panic end.

(* func NewPrependableFromView(v View) Prependable { return Prependable{buf: v, usedIdx: 0} } *)
Definition newPrependableFromView (v : View) : Prependable := mkP v 0.

(* func (p Prependable) View() View { return p.buf[p.usedIdx:] } *)
Definition p_view (p : Prependable) : res View := slice2 (pbuf p) (usedIdx p) (vlen (pbuf p)).

(* func (p Prependable) UsedLength() int { return len(p.buf) - p.usedIdx } *)
Definition p_usedLength (p : Prependable) : Z := vlen (pbuf p) - usedIdx p.

Inductive prepres := PNil | PRegion (r : View) | PPanic.

(* func (p *Prependable) Prepend(size int) []byte {
     if size > p.usedIdx { return nil }
     p.usedIdx -= size
     return p.View()[:size:size] }
   usedIdx is updated BEFORE the slice expressions, so a panicking Prepend (negative size)
   leaves the decremented index behind *)
Definition p_prepend (p : Prependable) (size : Z) : Prependable * prepres :=
  if usedIdx p <? size then (p, PNil)
  else
    let p' := mkP (pbuf p) (usedIdx p - size) in
    match p_view p' with
    | Panic => (p', PPanic)
    | Ok v =>
      match slice3 v 0 size size with
      | Panic => (p', PPanic)
      | Ok r => (p', PRegion r)
      end
    end.

(* the caller's copy(r, data) into a region r returned by Prepend: r aliases p.buf's array, so
   the bytes land in that array at r's offset (at most len(r) bytes are copied) *)
Definition p_fill (p : Prependable) (r : View) (data : list Z) : Prependable :=
  let d := firstn (Z.to_nat (vlen r)) data in
  mkP (mkView (overwrite (Z.to_nat (voff r)) d (varr (pbuf p)))
              (voff (pbuf p)) (vlen (pbuf p)) (vcap (pbuf p)))
      (usedIdx p).

(* one history step: Prepend(k), then fill the returned region (if any) with data *)
Definition p_step (p : Prependable) (op : Z * list Z) : Prependable :=
  let '(k, d) := op in
  match p_prepend p k with
  | (p', PRegion r) => p_fill p' r d
  | (p', _) => p'
  end.

(* ================================================================== specification vocabulary
   (plain byte strings; independent of the operations above) *)

(* a slice header is well-formed: it lies inside its array and len <= cap *)
Definition wf_view (v : View) : Prop :=
  0 <= voff v /\ 0 <= vlen v <= vcap v /\ voff v + vcap v <= Z.of_nat (length (varr v)).

(* a header slice lies inside its (existing) header array *)
Definition hs_ok (h : heap) (s : hslice) : Prop :=
  (harr s < length h)%nat /\ (hlen s <= hcap s)%nat /\
  (hoff s + hcap s <= length (harray h (harr s)))%nat.

(* the byte string a VectorisedView stands for: the concatenation of its visible chunks *)
Definition vv_bytes (h : heap) (vv : VV) : list Z := concat (map vbytes (hviews h (views vv))).

Definition sumlen (vs : list View) : Z := fold_right Z.add 0 (map vlen vs).

(* well-formed VectorisedView: header slice inside the heap, every chunk a well-formed header,
   size = sum of the chunk lengths *)
Definition vv_wf (h : heap) (vv : VV) : Prop :=
  hs_ok h (views vv) /\ Forall wf_view (hviews h (views vv)) /\
  size vv = sumlen (hviews h (views vv)).

(* several objects: each well-formed, no two sharing a header array *)
Definition wf_world (w : world) : Prop :=
  (forall i vv, nth_error (wobjs w) i = Some vv -> vv_wf (wheap w) vv) /\
  (forall i j vi vj, nth_error (wobjs w) i = Some vi -> nth_error (wobjs w) j = Some vj ->
                     i <> j -> harr (views vi) <> harr (views vj)).

Definition wabs (w : world) : list (list Z) := map (vv_bytes (wheap w)) (wobjs w).

(* operations on plain byte strings: trim n bytes from the front (n <= 0: nothing, n beyond the
   end: everything); cap to n bytes (n beyond the end: nothing happens, n < 0: as 0) *)
Definition str_trim (n : Z) (b : list Z) : list Z := skipn (Z.to_nat n) b.
Definition str_cap (n : Z) (b : list Z) : list Z :=
  if Z.of_nat (length b) <? n then b else firstn (Z.to_nat n) b.

(* a family of independent byte strings, one per object *)
Inductive bop := BTrim (o : nat) (n : Z) | BCap (o : nat) (n : Z) | BClone (o : nat).

Definition bstep (bs : list (list Z)) (op : bop) : list (list Z) :=
  match op with
  | BTrim o n => match nth_error bs o with Some b => upd o (str_trim n b) bs | None => bs end
  | BCap o n => match nth_error bs o with Some b => upd o (str_cap n b) bs | None => bs end
  | BClone o => match nth_error bs o with Some b => bs ++ [b] | None => bs end
  end.

(* the byte-string meaning of a history step.  RemoveFirst has no chunk-independent meaning of
   its own: it drops exactly the bytes First() shows at that moment *)
Definition bop_of (w : world) (op : wop) : bop :=
  match op with
  | WTrim o n => BTrim (Z.to_nat o) n
  | WCap o n => BCap (Z.to_nat o) n
  | WRemoveFirst o =>
    BTrim (Z.to_nat o)
          (match nth_error (wobjs w) (Z.to_nat o) with
           | Some vv => Z.of_nat (length (vbytes (vv_first (wheap w) vv)))
           | None => 0
           end)
  | WClone o _ => BClone (Z.to_nat o)
  end.

(* implementation history and byte-string history side by side *)
Definition both_step (st : res world * list (list Z)) (op : wop) : res world * list (list Z) :=
  match fst st with
  | Ok w => (wstep w op, bstep (snd st) (bop_of w op))
  | Panic => (Panic, snd st)
  end.

(* heap h' differs from h at most in the contents (not the length) of header array a *)
Definition frame (h h' : heap) (a : nat) : Prop :=
  length h' = length h /\ (forall b, b <> a -> harray h' b = harray h b) /\
  length (harray h' a) = length (harray h a).

(* which object a history step writes (Clone only reads its source and adds a new object) *)
Definition wop_writes (op : wop) : option nat :=
  match op with
  | WTrim o _ | WCap o _ | WRemoveFirst o => Some (Z.to_nat o)
  | WClone _ _ => None
  end.

(* re-slicing chains: (i, j, k) stands for v[i:j:k]; v[i:j] is the case k = cap(v) *)
Definition reslice (r : res View) (ijk : Z * Z * Z) : res View :=
  match r with
  | Ok v => let '(i, j, k) := ijk in slice3 v i j k
  | Panic => Panic
  end.

(* Prependable: well-formedness and the byte-string history (free space, reserved regions in
   the order they were handed out) *)
Definition wf_p (p : Prependable) : Prop := wf_view (pbuf p) /\ 0 <= usedIdx p <= vlen (pbuf p).

Definition pspec_step (st : Z * list (list Z)) (op : Z * list Z) : Z * list (list Z) :=
  let '(avail, regs) := st in
  let '(k, d) := op in
  if avail <? k then st else (avail - k, regs ++ [d]).
