(* Go's container/heap (src/container/heap/heap.go), exactly: Push = append + up, Pop = swap(0,n-1);
   down(0,n-1); remove last.  Parameterised by the element type and the Less function on elements.
   Executable definitions only. *)
From Coq Require Import ZArith List Bool.
Import ListNotations.

Section GoHeap.
  Variable A : Type.
  Variable less : A -> A -> bool.

  Fixpoint set_nth (l : list A) (i : nat) (x : A) : list A :=
    match l, i with
    | [], _ => []
    | _ :: t, O => x :: t
    | h :: t, S i' => h :: set_nth t i' x
    end.

  Definition swap (l : list A) (i j : nat) : list A :=
    match nth_error l i, nth_error l j with
    | Some a, Some b => set_nth (set_nth l i b) j a
    | _, _ => l
    end.

  Definition lessAt (l : list A) (i j : nat) : bool :=
    match nth_error l i, nth_error l j with
    | Some a, Some b => less a b
    | _, _ => false
    end.

  (* func up(h, j) { for { i := (j-1)/2; if i == j || !h.Less(j, i) { break }; h.Swap(i, j); j = i } }
     (Go's integer division truncates towards zero, so for j = 0 the parent index is 0 = j.) *)
  Fixpoint up (fuel : nat) (l : list A) (j : nat) : list A :=
    match fuel with
    | O => l
    | S f =>
        match j with
        | O => l
        | S _ =>
            let i := Nat.div (j - 1) 2 in
            if lessAt l j i then up f (swap l i j) i else l
        end
    end.

  (* func down(h, i0, n) { i := i0; for { j1 := 2*i+1; if j1 >= n { break }; j := j1;
       if j2 := j1+1; j2 < n && h.Less(j2, j1) { j = j2 }; if !h.Less(j, i) { break }; h.Swap(i, j); i = j } } *)
  Fixpoint down (fuel : nat) (l : list A) (i n : nat) : list A :=
    match fuel with
    | O => l
    | S f =>
        let j1 := 2 * i + 1 in
        if Nat.leb n j1 then l
        else
          let j2 := j1 + 1 in
          let j := if Nat.ltb j2 n && lessAt l j2 j1 then j2 else j1 in
          if lessAt l j i then down f (swap l i j) j n else l
    end.

  Definition push (l : list A) (x : A) : list A :=
    let l' := l ++ [x] in up (length l') l' (length l).

  (* returns the remaining heap and the popped element *)
  Definition pop (l : list A) : option (list A * A) :=
    match l with
    | [] => None
    | _ =>
        let n := (length l - 1)%nat in
        let l1 := swap l 0 n in
        let l2 := down (length l) l1 0 n in
        match nth_error l2 n with
        | Some x => Some (firstn n l2, x)
        | None => None
        end
    end.
End GoHeap.

Arguments push {A}.
Arguments pop {A}.
Arguments up {A}.
Arguments down {A}.
Arguments swap {A}.
Arguments set_nth {A}.
Arguments lessAt {A}.
