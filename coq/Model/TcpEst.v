(* "Transfer handshake state to TCP connection" (connect.go protocolMainLoop): what newSender
   (snd.go) and newReceiver (rcv.go) build from a completed handshake (Model/TcpHs.v) and the
   endpoint's buffer sizes.  This is the function that joins the handshake model to the
   connection model (Model/Tcp.v): the state it returns is the initial state of every lock-step
   trace, and the correspondence check compares it with the implementation's first snapshot.
   Executable definitions only. *)
From Coq Require Import ZArith List Bool.
From NP Require Import Model.Seqnum Model.Tcp Model.TcpHs.
Import ListNotations.
Open Scope Z_scope.

(* len(e.makeOptions(maxSackBlocks[:])): NOP NOP TS(10) when timestamps are on; NOP NOP SACK(2+8l)
   with l = min(TCPMaxSACKBlocks = 4, (space left in the 40-byte option buffer - 2) / 8) blocks when
   SACK was negotiated *)
Definition maxOptLen (ts sack : bool) : Z :=
  let o1 := if ts then 12 else 0 in
  if sack then
    let l := Z.min 4 ((40 - (o1 + 2) - 2) / 8) in
    o1 + 2 + (8 * l + 2)
  else o1.

(* s.updateMaxPayloadSize(mtu, 0) applied to maxPayloadSize = mss *)
Definition initMaxPayload (mss routeMtu : Z) (ts sack : bool) : Z :=
  let m := routeMtu - 20 - maxOptLen ts sack in
  if mss <=? m then mss else if m <=? 0 then 1 else m.

(* func newSender(ep, iss, irs, sndWnd, mss, sndWndScale) *)
Definition newSender (iss irs sndWnd0 mss sndWndScale0 routeMtu : Z) (ts sack : bool) : sndr :=
  mkSndr 0 false 0 iss 0 10 maxInt 0 0 sndWnd0
         (u32 (iss + 1)) (u32 (iss + 1)) (u32 (iss + 1)) false [] [] tDisabled 1000000000
         (initMaxPayload mss routeMtu ts sack)
         (if 0 <? sndWndScale0 then sndWndScale0 else 0)
         (u32 (irs + 1)) (u32 (iss + 1)).

(* func newReceiver(ep, irs, rcvWnd, rcvWndScale) *)
Definition newReceiver (irs rcvWnd scale : Z) : rcvr :=
  mkRcvr (u32 (irs + 1)) (u32 (irs + rcvWnd + 1)) scale false [] 0 rcvWnd.

(* e.snd = newSender(e, h.iss, h.ackNum-1, h.sndWnd, h.mss, h.sndWndScale)
   e.rcv = newReceiver(e, h.ackNum-1, h.rcvWnd, h.effectiveRcvWndScale()) *)
Definition transfer (h : hstate) (rcvBuf sndBuf routeMtu : Z) : tcp :=
  let irs := u32 (h_ackNum h - 1) in
  mkTcp (newReceiver irs (h_rcvWnd h) (effectiveRcvWndScale h))
        (newSender (h_iss h) irs (h_sndWnd h) (h_mss h) (h_sndWndScale h) routeMtu (h_tsOk h) (h_sack h))
        [] 0 rcvBuf false sndBuf 0 false 0 (h_tsOk h) [].

(* an active open answered by one SYN-ACK: the connection state the stack starts from.
   linkMtu/iphdr: the route MTU is linkMtu - iphdr; the MSS the SYN advertises is route MTU - 20 *)
Definition active_established (iss irs peerWnd : Z) (o : synopts) (stackSack : bool)
           (rcvBuf sndBuf linkMtu iphdr : Z) : option tcp :=
  let routeMtu := linkMtu - iphdr in
  let h0 := hsActiveInit iss rcvBuf (routeMtu - 20) stackSack in
  let synack := mkHS irs (u32 (iss + 1)) (Z.lor fSyn fAck) peerWnd 0 o (so_ts o) in
  let '(h, _, err) := hsHandle h0 synack 0 in
  if (err =? 0) && (h_state h =? stCompleted) then Some (transfer h rcvBuf sndBuf routeMtu) else None.

(* passive open (accept.go): createConnectedEndpoint builds the sender from the SYN itself, BEFORE
   the handshake runs -
     n.rcvBufSize = int(l.rcvWnd)
     n.snd = newSender(n, iss, irs, s.window, rcvdSynOpts.MSS, rcvdSynOpts.WS)
     n.rcv = newReceiver(n, irs, l.rcvWnd, 0)
   and createEndpointAndPerformHandshake only patches the receive scale afterwards:
     ep.rcv.rcvWndScale = h.effectiveRcvWndScale()
   so the send window of an accepted connection is the window field of the SYN (never scaled); the
   window of the handshake-completing ACK is not transferred. *)
Definition passive_established (iss irs synWnd : Z) (o : synopts) (stackSack : bool)
           (lrcvWnd sndBuf routeMtu : Z) : tcp :=
  let ts := so_ts o in
  let sack := stackSack && so_sack o in
  let scale := if so_ws o <? 0 then 0 else findWndScale lrcvWnd in
  mkTcp (newReceiver irs lrcvWnd scale)
        (newSender iss irs synWnd (so_mss o) (so_ws o) routeMtu ts sack)
        [] 0 lrcvWnd false sndBuf 0 false 0 ts [].

(* the fields of a connection state the handshake checks compare (harness/cmd/h_c03 prints the same
   list from the accepted endpoint's snapshot) *)
Definition est_summary (t : tcp) : list Z :=
  [rcvNxt (RC t); rcvAcc (RC t); rcvWndScale (RC t); pendSize (RC t);
   cwnd (SN t); sndWnd (SN t); sndUna (SN t); sndNxt (SN t); sndNxtList (SN t); tstate (SN t); rto (SN t);
   maxPayload (SN t); sndWndScale (SN t); maxSentAck (SN t); rttSeq (SN t); frLast (SN t);
   rcvBufSize t; sndBufSize t; estate t; (if tsOk t then 1 else 0)].
