(* Model of pkg/sleep/sleep_unsafe.go (+ commit_noasm.go / commit_amd64.s): Sleeper / Waker.

   A labelled transition system at the granularity of the algorithm's atomic operations.
   Thread 0 is THE goroutine that owns the Sleeper (client contract of the package: "None of the
   methods in a Sleeper can be called concurrently"); every thread (0 included) may call
   Assert / Clear / IsAsserted on any waker.  The threads are the positions of the lists [pcs] /
   [progs]: any number of them.

   One [step] = the atomic operation the thread is stopped at (a sync/atomic call, or gopark with
   its commitSleep) TOGETHER WITH the thread-local code that follows it up to the next atomic
   operation (exactly what the instrumented real code does between two schedule points).  From
   [PIdle] one step invokes the next API call of the thread's program and runs its thread-local
   prefix.

   Abstractions (named):
   * wakers are indices; [w.s] is one of nil / this sleeper / &assertedSleeper;
   * the intrusive lists (sharedList, localList through [Waker.next]; allWakers and Done's
     [pending] through [Waker.allWakersNext]) are lists of waker indices.  The enqueue CAS compares
     the HEAD it loaded with the current head, as the pointer CAS does.  [w.next] is written only by
     w's own enqueuer between its swap and its CAS, when w is in no list (theorem queued_once), so
     the lists are exactly what the pointers represent;
   * one sleeper goroutine, so a parked G is the single value [GPark];
   * gopark + commitSleep is ONE atomic step (commitSleep runs on the scheduler stack);
     goready makes the parked thread 0 runnable again at the point after gopark (the loop head). *)
From Coq Require Import ZArith Bool List Arith.
Import ListNotations.

Inductive wstate := WNil | WSlp | WAst.      (* nil | the sleeper | &assertedSleeper *)
Inductive gstate := G0 | GPrep | GPark.      (* waitingG: 0 | preparingG | the sleeper's G *)

Inductive op :=
| OAdd (w : nat) (id : Z)      (* s.AddWaker(&w, id)   thread 0 only, w not attached *)
| OFetch (block : bool)        (* s.Fetch(block)       thread 0 only *)
| ODone                        (* s.Done()             thread 0 only *)
| OAssert (w : nat)            (* w.Assert() *)
| OClear (w : nat)             (* w.Clear() *)
| OIsAsserted (w : nat).       (* w.IsAsserted() *)

(* who called nextWaker: Fetch(block), or the second loop of Done with its [pending] list *)
Inductive ctx := CFetch (block : bool) | CDone (pend : list nat).

(* program points = the schedule points of the instrumented file (number in brackets) *)
Inductive pc :=
| PIdle                                          (* between API calls [900], or finished [0] *)
| PAwLoad (w : nat)                              (* AddWaker: LoadPointer(&w.s) [110] *)
| PAwCas (w : nat) (p : wstate)                  (* AddWaker: CompareAndSwapPointer(&w.s, p, s) [140] *)
| PNwLoad1 (c : ctx)                             (* nextWaker: loop head LoadPointer(&s.sharedList) [210] *)
| PNwStoreP (c : ctx)                            (* nextWaker: StoreUintptr(&s.waitingG, preparingG) [260] *)
| PNwLoad2 (c : ctx)                             (* nextWaker: re-check LoadPointer(&s.sharedList) [211] *)
| PNwStore0 (c : ctx)                            (* nextWaker: StoreUintptr(&s.waitingG, 0) [261] *)
| PNwPark (c : ctx)                              (* nextWaker: gopark(commitSleep, &s.waitingG) [280] *)
| PNwParked (c : ctx)                            (* descheduled inside gopark [1] *)
| PNwSwap (c : ctx)                              (* nextWaker: SwapPointer(&s.sharedList, nil) [230] *)
| PFSwap (block : bool) (w : nat)                (* Fetch: SwapPointer(&w.s, s) [330] *)
| PDLoad (rest pend : list nat) (w : nat)        (* Done, first loop: LoadPointer(&w.s) [410] *)
| PDCas (rest pend : list nat) (w : nat)         (* Done, first loop: CompareAndSwapPointer(&w.s, t, nil) [440] *)
| PEnqLoad (fromAdd : bool) (w : nat)            (* enqueueAssertedWaker: LoadPointer(&s.sharedList) [510] *)
| PEnqCas (fromAdd : bool) (w : nat) (v : option nat)   (* ...: CompareAndSwapPointer(&s.sharedList, v, w) [540] *)
| PEnqLoadG (fromAdd : bool) (w : nat)           (* ...: LoadUintptr(&s.waitingG) [550] *)
| PEnqCasG (fromAdd : bool) (w : nat) (g : gstate)      (* ...: CompareAndSwapUintptr(&s.waitingG, g, 0) [570] *)
| PAsLoad (w : nat)                              (* Assert: LoadPointer(&w.s) [610] *)
| PAsSwap (w : nat)                              (* Assert: SwapPointer(&w.s, &assertedSleeper) [630] *)
| PClLoad (w : nat)                              (* Clear: LoadPointer(&w.s) [710] *)
| PClCas (w : nat)                               (* Clear: CompareAndSwapPointer(&w.s, &assertedSleeper, nil) [740] *)
| PIsLoad (w : nat)                              (* IsAsserted: LoadPointer(&w.s) [810] *)
| PPanic.                                        (* the goroutine died of a nil dereference *)

Inductive event :=
| EInvoke (t : nat) (o : op)
| ERetAdd (t w : nat)
| ERetFetch (t w : nat) (id : Z)
| ERetFetchNone (t : nat)
| ERetDone (t : nat)
| ERetAssert (t w : nat)
| ERetClear (t w : nat) (b : bool)
| ERetIs (t w : nat) (b : bool)
| ESwitch (t w : nat) (old : wstate)   (* Assert's swap stored &assertedSleeper over [old] *)
| EPush (t w : nat)                    (* the enqueue CAS succeeded *)
| EPop (w : nat)                       (* Fetch took w from localList *)
| EPull (w : nat)                      (* Done took w from localList *)
| EPark
| EWake (t : nat).

Record state := mkState {
  ws : nat -> wstate;        (* Waker.s *)
  wident : nat -> Z;         (* Waker.id *)
  shared : list nat;         (* Sleeper.sharedList, head first *)
  local : list nat;          (* Sleeper.localList, head first *)
  allw : list nat;           (* Sleeper.allWakers, head first *)
  wg : gstate;               (* Sleeper.waitingG *)
  pcs : list pc;             (* where each thread is stopped *)
  progs : list (list op)     (* the API calls each thread has still to invoke *)
}.

Definition upd {A} (f : nat -> A) (k : nat) (v : A) : nat -> A :=
  fun x => if Nat.eqb x k then v else f x.

Fixpoint lset {A} (l : list A) (i : nat) (x : A) : list A :=
  match l, i with
  | [], _ => []
  | _ :: r, O => x :: r
  | a :: r, S j => a :: lset r j x
  end.

Definition pc_of (st : state) (t : nat) : pc := nth t (pcs st) PIdle.
Definition prog_of (st : state) (t : nat) : list op := nth t (progs st) [].

Definition set_ws (st : state) (w : nat) (v : wstate) : state :=
  mkState (upd (ws st) w v) (wident st) (shared st) (local st) (allw st) (wg st) (pcs st) (progs st).
Definition set_ident (st : state) (w : nat) (v : Z) : state :=
  mkState (ws st) (upd (wident st) w v) (shared st) (local st) (allw st) (wg st) (pcs st) (progs st).
Definition set_shared (st : state) (l : list nat) : state :=
  mkState (ws st) (wident st) l (local st) (allw st) (wg st) (pcs st) (progs st).
Definition set_local (st : state) (l : list nat) : state :=
  mkState (ws st) (wident st) (shared st) l (allw st) (wg st) (pcs st) (progs st).
Definition set_allw (st : state) (l : list nat) : state :=
  mkState (ws st) (wident st) (shared st) (local st) l (wg st) (pcs st) (progs st).
Definition set_wg (st : state) (g : gstate) : state :=
  mkState (ws st) (wident st) (shared st) (local st) (allw st) g (pcs st) (progs st).
Definition set_pc (st : state) (t : nat) (p : pc) : state :=
  mkState (ws st) (wident st) (shared st) (local st) (allw st) (wg st) (lset (pcs st) t p) (progs st).
Definition set_prog (st : state) (t : nat) (p : list op) : state :=
  mkState (ws st) (wident st) (shared st) (local st) (allw st) (wg st) (pcs st) (lset (progs st) t p).

Definition wstate_eqb (a b : wstate) : bool :=
  match a, b with WNil, WNil | WSlp, WSlp | WAst, WAst => true | _, _ => false end.
Definition gstate_eqb (a b : gstate) : bool :=
  match a, b with G0, G0 | GPrep, GPrep | GPark, GPark => true | _, _ => false end.
Definition head_eqb (a b : option nat) : bool :=
  match a, b with None, None => true | Some x, Some y => Nat.eqb x y | _, _ => false end.
Definition mem (w : nat) (l : list nat) : bool := existsb (Nat.eqb w) l.

(* Done, second loop:
     prev := &pending
     for w := *prev; w != nil; w = *prev {
       if pulled == w { *prev = w.allWakersNext; break }
       prev = &w.allWakersNext } *)
Fixpoint remove1 (w : nat) (l : list nat) : list nat :=
  match l with
  | [] => []
  | x :: r => if Nat.eqb x w then r else x :: remove1 w r
  end.

(* Done, second loop, as long as it runs on localList alone:
     for pending != nil { pulled := s.nextWaker(true); ... }
   with nextWaker taking the front of a non-empty localList without any atomic operation.
   Result: (localList, pending, wakers pulled). *)
Fixpoint drain (loc pend : list nat) : list nat * list nat * list nat :=
  match pend with
  | [] => (loc, [], [])
  | _ :: _ =>
      match loc with
      | [] => ([], pend, [])
      | w :: l' => let '(l2, p2, pl) := drain l' (remove1 w pend) in (l2, p2, w :: pl)
      end
  end.

(* (Re-)entry into the caller's loop around nextWaker, up to the next atomic operation.
   Fetch:   for { w := s.nextWaker(block); ... old := SwapPointer(&w.s, s) ...
   Done:    for pending != nil { pulled := s.nextWaker(true); remove pulled from pending }
            s.allWakers = nil
   nextWaker: if s.localList == nil { for LoadPointer(&s.sharedList) == nil { ...
              w := s.localList; s.localList = w.next; return w *)
Definition enter_next (st : state) (t : nat) (c : ctx) : state * list event :=
  match c with
  | CFetch b =>
      match local st with
      | w :: l' => (set_pc (set_local st l') t (PFSwap b w), [EPop w])
      | [] => (set_pc st t (PNwLoad1 c), [])
      end
  | CDone pend =>
      let '(l2, p2, pl) := drain (local st) pend in
      match p2 with
      | [] => (set_pc (set_allw (set_local st l2) []) t PIdle, map EPull pl ++ [ERetDone t])
      | _ :: _ => (set_pc (set_local st l2) t (PNwLoad1 (CDone p2)), map EPull pl)
      end
  end.

(* Done, first loop: advance to the next waker of allWakers, or fall into the second loop *)
Definition done_next (st : state) (t : nat) (rest pend : list nat) : state * list event :=
  match rest with
  | w :: r => (set_pc st t (PDLoad r pend w), [])
  | [] => enter_next st t (CDone pend)
  end.

Definition some2 (r : state * list event) : option (state * list event) := Some r.

(* [rc] = the re-check of sharedList between the store of preparingG and gopark is present (it is,
   in the code: [step] below is [step_gen true]; [step_gen false] is the variant refuted by
   no_recheck_refuted) *)
Definition step_gen (rc : bool) (st : state) (t : nat) : option (state * list event) :=
  if negb (Nat.ltb t (length (pcs st))) then None else
  match pc_of st t with
  | PIdle =>
      match prog_of st t with
      | [] => None
      | o :: rest =>
          let st1 := set_prog st t rest in
          match o with
          | OAdd w id =>
              (* w.allWakersNext = s.allWakers; s.allWakers = w; w.id = id; for { p := Load(&w.s) ... *)
              if Nat.eqb t 0 && negb (mem w (allw st)) then
                Some (set_pc (set_ident (set_allw st1 (w :: allw st)) w id) t (PAwLoad w), [EInvoke t o])
              else None
          | OFetch b =>
              if Nat.eqb t 0 then
                let '(st2, evs) := enter_next st1 t (CFetch b) in Some (st2, EInvoke t o :: evs)
              else None
          | ODone =>
              (* var pending *Waker; w := s.allWakers; for w != nil { next := w.allWakersNext; ... *)
              if Nat.eqb t 0 then
                let '(st2, evs) := done_next st1 t (allw st) [] in Some (st2, EInvoke t o :: evs)
              else None
          | OAssert w => Some (set_pc st1 t (PAsLoad w), [EInvoke t o])
          | OClear w => Some (set_pc st1 t (PClLoad w), [EInvoke t o])
          | OIsAsserted w => Some (set_pc st1 t (PIsLoad w), [EInvoke t o])
          end
      end
  (* AddWaker:
       for { p := ( *Sleeper)(atomic.LoadPointer(&w.s))
             if p == &assertedSleeper { s.enqueueAssertedWaker(w); return }
             if atomic.CompareAndSwapPointer(&w.s, usleeper(p), usleeper(s)) { return } } *)
  | PAwLoad w =>
      match ws st w with
      | WAst => Some (set_pc st t (PEnqLoad true w), [])
      | p => Some (set_pc st t (PAwCas w p), [])
      end
  | PAwCas w p =>
      if wstate_eqb (ws st w) p then Some (set_pc (set_ws st w WSlp) t PIdle, [ERetAdd t w])
      else Some (set_pc st t (PAwLoad w), [])
  (* nextWaker:
       if s.localList == nil {
         for atomic.LoadPointer(&s.sharedList) == nil {
           if !block { return nil }
           atomic.StoreUintptr(&s.waitingG, preparingG)
           if atomic.LoadPointer(&s.sharedList) != nil { atomic.StoreUintptr(&s.waitingG, 0); break }
           gopark(commitSleep, &s.waitingG, ...) }
         v := ( *Waker)(atomic.SwapPointer(&s.sharedList, nil))
         for v != nil { cur := v; v = v.next; cur.next = s.localList; s.localList = cur } }
       w := s.localList; s.localList = w.next; return w *)
  | PNwLoad1 c =>
      match shared st with
      | [] =>
          match c with
          | CFetch false => Some (set_pc st t PIdle, [ERetFetchNone t])   (* Fetch: return -1, false *)
          | _ => Some (set_pc st t (PNwStoreP c), [])
          end
      | _ :: _ => Some (set_pc st t (PNwSwap c), [])
      end
  | PNwStoreP c => Some (set_pc (set_wg st GPrep) t (if rc then PNwLoad2 c else PNwPark c), [])
  | PNwLoad2 c =>
      match shared st with
      | [] => Some (set_pc st t (PNwPark c), [])
      | _ :: _ => Some (set_pc st t (PNwStore0 c), [])
      end
  | PNwStore0 c => Some (set_pc (set_wg st G0) t (PNwSwap c), [])
  (* gopark calls commitSleep(g, &s.waitingG) after descheduling the caller:
       for { if atomic.LoadUintptr(waitingG) == 0 { return false }          (stay runnable)
             if atomic.CompareAndSwapUintptr(waitingG, preparingG, g) { return true } }   (sleep) *)
  | PNwPark c =>
      match wg st with
      | GPrep => Some (set_pc (set_wg st GPark) t (PNwParked c), [EPark])
      | G0 => Some (set_pc st t (PNwLoad1 c), [])
      | GPark => None     (* commitSleep would spin for ever; not reachable (sleep_inv) *)
      end
  | PNwParked _ => None    (* descheduled: runs again only after a goready *)
  | PNwSwap c =>
      let st1 := set_local (set_shared st []) (rev_append (shared st) (local st)) in
      match local st1 with
      | [] => Some (set_pc st1 t PPanic, [])      (* w := s.localList (nil); w.next *)
      | _ :: _ => some2 (enter_next st1 t c)
      end
  (* Fetch:  old := ( *Sleeper)(atomic.SwapPointer(&w.s, usleeper(s)))
             if old == &assertedSleeper { return w.id, true } *)
  | PFSwap b w =>
      let st1 := set_ws st w WSlp in
      match ws st w with
      | WAst => Some (set_pc st1 t PIdle, [ERetFetch t w (wident st w)])
      | _ => some2 (enter_next st1 t (CFetch b))
      end
  (* Done, first loop:
       for { t := atomic.LoadPointer(&w.s)
             if t != usleeper(s) { w.allWakersNext = pending; pending = w; break }
             if atomic.CompareAndSwapPointer(&w.s, t, nil) { break } }
       w = next *)
  | PDLoad rest pend w =>
      match ws st w with
      | WSlp => Some (set_pc st t (PDCas rest pend w), [])
      | _ => some2 (done_next st t rest (w :: pend))
      end
  | PDCas rest pend w =>
      match ws st w with
      | WSlp => some2 (done_next (set_ws st w WNil) t rest pend)
      | _ => Some (set_pc st t (PDLoad rest pend w), [])
      end
  (* enqueueAssertedWaker:
       for { v := ( *Waker)(atomic.LoadPointer(&s.sharedList)); w.next = v
             if atomic.CompareAndSwapPointer(&s.sharedList, uwaker(v), uwaker(w)) { break } }
       for { g := atomic.LoadUintptr(&s.waitingG)
             if g == 0 { return }
             if atomic.CompareAndSwapUintptr(&s.waitingG, g, 0) { if g != preparingG { goready(g, 0) } } } *)
  | PEnqLoad k w => Some (set_pc st t (PEnqCas k w (hd_error (shared st))), [])
  | PEnqCas k w v =>
      if head_eqb (hd_error (shared st)) v
      then Some (set_pc (set_shared st (w :: shared st)) t (PEnqLoadG k w), [EPush t w])
      else Some (set_pc st t (PEnqLoad k w), [])
  | PEnqLoadG k w =>
      match wg st with
      | G0 => Some (set_pc st t PIdle, [if k then ERetAdd t w else ERetAssert t w])
      | g => Some (set_pc st t (PEnqCasG k w g), [])
      end
  | PEnqCasG k w g =>
      if gstate_eqb (wg st) g then
        let st1 := set_pc (set_wg st G0) t (PEnqLoadG k w) in
        match g with
        | GPark =>
            (* goready(g): the parked sleeper goroutine resumes after gopark, at the loop head *)
            match pc_of st1 0 with
            | PNwParked c => Some (set_pc st1 0 (PNwLoad1 c), [EWake t])
            | _ => Some (st1, [EWake t])
            end
        | _ => Some (st1, [])
        end
      else Some (set_pc st t (PEnqLoadG k w), [])
  (* Assert:  if atomic.LoadPointer(&w.s) == usleeper(&assertedSleeper) { return }
              switch s := ( *Sleeper)(atomic.SwapPointer(&w.s, usleeper(&assertedSleeper))); s {
              case nil: case &assertedSleeper: default: s.enqueueAssertedWaker(w) } *)
  | PAsLoad w =>
      match ws st w with
      | WAst => Some (set_pc st t PIdle, [ERetAssert t w])
      | _ => Some (set_pc st t (PAsSwap w), [])
      end
  | PAsSwap w =>
      let st1 := set_ws st w WAst in
      match ws st w with
      | WSlp => Some (set_pc st1 t (PEnqLoad false w), [ESwitch t w WSlp])
      | old => Some (set_pc st1 t PIdle, [ESwitch t w old; ERetAssert t w])
      end
  (* Clear:  if atomic.LoadPointer(&w.s) != usleeper(&assertedSleeper) { return false }
             return atomic.CompareAndSwapPointer(&w.s, usleeper(&assertedSleeper), nil) *)
  | PClLoad w =>
      match ws st w with
      | WAst => Some (set_pc st t (PClCas w), [])
      | _ => Some (set_pc st t PIdle, [ERetClear t w false])
      end
  | PClCas w =>
      match ws st w with
      | WAst => Some (set_pc (set_ws st w WNil) t PIdle, [ERetClear t w true])
      | _ => Some (set_pc st t PIdle, [ERetClear t w false])
      end
  (* IsAsserted:  return ( *Sleeper)(atomic.LoadPointer(&w.s)) == &assertedSleeper *)
  | PIsLoad w => Some (set_pc st t PIdle, [ERetIs t w (wstate_eqb (ws st w) WAst)])
  | PPanic => None
  end.

Definition step_ev := step_gen true.

(* the transition function: thread t performs its next atomic operation *)
Definition step (st : state) (t : nat) : option state :=
  match step_ev st t with Some (s, _) => Some s | None => None end.

(* zero-valued Sleeper and Wakers, nobody inside a call *)
Definition init (ps : list (list op)) : state :=
  mkState (fun _ => WNil) (fun _ => 0%Z) [] [] [] G0 (map (fun _ => PIdle) ps) ps.

(* run a schedule, collecting the events (most recent LAST) *)
Fixpoint run_gen (rc : bool) (st : state) (sched : list nat) : option (state * list event) :=
  match sched with
  | [] => Some (st, [])
  | t :: r =>
      match step_gen rc st t with
      | None => None
      | Some (s1, e1) =>
          match run_gen rc s1 r with
          | None => None
          | Some (s2, e2) => Some (s2, e1 ++ e2)
          end
      end
  end.
Definition run := run_gen true.
