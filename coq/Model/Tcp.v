(* Executable model of the established-state TCP protocol logic of /repo/protocol/transport/tcp:
     rcv.go   (receiver: acceptable, consumeSegment, handleRcvdSegment, getSendParams, nonZeroWindow)
     snd.go   (sender: sendData, handleRcvdSegment, checkDuplicateAck, enter/leaveFastRecovery,
               retransmitTimerExpired, resendSegment, sendSegment, sendAck, updateMaxPayloadSize)
     reno.go  (congestion control)
     timer.go (three-state resend timer, time abstracted)
     connect.go (handleSegments for one segment, handleWrite, handleClose, main-loop exit test,
                 reset on error), endpoint.go (Read/readLocked, Write, Shutdown(write), readyToRead,
                 receiveBufferAvailable, zeroReceiveWindow, updateSndBufferUsage).
   Sequence numbers are Z with the uint32 wrap written out (Model/Seqnum.v); Go ints are Z.
   Not modelled (inputs/oracles or ignored): wall-clock time (RTO expiry is an event; the idle test of
   sendData is an event flag), RTT estimation (the new rto is an oracle value clamped at minRTO),
   timestamp values, SACK block contents, CUBIC (Reno only), keepalive.
   Executable definitions only; no proofs here. *)
From Coq Require Import ZArith List Bool.
From RecordUpdate Require Import RecordSet.
From NP Require Import Model.Seqnum Model.GoHeap.
Import ListNotations RecordSetNotations.
Open Scope Z_scope.

Definition fFin := 1.
Definition fSyn := 2.
Definition fRst := 4.
Definition fPsh := 8.
Definition fAck := 16.
Definition has (fl m : Z) : bool := negb (Z.land fl m =? 0).

Definition len (l : list Z) : Z := Z.of_nat (length l).
Definition dropZ (n : Z) (l : list Z) : list Z := skipn (Z.to_nat n) l.
Definition takeZ (n : Z) (l : list Z) : list Z := firstn (Z.to_nat n) l.

Definition InitialCwnd := 10.
Definition minRTO := 200000000.          (* 200 ms in ns *)
Definition maxRTO := 60000000000.        (* 60 s *)
Definition nDupAckThreshold := 3.
Definition maxInt := 9223372036854775807.

(* inbound segment as parsed by segment.parse: s_wnd is the raw 16-bit window field,
   s_ts = a timestamp option is present, s_tsecr = its echo value is non-zero *)
Record seg := mkSeg { s_seq : Z; s_ack : Z; s_flags : Z; s_wnd : Z; s_data : list Z;
                      s_ts : bool; s_tsecr : bool }.
(* element of the sender's writeList *)
Record wseg := mkW { w_seq : Z; w_flags : Z; w_data : list Z }.
(* element of the receiver's pending heap *)
Record pseg := mkP { p_seq : Z; p_flags : Z; p_data : list Z }.
(* emitted segment, as passed to sendTCP *)
Record frame := mkF { f_seq : Z; f_ack : Z; f_flags : Z; f_wnd : Z; f_data : list Z }.

Record rcvr := mkRcvr {
  rcvNxt : Z; rcvAcc : Z; rcvWndScale : Z; rclosed : bool;
  pending : list pseg; pendUsed : Z; pendSize : Z }.
#[export] Instance eta_rcvr : Settable _ :=
  settable! mkRcvr <rcvNxt; rcvAcc; rcvWndScale; rclosed; pending; pendUsed; pendSize>.

Record sndr := mkSndr {
  dupAck : Z; frActive : bool; frFirst : Z; frLast : Z; frMaxCwnd : Z;
  cwnd : Z; ssthresh : Z; caCount : Z; outstanding : Z;
  sndWnd : Z; sndUna : Z; sndNxt : Z; sndNxtList : Z; sclosed : bool;
  wsent : list wseg;       (* writeList before writeNext *)
  wunsent : list wseg;     (* writeList from writeNext on (writeNext = nil iff empty) *)
  tstate : Z;              (* resendTimer.state: 0 disabled, 1 enabled, 2 orphaned (timer.go iota order) *)
  rto : Z; maxPayload : Z; sndWndScale : Z; maxSentAck : Z; rttSeq : Z }.
#[export] Instance eta_sndr : Settable _ :=
  settable! mkSndr <dupAck; frActive; frFirst; frLast; frMaxCwnd; cwnd; ssthresh; caCount; outstanding;
                    sndWnd; sndUna; sndNxt; sndNxtList; sclosed; wsent; wunsent; tstate; rto; maxPayload;
                    sndWndScale; maxSentAck; rttSeq>.

(* endpoint state: 0 connected, 1 closed (worker finished normally), 2 error (reset) *)
Record tcp := mkTcp {
  RC : rcvr; SN : sndr;
  rcvList : list (list Z); rcvBufUsed : Z; rcvBufSize : Z; rcvClosedE : bool;
  sndBufSize : Z; sndBufUsed : Z; sndClosedE : bool;
  estate : Z; tsOk : bool;
  out : list frame }.   (* frames emitted so far, oldest first *)
#[export] Instance eta_tcp : Settable _ :=
  settable! mkTcp <RC; SN; rcvList; rcvBufUsed; rcvBufSize; rcvClosedE; sndBufSize; sndBufUsed; sndClosedE;
                   estate; tsOk; out>.

Definition tDisabled := 0.
Definition tOrphaned := 2.
Definition tEnabled := 1.

(* ------------------------------------------------------------------ emitting *)

(* func (e *endpoint) receiveBufferAvailable() int *)
Definition receiveBufferAvailable (t : tcp) : Z :=
  if rcvBufSize t <=? rcvBufUsed t then 0 else rcvBufSize t - rcvBufUsed t.

(* func (r *receiver) getSendParams() (rcvNxt, rcvWnd): may move rcvAcc to the right *)
Definition getSendParams (t : tcp) : tcp * Z * Z :=
  let r := RC t in
  let acc := add (rcvNxt r) (u32 (receiveBufferAvailable t)) in
  let acc' := if lessThan (rcvAcc r) acc then acc else rcvAcc r in
  let t' := t <| RC := r <| rcvAcc := acc' |> |> in
  (t', rcvNxt r, Z.shiftr (size (rcvNxt r) acc') (rcvWndScale r)).

(* func (s *sender) sendSegment(data, flags, seq) -> sendRaw -> sendTCP (window clamped to 0xffff) *)
Definition sendSegment (t : tcp) (data : list Z) (flags seq : Z) : tcp :=
  let '(t1, nxt, wnd) := getSendParams t in
  let wnd' := if 65535 <? wnd then 65535 else wnd in
  t1 <| SN := (SN t1) <| maxSentAck := nxt |> |>
     <| out := out t1 ++ [mkF seq nxt flags wnd' data] |>.

Definition sendAck (t : tcp) : tcp := sendSegment t [] fAck (sndNxt (SN t)).

(* ------------------------------------------------------------------ receiver (rcv.go) *)

Definition acceptable (r : rcvr) (segSeq segLen : Z) : bool :=
  let rcvWnd := size (rcvNxt r) (rcvAcc r) in
  if rcvWnd =? 0 then (segLen =? 0) && (segSeq =? rcvNxt r)
  else inWindow segSeq (rcvNxt r) rcvWnd || overlap (rcvNxt r) rcvWnd segSeq segLen.

Definition plogicalLen (flags : Z) (data : list Z) : Z :=
  u32 (len data + (if has flags fSyn then 1 else 0) + (if has flags fFin then 1 else 0)).

(* func (e *endpoint) readyToRead(s *segment) *)
Definition readyToRead (t : tcp) (data : list Z) : tcp :=
  t <| rcvBufUsed := rcvBufUsed t + len data |> <| rcvList := rcvList t ++ [data] |>.

(* func (r *receiver) consumeSegment(s, segSeq, segLen) bool.
   fromHeap says whether s is the top of the pending heap (the code compares pointers);
   returns the new state, whether the segment was consumed, and the segment's data after the
   in-place trim (its logicalLen is used by the caller when it pops it). *)
Definition consumeSegment (t : tcp) (flags : Z) (data : list Z) (segSeq segLen : Z) (fromHeap : bool)
  : tcp * bool * list Z :=
  let r := RC t in
  let go (t : tcp) (segSeq segLen : Z) (data : list Z) : tcp * bool * list Z :=
    let t1 := t <| RC := (RC t) <| rcvNxt := add segSeq segLen |> |> in
    if has flags fFin then
      let t2 := t1 <| RC := (RC t1) <| rcvNxt := u32 (rcvNxt (RC t1) + 1) |> |> in
      let t3 := sendAck t2 in
      let first := if fromHeap && negb (Nat.eqb (length (pending (RC t3))) 0) then 1%nat else 0%nat in
      let t4 := t3 <| RC := (RC t3) <| rclosed := true |> <| pending := firstn first (pending (RC t3)) |> |>
                   <| rcvClosedE := true |> in
      (t4, true, data)
    else (t1, true, data) in
  if 0 <? segLen then
    if negb (inWindow (rcvNxt r) segSeq segLen) then (t, false, data)
    else if lessThan segSeq (rcvNxt r) then
      let diff := size segSeq (rcvNxt r) in
      let data' := dropZ diff data in
      go (readyToRead t data') (add segSeq diff) (u32 (segLen - diff)) data'
    else go (readyToRead t data) segSeq segLen data
  else if negb (segSeq =? rcvNxt r) then (t, false, data)
  else go t segSeq segLen data.

Definition pless (a b : pseg) : bool := lessThan (p_seq a) (p_seq b).

(* the loop at the end of receiver.handleRcvdSegment *)
Fixpoint drainPending (fuel : nat) (t : tcp) : tcp :=
  match fuel with
  | O => t
  | S f =>
      if rclosed (RC t) then t else
      match pending (RC t) with
      | [] => t
      | s :: _ =>
          let segLen := len (p_data s) in
          let segSeq := p_seq s in
          let popIt (t : tcp) (data : list Z) : tcp :=
            match pop pless (pending (RC t)) with
            | Some (h', _) =>
                drainPending f (t <| RC := (RC t) <| pending := h' |>
                                     <| pendUsed := u32 (pendUsed (RC t) - plogicalLen (p_flags s) data) |> |>)
            | None => t
            end in
          if lessThan (add segSeq (u32 (segLen - 1))) (rcvNxt (RC t)) then popIt t (p_data s)
          else
            let '(t1, ok, data') := consumeSegment t (p_flags s) (p_data s) segSeq segLen true in
            if ok then popIt t1 data' else t
      end
  end.

(* func (r *receiver) handleRcvdSegment(s *segment) *)
Definition rcvHandle (t : tcp) (s : seg) : tcp :=
  if rclosed (RC t) then t else
  let segLen := len (s_data s) in
  let segSeq := s_seq s in
  if negb (acceptable (RC t) segSeq segLen) then sendAck t
  else
    let '(t1, ok, _) := consumeSegment t (s_flags s) (s_data s) segSeq segLen false in
    if negb ok then
      if (0 <? segLen) || has (s_flags s) fFin then
        let r := RC t in
        let t2 := if pendUsed r <? pendSize r then
                    t <| RC := r <| pendUsed := u32 (pendUsed r + plogicalLen (s_flags s) (s_data s)) |>
                                <| pending := push pless (pending r) (mkP segSeq (s_flags s) (s_data s)) |> |>
                  else t in
        sendAck t2
      else t
    else drainPending (S (length (pending (RC t1)))) t1.

(* func (r *receiver) nonZeroWindow() *)
Definition nonZeroWindow (t : tcp) : tcp :=
  if negb (Z.shiftr (u32 (rcvAcc (RC t) - rcvNxt (RC t))) (rcvWndScale (RC t)) =? 0) then t else sendAck t.

(* ------------------------------------------------------------------ congestion control (reno.go) *)

Definition renoCA (s : sndr) (n : Z) : sndr :=
  let ca := caCount s + n in
  if cwnd s <=? ca then
    let c' := cwnd s + Z.quot ca (cwnd s) in
    s <| cwnd := c' |> <| caCount := Z.rem ca c' |>
  else s <| caCount := ca |>.

(* func (r *renoState) Update(packetsAcked int) *)
Definition renoUpdate (s : sndr) (n : Z) : sndr :=
  if cwnd s <? ssthresh s then
    let newc := cwnd s + n in
    let '(newc', s1) := if ssthresh s <=? newc then (ssthresh s, s <| caCount := 0 |>) else (newc, s) in
    let n' := n - (newc' - cwnd s) in
    let s2 := s1 <| cwnd := newc' |> in
    if n' =? 0 then s2 else renoCA s2 n'
  else renoCA s n.

(* func (r *renoState) reduceSlowStartThreshold() *)
Definition reduceSsthresh (s : sndr) : sndr :=
  let h := Z.quot (outstanding s) 2 in
  s <| ssthresh := if h <? 2 then 2 else h |>.

(* ------------------------------------------------------------------ sender (snd.go) *)

Definition wlogicalLen (w : wseg) : Z :=
  u32 (len (w_data w) + (if has (w_flags w) fSyn then 1 else 0) + (if has (w_flags w) fFin then 1 else 0)).

Fixpoint wbytes (l : list wseg) : nat :=
  match l with [] => O | w :: r => (S (length (w_data w)) + wbytes r)%nat end.

(* the loop of func (s *sender) sendData(); the measure (segments + bytes still unsent) decreases *)
Fixpoint sendLoop (fuel : nat) (t : tcp) (endv limit : Z) : tcp :=
  match fuel with
  | O => t
  | S f =>
      let s := SN t in
      match wunsent s with
      | [] => t
      | w :: rest =>
          if negb (outstanding s <? cwnd s) then t else
          let w1 := if w_flags w =? 0 then mkW (sndNxt s) (Z.lor fAck fPsh) (w_data w) else w in
          if len (w_data w1) =? 0 then
            (* FIN segment (the code panics if it is not the last one; Shutdown queues it last) *)
            let w2 := mkW (w_seq w1) (Z.lor fAck fFin) [] in
            let segEnd := add (w_seq w2) 1 in
            let t1 := t <| SN := s <| wsent := wsent s ++ [w2] |> <| wunsent := rest |> |> in
            let t2 := sendSegment t1 [] (w_flags w2) (w_seq w2) in
            let t3 := if lessThan (sndNxt (SN t2)) segEnd then t2 <| SN := (SN t2) <| sndNxt := segEnd |> |> else t2 in
            sendLoop f t3 endv limit
          else
            if negb (lessThan (w_seq w1) endv) then
              (* window closed: the (possibly just numbered) segment stays at writeNext *)
              t <| SN := s <| wunsent := w1 :: rest |> |>
            else
              let available0 := size (w_seq w1) endv in
              let available := if limit <? available0 then limit else available0 in
              let '(w2, rest') :=
                if available <? len (w_data w1) then
                  (mkW (w_seq w1) (w_flags w1) (takeZ available (w_data w1)),
                   mkW (add (w_seq w1) (u32 available)) (w_flags w1) (dropZ available (w_data w1)) :: rest)
                else (w1, rest) in
              let segEnd := add (w_seq w2) (u32 (len (w_data w2))) in
              let t1 := t <| SN := s <| outstanding := outstanding s + 1 |>
                                    <| wsent := wsent s ++ [w2] |> <| wunsent := rest' |> |> in
              let t2 := sendSegment t1 (w_data w2) (w_flags w2) (w_seq w2) in
              let t3 := if lessThan (sndNxt (SN t2)) segEnd then t2 <| SN := (SN t2) <| sndNxt := segEnd |> |> else t2 in
              sendLoop f t3 endv limit
      end
  end.

(* func (s *sender) sendData(); idle = time.Now().Sub(s.lastSendTime) > s.rto (input) *)
Definition sendData (t : tcp) (idle : bool) : tcp :=
  let s := SN t in
  let s1 := if negb (frActive s) && idle && (InitialCwnd <? cwnd s) then s <| cwnd := InitialCwnd |> else s in
  let t1 := t <| SN := s1 |> in
  let endv := add (sndUna s1) (sndWnd s1) in
  let t2 := sendLoop (S (wbytes (wunsent s1))) t1 endv (maxPayload s1) in
  let s2 := SN t2 in
  if negb (tstate s2 =? tEnabled) && negb (sndUna s2 =? sndNxt s2)
  then t2 <| SN := s2 <| tstate := tEnabled |> |> else t2.

Definition enterFastRecovery (s : sndr) : sndr :=
  let c := ssthresh s + 3 in
  s <| frActive := true |> <| cwnd := c |> <| frFirst := sndUna s |> <| frLast := u32 (sndNxt s - 1) |>
    <| frMaxCwnd := c + outstanding s |>.

Definition leaveFastRecovery (s : sndr) : sndr :=
  s <| frActive := false |> <| frFirst := 0 |> <| frLast := u32 (sndNxt s - 1) |> <| frMaxCwnd := 0 |>
    <| dupAck := 0 |> <| cwnd := ssthresh s |>.

(* func (s *sender) checkDuplicateAck(seg) (rtx bool); wnd is the already scaled window *)
Definition checkDuplicateAck (s : sndr) (ack segLogLen wnd : Z) : sndr * bool :=
  if frActive s then
    if negb (inRange ack (sndUna s) (u32 (sndNxt s + 1))) then (s, false)
    else if lessThan (frLast s) ack then (leaveFastRecovery s, false)
    else if negb (segLogLen =? 0) || negb (sndWnd s =? wnd) then (s, false)
    else if ack =? frFirst s then
      ((if cwnd s <? frMaxCwnd s then s <| cwnd := cwnd s + 1 |> else s), false)
    else (s <| frFirst := ack |> <| dupAck := 0 |>, true)
  else
    if negb (ack =? sndUna s) || negb (segLogLen =? 0) || negb (sndWnd s =? wnd) || (ack =? sndNxt s)
    then (s <| dupAck := 0 |>, false)
    else
      let s1 := s <| dupAck := dupAck s + 1 |> in
      if dupAck s1 <? nDupAckThreshold then (s1, false)
      else if negb (lessThan (frLast s1) ack) then (s1 <| dupAck := 0 |>, false)
      else ((enterFastRecovery (reduceSsthresh s1)) <| dupAck := 0 |>, true).

(* removal of acknowledged data from the write list: the "for ackLeft > 0" loop.
   Returns the new lists and the number of whole segments removed. *)
Fixpoint ackLoop (fuel : nat) (sent unsent : list wseg) (ackLeft removed : Z) : list wseg * list wseg * Z :=
  match fuel with
  | O => (sent, unsent, removed)
  | S f =>
      if negb (0 <? ackLeft) then (sent, unsent, removed) else
      match sent, unsent with
      | w :: sent', _ =>
          let dl := wlogicalLen w in
          if ackLeft <? dl then
            (mkW (add (w_seq w) ackLeft) (w_flags w) (dropZ ackLeft (w_data w)) :: sent', unsent, removed)
          else ackLoop f sent' unsent (u32 (ackLeft - dl)) (removed + 1)
      | [], w :: unsent' =>
          let dl := wlogicalLen w in
          if ackLeft <? dl then
            ([], mkW (add (w_seq w) ackLeft) (w_flags w) (dropZ ackLeft (w_data w)) :: unsent', removed)
          else ackLoop f [] unsent' (u32 (ackLeft - dl)) (removed + 1)
      | [], [] => (sent, unsent, removed)   (* the Go code would dereference nil here *)
      end
  end.

(* func (s *sender) resendSegment() *)
Definition resendSegment (t : tcp) : tcp :=
  let t1 := t <| SN := (SN t) <| rttSeq := sndNxt (SN t) |> |> in
  match wsent (SN t1) ++ wunsent (SN t1) with
  | w :: _ => sendSegment t1 (w_data w) (w_flags w) (w_seq w)
  | [] => t1
  end.

(* func (s *sender) handleRcvdSegment(seg); wnd = scaled window; newRto = oracle for updateRTO *)
Definition sndHandle (t : tcp) (sg : seg) (wnd : Z) (newRto : Z) (idle : bool) : tcp :=
  let s0 := SN t in
  let clampRto := if newRto <? minRTO then minRTO else newRto in
  let s1 := if negb (tsOk t) && lessThan (rttSeq s0) (s_ack sg)
            then s0 <| rto := clampRto |> <| rttSeq := sndNxt s0 |> else s0 in
  let segLog := plogicalLen (s_flags sg) (s_data sg) in
  let '(s2, rtx) := checkDuplicateAck s1 (s_ack sg) segLog wnd in
  let s3 := s2 <| sndWnd := wnd |> in
  let ack := s_ack sg in
  let t3 := t <| SN := s3 |> in
  let t4 :=
    if inRange (u32 (ack - 1)) (sndUna s3) (sndNxt s3) then
      let s4 := s3 <| dupAck := 0 |> <| tstate := if tstate s3 =? tDisabled then tDisabled else tOrphaned |> in
      let s5 := if tsOk t && s_tsecr sg then s4 <| rto := clampRto |> else s4 in
      let acked := size (sndUna s5) ack in
      let '(sent', unsent', removed) :=
        ackLoop (S (length (wsent s5) + length (wunsent s5))) (wsent s5) (wunsent s5) acked 0 in
      let s6 := s5 <| sndUna := ack |> <| wsent := sent' |> <| wunsent := unsent' |>
                   <| outstanding := outstanding s5 - removed |> in
      let s7 := if frActive s6 then s6 else renoUpdate s6 removed in
      let s8 := if outstanding s7 <? 0 then s7 <| outstanding := 0 |> else s7 in
      t3 <| SN := s8 |> <| sndBufUsed := sndBufUsed t3 - acked |>
    else t3 in
  let t5 := if rtx then resendSegment t4 else t4 in
  sendData t5 idle.

(* func (s *sender) retransmitTimerExpired() bool: the timer really expired (checkExpiration true) *)
Definition rtoExpired (t : tcp) (idle : bool) : tcp * bool :=
  let s := SN t in
  if tstate s =? tOrphaned then (t <| SN := s <| tstate := tDisabled |> |>, true)
  else if negb (tstate s =? tEnabled) then (t, true)
  else
    let s0 := s <| tstate := tDisabled |> in
    if maxRTO <=? rto s0 then (t <| SN := s0 |>, false)
    else
      let s1 := s0 <| rto := rto s0 * 2 |> in
      let s2 := if frActive s1 then leaveFastRecovery s1 else s1 in
      let s3 := s2 <| frLast := u32 (sndNxt s2 - 1) |> in
      let s4 := (reduceSsthresh s3) <| cwnd := 1 |> in
      let s5 := s4 <| outstanding := 0 |> <| wunsent := wsent s4 ++ wunsent s4 |> <| wsent := [] |> in
      (sendData (t <| SN := s5 |>) idle, true).

(* ------------------------------------------------------------------ endpoint glue (connect.go, endpoint.go) *)

Definition stConnected := 0.
Definition stClosed := 1.
Definition stError := 2.

(* resetConnectionLocked: RST|ACK with seq = sndUna, ack = rcvNxt, window 0 (sendRaw, not sendSegment) *)
Definition resetConnection (t : tcp) : tcp :=
  t <| out := out t ++ [mkF (sndUna (SN t)) (rcvNxt (RC t)) (Z.lor fAck fRst) 0 []] |> <| estate := stError |>.

(* the main loop's error path for ErrConnectionReset (an acceptable RST arrived): since the repair
   "an established connection answers an acceptable RST with a RST", resetConnectionLocked sends
   nothing in that case; the endpoint just enters the error state *)
Definition abortOnReset (t : tcp) : tcp := t <| estate := stError |>.

(* the exit test of protocolMainLoop, evaluated after every function the loop runs *)
Definition loopExit (t : tcp) : tcp :=
  if rclosed (RC t) && sclosed (SN t) && (sndUna (SN t) =? sndNxtList (SN t))
  then (if estate t =? stError then t else t <| estate := stClosed |>) else t.

(* handleSegments for a queue holding exactly this segment *)
Definition handleSegment (t : tcp) (sg : seg) (newRto : Z) (idle : bool) : tcp :=
  if negb (estate t =? stConnected) then t else
  if has (s_flags sg) fRst then
    if acceptable (RC t) (s_seq sg) 0 then abortOnReset t
    else
      let t1 := if negb (rcvNxt (RC t) =? maxSentAck (SN t)) then sendAck t else t in loopExit t1
  else
    let t1 :=
      if has (s_flags sg) fAck then
        if tsOk t && negb (s_ts sg) then t
        else
          let wnd := u32 (Z.shiftl (s_wnd sg) (sndWndScale (SN t))) in
          sndHandle (rcvHandle t sg) sg wnd newRto idle
      else t in
    let t2 := if negb (rcvNxt (RC t1) =? maxSentAck (SN t1)) then sendAck t1 else t1 in
    loopExit t2.

(* endpoint.Write followed by handleWrite (run synchronously by Write when the worker is idle).
   Returns the state and the number of bytes accepted, or an error code:
   -1 ErrClosedForSend, -2 ErrWouldBlock, -3 hard error (endpoint in error state). *)
Definition appWrite (t : tcp) (data : list Z) (idle : bool) : tcp * Z :=
  if estate t =? stError then (t, -3)
  else if negb (estate t =? stConnected) then (t, -1)
  else if len data =? 0 then (t, 0)
  else if sndClosedE t then (t, -1)
  else
    let avail := sndBufSize t - sndBufUsed t in
    if avail <=? 0 then (t, -2)
    else
      let v := takeZ avail data in
      let l := len v in
      let s := SN t in
      let t1 := t <| sndBufUsed := sndBufUsed t + l |>
                  <| SN := s <| wunsent := wunsent s ++ [mkW 0 0 v] |> <| sndNxtList := add (sndNxtList s) (u32 l) |> |> in
      (sendData t1 idle, l).

(* endpoint.Shutdown(ShutdownWrite) followed by handleClose; 0 ok, -4 ErrNotConnected *)
Definition appShutdownWrite (t : tcp) (idle : bool) : tcp * Z :=
  if negb (estate t =? stConnected) then (t, -4)
  else if sndClosedE t then (t, 0)
  else
    let s := SN t in
    let t1 := t <| sndClosedE := true |>
                <| SN := s <| wunsent := wunsent s ++ [mkW 0 0 []] |> <| sndNxtList := add (sndNxtList s) 1 |> |> in
    let t2 := sendData t1 idle in
    (loopExit (t2 <| SN := (SN t2) <| sclosed := true |> |>), 0).

(* func (e *endpoint) zeroReceiveWindow(scale uint8) bool *)
Definition zeroReceiveWindow (t : tcp) : bool :=
  if rcvBufSize t <=? rcvBufUsed t then true
  else Z.shiftr (rcvBufSize t - rcvBufUsed t) (rcvWndScale (RC t)) =? 0.

(* endpoint.Read (+ the notification the worker handles when the window reopens).
   Result: Some bytes, or None with an error code: -5 ErrWouldBlock, -6 ErrClosedForReceive,
   -3 hard error, -7 ErrInvalidEndpointState *)
Definition appRead (t : tcp) : tcp * option (list Z) * Z :=
  if negb (estate t =? stConnected) && negb (estate t =? stClosed) && (rcvBufUsed t =? 0)
  then (t, None, if estate t =? stError then -3 else -7)
  else if rcvBufUsed t =? 0 then
    (t, None, if rcvClosedE t || negb (estate t =? stConnected) then -6 else -5)
  else
    match rcvList t with
    | [] => (t, None, -5)
    | v :: rest =>
        let wasZero := zeroReceiveWindow t in
        let t1 := t <| rcvList := rest |> <| rcvBufUsed := rcvBufUsed t - len v |> in
        let t2 := if wasZero && negb (zeroReceiveWindow t1) && (estate t1 =? stConnected)
                  then loopExit (nonZeroWindow t1) else t1 in
        (t2, Some v, 0)
    end.

(* ------------------------------------------------------------------ events and traces *)

Inductive event :=
| ESeg (s : seg) (newRto : Z)      (* a segment arrives and is processed alone *)
| EWrite (data : list Z)           (* application write *)
| ERead                            (* application read *)
| EShutW                           (* application shuts down its write side *)
| ERto.                            (* the retransmission timer fires (really expired) *)

(* observable result of an application call: bytes / count / error code *)
Inductive result := RNone | RCount (n : Z) | RBytes (b : list Z) | RErr (e : Z).

Definition step (t0 : tcp) (e : event) : tcp * result :=
  let t := t0 <| out := [] |> in
  match e with
  | ESeg s newRto => (handleSegment t s newRto false, RNone)
  | EWrite d => let '(t1, n) := appWrite t d false in (t1, if n <? 0 then RErr n else RCount n)
  | ERead => let '(t1, v, err) := appRead t in (t1, match v with Some b => RBytes b | None => RErr err end)
  | EShutW => let '(t1, n) := appShutdownWrite t false in (t1, if n <? 0 then RErr n else RCount n)
  | ERto =>
      if negb (estate t =? stConnected) then (t, RNone) else
      let '(t1, alive) := rtoExpired t false in
      (if alive then loopExit t1 else resetConnection t1, RNone)
  end.

Definition run (t : tcp) (es : list event) : tcp :=
  fold_left (fun t e => fst (step t e)) es t.

(* all frames emitted along a run, oldest first *)
Fixpoint run_out (t : tcp) (es : list event) : list frame :=
  match es with
  | [] => []
  | e :: r => let t' := fst (step t e) in out t' ++ run_out t' r
  end.
