(* Shared byte-list vocabulary for models of Go code that reads and writes []byte.
   Executable definitions only; lemmas are in Proofs/BytesP.v.

   Conventions
   * a []byte is a [list Z] whose elements are in 0..255 ([bytes_ok]); indices are [nat];
   * a read or write outside the slice is Go's "index out of range" panic = [None];
     slices are taken with cap = len (drivers build their inputs that way);
   * machine integers are [Z] with the wrap written out: [w8], [w16], [w32];
   * Go's [x << k] on an unsigned type is [wN (x * 2^k)], [x >> k] is [x / 2^k],
     [x & (2^k-1)] is [x mod 2^k], and [a | b] on operands with disjoint bits is [a + b]. *)
From Coq Require Import ZArith List Bool.
Import ListNotations.
Open Scope Z_scope.

Definition w8 (x : Z) : Z := x mod 2^8.
Definition w16 (x : Z) : Z := x mod 2^16.
Definition w32 (x : Z) : Z := x mod 2^32.

Definition is_byte (x : Z) : Prop := 0 <= x < 256.
Definition is_byteb (x : Z) : bool := (0 <=? x) && (x <? 256).
Definition bytes_ok (b : list Z) : Prop := Forall is_byte b.
Definition bytes_okb (b : list Z) : bool := forallb is_byteb b.

(* ---- option plumbing (None = panic) ---- *)
Definition obind {A B} (x : option A) (f : A -> option B) : option B :=
  match x with Some a => f a | None => None end.
Notation "x <- e ;; k" := (obind e (fun x => k)) (at level 61, e at next level, right associativity).

(* ---- reads ---- *)
(* b[i] *)
Definition get8 (b : list Z) (i : nat) : option Z := nth_error b i.
(* binary.BigEndian.Uint16(b[i:]) *)
Definition get16 (b : list Z) (i : nat) : option Z :=
  h <- nth_error b i ;; l <- nth_error b (S i) ;; Some (h * 256 + l).
(* binary.BigEndian.Uint32(b[i:]) *)
Definition get32 (b : list Z) (i : nat) : option Z :=
  b0 <- nth_error b i ;; b1 <- nth_error b (S i) ;;
  b2 <- nth_error b (S (S i)) ;; b3 <- nth_error b (S (S (S i))) ;;
  Some (((b0 * 256 + b1) * 256 + b2) * 256 + b3).
(* b[i:i+n] *)
Definition getN (b : list Z) (i n : nat) : option (list Z) :=
  if (i + n <=? length b)%nat then Some (firstn n (skipn i b)) else None.
(* b[i:] *)
Definition getFrom (b : list Z) (i : nat) : option (list Z) :=
  if (i <=? length b)%nat then Some (skipn i b) else None.

(* ---- writes ---- *)
(* b[i] = v  (v already a byte) *)
Fixpoint upd (b : list Z) (i : nat) (v : Z) : option (list Z) :=
  match b, i with
  | [], _ => None
  | _ :: t, O => Some (v :: t)
  | x :: t, S i' => match upd t i' v with Some t' => Some (x :: t') | None => None end
  end.
(* b[i] = byte(v) *)
Definition put8 (b : list Z) (i : nat) (v : Z) : option (list Z) := upd b i (w8 v).
(* binary.BigEndian.PutUint16(b[i:], v) *)
Definition put16 (b : list Z) (i : nat) (v : Z) : option (list Z) :=
  b1 <- upd b i (w8 (v / 2^8)) ;; upd b1 (S i) (w8 v).
(* binary.BigEndian.PutUint32(b[i:], v) *)
Definition put32 (b : list Z) (i : nat) (v : Z) : option (list Z) :=
  b1 <- upd b i (w8 (v / 2^24)) ;; b2 <- upd b1 (S i) (w8 (v / 2^16)) ;;
  b3 <- upd b2 (S (S i)) (w8 (v / 2^8)) ;; upd b3 (S (S (S i))) (w8 v).
(* overwrite b[off .. off+len vs) with vs *)
Definition set_range (b : list Z) (off : nat) (vs : list Z) : option (list Z) :=
  if (off + length vs <=? length b)%nat
  then Some (firstn off b ++ vs ++ skipn (off + length vs) b) else None.
(* copy(b[off:off+n], src): copies min(n, len src) bytes; panics when off+n > len b *)
Definition copy_into (b : list Z) (off n : nat) (src : list Z) : option (list Z) :=
  if (off + n <=? length b)%nat then set_range b off (firstn n src) else None.

(* ---- specification vocabulary: an independent bit-level reader ----
   The byte string is flattened to its bits, most significant bit of byte 0 first (the numbering
   of the RFC header diagrams); [bits b off len] is the unsigned big-endian value of the [len]
   bits starting at bit [off]. *)
Definition bits8 (x : Z) : list Z :=
  [x / 128 mod 2; x / 64 mod 2; x / 32 mod 2; x / 16 mod 2; x / 8 mod 2; x / 4 mod 2; x / 2 mod 2; x mod 2].
Definition to_bits (b : list Z) : list Z := flat_map bits8 b.
Definition bits_val (l : list Z) : Z := fold_left (fun acc x => 2 * acc + x) l 0.
Definition bits (b : list Z) (off len : nat) : Z := bits_val (firstn len (skipn off (to_bits b))).
(* the bytes b[i .. i+n) *)
Definition bytes_at (b : list Z) (i n : nat) : list Z := firstn n (skipn i b).
(* big-endian value of a byte string *)
Definition be_int (l : list Z) : Z := fold_left (fun acc x => acc * 256 + x) l 0.
