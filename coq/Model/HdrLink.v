(* Models of /repo/protocol/header/eth.go and arp.go.  Executable definitions only. *)
From Coq Require Import ZArith List Bool.
From NP Require Import Model.Bytes Model.HdrIP.
Import ListNotations.
Open Scope Z_scope.

(* ======================= Ethernet ======================= *)
(* const ( dstMAC = 0; srcMAC = 6; ethType = 12 ) *)
Record ethFields := mkEth { ethSrcAddr : list Z; ethDstAddr : list Z; ethType : Z }.

(* func (b Ethernet) SourceAddress() tcpip.LinkAddress { return tcpip.LinkAddress(b[srcMAC:][:EthernetAddressSize]) } *)
Definition eth_sourceAddress (b : list Z) : option (list Z) := r <- getFrom b 6 ;; getN r 0 6.
(* func (b Ethernet) DestinationAddress() tcpip.LinkAddress { return tcpip.LinkAddress(b[dstMAC:][:EthernetAddressSize]) } *)
Definition eth_destinationAddress (b : list Z) : option (list Z) := r <- getFrom b 0 ;; getN r 0 6.
(* func (b Ethernet) Type() tcpip.NetworkProtocolNumber { return NetworkProtocolNumber(binary.BigEndian.Uint16(b[ethType:])) } *)
Definition eth_type (b : list Z) : option Z := get16 b 12.

(* func (b Ethernet) Encode(e *EthernetFields) {
     binary.BigEndian.PutUint16(b[ethType:], uint16(e.Type))
     copy(b[srcMAC:][:EthernetAddressSize], e.SrcAddr)
     copy(b[dstMAC:][:EthernetAddressSize], e.DstAddr) } *)
Definition eth_encode (b : list Z) (e : ethFields) : option (list Z) :=
  b <- put16 b 12 (w16 (ethType e)) ;;
  b <- copy_into b 6 6 (ethSrcAddr e) ;;
  copy_into b 0 6 (ethDstAddr e).

Definition eth_decode (b : list Z) : option ethFields :=
  s <- eth_sourceAddress b ;; d <- eth_destinationAddress b ;; t <- eth_type b ;; Some (mkEth s d t).

Definition wf_eth (e : ethFields) : bool :=
  addr_okb 6 (ethSrcAddr e) && addr_okb 6 (ethDstAddr e) && in_range (ethType e) 0 65536.

(* ======================= ARP ======================= *)
(* ARPSize = 2 + 2 + 1 + 1 + 2 + 2*6 + 2*4 = 28 *)
(* func (a ARP) hardwareAddressSpace() uint16 { return uint16(a[0])<<8 | uint16(a[1]) }  etc. are
   unexported; they are observable through IsValid *)
Definition arp_hardwareAddressSpace (a : list Z) : option Z := get16 a 0.
Definition arp_protocolAddressSpace (a : list Z) : option Z := get16 a 2.
Definition arp_hardwareAddressSize (a : list Z) : option Z := get8 a 4.
Definition arp_protocolAddressSize (a : list Z) : option Z := get8 a 5.
(* func (a ARP) Op() ARPOp { return ARPOp(a[6])<<8 | ARPOp(a[7]) } *)
Definition arp_op (a : list Z) : option Z := get16 a 6.
(* func (a ARP) SetOp(op ARPOp) { a[6] = uint8(op >> 8); a[7] = uint8(op) } *)
Definition arp_setOp (a : list Z) (op : Z) : option (list Z) :=
  a <- put8 a 6 (op / 2^8) ;; put8 a 7 op.
(* func (a ARP) SetIpv4OverEthernet() { a[0], a[1] = 0, 1; a[2], a[3] = 0x08, 0x00; a[4] = 6; a[5] = uint8(IPv4AddressSize) }
   a tuple assignment evaluates the index expressions left to right; every write is bounds-checked *)
Definition arp_setIPv4OverEthernet (a : list Z) : option (list Z) :=
  a <- put8 a 0 0 ;; a <- put8 a 1 1 ;; a <- put8 a 2 8 ;; a <- put8 a 3 0 ;; a <- put8 a 4 6 ;; put8 a 5 4.
(* func (a ARP) HardwareAddressSender() []byte { const s = 8; return a[s : s+6] } *)
Definition arp_hardwareAddressSender (a : list Z) : option (list Z) := getN a 8 6.
Definition arp_protocolAddressSender (a : list Z) : option (list Z) := getN a 14 4.
Definition arp_hardwareAddressTarget (a : list Z) : option (list Z) := getN a 18 6.
Definition arp_protocolAddressTarget (a : list Z) : option (list Z) := getN a 24 4.
(* func (a ARP) IsValid() bool {
     if len(a) < ARPSize { return false }
     return a.hardwareAddressSpace() == 1 && a.protocolAddressSpace() == uint16(IPv4ProtocolNumber) &&
            a.hardwareAddressSize() == 6 && a.protocolAddressSize() == IPv4AddressSize } *)
Definition arp_isValid (a : list Z) : option bool :=
  if (length a <? 28)%nat then Some false else
  hs <- arp_hardwareAddressSpace a ;; ps <- arp_protocolAddressSpace a ;;
  hz <- arp_hardwareAddressSize a ;; pz <- arp_protocolAddressSize a ;;
  Some ((hs =? 1) && (ps =? 2048) && (hz =? 6) && (pz =? 4)).

(* how protocol/network/arp builds a packet: SetIpv4OverEthernet, SetOp, then copy() into the four
   address slices returned by the accessors *)
Record arpFields := mkARP { arpOp : Z; arpSHA : list Z; arpSPA : list Z; arpTHA : list Z; arpTPA : list Z }.
Definition arp_encode (a : list Z) (f : arpFields) : option (list Z) :=
  a <- arp_setIPv4OverEthernet a ;; a <- arp_setOp a (arpOp f) ;;
  a <- copy_into a 8 6 (arpSHA f) ;; a <- copy_into a 14 4 (arpSPA f) ;;
  a <- copy_into a 18 6 (arpTHA f) ;; copy_into a 24 4 (arpTPA f).
Definition arp_decode (a : list Z) : option arpFields :=
  op <- arp_op a ;; sha <- arp_hardwareAddressSender a ;; spa <- arp_protocolAddressSender a ;;
  tha <- arp_hardwareAddressTarget a ;; tpa <- arp_protocolAddressTarget a ;;
  Some (mkARP op sha spa tha tpa).
Definition wf_arp (f : arpFields) : bool :=
  in_range (arpOp f) 0 65536 && addr_okb 6 (arpSHA f) && addr_okb 4 (arpSPA f) &&
  addr_okb 6 (arpTHA f) && addr_okb 4 (arpTPA f).
