(* Model of the query-building part of /repo/protocol/header/dns.go: Setheader, SetCount,
   getDomain, SetQuestion, GetDomainLen and the fixed-header getters.  Executable definitions only.
   A domain name is given as its list of labels (the result of strings.Split(domain, ".")). *)
From Coq Require Import ZArith List Bool.
From NP Require Import Model.Bytes.
Import ListNotations.
Open Scope Z_scope.

(* const ( ID = 0; OP = 2; QDCOUNT = 4; ANCOUNT = 6; NSCOUNT = 8; ARCOUNT = 10; DOMAIN = 12 ) *)
(* func (d DNS) GetId() uint16 { return binary.BigEndian.Uint16(d[ID:OP]) }   etc. *)
Definition dns_getId (d : list Z) : option Z := get16 d 0.
Definition dns_getQDCount (d : list Z) : option Z := get16 d 4.
Definition dns_getANCount (d : list Z) : option Z := get16 d 6.
Definition dns_getNSCount (d : list Z) : option Z := get16 d 8.
Definition dns_getARCount (d : list Z) : option Z := get16 d 10.

(* func (d DNS) Setheader(id uint16) { d.setID(id); d.setFlag(0,0,0,0,1,0,0) }
   setID:   binary.BigEndian.PutUint16(d[ID:], id)
   setFlag: op := QR<<15 + OPCODE<<11 + AA<<10 + TC<<9 + RD<<8 + RA<<7 + RCODE
            binary.BigEndian.PutUint16(d[OP:], op)                     -- = 1<<8 here *)
Definition dns_setheader (d : list Z) (id : Z) : option (list Z) :=
  d <- put16 d 0 id ;; put16 d 2 (w16 (1 * 2^8)).
(* func (d DNS) SetCount(qd,an,ns,qa uint16) { PutUint16(d[QDCOUNT:], qd); ... d[ANCOUNT:] d[NSCOUNT:] d[ARCOUNT:] } *)
Definition dns_setCount (d : list Z) (qd an ns qa : Z) : option (list Z) :=
  d <- put16 d 4 qd ;; d <- put16 d 6 an ;; d <- put16 d 8 ns ;; put16 d 10 qa.

(* func (d *DNS) getDomain(domain string) []byte {
     segments := strings.Split(domain, ".")
     for _, seg := range segments {
       binary.Write(&buffer, binary.BigEndian, byte(len(seg)))
       binary.Write(&buffer, binary.BigEndian, []byte(seg)) }
     binary.Write(&buffer, binary.BigEndian, byte(0x00))
     return buffer.Bytes() } *)
Definition dns_getDomain (labels : list (list Z)) : list Z :=
  flat_map (fun seg => w8 (Z.of_nat (length seg)) :: seg) labels ++ [0].

(* func (d *DNS) SetQuestion(domain string, qtype, qclass uint16) {
     for _, b := range d.getDomain(domain) { *d = append( *d, b) }
     q := DNSQuestion{QuestionType: qtype, QuestionClass: qclass}
     binary.Write(&buffer, binary.BigEndian, *d); binary.Write(&buffer, binary.BigEndian, q)
     *d = buffer.Bytes() } *)
Definition dns_setQuestion (d : list Z) (labels : list (list Z)) (qtype qclass : Z) : list Z :=
  (d ++ dns_getDomain labels) ++ [w8 (qtype / 2^8); w8 qtype; w8 (qclass / 2^8); w8 qclass].

(* func (d DNS) GetDomainLen() (rs int) {
     slen := DOMAIN
     for { rs += 1
           if int(d[slen]) == 0 { return rs }
           rs += int(d[slen])
           slen += int(d[slen]) + 1 } }
   fuel = len(d)+1 iterations are enough; DPanic = index out of range *)
Inductive dres := DOk (n : Z) | DPanic | DFuel.
Fixpoint dns_domainLen_loop (fuel : nat) (d : list Z) (slen : nat) (rs : Z) : dres :=
  match fuel with
  | O => DFuel
  | S fuel' =>
      let rs := rs + 1 in
      match nth_error d slen with
      | None => DPanic
      | Some x => if x =? 0 then DOk rs else dns_domainLen_loop fuel' d (slen + Z.to_nat x + 1) (rs + x)
      end
  end.
Definition dns_getDomainLen (d : list Z) : dres := dns_domainLen_loop (S (length d)) d 12 0.

(* ---- specification vocabulary: RFC 1035 3.1 / 4.1.2 ----
   QNAME = a sequence of labels, each a length octet followed by that many octets, ended by the
   zero-length label; then QTYPE and QCLASS, two octets each.  Independent reader: *)
Fixpoint rfc1035_labels (fuel : nat) (l : list Z) : option (list (list Z) * list Z) :=
  match fuel with
  | O => None
  | S fuel' =>
      match l with
      | [] => None
      | n :: t =>
          if n =? 0 then Some ([], t)
          else if (length t <? Z.to_nat n)%nat then None
          else match rfc1035_labels fuel' (skipn (Z.to_nat n) t) with
               | Some (ls, rest) => Some (firstn (Z.to_nat n) t :: ls, rest)
               | None => None
               end
      end
  end.
Definition wf_label (seg : list Z) : Prop := (1 <= length seg <= 63)%nat /\ bytes_ok seg.
