(* Specification vocabulary for C19, written on the EVENTS of a run (which API call was invoked /
   returned what, which Assert switched a waker to asserted), independently of the transition
   function of Model/Sleep.v (only its [event] and [op] types are used). *)
From Coq Require Import ZArith Bool List Arith.
From NP Require Import Model.Sleep.
Import ListNotations.

Definition setf {A} (f : nat -> A) (k : nat) (v : A) : nat -> A :=
  fun x => if Nat.eqb x k then v else f x.

(* Monitor for "no invented wake-up, one notification per assertion":
   a waker is ARMED from the moment an Assert switches it to asserted until it is returned by
   Fetch or successfully cleared.  A Fetch return (w, id) is accepted only if w is armed and id is
   the id given in the last AddWaker of w; it disarms w. *)
Record mon := mkMon { m_arm : nat -> bool; m_ids : nat -> Z; m_ok : bool }.

Definition mon_step (m : mon) (e : event) : mon :=
  match e with
  | ESwitch _ w _ => mkMon (setf (m_arm m) w true) (m_ids m) (m_ok m)
  | ERetFetch _ w id =>
      mkMon (setf (m_arm m) w false) (m_ids m) (m_ok m && m_arm m w && Z.eqb id (m_ids m w))
  | ERetClear _ w true => mkMon (setf (m_arm m) w false) (m_ids m) (m_ok m)
  | EInvoke _ (OAdd w id) => mkMon (m_arm m) (setf (m_ids m) w id) (m_ok m)
  | _ => m
  end.

Definition mon0 : mon := mkMon (fun _ => false) (fun _ => 0%Z) true.
Definition fetch_monitor (evs : list event) : bool := m_ok (fold_left mon_step evs mon0).
