(* Specification vocabulary for the fixed headers: each header as the RFC draws it, read with the
   independent bit-level reader [bits b off len] of Model/Bytes.v (bit 0 = most significant bit of
   byte 0).  Nothing here mentions the accessor or Encode models. *)
From Coq Require Import ZArith List Bool.
From NP Require Import Model.Bytes Model.HdrIP Model.HdrTransport Model.HdrLink.
Import ListNotations.
Open Scope Z_scope.

(* n bytes starting at bit offset off, each read as 8 bits *)
Definition bytes_of_bits (b : list Z) (off n : nat) : list Z :=
  map (fun j => bits b (off + 8 * j) 8) (seq 0 n).

(* RFC 791 3.1:  |Version|IHL|Type of Service|Total Length| Identification |Flags|Fragment Offset|
                 |TTL|Protocol|Header Checksum| Source Address | Destination Address |
   IHL is in 32-bit words, the fragment offset in units of 8 bytes; the library's fields are in bytes *)
Definition ipv4_version_rfc (b : list Z) : Z := bits b 0 4.
Definition ipv4_rfc791 (b : list Z) : ipv4Fields :=
  mkIPv4 (4 * bits b 4 4) (bits b 8 8) (bits b 16 16) (bits b 32 16) (bits b 48 3) (8 * bits b 51 13)
         (bits b 64 8) (bits b 72 8) (bits b 80 16) (bytes_of_bits b 96 4) (bytes_of_bits b 128 4).

(* RFC 2460 3:  |Version|Traffic Class|Flow Label| Payload Length |Next Header|Hop Limit| Source | Destination | *)
Definition ipv6_version_rfc (b : list Z) : Z := bits b 0 4.
Definition ipv6_rfc2460 (b : list Z) : ipv6Fields :=
  mkIPv6 (bits b 4 8) (bits b 12 20) (bits b 32 16) (bits b 48 8) (bits b 56 8)
         (bytes_of_bits b 64 16) (bytes_of_bits b 192 16).

(* RFC 2460 4.5:  |Next Header|Reserved|Fragment Offset (13)|Res (2)|M| Identification | *)
Definition ipv6frag_rfc2460 (b : list Z) : ipv6FragFields :=
  mkIPv6Frag (bits b 0 8) (bits b 16 13) (bits b 31 1 =? 1) (bits b 32 32).

(* RFC 793 3.1:  |Source Port|Destination Port| Sequence Number | Acknowledgment Number |
                 |Data Offset (4)|Reserved+flags (12)|Window| Checksum|Urgent Pointer|
   data offset in 32-bit words; the library's Flags() is the low byte of the 12 bits *)
Definition tcp_rfc793 (b : list Z) : tcpFields :=
  mkTCP (bits b 0 16) (bits b 16 16) (bits b 32 32) (bits b 64 32) (4 * bits b 96 4) (bits b 104 8)
        (bits b 112 16) (bits b 128 16) (bits b 144 16).

(* RFC 768:  |Source Port|Destination Port| Length | Checksum | *)
Definition udp_rfc768 (b : list Z) : udpFields :=
  mkUDP (bits b 0 16) (bits b 16 16) (bits b 32 16) (bits b 48 16).

(* RFC 792 / RFC 4443:  |Type|Code|Checksum| *)
Definition icmp_rfc792 (b : list Z) : icmpFields := mkICMP (bits b 0 8) (bits b 8 8) (bits b 16 16).

(* IEEE 802.3 / RFC 894:  | Destination (6) | Source (6) | EtherType (2) | *)
Definition eth_rfc894 (b : list Z) : ethFields :=
  mkEth (bytes_of_bits b 48 6) (bytes_of_bits b 0 6) (bits b 96 16).

(* RFC 826:  |HTYPE|PTYPE|HLEN|PLEN|OPER| SHA (6) | SPA (4) | THA (6) | TPA (4) | *)
Definition arp_rfc826 (b : list Z) : arpFields :=
  mkARP (bits b 48 16) (bytes_of_bits b 64 6) (bytes_of_bits b 112 4) (bytes_of_bits b 144 6)
        (bytes_of_bits b 192 4).
Definition arp_fixed_rfc826 (b : list Z) : list Z := [bits b 0 16; bits b 16 16; bits b 32 8; bits b 40 8].
