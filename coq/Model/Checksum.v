(* Model of /repo/protocol/header/checksum.go.  Executable definitions only; no proofs here.
   uint16/uint32 arithmetic is written out with [w16]/[w32] (Model/Bytes.v). *)
From Coq Require Import ZArith List Bool.
From NP Require Import Model.Bytes.
Import ListNotations.
Open Scope Z_scope.

(* func ChecksumCombine(a, b uint16) uint16 {
     v := uint32(a) + uint32(b)
     return uint16(v + v>>16) } *)
Definition checksumCombine (a b : Z) : Z :=
  let v := w32 (a + b) in
  w16 (w32 (v + v / 2^16)).

(*   for i := 0; i < l; i += 2 { v += (uint32(buf[i]) << 8) + uint32(buf[i+1]) }
   on the first l bytes, l even: one iteration per pair of bytes, in order *)
Fixpoint sum_pairs (buf : list Z) (v : Z) : Z :=
  match buf with
  | hi :: lo :: t => sum_pairs t (w32 (v + w32 (w32 (hi * 2^8) + lo)))
  | _ => v
  end.

(* func Checksum(buf []byte, initial uint16) uint16 {
     v := uint32(initial)
     l := len(buf)
     if l&1 != 0 { l--; v += uint32(buf[l]) << 8 }
     for i := 0; i < l; i += 2 { v += (uint32(buf[i]) << 8) + uint32(buf[i+1]) }
     return ChecksumCombine(uint16(v), uint16(v>>16)) } *)
Definition checksum (buf : list Z) (initial : Z) : Z :=
  let v := w32 initial in
  let l := length buf in
  let '(l, v) :=
    if Nat.odd l then ((l - 1)%nat, w32 (v + w32 (nth (l - 1) buf 0 * 2^8))) else (l, v) in
  let v := sum_pairs (firstn l buf) v in
  checksumCombine (w16 v) (w16 (v / 2^16)).

(* func PseudoHeaderChecksum(protocol, srcAddr, dstAddr) uint16 {
     xsum := Checksum([]byte(srcAddr), 0)
     xsum = Checksum([]byte(dstAddr), xsum)
     return Checksum([]byte{0, uint8(protocol)}, xsum) } *)
Definition pseudoHeaderChecksum (protocol : Z) (src dst : list Z) : Z :=
  let xsum := checksum src 0 in
  let xsum := checksum dst xsum in
  checksum [0; w8 protocol] xsum.

(* the way every caller sums a multi-chunk payload:
     for _, v := range vv.Views() { xsum = header.Checksum(v, xsum) } *)
Definition checksum_chunks (chunks : list (list Z)) (initial : Z) : Z :=
  fold_left (fun acc c => checksum c acc) chunks initial.

(* ---- specification vocabulary (RFC 1071), independent of the functions above ---- *)
(* the buffer as big-endian 16-bit words, an odd trailing byte padded with a zero byte *)
Fixpoint be_words (l : list Z) : list Z :=
  match l with
  | hi :: lo :: t => (hi * 256 + lo) :: be_words t
  | [hi] => [hi * 256]
  | [] => []
  end.
Definition zsum (l : list Z) : Z := fold_right Z.add 0 l.
(* 16-bit one's-complement addition: add, then add the carry out of bit 15 back in *)
Definition ocadd (a b : Z) : Z := let s := a + b in if s <? 65536 then s else s - 65535.
(* RFC 1071 (1): the 16-bit one's-complement sum of the words, starting from [init] *)
Definition rfc1071_sum (buf : list Z) (init : Z) : Z := fold_left ocadd (be_words buf) init.
(* the canonical representative a one's-complement accumulation reaches for an integer total:
   0 only for total 0, otherwise the value in 1..65535 congruent to it modulo 65535 *)
Definition oc_norm (x : Z) : Z := if x =? 0 then 0 else (x - 1) mod 65535 + 1.
(* ^x on a uint16 *)
Definition lnot16 (x : Z) : Z := 65535 - x.
Definition is_u16 (x : Z) : Prop := 0 <= x < 65536.
