(* Executable model of the bundled WebSocket layer of brewlin/net-protocol
   (protocol/application/websocket/{conn,utils,upgrade}.go).

   A connection is seen through Readn: the byte stream still to be read is a [list Z]; Readn(p)
   returns exactly the next len(p) bytes ([readn]); on a stream that ends early the real Readn
   blocks (TCP) or fails (in-memory socket of the harness) -- both are [None] here and end the
   decoding with [WErrRead] without consuming anything.
   Lengths are [Z]; payloads stay abstract lists in every proof (no large [nat] is ever computed).
   Executable definitions only; lemmas in Proofs/WsP.v. *)
From Coq Require Import String.
From Coq Require Import ZArith List Bool.
From NP Require Import Model.Http Model.Base64.
Import ListNotations.
Open Scope Z_scope.

(* conn.go constants *)
Definition finalBit : Z := 128.
Definition maskBit : Z := 128.
Definition TextMessage : Z := 1.
Definition CloseMessage : Z := 8.

Definition zlen (l : list Z) : Z := Z.of_nat (length l).

(* binary.BigEndian.PutUint16(b, v) / PutUint64(b, v) *)
Definition be16 (v : Z) : list Z := [(v / 2^8) mod 256; v mod 256].
Definition be64 (v : Z) : list Z :=
  [(v / 2^56) mod 256; (v / 2^48) mod 256; (v / 2^40) mod 256; (v / 2^32) mod 256;
   (v / 2^24) mod 256; (v / 2^16) mod 256; (v / 2^8) mod 256; v mod 256].
(* binary.BigEndian.Uint16 / Uint64 *)
Definition be_val (l : list Z) : Z := fold_left (fun acc b => acc * 256 + b) l 0.

(* conn.go
   func (c *Conn) SendData(data []byte) error {
       length := len(data)
       c.writeBuf = make([]byte, 10+length)
       payloadStart := 2
       c.writeBuf[0] = byte(TextMessage) | finalBit
       switch {
       case length >= 1<<16:
           c.writeBuf[1] = byte(127)
           binary.BigEndian.PutUint64(c.writeBuf[payloadStart:], uint64(length)); payloadStart += 8
       case length > 125:
           c.writeBuf[1] = byte(126)
           binary.BigEndian.PutUint16(c.writeBuf[payloadStart:], uint16(length)); payloadStart += 2
       default:
           c.writeBuf[1] = byte(length)
       }
       copy(c.writeBuf[payloadStart:], data[:])
       return c.conn.Write(c.writeBuf[:payloadStart+length]) }
   The bytes handed to conn.Write.  SendData never masks. *)
Definition ws_encode (data : list Z) : list Z :=
  let len := zlen data in
  if 65536 <=? len then [129; 127] ++ be64 (len mod 2^64) ++ data
  else if 125 <? len then [129; 126] ++ be16 (len mod 2^16) ++ data
  else [129; len mod 256] ++ data.

(* utils.go
   func maskBytes(key [4]byte, b []byte) { pos := 0; for i := range b { b[i] ^= key[pos&3]; pos++ } } *)
Fixpoint mask_from (key : list Z) (pos : Z) (b : list Z) : list Z :=
  match b with
  | [] => []
  | x :: t => Z.lxor x (nth (Z.to_nat (Z.land pos 3)) key 0) :: mask_from key (pos + 1) t
  end.
Definition mask_bytes (key b : list Z) : list Z := mask_from key 0 b.

(* server_socket.go / tcp/client/read.go: Readn(p) with len(p) = n *)
Definition readn (n : Z) (s : list Z) : option (list Z * list Z) :=
  if (0 <=? n) && (n <=? zlen s) then Some (firstn (Z.to_nat n) s, skipn (Z.to_nat n) s) else None.

Inductive wres :=
| WOk (p : list Z)    (* data, nil error *)
| WErrRead            (* a Readn failed / would block for ever *)
| WErrFrag            (* "not suppeort fragmented message" *)
| WErrClose           (* "recived closed message"; the connection has been closed *)
| WErrType            (* "only support text message" *)
| WPanic.             (* make([]byte, dataLen) with dataLen < 0 *)

(* int64(x) for 0 <= x < 2^64 *)
Definition to_int64 (x : Z) : Z := if x <? 2^63 then x else x - 2^64.

(* conn.go: func (c *Conn) ReadData() (data []byte, err error): one call on the stream [s];
   returns the result and the stream left.  Allocation failure of make for a huge positive
   dataLen is not modelled (memory is unbounded here). *)
Definition ws_read (s : list Z) : wres * list Z :=
  match readn 2 s with
  | None => (WErrRead, s)
  | Some (b, s1) =>
      let b0 := nth 0 b 0 in
      let b1 := nth 1 b 0 in
      if Z.land b0 finalBit =? 0 then (WErrFrag, s1)
      else
        let frameType := Z.land b0 15 in
        if frameType =? CloseMessage then (WErrClose, s1)
        else if negb (frameType =? TextMessage) then (WErrType, s1)
        else
          let mask := negb (Z.land b1 maskBit =? 0) in
          let payloadLen := Z.land b1 127 in
          let ext :=
            if payloadLen =? 126 then
              match readn 2 s1 with
              | None => None
              | Some (e, s2) => Some (be_val e, s2)
              end
            else if payloadLen =? 127 then
              match readn 8 s1 with
              | None => None
              | Some (e, s2) => Some (to_int64 (be_val e), s2)
              end
            else Some (payloadLen, s1) in
          match ext with
          | None => (WErrRead, s1)
          | Some (dataLen, s2) =>
              let km := if mask then
                          match readn 4 s2 with
                          | None => None
                          | Some (k, s3) => Some (k, s3)
                          end
                        else Some ([], s2) in
              match km with
              | None => (WErrRead, s2)
              | Some (key, s3) =>
                  if dataLen <? 0 then (WPanic, s3)
                  else
                    match readn dataLen s3 with
                    | None => (WErrRead, s3)
                    | Some (p, s4) => (WOk (if mask then mask_bytes key p else p), s4)
                    end
              end
          end
  end.

(* ReadData called up to [n] times, stopping at the first error *)
Fixpoint ws_read_many (n : nat) (s : list Z) : list wres * list Z :=
  match n with
  | O => ([], s)
  | S k =>
      match ws_read s with
      | (WOk p, s') => let '(r, s'') := ws_read_many k s' in (WOk p :: r, s'')
      | (e, s') => ([e], s')
      end
  end.

(* ---- RFC 6455 section 5.2 frames as ANY peer may send them (not Go code of the repository; the
   bundled sender only produces [ws_encode]).  [cls] = 0: 7-bit length, 1: 16-bit, 2: 64-bit
   (a peer may use a longer form than needed); [mask] = Some key for a masked frame. *)
Definition rfc_frame (fin opcode : Z) (mask : option (list Z)) (cls : Z) (payload : list Z) : list Z :=
  let len := zlen payload in
  let mb := match mask with Some _ => 128 | None => 0 end in
  [fin * 128 + opcode]
  ++ (if cls =? 0 then [mb + len]
      else if cls =? 1 then [mb + 126] ++ be16 len
      else [mb + 127] ++ be64 len)
  ++ match mask with Some k => k ++ mask_bytes k payload | None => payload end.

(* the minimal length class of RFC 6455 *)
Definition min_class (len : Z) : Z := if len <=? 125 then 0 else if len <=? 65535 then 1 else 2.

(* a masked text frame with the minimal length form (what a browser sends) *)
Definition ws_encode_masked (key payload : list Z) : list Z :=
  rfc_frame 1 1 (Some key) (min_class (zlen payload)) payload.

(* ------------------------------------------------------------------ handshake *)
Definition KeyGUID : list Z := s2b "258EAFA5-E914-47DA-95CA-C5AB0DC85B11".

(* strings.Split(h, ",") *)
Fixpoint split_comma (s cur : list Z) : list (list Z) :=
  match s with
  | [] => [rev cur]
  | c :: t => if c =? 44 then rev cur :: split_comma t [] else split_comma t (c :: cur)
  end.
(* strings.TrimSpace restricted to ASCII white space (\t \n \v \f \r and space); the Unicode
   spaces U+0085, U+00A0, U+1680, U+2000.. are not modelled *)
Definition is_space (c : Z) : bool := ((9 <=? c) && (c <=? 13)) || (c =? 32).
Fixpoint trim_left (s : list Z) : list Z :=
  match s with
  | c :: t => if is_space c then trim_left t else s
  | [] => []
  end.
Definition trim_space (s : list Z) : list Z := rev (trim_left (rev (trim_left s))).

(* utils.go
   func tokenListContainsValue(h string, value string) bool {
       for _, s := range strings.Split(h, ",") {
           if strings.EqualFold(value, strings.TrimSpace(s)) { return true } }
       return false } *)
Definition token_list_contains (h value : list Z) : bool :=
  existsb (fun s => eqfold value (trim_space s)) (split_comma h []).

Section Accept.
  (* SHA-1 (crypto/sha1) is not modelled: an arbitrary function from byte strings to digests *)
  Variable H : list Z -> list Z.

  (* utils.go
     func computeAcceptKey(challengeKey string) string {
         h := sha1.New(); h.Write([]byte(challengeKey)); h.Write(KeyGUID)
         return base64.StdEncoding.EncodeToString(h.Sum(nil)) } *)
  Definition compute_accept_key (key : list Z) : list Z := b64_encode (H (key ++ KeyGUID)).

  Definition upgrade_response (key : list Z) : list Z :=
    s2b "HTTP/1.1 101 Switching Protocols" ++ CRLF ++ s2b "Upgrade: websocket" ++ CRLF
    ++ s2b "Connection: Upgrade" ++ CRLF ++ s2b "Sec-WebSocket-Accept: "
    ++ compute_accept_key key ++ CRLF ++ CRLF.

  (* upgrade.go: func Upgrade(r *http.Request, w *http.Response) (c *Conn, err error)
     on a request [r] and a connection whose status_code is [st].  Returns the bytes written to
     the connection (Some = upgraded, a Conn is returned; None = error returned, nothing
     written) and the status_code afterwards (w.Error(code) = con.set_status_code(code)). *)
  Definition upgrade (r : request) (st : Z) : option (list Z) * Z :=
    if negb (beq (method_raw r) (s2b "GET")) then (None, set_status st 405)
    else if negb (beq (get_header (s2b "Sec-WebSocket-Version") (headers r)) (s2b "13"))
    then (None, set_status st 400)
    else if negb (token_list_contains (get_header (s2b "Connection") (headers r)) (s2b "upgrade"))
    then (None, set_status st 400)
    else if negb (beq (get_header (s2b "Upgrade") (headers r)) (s2b "websocket"))
    then (None, set_status st 400)
    else
      let key := get_header (s2b "Sec-WebSocket-Key") (headers r) in
      if isnil key then (None, set_status st 400)
      else (Some (upgrade_response key), st).
End Accept.
