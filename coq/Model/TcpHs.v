(* Executable model of TCP connection establishment in /repo/protocol/transport/tcp:
     connect.go  handshake.{resetState, resetToSynRcvd, checkAck, synSentState, synRcvdState,
                 handleSegment}, FindWndScale, the SYN (re)transmission of execute
     accept.go   listener: handleListenSegment, SYN cookies (createCookie, isCookieValid,
                 encodeMSS, mssTable), createConnectedEndpoint's sender/receiver initialisation
     protocol.go HandleUnknownDestinationPacket and replyWithReset.
   Randomness (initial sequence numbers), the current cookie time slot and the SHA-1 based
   cookieHash are inputs: [H] is a Section variable.  Executable definitions only. *)
From Coq Require Import ZArith List Bool.
From NP Require Import Model.Seqnum.
Import ListNotations.
Open Scope Z_scope.

Definition fFin := 1.
Definition fSyn := 2.
Definition fRst := 4.
Definition fPsh := 8.
Definition fAck := 16.
Definition has (fl m : Z) : bool := negb (Z.land fl m =? 0).

(* parsed SYN options (header.TCPSynOptions): ws = -1 when absent *)
Record synopts := mkSO { so_mss : Z; so_ws : Z; so_ts : bool; so_sack : bool }.

(* an inbound segment as the handshake sees it: hs_len = payload length, hs_opts = result of
   ParseSynOptions on its option bytes, hs_hasts = ParseTCPOptions found a timestamp option *)
Record hseg := mkHS { hs_seq : Z; hs_ack : Z; hs_flags : Z; hs_wnd : Z; hs_len : Z;
                      hs_opts : synopts; hs_hasts : bool }.

(* an emitted segment: options are SYN options for SYN segments, None otherwise *)
Record hframe := mkHF { hf_flags : Z; hf_seq : Z; hf_ack : Z; hf_wnd : Z; hf_opts : option synopts }.

Definition hlogicalLen (s : hseg) : Z :=
  u32 (hs_len s + (if has (hs_flags s) fSyn then 1 else 0) + (if has (hs_flags s) fFin then 1 else 0)).

Definition stSynSent := 0.
Definition stSynRcvd := 1.
Definition stCompleted := 2.

Record hstate := mkH {
  h_state : Z; h_active : bool; h_flags : Z; h_ackNum : Z; h_iss : Z;
  h_rcvWnd : Z; h_sndWnd : Z; h_mss : Z; h_sndWndScale : Z; h_rcvWndScale : Z;
  h_tsOk : bool;          (* ep.sendTSOk *)
  h_sack : bool;          (* ep.sackPermitted *)
  h_stackSack : bool;     (* the stack-wide SACKEnabled option *)
  h_mtuMss : Z }.         (* r.MTU() - TCPMinimumSize: the MSS advertised when opts.MSS = 0 *)

(* errors *)
Definition errRefused := 1.         (* ErrConnectionRefused *)
Definition errInvalidState := 2.    (* ErrInvalidEndpointState *)

(* func FindWndScale(wnd seqnum.Size) int *)
Fixpoint findWndScaleLoop (fuel : nat) (wnd mx s : Z) : Z :=
  match fuel with
  | O => s
  | S f => if (mx <? wnd) && (s <? 14) then findWndScaleLoop f wnd (u32 (mx * 2)) (s + 1) else s
  end.
Definition findWndScale (wnd : Z) : Z :=
  if wnd <? 65536 then 0 else findWndScaleLoop 15 wnd 65535 0.

(* window field of a sendTCP call *)
Definition clampWnd (w : Z) : Z := if 65535 <? w then 65535 else w.

(* func (h *handshake) effectiveRcvWndScale() uint8 *)
Definition effectiveRcvWndScale (h : hstate) : Z := if h_sndWndScale h <? 0 then 0 else h_rcvWndScale h.

(* sendSynTCP: MSS defaults to the route MTU minus the TCP header *)
Definition synFrame (h : hstate) (flags seq ack wnd : Z) (o : synopts) : hframe :=
  mkHF flags seq ack (clampWnd wnd)
       (Some (mkSO (if so_mss o =? 0 then h_mtuMss h else so_mss o) (so_ws o) (so_ts o) (so_sack o))).

(* the SYN / SYN-ACK that execute() sends first and on every retransmission time-out *)
Definition executeSyn (h : hstate) : hframe :=
  let ts := if h_state h =? stSynRcvd then h_tsOk h else true in
  let sk := if h_state h =? stSynRcvd then h_sack h && h_stackSack h else h_stackSack h in
  synFrame h (h_flags h) (h_iss h) (h_ackNum h) (h_rcvWnd h) (mkSO 0 (h_rcvWndScale h) ts sk).

(* func (h *handshake) checkAck(s *segment) bool: the reset it sends when the ACK is wrong *)
Definition checkAck (h : hstate) (s : hseg) : bool * list hframe :=
  if has (hs_flags s) fAck && negb (hs_ack s =? u32 (h_iss h + 1)) then
    (false, [mkHF (Z.lor fRst fAck) (hs_ack s) (add (hs_seq s) (hlogicalLen s)) 0 None])
  else (true, []).

(* maybeEnableTimestamp / maybeEnableSACKPermitted *)
Definition enableOpts (h : hstate) (o : synopts) : hstate :=
  mkH (h_state h) (h_active h) (h_flags h) (h_ackNum h) (h_iss h) (h_rcvWnd h) (h_sndWnd h) (h_mss h)
      (h_sndWndScale h) (h_rcvWndScale h) (h_tsOk h || so_ts o) (h_sack h || (h_stackSack h && so_sack o))
      (h_stackSack h) (h_mtuMss h).

Definition setState (h : hstate) (st : Z) : hstate :=
  mkH st (h_active h) (h_flags h) (h_ackNum h) (h_iss h) (h_rcvWnd h) (h_sndWnd h) (h_mss h)
      (h_sndWndScale h) (h_rcvWndScale h) (h_tsOk h) (h_sack h) (h_stackSack h) (h_mtuMss h).

(* func (h *handshake) synSentState(s *segment) *tcpip.Error *)
Definition synSentState (h : hstate) (s : hseg) : hstate * list hframe * Z :=
  if has (hs_flags s) fRst then
    if has (hs_flags s) fAck && (hs_ack s =? u32 (h_iss h + 1)) then (h, [], errRefused) else (h, [], 0)
  else
    let '(ok, fr) := checkAck h s in
    if negb ok then (h, fr, 0)
    else if negb (has (hs_flags s) fSyn) then (h, [], 0)
    else
      let o := hs_opts s in
      let h1 := enableOpts h o in
      let h2 := mkH (h_state h1) (h_active h1) (Z.lor (h_flags h1) fAck) (u32 (hs_seq s + 1)) (h_iss h1)
                    (h_rcvWnd h1) (h_sndWnd h1) (so_mss o) (so_ws o) (h_rcvWndScale h1)
                    (h_tsOk h1) (h_sack h1) (h_stackSack h1) (h_mtuMss h1) in
      if has (hs_flags s) fAck then
        (setState h2 stCompleted,
         [mkHF fAck (u32 (h_iss h2 + 1)) (h_ackNum h2)
               (clampWnd (Z.shiftr (h_rcvWnd h2) (effectiveRcvWndScale h2))) None], 0)
      else
        (* simultaneous open *)
        (setState h2 stSynRcvd,
         [synFrame h2 (h_flags h2) (h_iss h2) (h_ackNum h2) (h_rcvWnd h2)
                   (mkSO 0 (h_rcvWndScale h2) (so_ts o) (so_sack o))], 0).

(* func (h *handshake) synRcvdState(s *segment) *tcpip.Error; newIss = the next random ISS *)
Definition synRcvdState (h : hstate) (s : hseg) (newIss : Z) : hstate * list hframe * Z :=
  if has (hs_flags s) fRst then
    if inWindow (hs_seq s) (h_ackNum h) (h_rcvWnd h) then (h, [], errRefused) else (h, [], 0)
  else
    let '(ok, fr) := checkAck h s in
    if negb ok then (h, fr, 0)
    else if has (hs_flags s) fSyn && negb (hs_seq s =? u32 (h_ackNum h - 1)) then
      let rst := mkHF (Z.lor fRst fAck) (if has (hs_flags s) fAck then hs_ack s else 0)
                      (add (hs_seq s) (hlogicalLen s)) 0 None in
      if negb (h_active h) then (h, [rst], errInvalidState)
      else
        (* resetState: back to SYN-SENT with a fresh ISS, and a new SYN *)
        let h1 := mkH stSynSent (h_active h) fSyn 0 newIss (h_rcvWnd h) (h_sndWnd h) 0
                      (h_sndWndScale h) (h_rcvWndScale h) (h_tsOk h) (h_sack h) (h_stackSack h) (h_mtuMss h) in
        (h1, [rst; synFrame h1 (h_flags h1) (h_iss h1) (h_ackNum h1) (h_rcvWnd h1)
                            (mkSO 0 (h_rcvWndScale h1) (h_tsOk h1) (h_sack h1))], 0)
    else if has (hs_flags s) fAck then
      if h_tsOk h && negb (hs_hasts s) then (h, [], 0)
      else (setState h stCompleted, [], 0)
    else (h, [], 0).

(* func (h *handshake) handleSegment(s *segment) *tcpip.Error *)
Definition hsHandle (h : hstate) (s : hseg) (newIss : Z) : hstate * list hframe * Z :=
  let w := if negb (has (hs_flags s) fSyn) && (0 <? h_sndWndScale h)
           then u32 (Z.shiftl (hs_wnd s) (h_sndWndScale h)) else hs_wnd s in
  let h0 := mkH (h_state h) (h_active h) (h_flags h) (h_ackNum h) (h_iss h) (h_rcvWnd h) w (h_mss h)
                (h_sndWndScale h) (h_rcvWndScale h) (h_tsOk h) (h_sack h) (h_stackSack h) (h_mtuMss h) in
  if h_state h0 =? stSynRcvd then synRcvdState h0 s newIss
  else if h_state h0 =? stSynSent then synSentState h0 s
  else (h0, [], 0).

(* newHandshake + resetState for an active open *)
Definition hsActiveInit (iss rcvWnd mtuMss : Z) (stackSack : bool) : hstate :=
  mkH stSynSent true fSyn 0 iss rcvWnd 0 0 0 (findWndScale rcvWnd) false false stackSack mtuMss.

(* createEndpointAndPerformHandshake: newHandshake + resetToSynRcvd(cookie, irs, opts), after
   createConnectedEndpoint applied maybeEnableTimestamp/SACKPermitted *)
Definition hsPassiveInit (iss irs rcvWnd mtuMss : Z) (o : synopts) (stackSack : bool) : hstate :=
  mkH stSynRcvd false (Z.lor fSyn fAck) (u32 (irs + 1)) iss rcvWnd 0 (so_mss o) (so_ws o) (findWndScale rcvWnd)
      (so_ts o) (stackSack && so_sack o) stackSack mtuMss.

(* the run of a handshake over a list of inbound segments (each with the random ISS a restart
   would use); stops at the first error or at completion, as processSegments/execute do *)
Fixpoint hsRun (h : hstate) (ss : list (hseg * Z)) : hstate * list hframe * Z :=
  match ss with
  | [] => (h, [], 0)
  | (s, ni) :: rest =>
      if h_state h =? stCompleted then (h, [], 0) else
      let '(h1, fr, err) := hsHandle h s ni in
      if negb (err =? 0) then (h1, fr, err)
      else let '(h2, fr2, err2) := hsRun h1 rest in (h2, fr ++ fr2, err2)
  end.

(* ------------------------------------------------------------------ no socket: protocol.go *)

(* func replyWithReset(s *segment) *)
Definition replyWithReset (s : hseg) : hframe :=
  mkHF (Z.lor fRst fAck) (if has (hs_flags s) fAck then hs_ack s else 0) (add (hs_seq s) (hlogicalLen s)) 0 None.

(* func (p *protocol) HandleUnknownDestinationPacket: a reset is never answered *)
Definition unknownDestination (s : hseg) : list hframe :=
  if has (hs_flags s) fRst then [] else [replyWithReset s].

(* ------------------------------------------------------------------ listener and SYN cookies *)

Definition mssTable : list Z := [536; 1300; 1440; 1460].

(* func encodeMSS(mss uint16) uint32 *)
Definition encodeMSS (mss : Z) : Z :=
  if 1460 <=? mss then 3 else if 1440 <=? mss then 2 else if 1300 <=? mss then 1 else 0.

Definition tsMask := 255.
Definition tsOffset := 24.
Definition hashMask := 16777215.
Definition maxTSDiff := 2.

Section Cookies.
  (* cookieHash(id, ts, nonceIndex) for the connection id at hand: H ts nonceIndex, a 32-bit value *)
  Variable H : Z -> Z -> Z.

  (* func (l *listenContext) createCookie(id, seq, data) seqnum.Value; ts = timeStamp() *)
  Definition createCookie (ts seq data : Z) : Z :=
    let v := u32 (H 0 0 + seq + Z.shiftl ts tsOffset) in
    u32 (v + Z.land (u32 (H ts 1 + data)) hashMask).

  (* func (l *listenContext) isCookieValid(id, cookie, seq) (uint32, bool); ts = timeStamp() now *)
  Definition isCookieValid (ts cookie seq : Z) : option Z :=
    let v := u32 (cookie - H 0 0 - seq) in
    let cookieTS := Z.shiftr v tsOffset in
    if maxTSDiff <? Z.land (u32 (ts - cookieTS)) tsMask then None
    else Some (Z.land (u32 (v - H cookieTS 1)) hashMask).

  Inductive laction :=
  | LIgnore                                  (* nothing happens *)
  | LSpawn (iss irs : Z) (o : synopts)       (* normal mode: a half-open endpoint performs the handshake *)
  | LCookieSynAck (f : hframe)               (* cookie mode: stateless SYN-ACK *)
  | LAccept (iss irs mss : Z) (ts : bool).   (* a connected endpoint is created and queued for Accept *)

  (* func (e *endpoint) handleListenSegment(ctx, s); cookieMode = incSynRcvdCount() refused;
     ts = current cookie time slot; rcvWnd = ctx.rcvWnd; mtuMss for the SYN-ACK's MSS option *)
  Definition listenHandle (cookieMode : bool) (ts rcvWnd mtuMss : Z) (s : hseg) : laction :=
    if hs_flags s =? fSyn then
      let o := hs_opts s in
      let cookie := createCookie ts (hs_seq s) (encodeMSS (so_mss o)) in
      if negb cookieMode then LSpawn cookie (hs_seq s) o
      else LCookieSynAck (mkHF (Z.lor fSyn fAck) cookie (u32 (hs_seq s + 1)) (clampWnd rcvWnd)
                               (Some (mkSO mtuMss (-1) (so_ts o) false)))
    else if hs_flags s =? fAck then
      match isCookieValid ts (u32 (hs_ack s - 1)) (u32 (hs_seq s - 1)) with
      | Some data =>
          if data <? 4 then LAccept (u32 (hs_ack s - 1)) (u32 (hs_seq s - 1)) (nth (Z.to_nat data) mssTable 0) (hs_hasts s)
          else LIgnore
      | None => LIgnore
      end
    else LIgnore.
End Cookies.
