(* Model of the TCP option code of /repo/protocol/header/tcp.go: ParseSynOptions, ParseTCPOptions,
   Encode{MSS,WS,TS,SACKPermitted}Option, EncodeSACKBlocks, EncodeNOP, AddTCPOptionPadding, and of
   the way transport/tcp/connect.go (makeSynOptions, makeOptions) strings the encoders together.
   Executable definitions only.

   Every byte the parsers read goes through [nth_error]: a read outside the option slice is the
   explicit result [OOB] (Go: index-out-of-range panic).  The [for i := 0; i < limit; {switch}]
   loop is [opt_loop] (fuel = len+1; [Fuel] = fuel exhausted) around one function per switch. *)
From Coq Require Import ZArith List Bool.
From NP Require Import Model.Bytes.
Import ListNotations.
Open Scope Z_scope.

Inductive res (A : Type) := Ok (a : A) | OOB | Fuel.
Arguments Ok {A} a. Arguments OOB {A}. Arguments Fuel {A}.

(* result of one iteration of the loop body *)
Inductive step (St : Type) :=
| Continue (i : nat) (s : St)    (* go round the loop again with this i *)
| Return (s : St)                (* return from the function *)
| StepOOB.                       (* a read outside the slice *)
Arguments Continue {St} i s. Arguments Return {St} s. Arguments StepOOB {St}.

(* x := b[i]; k x *)
Definition rdk {St} (b : list Z) (i : nat) (k : Z -> step St) : step St :=
  match nth_error b i with Some x => k x | None => StepOOB end.
(* x := binary.BigEndian.Uint32(b[i:]); k x *)
Definition rd32k {St} (b : list Z) (i : nat) (k : Z -> step St) : step St :=
  rdk b i (fun b0 => rdk b (i + 1) (fun b1 => rdk b (i + 2) (fun b2 => rdk b (i + 3) (fun b3 =>
    k (((b0 * 256 + b1) * 256 + b2) * 256 + b3))))).

Fixpoint opt_loop {St} (body : nat -> St -> step St) (limit fuel i : nat) (s : St) : res St :=
  match fuel with
  | O => Fuel
  | S fuel' =>
      if (i <? limit)%nat then
        match body i s with
        | Continue i' s' => opt_loop body limit fuel' i' s'
        | Return s' => Ok s'
        | StepOOB => OOB
        end
      else Ok s
  end.

(* ---------------- ParseSynOptions ---------------- *)
Record synOpts := mkSyn {
  sMSS : Z; sWS : Z; sTS : bool; sTSVal : Z; sTSEcr : Z; sSACKPermitted : bool }.

Definition MaxWndScale := 14.

(* the body of the switch in
   func ParseSynOptions(opts []byte, isAck bool) TCPSynOptions {
     limit := len(opts)
     synOpts := TCPSynOptions{MSS: 536, WS: -1}
     for i := 0; i < limit; {
       switch opts[i] {
       case TCPOptionEOL: i = limit
       case TCPOptionNOP: i++
       case TCPOptionMSS:
         if i+4 > limit || opts[i+1] != 4 { return synOpts }
         mss := uint16(opts[i+2])<<8 | uint16(opts[i+3])
         if mss == 0 { return synOpts }
         synOpts.MSS = mss; i += 4
       case TCPOptionWS:
         if i+3 > limit || opts[i+1] != 3 { return synOpts }
         ws := int(opts[i+2]); if ws > MaxWndScale { ws = MaxWndScale }
         synOpts.WS = ws; i += 3
       case TCPOptionTS:
         if i+10 > limit || opts[i+1] != 10 { return synOpts }
         synOpts.TSVal = binary.BigEndian.Uint32(opts[i+2:])
         if isAck { synOpts.TSEcr = binary.BigEndian.Uint32(opts[i+6:]) }
         synOpts.TS = true; i += 10
       case TCPOptionSACKPermitted:
         if i+2 > limit || opts[i+1] != 2 { return synOpts }
         synOpts.SACKPermitted = true; i += 2
       default:
         if i+2 > limit { return synOpts }
         l := int(opts[i+1])
         if l < 2 || i+l > limit { return synOpts }
         i += l
       } }
     return synOpts } *)
Definition syn_body (opts : list Z) (isAck : bool) (limit : nat) (i : nat) (s : synOpts) : step synOpts :=
  rdk opts i (fun k =>
  if k =? 0 then Continue limit s
  else if k =? 1 then Continue (i + 1) s
  else if k =? 2 then
    if (limit <? i + 4)%nat then Return s else
    rdk opts (i + 1) (fun l => if negb (l =? 4) then Return s else
    rdk opts (i + 2) (fun h => rdk opts (i + 3) (fun lo =>
    let mss := w16 (h * 2^8) + lo in
    if mss =? 0 then Return s else
    Continue (i + 4) (mkSyn mss (sWS s) (sTS s) (sTSVal s) (sTSEcr s) (sSACKPermitted s)))))
  else if k =? 3 then
    if (limit <? i + 3)%nat then Return s else
    rdk opts (i + 1) (fun l => if negb (l =? 3) then Return s else
    rdk opts (i + 2) (fun ws =>
    let ws := if MaxWndScale <? ws then MaxWndScale else ws in
    Continue (i + 3) (mkSyn (sMSS s) ws (sTS s) (sTSVal s) (sTSEcr s) (sSACKPermitted s))))
  else if k =? 8 then
    if (limit <? i + 10)%nat then Return s else
    rdk opts (i + 1) (fun l => if negb (l =? 10) then Return s else
    rd32k opts (i + 2) (fun tsval =>
    if isAck then
      rd32k opts (i + 6) (fun tsecr =>
      Continue (i + 10) (mkSyn (sMSS s) (sWS s) true tsval tsecr (sSACKPermitted s)))
    else Continue (i + 10) (mkSyn (sMSS s) (sWS s) true tsval (sTSEcr s) (sSACKPermitted s))))
  else if k =? 4 then
    if (limit <? i + 2)%nat then Return s else
    rdk opts (i + 1) (fun l => if negb (l =? 2) then Return s else
    Continue (i + 2) (mkSyn (sMSS s) (sWS s) (sTS s) (sTSVal s) (sTSEcr s) true))
  else
    if (limit <? i + 2)%nat then Return s else
    rdk opts (i + 1) (fun l =>
    if (l <? 2) || (limit <? i + Z.to_nat l)%nat then Return s else
    Continue (i + Z.to_nat l) s)).

Definition syn_default : synOpts := mkSyn 536 (-1) false 0 0 false.

Definition parseSynOptions (opts : list Z) (isAck : bool) : res synOpts :=
  let limit := length opts in
  opt_loop (syn_body opts isAck limit) limit (S limit) 0 syn_default.

(* ---------------- ParseTCPOptions ---------------- *)
Record tcpOpts := mkOpts { oTS : bool; oTSVal : Z; oTSEcr : Z; oSACKBlocks : list (Z * Z) }.

Definition rd32o (b : list Z) (i : nat) : option Z :=
  b0 <- nth_error b i ;; b1 <- nth_error b (i + 1) ;; b2 <- nth_error b (i + 2) ;;
  b3 <- nth_error b (i + 3) ;; Some (((b0 * 256 + b1) * 256 + b2) * 256 + b3).

(*   for j := 0; j < numBlocks; j++ {
       start := binary.BigEndian.Uint32(b[i+2+j*8:])
       end := binary.BigEndian.Uint32(b[i+2+j*8+4:])
       opts.SACKBlocks = append(opts.SACKBlocks, SACKBlock{start, end}) }
   [pos] is i+2+j*8, [n] the number of iterations left; None = a read outside the slice *)
Fixpoint rd_blocks (b : list Z) (pos n : nat) : option (list (Z * Z)) :=
  match n with
  | O => Some []
  | S n' =>
      st <- rd32o b pos ;; en <- rd32o b (pos + 4) ;;
      rest <- rd_blocks b (pos + 8) n' ;; Some ((st, en) :: rest)
  end.

(* the body of the switch in
   func ParseTCPOptions(b []byte) TCPOptions {
     opts := TCPOptions{}
     limit := len(b)
     for i := 0; i < limit; {
       switch b[i] {
       case TCPOptionEOL: i = limit
       case TCPOptionNOP: i++
       case TCPOptionTS:
         if i+10 > limit || (b[i+1] != 10) { return opts }
         opts.TS = true
         opts.TSVal = binary.BigEndian.Uint32(b[i+2:])
         opts.TSEcr = binary.BigEndian.Uint32(b[i+6:])
         i += 10
       case TCPOptionSACK:
         if i+2 > limit { return opts }
         sackOptionLen := int(b[i+1])
         if i+sackOptionLen > limit || (sackOptionLen-2)%8 != 0 { return opts }
         numBlocks := (sackOptionLen - 2) / 8
         opts.SACKBlocks = []SACKBlock{}
         for j := 0; j < numBlocks; j++ { ... }
         i += sackOptionLen
       default:
         if i+2 > limit { return opts }
         l := int(b[i+1])
         if l < 2 || i+l > limit { return opts }
         i += l
       } }
     return opts }
   Go's % and / on int truncate towards zero: Z.rem and Z.quot. *)
Definition opts_body (b : list Z) (limit : nat) (i : nat) (s : tcpOpts) : step tcpOpts :=
  rdk b i (fun k =>
  if k =? 0 then Continue limit s
  else if k =? 1 then Continue (i + 1) s
  else if k =? 8 then
    if (limit <? i + 10)%nat then Return s else
    rdk b (i + 1) (fun l => if negb (l =? 10) then Return s else
    rd32k b (i + 2) (fun tsval => rd32k b (i + 6) (fun tsecr =>
    Continue (i + 10) (mkOpts true tsval tsecr (oSACKBlocks s)))))
  else if k =? 5 then
    if (limit <? i + 2)%nat then Return s else
    rdk b (i + 1) (fun sl =>
    if (limit <? i + Z.to_nat sl)%nat || negb (Z.rem (sl - 2) 8 =? 0) then Return s else
    let numBlocks := Z.quot (sl - 2) 8 in
    match rd_blocks b (i + 2) (Z.to_nat numBlocks) with
    | Some blocks => Continue (i + Z.to_nat sl) (mkOpts (oTS s) (oTSVal s) (oTSEcr s) blocks)
    | None => StepOOB
    end)
  else
    if (limit <? i + 2)%nat then Return s else
    rdk b (i + 1) (fun l =>
    if (l <? 2) || (limit <? i + Z.to_nat l)%nat then Return s else
    Continue (i + Z.to_nat l) s)).

Definition opts_default : tcpOpts := mkOpts false 0 0 [].

Definition parseTCPOptions (b : list Z) : res tcpOpts :=
  let limit := length b in
  opt_loop (opts_body b limit) limit (S limit) 0 opts_default.

(* ---------------- encoders ----------------
   each returns the buffer after the writes and the int result *)
(* b[0], b[1], ... = vs  (len vs <= len b checked by the caller) *)
Definition overwrite (vs b : list Z) : list Z := vs ++ skipn (length vs) b.
Definition be32 (v : Z) : list Z := [w8 (v / 2^24); w8 (v / 2^16); w8 (v / 2^8); w8 v].

(* func EncodeMSSOption(mss uint32, b []byte) int {
     if len(b) < 4 { return 0 }
     b[0], b[1], b[2], b[3] = TCPOptionMSS, 4, byte(mss>>8), byte(mss); return 4 } *)
Definition encodeMSSOption (mss : Z) (b : list Z) : list Z * Z :=
  if (length b <? 4)%nat then (b, 0) else (overwrite [2; 4; w8 (mss / 2^8); w8 mss] b, 4).

(* func EncodeWSOption(ws int, b []byte) int {
     if len(b) < 3 { return 0 }
     b[0], b[1], b[2] = TCPOptionWS, 3, uint8(ws); return int(b[1]) } *)
Definition encodeWSOption (ws : Z) (b : list Z) : list Z * Z :=
  if (length b <? 3)%nat then (b, 0) else (overwrite [3; 3; w8 ws] b, 3).

(* func EncodeTSOption(tsVal, tsEcr uint32, b []byte) int {
     if len(b) < 10 { return 0 }
     b[0], b[1] = TCPOptionTS, 10
     binary.BigEndian.PutUint32(b[2:], tsVal); binary.BigEndian.PutUint32(b[6:], tsEcr)
     return int(b[1]) } *)
Definition encodeTSOption (tsVal tsEcr : Z) (b : list Z) : list Z * Z :=
  if (length b <? 10)%nat then (b, 0) else (overwrite ([8; 10] ++ be32 tsVal ++ be32 tsEcr) b, 10).

(* func EncodeSACKPermittedOption(b []byte) int {
     if len(b) < 2 { return 0 }
     b[0], b[1] = TCPOptionSACKPermitted, 2; return int(b[1]) } *)
Definition encodeSACKPermittedOption (b : list Z) : list Z * Z :=
  if (length b <? 2)%nat then (b, 0) else (overwrite [4; 2] b, 2).

(* func EncodeNOP(b []byte) int { if len(b) == 0 { return 0 }; b[0] = TCPOptionNOP; return 1 } *)
Definition encodeNOP (b : list Z) : list Z * Z :=
  match b with [] => (b, 0) | _ => (overwrite [1] b, 1) end.

Definition block_bytes (blk : Z * Z) : list Z := be32 (fst blk) ++ be32 (snd blk).

(* func EncodeSACKBlocks(sackBlocks []SACKBlock, b []byte) int {
     if len(sackBlocks) == 0 { return 0 }
     l := len(sackBlocks)
     if l > TCPMaxSACKBlocks { l = TCPMaxSACKBlocks }
     if ll := (len(b) - 2) / 8; ll < l { l = ll }
     if l == 0 { return 0 }
     b[0] = TCPOptionSACK
     b[1] = byte(l*8 + 2)
     for i := 0; i < l; i++ {
       binary.BigEndian.PutUint32(b[i*8+2:], uint32(sackBlocks[i].Start))
       binary.BigEndian.PutUint32(b[i*8+6:], uint32(sackBlocks[i].End)) }
     return int(b[1]) } *)
Definition encodeSACKBlocks (blocks : list (Z * Z)) (b : list Z) : list Z * Z :=
  match blocks with
  | [] => (b, 0)
  | _ =>
    let l := Z.of_nat (length blocks) in
    let l := if 4 <? l then 4 else l in
    let ll := Z.quot (Z.of_nat (length b) - 2) 8 in
    let l := if ll <? l then ll else l in
    if l =? 0 then (b, 0) else
    (overwrite ([5; w8 (l * 8 + 2)] ++ flat_map block_bytes (firstn (Z.to_nat l) blocks)) b,
     w8 (l * 8 + 2))
  end.

(* func AddTCPOptionPadding(options []byte, offset int) int {
     paddingToAdd := -offset & 3
     for i := offset; i < offset+paddingToAdd; i++ { options[i] = TCPOptionNOP }
     return paddingToAdd }
   None = a write outside [options] *)
Definition addTCPOptionPadding (options : list Z) (offset : nat) : option (list Z * Z) :=
  let paddingToAdd := (- Z.of_nat offset) mod 4 in
  b' <- set_range options offset (repeat 1 (Z.to_nat paddingToAdd)) ;; Some (b', paddingToAdd).

(* offset += header.EncodeX(..., options[offset:]) *)
Definition emit (enc : list Z -> list Z * Z) (st : list Z * nat) : list Z * nat :=
  let '(options, offset) := st in
  let '(b', n) := enc (skipn offset options) in
  (firstn offset options ++ b', (offset + Z.to_nat n)%nat).

(* what the stack emits, one constructor per encoder *)
Inductive item :=
| INop | IMSS (mss : Z) | IWS (ws : Z) | ITS (tsVal tsEcr : Z) | ISackPerm | ISack (blocks : list (Z * Z)).

Definition encode_item (it : item) : list Z -> list Z * Z :=
  match it with
  | INop => encodeNOP
  | IMSS m => encodeMSSOption m
  | IWS w => encodeWSOption w
  | ITS v e => encodeTSOption v e
  | ISackPerm => encodeSACKPermittedOption
  | ISack bl => encodeSACKBlocks bl
  end.

Definition emit_items (items : list item) (st : list Z * nat) : list Z * nat :=
  fold_left (fun st it => emit (encode_item it) st) items st.

(* transport/tcp/connect.go makeSynOptions: which encoders are called, in which order
     offset := header.EncodeMSSOption(uint32(opts.MSS), options)
     if opts.TS && opts.SACKPermitted { SACKPermitted; TS }
     else if opts.TS { NOP; NOP; TS } else if opts.SACKPermitted { NOP; NOP; SACKPermitted }
     if opts.WS >= 0 { NOP; WS }
     AddTCPOptionPadding(options, offset)   -- panics unless 0
     return options[:offset] *)
Definition syn_program (o : synOpts) : list item :=
  [IMSS (sMSS o)] ++
  (if sTS o && sSACKPermitted o then [ISackPerm; ITS (sTSVal o) (sTSEcr o)]
   else if sTS o then [INop; INop; ITS (sTSVal o) (sTSEcr o)]
   else if sSACKPermitted o then [INop; INop; ISackPerm] else []) ++
  (if 0 <=? sWS o then [INop; IWS (sWS o)] else []).

(* makeOptions:
     if e.sendTSOk { NOP; NOP; TS(e.timestamp(), e.recentTS) }
     if e.sackPermitted && len(sackBlocks) > 0 { NOP; NOP; SACKBlocks }
     AddTCPOptionPadding(options, offset)   -- panics unless 0 *)
Definition opt_program (tsOk : bool) (tsVal tsEcr : Z) (sackPermitted : bool) (blocks : list (Z * Z)) : list item :=
  (if tsOk then [INop; INop; ITS tsVal tsEcr] else []) ++
  (if sackPermitted && negb (Nat.eqb (length blocks) 0) then [INop; INop; ISack blocks] else []).

Definition maxOptionSize : nat := 40.
(* run a program on the 40-byte pool buffer [buf]; result = options[:offset] and the padding
   AddTCPOptionPadding reports (None = it wrote outside the buffer) *)
Definition make_options (prog : list item) (buf : list Z) : option (list Z * Z) :=
  let '(options, offset) := emit_items prog (buf, 0%nat) in
  r <- addTCPOptionPadding options offset ;;
  Some (firstn offset (fst r), snd r).

(* ---- specification vocabulary: the RFC 793 / 7323 / 2018 wire format of each option ---- *)
Definition item_bytes (it : item) : list Z :=
  match it with
  | INop => [1]
  | IMSS m => [2; 4; m / 256 mod 256; m mod 256]
  | IWS w => [3; 3; w mod 256]
  | ITS v e => [8; 10] ++ be32 v ++ be32 e
  | ISackPerm => [4; 2]
  | ISack bl => [5; 2 + 8 * Z.of_nat (length bl)] ++ flat_map block_bytes bl
  end.
Definition is_u32 (x : Z) : Prop := 0 <= x < 2^32.
Definition wf_item (it : item) : Prop :=
  match it with
  | IMSS m => 1 <= m < 65536
  | IWS w => 0 <= w <= 14
  | ITS v e => is_u32 v /\ is_u32 e
  | ISack bl => (1 <= length bl <= 4)%nat /\ Forall (fun b => is_u32 (fst b) /\ is_u32 (snd b)) bl
  | _ => True
  end.
(* what a receiver must end up with *)
Definition apply_syn (isAck : bool) (s : synOpts) (it : item) : synOpts :=
  match it with
  | IMSS m => mkSyn m (sWS s) (sTS s) (sTSVal s) (sTSEcr s) (sSACKPermitted s)
  | IWS w => mkSyn (sMSS s) w (sTS s) (sTSVal s) (sTSEcr s) (sSACKPermitted s)
  | ITS v e => mkSyn (sMSS s) (sWS s) true v (if isAck then e else sTSEcr s) (sSACKPermitted s)
  | ISackPerm => mkSyn (sMSS s) (sWS s) (sTS s) (sTSVal s) (sTSEcr s) true
  | _ => s
  end.
Definition apply_opt (s : tcpOpts) (it : item) : tcpOpts :=
  match it with
  | ITS v e => mkOpts true v e (oSACKBlocks s)
  | ISack bl => mkOpts (oTS s) (oTSVal s) (oTSEcr s) bl
  | _ => s
  end.
