(* Model of /repo/protocol/ports/ports.go (PortManager).  Executable definitions only; no proofs.

   Encoding.  NetworkProtocolNumber, TransportProtocolNumber, port: Z.  A tcpip.Address (a Go
   string) is represented by a Z identifier under an injective encoding chosen by the caller, the
   wildcard anyIPAddress = "" being 0.  bindAddresses (map[Address]struct{}) = duplicate-free
   list of addresses; allocatedPorts (map[portDescriptor]bindAddresses) = association list with at
   most one entry per descriptor.  The mutex is not modelled (every exported method runs under
   s.mu; the model is the sequential behaviour of the critical sections).  log.Printf calls are
   dropped.  uint16 / uint32 arithmetic is written out with [mod 2^16] / [mod 2^32]. *)
From Coq Require Import ZArith Bool List.
Import ListNotations.
Open Scope Z_scope.

Definition w16 (x : Z) : Z := x mod 2^16.
Definition w32 (x : Z) : Z := x mod 2^32.

(* const FirstEphemeral = 16000;  anyIPAddress tcpip.Address = "" *)
Definition firstEphemeral : Z := 16000.
Definition anyAddr : Z := 0.

(* type portDescriptor struct { network; transport; port uint16 } *)
Definition desc : Type := (Z * Z * Z)%type.
Definition desc_eqb (a b : desc) : bool :=
  let '(n1, t1, p1) := a in let '(n2, t2, p2) := b in (n1 =? n2) && (t1 =? t2) && (p1 =? p2).

(* allocatedPorts map[portDescriptor]bindAddresses *)
Definition table : Type := list (desc * list Z).
Definition emptyTable : table := [].          (* NewPortManager() *)

(* m, ok := s.allocatedPorts[desc] *)
Fixpoint lookup (t : table) (d : desc) : option (list Z) :=
  match t with
  | [] => None
  | (k, v) :: t' => if desc_eqb k d then Some v else lookup t' d
  end.
(* s.allocatedPorts[desc] = m   (also the effect of mutating the map value m in place) *)
Fixpoint store (t : table) (d : desc) (v : list Z) : table :=
  match t with
  | [] => [(d, v)]
  | (k, w) :: t' => if desc_eqb k d then (k, v) :: t' else (k, w) :: store t' d v
  end.
(* delete(s.allocatedPorts, desc) *)
Fixpoint delete (t : table) (d : desc) : table :=
  match t with
  | [] => []
  | (k, w) :: t' => if desc_eqb k d then delete t' d else (k, w) :: delete t' d
  end.

(* _, ok := b[addr] *)
Fixpoint memZ (a : Z) (b : list Z) : bool :=
  match b with [] => false | x :: b' => if x =? a then true else memZ a b' end.
(* m[addr] = struct{}{} *)
Definition addAddr (b : list Z) (a : Z) : list Z := if memZ a b then b else a :: b.
(* delete(m, addr) *)
Fixpoint delAddr (b : list Z) (a : Z) : list Z :=
  match b with [] => [] | x :: b' => if x =? a then delAddr b' a else x :: delAddr b' a end.
(* len(b) == 0 *)
Definition isEmpty (b : list Z) : bool := match b with [] => true | _ => false end.

(* func (b bindAddresses) isAvailable(addr tcpip.Address) bool {
     if addr == anyIPAddress { return len(b) == 0 }
     if _, ok := b[anyIPAddress]; ok { return false }
     if _, ok := b[addr]; ok { return false }
     return true } *)
Definition isAvailable (b : list Z) (addr : Z) : bool :=
  if addr =? anyAddr then isEmpty b
  else if memZ anyAddr b then false
  else if memZ addr b then false
  else true.

(* func (s *PortManager) isPortAvailableLocked(networks, transport, addr, port) bool {
     for _, network := range networks {
       desc := portDescriptor{network, transport, port}
       if addrs, ok := s.allocatedPorts[desc]; ok { if !addrs.isAvailable(addr) { return false } } }
     return true } *)
Fixpoint isPortAvailableLocked (t : table) (nets : list Z) (tr addr port : Z) : bool :=
  match nets with
  | [] => true
  | n :: ns =>
      match lookup t (n, tr, port) with
      | Some addrs => if negb (isAvailable addrs addr) then false
                      else isPortAvailableLocked t ns tr addr port
      | None => isPortAvailableLocked t ns tr addr port
      end
  end.

(* func (s *PortManager) IsPortAvailable(...) bool { lock; return s.isPortAvailableLocked(...) } *)
Definition isPortAvailable := isPortAvailableLocked.

(* the second loop of reserveSpecificPort:
     for _, network := range networks {
       desc := portDescriptor{network, transport, port}
       m, ok := s.allocatedPorts[desc]
       if !ok { m = make(bindAddresses); s.allocatedPorts[desc] = m }
       m[addr] = struct{}{} } *)
Fixpoint reserveInsert (t : table) (nets : list Z) (tr addr port : Z) : table :=
  match nets with
  | [] => t
  | n :: ns =>
      let d := (n, tr, port) in
      let m := match lookup t d with Some m => m | None => [] end in
      reserveInsert (store t d (addAddr m addr)) ns tr addr port
  end.

(* func (s *PortManager) reserveSpecificPort(networks, transport, addr, port) bool {
     if !s.isPortAvailableLocked(networks, transport, addr, port) { return false }
     ...insert on all networks...; return true } *)
Definition reserveSpecificPort (t : table) (nets : list Z) (tr addr port : Z) : table * bool :=
  if negb (isPortAvailableLocked t nets tr addr port) then (t, false)
  else (reserveInsert t nets tr addr port, true).

(* func (s *PortManager) ReleasePort(networks, transport, addr, port) {
     for _, network := range networks {
       desc := portDescriptor{network, transport, port}
       if m, ok := s.allocatedPorts[desc]; ok {
         delete(m, addr)
         if len(m) == 0 { delete(s.allocatedPorts, desc) } } } } *)
Fixpoint releasePort (t : table) (nets : list Z) (tr addr port : Z) : table :=
  match nets with
  | [] => t
  | n :: ns =>
      let d := (n, tr, port) in
      let t1 := match lookup t d with
                | Some m => let m' := delAddr m addr in
                            if isEmpty m' then delete t d else store t d m'
                | None => t
                end in
      releasePort t1 ns tr addr port
  end.

(* ---- PickEphemeralPort ----
   func (s *PortManager) PickEphemeralPort(testPort func(p uint16) (bool, *tcpip.Error)) (port uint16, err *tcpip.Error) {
     count := uint16(math.MaxUint16 - FirstEphemeral + 1)
     offset := uint16(rand.Int31n(int32(count)))
     for i := uint16(0); i < count; i++ {
       port = FirstEphemeral + uint16((uint32(offset)+uint32(i))%uint32(count))
       ok, err := testPort(port)
       if err != nil { return 0, err }
       if ok { return port, nil } }
     return 0, tcpip.ErrNoPortAvailable }

   [offset] (the random draw, 0 <= offset < count) is an input.  testPort is a closure that may
   mutate state (ReservePort passes one that reserves): it is modelled as a function
   St -> port -> St * (ok, err).  The loop runs exactly [count] times with i = 0 .. count-1 (i never
   reaches 65536, so i++ does not wrap): structural recursion on the number of remaining
   iterations. *)
Definition count : Z := 49536.    (* uint16(65535 - 16000 + 1) *)

(* current code: the sum is formed in 32 bits *)
Definition probePort (offset i : Z) : Z :=
  w16 (firstEphemeral + w16 (w32 (w32 offset + w32 i) mod w32 count)).
(* the arithmetic before the repair:  port = FirstEphemeral + (offset+i)%count  in uint16 *)
Definition probePort16 (offset i : Z) : Z :=
  w16 (firstEphemeral + w16 (offset + i) mod count).

Inductive pickResult (E : Type) : Type :=
| PickOk (port : Z)          (* return port, nil *)
| PickErr (e : E)            (* return 0, err *)
| PickNone.                  (* return 0, tcpip.ErrNoPortAvailable *)
Arguments PickOk {E} port.
Arguments PickErr {E} e.
Arguments PickNone {E}.

Section Pick.
  Variables St E : Type.
  Variable probe : Z -> Z -> Z.                      (* probePort or probePort16 *)
  Variable test : St -> Z -> St * (bool * option E).   (* testPort *)
  Variable offset : Z.

  Fixpoint pickLoop (n : nat) (i : Z) (s : St) : St * pickResult E :=
    match n with
    | O => (s, PickNone)
    | S n' =>
        let port := probe offset i in
        match test s port with
        | (s', (ok, Some e)) => (s', PickErr e)                (* if err != nil { return 0, err } *)
        | (s', (ok, None)) => if ok then (s', PickOk port)     (* if ok { return port, nil } *)
                              else pickLoop n' (i + 1) s'
        end
    end.
End Pick.
Arguments pickLoop {St E} probe test offset n i s.

Definition pickEphemeralWith {St E : Type} (probe : Z -> Z -> Z)
    (offset : Z) (test : St -> Z -> St * (bool * option E)) (s : St) : St * pickResult E :=
  pickLoop probe test offset (Z.to_nat count) 0 s.

Definition pickEphemeral {St E : Type} := @pickEphemeralWith St E probePort.
Definition pickEphemeral16 {St E : Type} := @pickEphemeralWith St E probePort16.

(* a tester without state *)
Definition pureTest {E : Type} (f : Z -> bool * option E) : unit -> Z -> unit * (bool * option E) :=
  fun s p => (s, f p).

(* func (s *PortManager) ReservePort(networks, transport, addr, port) (reservedPort uint16, err *tcpip.Error) {
     if port != 0 {
       if !s.reserveSpecificPort(networks, transport, addr, port) { return 0, tcpip.ErrPortInUse }
       reservedPort = port; return }
     reservedPort, err = s.PickEphemeralPort(func(p uint16) (bool, *tcpip.Error) {
       return s.reserveSpecificPort(networks, transport, addr, p), nil })
     return }
   Result: (table, (reservedPort, err)) with err 0 = nil, 1 = ErrPortInUse, 2 = ErrNoPortAvailable. *)
Definition errNone : Z := 0.
Definition errPortInUse : Z := 1.
Definition errNoPortAvailable : Z := 2.

Definition reserveTester (nets : list Z) (tr addr : Z) : table -> Z -> table * (bool * option Z) :=
  fun t p => let '(t', ok) := reserveSpecificPort t nets tr addr p in (t', (ok, None)).

Definition reservePortWith (probe : Z -> Z -> Z) (t : table) (nets : list Z) (tr addr port offset : Z)
  : table * (Z * Z) :=
  if negb (port =? 0) then
    match reserveSpecificPort t nets tr addr port with
    | (t', true) => (t', (port, errNone))
    | (t', false) => (t', (0, errPortInUse))
    end
  else
    match pickEphemeralWith probe offset (reserveTester nets tr addr) t with
    | (t', PickOk p) => (t', (p, errNone))
    | (t', PickErr e) => (t', (0, e))
    | (t', PickNone) => (t', (0, errNoPortAvailable))
    end.
Definition reservePort := reservePortWith probePort.

(* ---- specification vocabulary (independent of the functions above) ----
   A reservation names a list of networks, a transport, an address and a port. *)
Record resv : Type := Resv { r_nets : list Z; r_tr : Z; r_addr : Z; r_port : Z }.

Definition inZ (x : Z) (l : list Z) : bool := existsb (Z.eqb x) l.
Definition common (l1 l2 : list Z) : bool := existsb (fun x => inZ x l2) l1.
Definition addr_clash (a b : Z) : bool := (a =? 0) || (b =? 0) || (a =? b).

(* conflict: same transport and port, a common network, and either address is the wildcard or
   the addresses are equal *)
Definition conflictb (r q : resv) : bool :=
  (r_tr r =? r_tr q) && (r_port r =? r_port q) && common (r_nets r) (r_nets q)
  && addr_clash (r_addr r) (r_addr q).
Definition conflict (r q : resv) : Prop := conflictb r q = true.

Definition free_of (live : list resv) (r : resv) : bool := forallb (fun q => negb (conflictb r q)) live.

(* the set of live reservations: granted and not (yet) released.  A release names
   (networks, transport, addr, port); what it gives back is that address on those networks, i.e.
   every live reservation with the same transport, address and port loses the named networks, and
   a reservation with no network left is gone. *)
Definition same_key (r q : resv) : bool :=
  (r_tr r =? r_tr q) && (r_addr r =? r_addr q) && (r_port r =? r_port q).
Definition shrink (rel q : resv) : resv :=
  if same_key rel q
  then Resv (filter (fun n => negb (inZ n (r_nets rel))) (r_nets q)) (r_tr q) (r_addr q) (r_port q)
  else q.
Definition has_net (q : resv) : bool := negb (isEmpty (r_nets q)).
Definition live_release (live : list resv) (rel : resv) : list resv :=
  filter has_net (map (shrink rel) live).

(* pairwise exclusive *)
Fixpoint exclusive (live : list resv) : Prop :=
  match live with
  | [] => True
  | r :: l => (forall q, In q l -> ~ conflict r q) /\ exclusive l
  end.
Fixpoint exclusiveb (live : list resv) : bool :=
  match live with
  | [] => true
  | r :: l => free_of l r && exclusiveb l
  end.

(* ---- histories: the exported API, one call per op ---- *)
Inductive op : Type :=
| OReserve (nets : list Z) (tr addr port : Z) (offset : Z)   (* offset: the rand draw, used iff port = 0 *)
| ORelease (nets : list Z) (tr addr port : Z)
| OQuery (nets : list Z) (tr addr port : Z).

(* state of a history: the table of the code, and (ghost) the reservations the CODE granted and
   that were not released since *)
Definition hstate : Type := (table * list resv)%type.

Definition step (st : hstate) (o : op) : hstate :=
  let '(t, live) := st in
  match o with
  | OReserve nets tr addr port offset =>
      match reservePort t nets tr addr port offset with
      | (t', (p, e)) => if e =? errNone then (t', Resv nets tr addr p :: live) else (t', live)
      end
  | ORelease nets tr addr port =>
      (releasePort t nets tr addr port, live_release live (Resv nets tr addr port))
  | OQuery _ _ _ _ => (t, live)
  end.
Definition run (ops : list op) : hstate := fold_left step ops (emptyTable, []).
