(* Models of /repo/protocol/header/tcp.go (fixed header), udp.go, icmpv4.go, icmpv6.go: accessors,
   setters, Encode, checksum helpers.  Executable definitions only. *)
From Coq Require Import ZArith List Bool.
From NP Require Import Model.Bytes Model.Checksum Model.HdrIP.
Import ListNotations.
Open Scope Z_scope.

(* ======================= TCP ======================= *)
(* const ( srcPort = 0; dstPort = 2; seqNum = 4; ackNum = 8; dataOffset = 12; tcpFlags = 13;
           winSize = 14; tcpChecksum = 16; urgentPtr = 18 ) *)
Record tcpFields := mkTCP {
  tcpSrcPort : Z; tcpDstPort : Z; tcpSeqNum : Z; tcpAckNum : Z; tcpDataOffset : Z; tcpFlags : Z;
  tcpWindowSize : Z; tcpChecksum : Z; tcpUrgentPointer : Z }.

Definition tcp_sourcePort (b : list Z) : option Z := get16 b 0.
Definition tcp_destinationPort (b : list Z) : option Z := get16 b 2.
Definition tcp_sequenceNumber (b : list Z) : option Z := get32 b 4.
Definition tcp_ackNumber (b : list Z) : option Z := get32 b 8.
(* func (b TCP) DataOffset() uint8 { return (b[dataOffset] >> 4) * 4 } *)
Definition tcp_dataOffset (b : list Z) : option Z := x <- get8 b 12 ;; Some (w8 (x / 2^4 * 4)).
(* func (b TCP) Payload() []byte { return b[b.DataOffset():] } *)
Definition tcp_payload (b : list Z) : option (list Z) := d <- tcp_dataOffset b ;; getFrom b (Z.to_nat d).
Definition tcp_flags (b : list Z) : option Z := get8 b 13.
Definition tcp_windowSize (b : list Z) : option Z := get16 b 14.
Definition tcp_checksum (b : list Z) : option Z := get16 b 16.
(* there is no accessor for the urgent pointer; the independent reader is used for it *)
(* func (b TCP) Options() []byte { return b[TCPMinimumSize:b.DataOffset()] }
   a slice expression b[lo:hi] panics when hi > len(b) or lo > hi *)
Definition tcp_options (b : list Z) : option (list Z) :=
  d <- tcp_dataOffset b ;;
  if (Z.to_nat d <? 20)%nat then None else getN b 20 (Z.to_nat d - 20).

Definition tcp_setSourcePort (b : list Z) (v : Z) : option (list Z) := put16 b 0 v.
Definition tcp_setDestinationPort (b : list Z) (v : Z) : option (list Z) := put16 b 2 v.
Definition tcp_setChecksum (b : list Z) (v : Z) : option (list Z) := put16 b 16 v.

(* func (b TCP) CalculateChecksum(partialChecksum uint16, totalLen uint16) uint16 {
     tmp := make([]byte, 2); binary.BigEndian.PutUint16(tmp, totalLen)
     checksum := Checksum(tmp, partialChecksum)
     return Checksum(b[:b.DataOffset()], checksum) } *)
Definition tcp_calculateChecksum (b : list Z) (partialChecksum totalLen : Z) : option Z :=
  let tmp := [w8 (totalLen / 2^8); w8 totalLen] in
  let c := checksum tmp partialChecksum in
  d <- tcp_dataOffset b ;; h <- getN b 0 (Z.to_nat d) ;; Some (checksum h c).

(* func (b TCP) encodeSubset(seq, ack uint32, flags uint8, rcvwnd uint16) {
     binary.BigEndian.PutUint32(b[seqNum:], seq)
     binary.BigEndian.PutUint32(b[ackNum:], ack)
     b[tcpFlags] = flags
     binary.BigEndian.PutUint16(b[winSize:], rcvwnd) } *)
Definition tcp_encodeSubset (b : list Z) (seq ack flags rcvwnd : Z) : option (list Z) :=
  b <- put32 b 4 seq ;; b <- put32 b 8 ack ;; b <- put8 b 13 flags ;; put16 b 14 rcvwnd.

(* func (b TCP) Encode(t *TCPFields) {
     b.encodeSubset(t.SeqNum, t.AckNum, t.Flags, t.WindowSize)
     binary.BigEndian.PutUint16(b[srcPort:], t.SrcPort)
     binary.BigEndian.PutUint16(b[dstPort:], t.DstPort)
     b[dataOffset] = (t.DataOffset / 4) << 4
     binary.BigEndian.PutUint16(b[tcpChecksum:], t.Checksum)
     binary.BigEndian.PutUint16(b[urgentPtr:], t.UrgentPointer) } *)
Definition tcp_encode (b : list Z) (t : tcpFields) : option (list Z) :=
  b <- tcp_encodeSubset b (tcpSeqNum t) (tcpAckNum t) (tcpFlags t) (tcpWindowSize t) ;;
  b <- put16 b 0 (tcpSrcPort t) ;;
  b <- put16 b 2 (tcpDstPort t) ;;
  b <- put8 b 12 (tcpDataOffset t / 4 * 2^4) ;;
  b <- put16 b 16 (tcpChecksum t) ;;
  put16 b 18 (tcpUrgentPointer t).

(* func (b TCP) EncodePartial(partialChecksum, length uint16, seqnum, acknum uint32, flags byte, rcvwnd uint16) {
     tmp := make([]byte, 4)
     binary.BigEndian.PutUint16(tmp, length)
     binary.BigEndian.PutUint16(tmp[2:], uint16(flags))
     checksum := Checksum(tmp, partialChecksum)
     b.encodeSubset(seqnum, acknum, flags, rcvwnd)
     checksum = Checksum(b[seqNum:seqNum+8], checksum)
     checksum = Checksum(b[winSize:winSize+2], checksum)
     b.SetChecksum(^checksum) } *)
Definition tcp_encodePartial (b : list Z) (partialChecksum length seqnum acknum flags rcvwnd : Z) : option (list Z) :=
  let tmp := [w8 (length / 2^8); w8 length; w8 (flags / 2^8); w8 flags] in
  let c := checksum tmp partialChecksum in
  b <- tcp_encodeSubset b seqnum acknum flags rcvwnd ;;
  s1 <- getN b 4 8 ;; let c := checksum s1 c in
  s2 <- getN b 14 2 ;; let c := checksum s2 c in
  tcp_setChecksum b (lnot16 c).

(* the accessors that exist, plus the urgent pointer through get16 (no Go accessor) *)
Definition tcp_decode (b : list Z) : option tcpFields :=
  sp <- tcp_sourcePort b ;; dp <- tcp_destinationPort b ;; sq <- tcp_sequenceNumber b ;;
  ak <- tcp_ackNumber b ;; d <- tcp_dataOffset b ;; fl <- tcp_flags b ;; ws <- tcp_windowSize b ;;
  ck <- tcp_checksum b ;; up <- get16 b 18 ;; Some (mkTCP sp dp sq ak d fl ws ck up).

Definition wf_tcp (t : tcpFields) : bool :=
  in_range (tcpSrcPort t) 0 65536 && in_range (tcpDstPort t) 0 65536 &&
  in_range (tcpSeqNum t) 0 (2^32) && in_range (tcpAckNum t) 0 (2^32) &&
  in_range (tcpDataOffset t) 0 61 && (tcpDataOffset t mod 4 =? 0) && in_range (tcpFlags t) 0 256 &&
  in_range (tcpWindowSize t) 0 65536 && in_range (tcpChecksum t) 0 65536 &&
  in_range (tcpUrgentPointer t) 0 65536.

(* ======================= UDP ======================= *)
(* const ( udpSrcPort = 0; udpDstPort = 2; udpLength = 4; udpChecksum = 6 ) *)
Record udpFields := mkUDP { udpSrcPort : Z; udpDstPort : Z; udpLength : Z; udpChecksum : Z }.

Definition udp_sourcePort (b : list Z) : option Z := get16 b 0.
Definition udp_destinationPort (b : list Z) : option Z := get16 b 2.
Definition udp_length (b : list Z) : option Z := get16 b 4.
Definition udp_checksum (b : list Z) : option Z := get16 b 6.
(* func (b UDP) Payload() []byte { return b[UDPMinimumSize:] } *)
Definition udp_payload (b : list Z) : option (list Z) := getFrom b 8.
Definition udp_setSourcePort (b : list Z) (v : Z) : option (list Z) := put16 b 0 v.
Definition udp_setDestinationPort (b : list Z) (v : Z) : option (list Z) := put16 b 2 v.
Definition udp_setChecksum (b : list Z) (v : Z) : option (list Z) := put16 b 6 v.

(* func (b UDP) CalculateChecksum(partialChecksum uint16, totalLen uint16) uint16 {
     tmp := make([]byte, 2); binary.BigEndian.PutUint16(tmp, totalLen)
     checksum := Checksum(tmp, partialChecksum)
     return Checksum(b[:UDPMinimumSize], checksum) } *)
Definition udp_calculateChecksum (b : list Z) (partialChecksum totalLen : Z) : option Z :=
  let tmp := [w8 (totalLen / 2^8); w8 totalLen] in
  let c := checksum tmp partialChecksum in
  h <- getN b 0 8 ;; Some (checksum h c).

(* func (b UDP) Encode(u *UDPFields) {
     PutUint16(b[udpSrcPort:], u.SrcPort); PutUint16(b[udpDstPort:], u.DstPort)
     PutUint16(b[udpLength:], u.Length); PutUint16(b[udpChecksum:], u.Checksum) } *)
Definition udp_encode (b : list Z) (u : udpFields) : option (list Z) :=
  b <- put16 b 0 (udpSrcPort u) ;; b <- put16 b 2 (udpDstPort u) ;;
  b <- put16 b 4 (udpLength u) ;; put16 b 6 (udpChecksum u).

Definition udp_decode (b : list Z) : option udpFields :=
  sp <- udp_sourcePort b ;; dp <- udp_destinationPort b ;; l <- udp_length b ;; c <- udp_checksum b ;;
  Some (mkUDP sp dp l c).

Definition wf_udp (u : udpFields) : bool :=
  in_range (udpSrcPort u) 0 65536 && in_range (udpDstPort u) 0 65536 &&
  in_range (udpLength u) 0 65536 && in_range (udpChecksum u) 0 65536.

(* ======================= ICMPv4 / ICMPv6 (identical layout: type, code, checksum) ======================= *)
Record icmpFields := mkICMP { icmpType : Z; icmpCode : Z; icmpChecksum : Z }.

(* func (b ICMPv4) Type() ICMPv4Type { return ICMPv4Type(b[0]) }  -- same in icmpv6.go *)
Definition icmp_type (b : list Z) : option Z := get8 b 0.
(* func (b ICMPv4) SetType(t ICMPv4Type) { b[0] = byte(t) } *)
Definition icmp_setType (b : list Z) (t : Z) : option (list Z) := put8 b 0 t.
(* func (b ICMPv4) Code() byte { return b[1] } *)
Definition icmp_code (b : list Z) : option Z := get8 b 1.
Definition icmp_setCode (b : list Z) (c : Z) : option (list Z) := put8 b 1 c.
(* func (b ICMPv4) Checksum() uint16 { return binary.BigEndian.Uint16(b[2:]) } *)
Definition icmp_checksum (b : list Z) : option Z := get16 b 2.
Definition icmp_setChecksum (b : list Z) (c : Z) : option (list Z) := put16 b 2 c.
(* func (b ICMPv4) Payload() []byte { return b[ICMPv4MinimumSize:] } *)
Definition icmp_payload (b : list Z) : option (list Z) := getFrom b 4.

(* the library has no Encode for ICMP; the three setters in sequence play that role *)
Definition icmp_encode (b : list Z) (f : icmpFields) : option (list Z) :=
  b <- icmp_setType b (icmpType f) ;; b <- icmp_setCode b (icmpCode f) ;; icmp_setChecksum b (icmpChecksum f).
Definition icmp_decode (b : list Z) : option icmpFields :=
  t <- icmp_type b ;; c <- icmp_code b ;; k <- icmp_checksum b ;; Some (mkICMP t c k).
Definition wf_icmp (f : icmpFields) : bool :=
  in_range (icmpType f) 0 256 && in_range (icmpCode f) 0 256 && in_range (icmpChecksum f) 0 65536.
