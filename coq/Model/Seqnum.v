(* Model of /repo/pkg/seqnum/seqnum.go.  Executable definitions only; no proofs here.
   Go's uint32 arithmetic is written out as [mod 2^32]; [int32(x) < 0] on a uint32 [x]
   is [2^31 <= x]. *)
From Coq Require Import ZArith Bool.
Open Scope Z_scope.

Definition u32 (x : Z) : Z := x mod 2^32.

(* func (v Value) LessThan(w Value) bool { return int32(v-w) < 0 } *)
Definition lessThan (v w : Z) : bool := 2^31 <=? u32 (v - w).

(* func (v Value) LessThanEq(w Value) bool { if v == w { return true }; return v.LessThan(w) } *)
Definition lessThanEq (v w : Z) : bool := if v =? w then true else lessThan v w.

(* func (v Value) InRange(a, b Value) bool { return v-a < b-a } *)
Definition inRange (v a b : Z) : bool := u32 (v - a) <? u32 (b - a).

(* func (v Value) Add(s Size) Value { return v + Value(s) } *)
Definition add (v s : Z) : Z := u32 (v + s).

(* func (v Value) InWindow(first Value, size Size) bool { return v.InRange(first, first.Add(size)) } *)
Definition inWindow (v first size : Z) : bool := inRange v first (add first size).

(* func Overlap(a Value, b Size, x Value, y Size) bool {
     return a.LessThan(x.Add(y)) && x.LessThan(a.Add(b)) } *)
Definition overlap (a b x y : Z) : bool := lessThan a (add x y) && lessThan x (add a b).

(* func (v Value) Size(w Value) Size { return Size(w - v) } *)
Definition size (v w : Z) : Z := u32 (w - v).

(* func (v *Value) UpdateForward(s Size) { *v += Value(s) } *)
Definition updateForward (v s : Z) : Z := u32 (v + s).

(* ---- specification vocabulary (serial-number arithmetic, RFC 1982 / RFC 793) ---- *)
Definition is_u32 (x : Z) : Prop := 0 <= x < 2^32.
Definition is_u32b (x : Z) : bool := (0 <=? x) && (x <? 2^32).
(* forward distance from v to w *)
Definition fdist (v w : Z) : Z := (w - v) mod 2^32.
(* spec answers *)
Definition precedes_spec (v w : Z) : bool := (1 <=? fdist v w) && (fdist v w <=? 2^31 - 1).
Definition inRange_spec_b (v a b : Z) : bool := fdist a v <? fdist a b.
Definition inWindow_spec_b (v f s : Z) : bool := fdist f v <? s.
(* two windows share a sequence number: closed form.  [a,a+b) and [x,x+y) (mod 2^32) intersect
   iff x is in the first or a is in the second, for non-empty windows. *)
Definition overlap_spec_b (a b x y : Z) : bool :=
  (0 <? b) && (0 <? y) && ((fdist a x <? b) || (fdist x a <? y)).
