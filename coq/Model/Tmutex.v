(* Model of /repo/pkg/tmutex/tmutex.go as a labelled transition system whose steps are the
   individual atomic operations of the Go code (each sync/atomic call, the channel receive and
   the non-blocking select-send).  Executable definitions only; no proofs here.

   Shared state: the lock word [v] (Go int32; modelled as an unbounded Z -- fewer than 2^31
   simultaneous lockers is a stated assumption) and the 1-slot wake-up channel [ch]
   (true = the buffer holds a token).

   Threads are identified (a list); each has a program counter, a flag "holds the mutex",
   the remaining client program (a list of API calls) and the results of its TryLock calls.
   The SAME function [step] is what the theorems (Proofs/TmutexP.v) are about and what the
   correspondence run (Corr/C18.v) executes on every schedule the Go harness drove the real code
   through (the harness picks among the goroutines enabled in the real state; the model must agree
   step by step, including on which goroutines are blocked at the end).

   Client contract (explicit): Unlock is issued only by the goroutine that holds the mutex, and
   a goroutine that holds the mutex does not call Lock (it would wait for itself).  The harness
   client and the model enforce the contract by skipping a program entry that would violate it
   ([next_op]); so every list of ops is a legal program.  TryLock may be called by anybody,
   including the holder. *)
From Coq Require Import ZArith Bool List.
Import ListNotations.
Open Scope Z_scope.

Inductive op := OLock | OTryLock | OUnlock.

(* where a thread is parked = which atomic operation it performs next *)
Inductive pc :=
| PIdle    (* between API calls: the next program entry decides *)
| PLload   (* Lock: about to atomic.LoadInt32(&m.v) in the loop *)
| PLswap   (* Lock: loaded v >= 0, about to atomic.SwapInt32(&m.v, -1) *)
| PLrecv   (* Lock: about to <-m.ch *)
| PTcas    (* TryLock: loaded v > 0, about to CompareAndSwapInt32(&m.v, 1, 0) *)
| PUsend.  (* Unlock: swapped out a non-zero value, about to select-send on m.ch *)

Record thread := mkThread {
  t_pc : pc;
  t_held : bool;          (* returned from a successful Lock/TryLock, not yet swapped in Unlock *)
  t_prog : list op;       (* remaining client program *)
  t_res : list bool       (* results of the TryLock calls so far, most recent first *)
}.

Record state := mkState { s_v : Z; s_ch : bool; s_thr : list thread }.

(* func (m *Mutex) Init() { m.v = 1; m.ch = make(chan struct{}, 1) } *)
Definition init_thread (p : list op) : thread := mkThread PIdle false p [].
Definition init (progs : list (list op)) : state := mkState 1 false (map init_thread progs).

(* the client: next API call actually issued (contract-violating entries are skipped) *)
Fixpoint next_op (held : bool) (p : list op) : option (op * list op) :=
  match p with
  | [] => None
  | OLock :: r => if held then next_op held r else Some (OLock, r)
  | OUnlock :: r => if held then Some (OUnlock, r) else next_op held r
  | OTryLock :: r => Some (OTryLock, r)
  end.

(* return events of a step: 0 none, 1 Lock returned, 2 TryLock returned true,
   3 TryLock returned false, 4 Unlock returned *)
Definition EvNone := 0. Definition EvLock := 1. Definition EvTryT := 2.
Definition EvTryF := 3. Definition EvUnlock := 4.

(* One atomic operation of one thread.  [sig old] = does Unlock signal after swapping out [old].

   func (m *Mutex) Lock() {
     if atomic.AddInt32(&m.v, -1) == 0 { return }                       (PIdle / OLock)
     for {
       if v := atomic.LoadInt32(&m.v);                                   (PLload)
          v >= 0 && atomic.SwapInt32(&m.v, -1) == 1 { return }          (PLswap)
       <-m.ch                                                            (PLrecv)
     }
   }
   func (m *Mutex) TryLock() bool {
     v := atomic.LoadInt32(&m.v)                                         (PIdle / OTryLock)
     if v <= 0 { return false }
     return atomic.CompareAndSwapInt32(&m.v, 1, 0)                       (PTcas)
   }
   func (m *Mutex) Unlock() {
     if atomic.SwapInt32(&m.v, 1) == 0 { return }                        (PIdle / OUnlock)
     select { case m.ch <- struct{}{}: default: }                        (PUsend)
   } *)
Definition tstep_gen (sig : Z -> bool) (v : Z) (ch : bool) (th : thread)
  : option (Z * bool * thread * Z) :=
  match t_pc th with
  | PIdle =>
      match next_op (t_held th) (t_prog th) with
      | None => None
      | Some (OLock, r) =>
          let v' := v - 1 in
          if v' =? 0 then Some (v', ch, mkThread PIdle true r (t_res th), EvLock)
          else Some (v', ch, mkThread PLload (t_held th) r (t_res th), EvNone)
      | Some (OTryLock, r) =>
          if v <=? 0 then Some (v, ch, mkThread PIdle (t_held th) r (false :: t_res th), EvTryF)
          else Some (v, ch, mkThread PTcas (t_held th) r (t_res th), EvNone)
      | Some (OUnlock, r) =>
          if sig v then Some (1, ch, mkThread PUsend false r (t_res th), EvNone)
          else Some (1, ch, mkThread PIdle false r (t_res th), EvUnlock)
      end
  | PLload =>
      if 0 <=? v then Some (v, ch, mkThread PLswap (t_held th) (t_prog th) (t_res th), EvNone)
      else Some (v, ch, mkThread PLrecv (t_held th) (t_prog th) (t_res th), EvNone)
  | PLswap =>
      if v =? 1 then Some (-1, ch, mkThread PIdle true (t_prog th) (t_res th), EvLock)
      else Some (-1, ch, mkThread PLrecv (t_held th) (t_prog th) (t_res th), EvNone)
  | PLrecv =>
      if ch then Some (v, false, mkThread PLload (t_held th) (t_prog th) (t_res th), EvNone)
      else None     (* blocks: the buffer is empty *)
  | PTcas =>
      if v =? 1 then Some (0, ch, mkThread PIdle true (t_prog th) (true :: t_res th), EvTryT)
      else Some (v, ch, mkThread PIdle (t_held th) (t_prog th) (false :: t_res th), EvTryF)
  | PUsend =>
      (* non-blocking send: fills the slot if empty, otherwise takes the default branch *)
      Some (v, true, mkThread PIdle (t_held th) (t_prog th) (t_res th), EvUnlock)
  end.

(* the real code: Unlock signals iff the value swapped out was not 0 *)
Definition sig_real (old : Z) : bool := negb (old =? 0).
(* a plausible wrong variant ("only signal when somebody besides the swapper's -1 was counted") *)
Definition sig_naive (old : Z) : bool := old <? -1.

Definition tstep := tstep_gen sig_real.

Fixpoint upd {A} (l : list A) (i : nat) (x : A) : list A :=
  match l, i with
  | [], _ => []
  | _ :: r, O => x :: r
  | a :: r, S j => a :: upd r j x
  end.

Definition step_ev_gen (sig : Z -> bool) (s : state) (i : nat) : option (state * Z) :=
  match nth_error (s_thr s) i with
  | None => None
  | Some th =>
      match tstep_gen sig (s_v s) (s_ch s) th with
      | None => None
      | Some (v', ch', th', ev) => Some (mkState v' ch' (upd (s_thr s) i th'), ev)
      end
  end.

Definition step_gen (sig : Z -> bool) (s : state) (i : nat) : option state :=
  option_map fst (step_ev_gen sig s i).

Definition step_ev := step_ev_gen sig_real.
Definition step : state -> nat -> option state := step_gen sig_real.

(* a schedule = list of thread ids *)
Fixpoint run_gen (sig : Z -> bool) (s : state) (sched : list nat) : option state :=
  match sched with
  | [] => Some s
  | i :: r => match step_gen sig s i with None => None | Some s' => run_gen sig s' r end
  end.
Definition run := run_gen sig_real.

(* ---- specification vocabulary: plain counting over the thread list ---- *)
Definition b2z (b : bool) : Z := if b then 1 else 0.
Definition pc_eqb (a b : pc) : bool :=
  match a, b with
  | PIdle, PIdle | PLload, PLload | PLswap, PLswap | PLrecv, PLrecv
  | PTcas, PTcas | PUsend, PUsend => true
  | _, _ => false
  end.
Fixpoint sumf (f : thread -> Z) (l : list thread) : Z :=
  match l with [] => 0 | t :: r => f t + sumf f r end.
Definition holders (s : state) : Z := sumf (fun t => b2z (t_held t)) (s_thr s).
Definition at_pc (p : pc) (s : state) : Z := sumf (fun t => b2z (pc_eqb (t_pc t) p)) (s_thr s).

(* a thread has nothing left to do *)
Definition finished (th : thread) : Prop :=
  t_pc th = PIdle /\ next_op (t_held th) (t_prog th) = None.
Definition finishedb (th : thread) : bool :=
  pc_eqb (t_pc th) PIdle && match next_op (t_held th) (t_prog th) with None => true | _ => false end.

(* client programs that give the mutex back: the last entry is an Unlock (or the program is empty) *)
Definition ends_unlock (p : list op) : Prop := p = [] \/ last p OLock = OUnlock.

(* "lost wake-up" shape: the mutex is free, nobody is about to signal, nobody is awake in the slow
   path, the channel is empty, and somebody sleeps *)
Definition stuck (s : state) : Prop :=
  holders s = 0 /\ at_pc PUsend s = 0 /\ s_ch s = false /\
  at_pc PLload s = 0 /\ at_pc PLswap s = 0 /\ 0 < at_pc PLrecv s.
Definition stuckb (s : state) : bool :=
  (holders s =? 0) && (at_pc PUsend s =? 0) && negb (s_ch s) &&
  (at_pc PLload s =? 0) && (at_pc PLswap s =? 0) && (0 <? at_pc PLrecv s).

(* the threads that can take a step *)
Definition enabled (s : state) : list nat :=
  filter (fun i => match step s i with Some _ => true | None => false end)
         (seq 0 (length (s_thr s))).
