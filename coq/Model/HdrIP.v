(* Models of /repo/protocol/header/ipv4.go, ipv6.go, ipv6_fragment.go: field accessors, setters,
   Encode, the IPv4 header checksum helpers and IsValid.  Executable definitions only.
   Reads/writes outside the slice are [None] (Go panics); see Model/Bytes.v for the vocabulary. *)
From Coq Require Import ZArith List Bool.
From NP Require Import Model.Bytes Model.Checksum.
Import ListNotations.
Open Scope Z_scope.

(* ======================= IPv4 ======================= *)
(* const ( versIHL = 0; tos = 1; totalLen = 2; id = 4; flagsFO = 6; ttl = 8; protocol = 9;
           checksum = 10; srcAddr = 12; dstAddr = 16 ) *)
Record ipv4Fields := mkIPv4 {
  ip4IHL : Z; ip4TOS : Z; ip4TotalLength : Z; ip4ID : Z; ip4Flags : Z; ip4FragmentOffset : Z;
  ip4TTL : Z; ip4Protocol : Z; ip4Checksum : Z; ip4SrcAddr : list Z; ip4DstAddr : list Z }.

(* func IPVersion(b []byte) int { if len(b) < versIHL+1 { return -1 }; return int(b[versIHL] >> 4) } *)
Definition ipVersion (b : list Z) : Z :=
  match b with [] => -1 | x :: _ => x / 2^4 end.
(* func (b IPv4) HeaderLength() uint8 { return (b[versIHL] & 0xf) * 4 } *)
Definition ipv4_headerLength (b : list Z) : option Z := x <- get8 b 0 ;; Some (w8 (x mod 16 * 4)).
(* func (b IPv4) ID() uint16 { return binary.BigEndian.Uint16(b[id:]) } *)
Definition ipv4_id (b : list Z) : option Z := get16 b 4.
(* func (b IPv4) Protocol() uint8 { return b[protocol] } *)
Definition ipv4_protocol (b : list Z) : option Z := get8 b 9.
(* func (b IPv4) Flags() uint8 { return uint8(binary.BigEndian.Uint16(b[flagsFO:]) >> 13) } *)
Definition ipv4_flags (b : list Z) : option Z := v <- get16 b 6 ;; Some (w8 (v / 2^13)).
(* func (b IPv4) TTL() uint8 { return b[ttl] } *)
Definition ipv4_ttl (b : list Z) : option Z := get8 b 8.
(* func (b IPv4) FragmentOffset() uint16 { return binary.BigEndian.Uint16(b[flagsFO:]) << 3 } *)
Definition ipv4_fragmentOffset (b : list Z) : option Z := v <- get16 b 6 ;; Some (w16 (v * 2^3)).
(* func (b IPv4) TotalLength() uint16 { return binary.BigEndian.Uint16(b[totalLen:]) } *)
Definition ipv4_totalLength (b : list Z) : option Z := get16 b 2.
(* func (b IPv4) Checksum() uint16 { return binary.BigEndian.Uint16(b[checksum:]) } *)
Definition ipv4_checksum (b : list Z) : option Z := get16 b 10.
(* func (b IPv4) SourceAddress() tcpip.Address { return tcpip.Address(b[srcAddr : srcAddr+IPv4AddressSize]) } *)
Definition ipv4_sourceAddress (b : list Z) : option (list Z) := getN b 12 4.
Definition ipv4_destinationAddress (b : list Z) : option (list Z) := getN b 16 4.
(* func (b IPv4) TOS() (uint8, uint32) { return b[tos], 0 } *)
Definition ipv4_tos (b : list Z) : option Z := get8 b 1.
(* func (b IPv4) PayloadLength() uint16 { return b.TotalLength() - uint16(b.HeaderLength()) } *)
Definition ipv4_payloadLength (b : list Z) : option Z :=
  tl <- ipv4_totalLength b ;; hl <- ipv4_headerLength b ;; Some (w16 (tl - hl)).
(* func (b IPv4) Payload() []byte { return b[b.HeaderLength():][:b.PayloadLength()] } *)
Definition ipv4_payload (b : list Z) : option (list Z) :=
  hl <- ipv4_headerLength b ;; rest <- getFrom b (Z.to_nat hl) ;;
  pl <- ipv4_payloadLength b ;; getN rest 0 (Z.to_nat pl).

(* func (b IPv4) SetTOS(v uint8, _ uint32) { b[tos] = v } *)
Definition ipv4_setTOS (b : list Z) (v : Z) : option (list Z) := put8 b 1 v.
(* func (b IPv4) SetTotalLength(totalLength uint16) { binary.BigEndian.PutUint16(b[totalLen:], totalLength) } *)
Definition ipv4_setTotalLength (b : list Z) (v : Z) : option (list Z) := put16 b 2 v.
(* func (b IPv4) SetChecksum(v uint16) { binary.BigEndian.PutUint16(b[checksum:], v) } *)
Definition ipv4_setChecksum (b : list Z) (v : Z) : option (list Z) := put16 b 10 v.
(* func (b IPv4) SetFlagsFragmentOffset(flags uint8, offset uint16) {
     v := (uint16(flags) << 13) | (offset >> 3)
     binary.BigEndian.PutUint16(b[flagsFO:], v) }
   the operands of | have disjoint bits: the left one is a multiple of 2^13, the right one < 2^13 *)
Definition ipv4_setFlagsFragmentOffset (b : list Z) (flags offset : Z) : option (list Z) :=
  put16 b 6 (w16 (flags * 2^13) + offset / 2^3).
(* func (b IPv4) SetSourceAddress(addr tcpip.Address) { copy(b[srcAddr:srcAddr+IPv4AddressSize], addr) } *)
Definition ipv4_setSourceAddress (b : list Z) (a : list Z) : option (list Z) := copy_into b 12 4 a.
Definition ipv4_setDestinationAddress (b : list Z) (a : list Z) : option (list Z) := copy_into b 16 4 a.

(* func (b IPv4) CalculateChecksum() uint16 { return Checksum(b[:b.HeaderLength()], 0) } *)
Definition ipv4_calculateChecksum (b : list Z) : option Z :=
  hl <- ipv4_headerLength b ;; h <- getN b 0 (Z.to_nat hl) ;; Some (checksum h 0).

(* func (b IPv4) Encode(i *IPv4Fields) {
     b[versIHL] = (4 << 4) | ((i.IHL / 4) & 0xf)
     b[tos] = i.TOS
     b.SetTotalLength(i.TotalLength)
     binary.BigEndian.PutUint16(b[id:], i.ID)
     b.SetFlagsFragmentOffset(i.Flags, i.FragmentOffset)
     b[ttl] = i.TTL
     b[protocol] = i.Protocol
     b.SetChecksum(i.Checksum)
     copy(b[srcAddr:srcAddr+IPv4AddressSize], i.SrcAddr)
     copy(b[dstAddr:dstAddr+IPv4AddressSize], i.DstAddr) } *)
Definition ipv4_encode (b : list Z) (f : ipv4Fields) : option (list Z) :=
  b <- put8 b 0 (64 + (ip4IHL f / 4) mod 16) ;;
  b <- put8 b 1 (ip4TOS f) ;;
  b <- ipv4_setTotalLength b (ip4TotalLength f) ;;
  b <- put16 b 4 (ip4ID f) ;;
  b <- ipv4_setFlagsFragmentOffset b (ip4Flags f) (ip4FragmentOffset f) ;;
  b <- put8 b 8 (ip4TTL f) ;;
  b <- put8 b 9 (ip4Protocol f) ;;
  b <- ipv4_setChecksum b (ip4Checksum f) ;;
  b <- copy_into b 12 4 (ip4SrcAddr f) ;;
  copy_into b 16 4 (ip4DstAddr f).

(* func (b IPv4) EncodePartial(partialChecksum, totalLength uint16) {
     b.SetTotalLength(totalLength)
     checksum := Checksum(b[totalLen:totalLen+2], partialChecksum)
     b.SetChecksum(^checksum) } *)
Definition ipv4_encodePartial (b : list Z) (partialChecksum totalLength : Z) : option (list Z) :=
  b <- ipv4_setTotalLength b totalLength ;;
  s <- getN b 2 2 ;;
  ipv4_setChecksum b (lnot16 (checksum s partialChecksum)).

(* func (b IPv4) IsValid(pktSize int) bool {
     if len(b) < IPv4MinimumSize { return false }
     hlen := int(b.HeaderLength()); tlen := int(b.TotalLength())
     if hlen > tlen || tlen > pktSize { return false }
     return true } *)
Definition ipv4_isValid (b : list Z) (pktSize : Z) : option bool :=
  if (length b <? 20)%nat then Some false else
  hlen <- ipv4_headerLength b ;; tlen <- ipv4_totalLength b ;;
  Some (negb ((tlen <? hlen) || (pktSize <? tlen))).

(* all accessors at once *)
Definition ipv4_decode (b : list Z) : option ipv4Fields :=
  ihl <- ipv4_headerLength b ;; tos <- ipv4_tos b ;; tl <- ipv4_totalLength b ;; id <- ipv4_id b ;;
  fl <- ipv4_flags b ;; fo <- ipv4_fragmentOffset b ;; ttl <- ipv4_ttl b ;; pr <- ipv4_protocol b ;;
  ck <- ipv4_checksum b ;; src <- ipv4_sourceAddress b ;; dst <- ipv4_destinationAddress b ;;
  Some (mkIPv4 ihl tos tl id fl fo ttl pr ck src dst).

(* field domain on which Encode is injective (everything else is the range of the Go types) *)
Definition addr_okb (n : nat) (a : list Z) : bool := Nat.eqb (length a) n && bytes_okb a.
Definition in_range (x lo hi : Z) : bool := (lo <=? x) && (x <? hi).
Definition wf_ipv4 (f : ipv4Fields) : bool :=
  in_range (ip4IHL f) 0 61 && (ip4IHL f mod 4 =? 0) && in_range (ip4TOS f) 0 256 &&
  in_range (ip4TotalLength f) 0 65536 && in_range (ip4ID f) 0 65536 && in_range (ip4Flags f) 0 8 &&
  in_range (ip4FragmentOffset f) 0 65536 && (ip4FragmentOffset f mod 8 =? 0) &&
  in_range (ip4TTL f) 0 256 && in_range (ip4Protocol f) 0 256 && in_range (ip4Checksum f) 0 65536 &&
  addr_okb 4 (ip4SrcAddr f) && addr_okb 4 (ip4DstAddr f).

(* ======================= IPv6 ======================= *)
(* const ( versTCFL = 0; payloadLen = 4; nextHdr = 6; hopLimit = 7; v6SrcAddr = 8; v6DstAddr = 24 ) *)
Record ipv6Fields := mkIPv6 {
  ip6TrafficClass : Z; ip6FlowLabel : Z; ip6PayloadLength : Z; ip6NextHeader : Z; ip6HopLimit : Z;
  ip6SrcAddr : list Z; ip6DstAddr : list Z }.

Definition ipv6_payloadLength (b : list Z) : option Z := get16 b 4.
Definition ipv6_hopLimit (b : list Z) : option Z := get8 b 7.
Definition ipv6_nextHeader (b : list Z) : option Z := get8 b 6.
(* func (b IPv6) Payload() []byte { return b[IPv6MinimumSize:][:b.PayloadLength()] } *)
Definition ipv6_payload (b : list Z) : option (list Z) :=
  rest <- getFrom b 40 ;; pl <- ipv6_payloadLength b ;; getN rest 0 (Z.to_nat pl).
Definition ipv6_sourceAddress (b : list Z) : option (list Z) := getN b 8 16.
Definition ipv6_destinationAddress (b : list Z) : option (list Z) := getN b 24 16.
(* func (b IPv6) TOS() (uint8, uint32) {
     v := binary.BigEndian.Uint32(b[versTCFL:]); return uint8(v >> 20), v & 0xfffff } *)
Definition ipv6_tos (b : list Z) : option (Z * Z) :=
  v <- get32 b 0 ;; Some (w8 (v / 2^20), v mod 2^20).
(* func (b IPv6) SetTOS(t uint8, l uint32) {
     vtf := (6 << 28) | (uint32(t) << 20) | (l & 0xfffff)
     binary.BigEndian.PutUint32(b[versTCFL:], vtf) }       -- disjoint bit ranges *)
Definition ipv6_setTOS (b : list Z) (t l : Z) : option (list Z) :=
  put32 b 0 (6 * 2^28 + w32 (t * 2^20) + l mod 2^20).
Definition ipv6_setPayloadLength (b : list Z) (v : Z) : option (list Z) := put16 b 4 v.
Definition ipv6_setSourceAddress (b a : list Z) : option (list Z) := copy_into b 8 16 a.
Definition ipv6_setDestinationAddress (b a : list Z) : option (list Z) := copy_into b 24 16 a.
Definition ipv6_setNextHeader (b : list Z) (v : Z) : option (list Z) := put8 b 6 v.

(* func (b IPv6) Encode(i *IPv6Fields) {
     b.SetTOS(i.TrafficClass, i.FlowLabel)
     b.SetPayloadLength(i.PayloadLength)
     b[nextHdr] = i.NextHeader
     b[hopLimit] = i.HopLimit
     copy(b[v6SrcAddr:v6SrcAddr+IPv6AddressSize], i.SrcAddr)
     copy(b[v6DstAddr:v6DstAddr+IPv6AddressSize], i.DstAddr) } *)
Definition ipv6_encode (b : list Z) (f : ipv6Fields) : option (list Z) :=
  b <- ipv6_setTOS b (ip6TrafficClass f) (ip6FlowLabel f) ;;
  b <- ipv6_setPayloadLength b (ip6PayloadLength f) ;;
  b <- put8 b 6 (ip6NextHeader f) ;;
  b <- put8 b 7 (ip6HopLimit f) ;;
  b <- copy_into b 8 16 (ip6SrcAddr f) ;;
  copy_into b 24 16 (ip6DstAddr f).

(* func (b IPv6) IsValid(pktSize int) bool {
     if len(b) < IPv6MinimumSize { return false }
     dlen := int(b.PayloadLength())
     if dlen > pktSize-IPv6MinimumSize { return false }
     return true } *)
Definition ipv6_isValid (b : list Z) (pktSize : Z) : option bool :=
  if (length b <? 40)%nat then Some false else
  dlen <- ipv6_payloadLength b ;; Some (negb (pktSize - 40 <? dlen)).

Definition ipv6_decode (b : list Z) : option ipv6Fields :=
  tf <- ipv6_tos b ;; pl <- ipv6_payloadLength b ;; nh <- ipv6_nextHeader b ;; hl <- ipv6_hopLimit b ;;
  src <- ipv6_sourceAddress b ;; dst <- ipv6_destinationAddress b ;;
  Some (mkIPv6 (fst tf) (snd tf) pl nh hl src dst).

Definition wf_ipv6 (f : ipv6Fields) : bool :=
  in_range (ip6TrafficClass f) 0 256 && in_range (ip6FlowLabel f) 0 (2^20) &&
  in_range (ip6PayloadLength f) 0 65536 && in_range (ip6NextHeader f) 0 256 &&
  in_range (ip6HopLimit f) 0 256 && addr_okb 16 (ip6SrcAddr f) && addr_okb 16 (ip6DstAddr f).

(* ======================= IPv6 fragment header ======================= *)
(* const ( nextHdrFrag = 0; fragOff = 2; more = 3; idV6 = 4 ) *)
Record ipv6FragFields := mkIPv6Frag {
  fragNextHeader : Z; fragFragmentOffset : Z; fragM : bool; fragIdentification : Z }.

(* x | 1 *)
Definition bor1 (x : Z) : Z := if Z.even x then x + 1 else x.

(* func (b IPv6Fragment) Encode(i *IPv6FragmentFields) {
     b[nextHdrFrag] = i.NextHeader
     binary.BigEndian.PutUint16(b[fragOff:], i.FragmentOffset<<3)
     if i.M { b[more] |= 1 }
     binary.BigEndian.PutUint32(b[idV6:], i.Identification) } *)
Definition ipv6frag_encode (b : list Z) (f : ipv6FragFields) : option (list Z) :=
  b <- put8 b 0 (fragNextHeader f) ;;
  b <- put16 b 2 (w16 (fragFragmentOffset f * 2^3)) ;;
  b <- (if fragM f then x <- get8 b 3 ;; put8 b 3 (bor1 x) else Some b) ;;
  put32 b 4 (fragIdentification f).

(* func (b IPv6Fragment) IsValid() bool { return len(b) >= IPv6FragmentHeaderSize } *)
Definition ipv6frag_isValid (b : list Z) : bool := (8 <=? length b)%nat.
Definition ipv6frag_nextHeader (b : list Z) : option Z := get8 b 0.
(* func (b IPv6Fragment) FragmentOffset() uint16 { return binary.BigEndian.Uint16(b[fragOff:]) >> 3 } *)
Definition ipv6frag_fragmentOffset (b : list Z) : option Z := v <- get16 b 2 ;; Some (v / 2^3).
(* func (b IPv6Fragment) More() bool { return b[more]&1 > 0 } *)
Definition ipv6frag_more (b : list Z) : option bool := x <- get8 b 3 ;; Some (0 <? x mod 2).
(* func (b IPv6Fragment) Payload() []byte { return b[IPv6FragmentHeaderSize:] } *)
Definition ipv6frag_payload (b : list Z) : option (list Z) := getFrom b 8.
(* func (b IPv6Fragment) ID() uint32 { return binary.BigEndian.Uint32(b[idV6:]) } *)
Definition ipv6frag_id (b : list Z) : option Z := get32 b 4.

Definition ipv6frag_decode (b : list Z) : option ipv6FragFields :=
  nh <- ipv6frag_nextHeader b ;; fo <- ipv6frag_fragmentOffset b ;; m <- ipv6frag_more b ;;
  id <- ipv6frag_id b ;; Some (mkIPv6Frag nh fo m id).

Definition wf_ipv6frag (f : ipv6FragFields) : bool :=
  in_range (fragNextHeader f) 0 256 && in_range (fragFragmentOffset f) 0 8192 &&
  in_range (fragIdentification f) 0 (2^32).
