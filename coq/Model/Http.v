(* Executable model of the bundled HTTP layer of brewlin/net-protocol
   (protocol/application/http/{pkg,request,request_client,response,server_patttern,connection}.go).

   Go strings / []byte are [list Z] (bytes 0..255).  A Go map[string]string is an association
   list with distinct keys ([hadd] replaces in place, otherwise appends); the order in which Go
   iterates over a map is random, so every function that iterates ([send], [build_response]) takes
   the header list IN THE ORDER THE ITERATION PRODUCED and the theorems quantify over all orders.
   Executable definitions only; the lemmas are in Proofs/HttpP.v. *)
From Coq Require Import String Ascii.
From Coq Require Import ZArith List Bool.
Import ListNotations.
Open Scope Z_scope.

(* ------------------------------------------------------------------ byte strings *)
Definition s2b (s : string) : list Z :=
  List.map (fun a => Z.of_N (N_of_ascii a)) (list_ascii_of_string s).
Arguments s2b s%string.

Definition SP : list Z := [32].          (* " "    *)
Definition CRLF : list Z := [13; 10].    (* "\r\n" *)
Definition COLSP : list Z := [58; 32].   (* ": "   *)

Definition isnil {A} (l : list A) : bool := match l with [] => true | _ => false end.

Fixpoint beq (a b : list Z) : bool :=
  match a, b with
  | [], [] => true
  | x :: a', y :: b' => (x =? y) && beq a' b'
  | _, _ => false
  end.

(* strings.HasPrefix(s, d) *)
Fixpoint has_prefix (d s : list Z) : bool :=
  match d, s with
  | [], _ => true
  | x :: d', y :: s' => (x =? y) && has_prefix d' s'
  | _ :: _, [] => false
  end.

(* strings.Index(s, d): index of the FIRST occurrence of d in s, None for -1 *)
Fixpoint index (d s : list Z) : option nat :=
  if has_prefix d s then Some O
  else match s with
       | [] => None
       | _ :: t => option_map S (index d t)
       end.

(* pkg.go
   func match_until(buf, delims string) (string, string) {
       i := strings.Index(buf, delims)
       if i == -1 { return "", "" }
       return buf[:i], buf[i+len(delims):]
   } *)
Definition match_until (buf d : list Z) : list Z * list Z :=
  match index d buf with
  | None => ([], [])
  | Some i => (firstn i buf, skipn (i + length d) buf)
  end.

(* define.go: http_method *)
Definition HTTP_METHOD_UNKNOWN : Z := -1.
Definition HTTP_METHOD_NOT_SUPPORTED : Z := 0.
Definition HTTP_METHOD_GET : Z := 1.
Definition HTTP_METHOD_HEAD : Z := 2.
(* define.go: http_version *)
Definition HTTP_VERSION_UNKNOWN : Z := 0.
Definition HTTP_VERSION_09 : Z := 1.
Definition HTTP_VERSION_10 : Z := 2.
Definition HTTP_VERSION_11 : Z := 3.

(* pkg.go
   func get_method(method string) http_method {
       if method == "GET" { return HTTP_METHOD_GET
       } else if method == "HEAD" { return HTTP_METHOD_HEAD
       } else if method == "POST" || method == "PUT" { return HTTP_METHOD_NOT_SUPPORTED }
       return HTTP_METHOD_UNKNOWN
   } *)
Definition get_method (m : list Z) : Z :=
  if beq m (s2b "GET") then HTTP_METHOD_GET
  else if beq m (s2b "HEAD") then HTTP_METHOD_HEAD
  else if beq m (s2b "POST") || beq m (s2b "PUT") then HTTP_METHOD_NOT_SUPPORTED
  else HTTP_METHOD_UNKNOWN.

(* strings.EqualFold(s, t) for a pure-ASCII t without 'k'/'s' (the only ASCII letters that have
   non-ASCII simple folds): byte-wise comparison modulo ASCII letter case. *)
Definition lower (c : Z) : Z := if (65 <=? c) && (c <=? 90) then c + 32 else c.
Fixpoint eqfold (a b : list Z) : bool :=
  match a, b with
  | [], [] => true
  | x :: a', y :: b' => (lower x =? lower y) && eqfold a' b'
  | _, _ => false
  end.

(* ------------------------------------------------------------------ headers (Go map) *)
Definition hdrs := list (list Z * list Z).

Fixpoint hlookup (k : list Z) (h : hdrs) : option (list Z) :=
  match h with
  | [] => None
  | (k', v) :: t => if beq k k' then Some v else hlookup k t
  end.

(* header.go: h.ptr[key] = value *)
Fixpoint hadd (k v : list Z) (h : hdrs) : hdrs :=
  match h with
  | [] => [(k, v)]
  | (k', v') :: t => if beq k k' then (k, v) :: t else (k', v') :: hadd k v t
  end.

(* request.go: GetHeader -- "" when absent *)
Definition get_header (k : list Z) (h : hdrs) : list Z :=
  match hlookup k h with Some v => v | None => [] end.

(* ------------------------------------------------------------------ request *)
Record request := mkReq {
  method_raw : list Z;
  method : Z;
  uri : list Z;
  version_raw : list Z;
  version : Z;
  headers : hdrs;
  body : list Z
}.

(* request.go: newRequest (method is the zero value = HTTP_METHOD_NOT_SUPPORTED) *)
Definition new_request : request := mkReq [] 0 [] [] HTTP_VERSION_UNKNOWN [] [].

(* connection.go
   func (c *Connection) set_status_code(code int) { if c.status_code == 0 { c.status_code = code } }
   NewCon initialises status_code to 200, so on a fresh connection this is a no-op. *)
Definition set_status (st code : Z) : Z := if st =? 0 then code else st.

(* request.go, the header loop of parse (current tree, with the blank-line stop):
     p := buf
     for p != "" {
         if strings.HasPrefix(p, "\r\n") { p = p[len("\r\n"):]; break }
         if key, tmp = match_until(p, ": "); key != "" { p = tmp }
         if value, tmp = match_until(p, "\r\n"); value != "" { p = tmp }
         if key == "" || value == "" { break }
         req.headers.http_headers_add(key, value)
     }
     req.body = p
   Every iteration that does not break removes at least 4 bytes from p, so fuel = len(p)+1 is
   never exhausted (HttpP.header_loop_fuel). *)
Fixpoint header_loop (fuel : nat) (p : list Z) (h : hdrs) : hdrs * list Z :=
  match fuel with
  | O => (h, p)
  | S f =>
      if isnil p then (h, p)
      else if has_prefix CRLF p then (h, skipn 2 p)
      else
        let '(key, tmp) := match_until p COLSP in
        let p1 := if isnil key then p else tmp in
        let '(value, tmp2) := match_until p1 CRLF in
        let p2 := if isnil value then p1 else tmp2 in
        if isnil key || isnil value then (h, p2)
        else header_loop f p2 (hadd key value h)
  end.

(* the loop BEFORE the repair "fix: HTTP parser hands the header-terminating blank line to the
   body" (no blank-line test): kept to document the fixed finding. *)
Fixpoint header_loop_old (fuel : nat) (p : list Z) (h : hdrs) : hdrs * list Z :=
  match fuel with
  | O => (h, p)
  | S f =>
      if isnil p then (h, p)
      else
        let '(key, tmp) := match_until p COLSP in
        let p1 := if isnil key then p else tmp in
        let '(value, tmp2) := match_until p1 CRLF in
        let p2 := if isnil value then p1 else tmp2 in
        if isnil key || isnil value then (h, p2)
        else header_loop_old f p2 (hadd key value h)
  end.

(* request.go: func (req *Request) parse(con *Connection), on the request [r0] (a fresh one has
   version UNKNOWN and no headers) and a connection whose status_code is [st0]; returns the
   request and the connection's status_code afterwards.  [loop] is the header loop. *)
Definition parse_with (loop : nat -> list Z -> hdrs -> hdrs * list Z)
           (r0 : request) (st0 : Z) (buf : list Z) : request * Z :=
  let '(m, buf1) := match_until buf SP in
  if isnil m then
    (* req.method_raw == "": con.status_code = 400; return *)
    (mkReq m (method r0) (uri r0) (version_raw r0) (version r0) (headers r0) (body r0), 400)
  else
    let meth := get_method m in
    let st1 := if meth =? HTTP_METHOD_NOT_SUPPORTED then set_status st0 501
               else if meth =? HTTP_METHOD_UNKNOWN then 400 else st0 in
    let '(u, buf2) := match_until buf1 SP in
    let st2 := if isnil u then 400 else st1 in
    if version r0 =? HTTP_VERSION_09 then
      (mkReq m meth u [] (version r0) (headers r0) (body r0), set_status st2 200)
    else
      let '(v, buf3) := match_until buf2 CRLF in
      if isnil v then
        (mkReq m meth u v (version r0) (headers r0) (body r0), 400)
      else
        let '(ver, st3) :=
          if eqfold v (s2b "HTTP/1.0") then (HTTP_VERSION_10, st2)
          else if eqfold v (s2b "HTTP/1.1") then (HTTP_VERSION_11, st2)
          else (version r0, set_status st2 400) in
        let '(hs, b) := loop (S (length buf3)) buf3 (headers r0) in
        (mkReq m meth u v ver hs b, st3).

Definition parse (st0 : Z) (buf : list Z) : request * Z :=
  parse_with header_loop new_request st0 buf.
Definition parse_old (st0 : Z) (buf : list Z) : request * Z :=
  parse_with header_loop_old new_request st0 buf.

(* request_client.go
   func (r *Request) send() string {
       if r.method_raw == "" { r.method_raw = "GET" }
       buf := r.method_raw + " " + r.uri + " " + "HTTP/1.1" + "\r\n"
       for k, v := range r.headers.ptr { buf += k + ": " + v + "\r\n" }
       buf += "\r\n" + r.body
       return buf }
   [hs] = the header map in the order the range loop visited it. *)
Definition header_line (kv : list Z * list Z) : list Z := fst kv ++ COLSP ++ snd kv ++ CRLF.
Definition header_block (hs : hdrs) : list Z := flat_map header_line hs.

Definition send (m u : list Z) (hs : hdrs) (b : list Z) : list Z :=
  (if isnil m then s2b "GET" else m) ++ SP ++ u ++ SP ++ s2b "HTTP/1.1" ++ CRLF
  ++ header_block hs ++ CRLF ++ b.

(* request_client.go: init -- the three default headers of the bundled client *)
Definition client_default_headers (host : list Z) : hdrs :=
  [(s2b "Host", host); (s2b "User-Agent", s2b "net-protocol/5.0"); (s2b "Accept", s2b "*/*")].

(* client.go: SetHeaders: for k,v := range headers { c.req.headers.ptr[k] = v } *)
Definition set_headers (extra base : hdrs) : hdrs :=
  fold_left (fun h kv => hadd (fst kv) (snd kv) h) extra base.

(* ------------------------------------------------------------------ response *)
(* strconv.Itoa *)
Fixpoint digits (fuel : nat) (n : Z) (acc : list Z) : list Z :=
  match fuel with
  | O => acc
  | S f => if n <? 10 then (48 + n) :: acc else digits f (n / 10) ((48 + n mod 10) :: acc)
  end.
Definition itoa (n : Z) : list Z :=
  if n <? 0 then 45 :: digits 20 (- n) [] else digits 20 n [].

(* define_status.go: statusText[code]; "" for a code that is not in the table *)
Definition status_table : list (Z * list Z) :=
  [ (100, s2b "Continue"); (101, s2b "Switching Protocols"); (102, s2b "Processing");
    (200, s2b "OK"); (201, s2b "Created"); (202, s2b "Accepted");
    (203, s2b "Non-Authoritative Information"); (204, s2b "No Content");
    (205, s2b "Reset Content"); (206, s2b "Partial Content"); (207, s2b "Multi-Status");
    (208, s2b "Already Reported"); (226, s2b "IM Used");
    (300, s2b "Multiple Choices"); (301, s2b "Moved Permanently"); (302, s2b "Found");
    (303, s2b "See Other"); (304, s2b "Not Modified"); (305, s2b "Use Proxy");
    (307, s2b "Temporary Redirect"); (308, s2b "Permanent Redirect");
    (400, s2b "Bad Request"); (401, s2b "Unauthorized"); (402, s2b "Payment Required");
    (403, s2b "Forbidden"); (404, s2b "Not Found"); (405, s2b "Method Not Allowed");
    (406, s2b "Not Acceptable"); (407, s2b "Proxy Authentication Required");
    (408, s2b "Request Timeout"); (409, s2b "Conflict"); (410, s2b "Gone");
    (411, s2b "Length Required"); (412, s2b "Precondition Failed");
    (413, s2b "Request Entity Too Large"); (414, s2b "Request URI Too Long");
    (415, s2b "Unsupported Media Type"); (416, s2b "Requested Range Not Satisfiable");
    (417, s2b "Expectation Failed"); (418, s2b "I'm a teapot"); (421, s2b "Misdirected Request");
    (422, s2b "Unprocessable Entity"); (423, s2b "Locked"); (424, s2b "Failed Dependency");
    (425, s2b "Too Early"); (426, s2b "Upgrade Required"); (428, s2b "Precondition Required");
    (429, s2b "Too Many Requests"); (431, s2b "Request Header Fields Too Large");
    (451, s2b "Unavailable For Legal Reasons");
    (500, s2b "Internal Server Error"); (501, s2b "Not Implemented"); (502, s2b "Bad Gateway");
    (503, s2b "Service Unavailable"); (504, s2b "Gateway Timeout");
    (505, s2b "HTTP Version Not Supported"); (506, s2b "Variant Also Negotiates");
    (507, s2b "Insufficient Storage"); (508, s2b "Loop Detected"); (510, s2b "Not Extended");
    (511, s2b "Network Authentication Required") ].

Fixpoint zlookup (c : Z) (t : list (Z * list Z)) : list Z :=
  match t with
  | [] => []
  | (c', s) :: t' => if c =? c' then s else zlookup c t'
  end.
Definition status_text (code : Z) : list Z := zlookup code status_table.

(* response.go
   func (r *Response) build_and_send_response() {
       buf := r.con.request.version_raw + " " + strconv.Itoa(r.con.status_code) + " "
              + StatusText(r.con.status_code) + "\r\n"
       for k, v := range r.headers.ptr { buf += k + ": " + v + "\r\n" }
       buf += "\r\n" + r.entity_body
       r.send_all(buf) }
   [hs] = the response header map in iteration order. *)
Definition build_response (vraw : list Z) (st : Z) (hs : hdrs) (eb : list Z) : list Z :=
  vraw ++ SP ++ itoa st ++ SP ++ status_text st ++ CRLF ++ header_block hs ++ CRLF ++ eb.

Definition default_err_msg : list Z :=
  s2b "<HTML><HEAD><TITLE>ERROR</TITLE></HEAD><BODY><H1>SOMETING WRONG</H1></BODY></HTML>".
Definition default_success_msg : list Z :=
  s2b "<HTML><HEAD><TITLE>SUCCESS</TITLE></HEAD><BODY><H1>github.com/brewlin/net-protocol/http</H1></BODY></HTML>".

(* response.go: send_response / send_err_response, as far as the bytes on the wire go.
   Returns the header map (insertion order) and the entity body handed to
   build_and_send_response.  content_length is always -1 and string(-1) = U+FFFD = EF BF BD. *)
Definition response_parts (st : Z) (eb : list Z) : hdrs * list Z :=
  let h := hadd (s2b "Connection") (s2b "close")
             (hadd (s2b "Server") (s2b "github.com/brewlin/net-protocol/1.00") []) in
  let eb1 := if isnil eb then default_success_msg else eb in
  if st =? 200 then (h, eb1)
  else (hadd (s2b "Content-Length") [239; 191; 189] (hadd (s2b "Content-Type") (s2b "text/html") h),
        default_err_msg).

(* ------------------------------------------------------------------ route table *)
(* What a handler does with (req, resp), as far as this layer can see it: the argument of the
   last w.End(...) ("" if never called) and the codes passed to w.Error(...) in order. *)
Record hresult := mkHR { h_body : list Z; h_errors : list Z }.
Definition handler := request -> hresult.

(* server_patttern.go: ServeMux.m, a map from pattern to entry; [mux A] keeps registration order,
   keys are distinct by construction ([handle_func] panics on a duplicate). *)
Definition mux (A : Type) := list (list Z * A).

Fixpoint mlookup {A} (k : list Z) (m : mux A) : option A :=
  match m with
  | [] => None
  | (k', a) :: t => if beq k k' then Some a else mlookup k t
  end.

(* func (s *Server) HandleFunc(pattern string, handler func( *Request, *Response)):
   panics on "" and on a pattern registered before (None = panic; a nil handler is not
   representable here). *)
Definition handle_func {A} (m : mux A) (pat : list Z) (h : A) : option (mux A) :=
  if isnil pat then None
  else match mlookup pat m with
       | Some _ => None
       | None => Some (m ++ [(pat, h)])
       end.

(* func (mu *ServeMux) dispatch(con *Connection) {
       if _, exist := defaultMux.m[con.request.uri]; !exist { con.set_status_code(400); return }
       defaultMux.m[con.request.uri].h(con.request, con.response) }
   Returns the entry invoked (if any), the entity body and the status afterwards.
   Response.Error(code) is con.set_status_code(code). *)
Definition dispatch {A} (run : A -> request -> hresult) (m : mux A) (r : request) (st : Z)
  : option A * list Z * Z :=
  match mlookup (uri r) m with
  | None => (None, [], set_status st 400)
  | Some a =>
      let hr := run a r in
      (Some a, h_body hr, fold_left set_status (h_errors hr) st)
  end.

(* connection.go: handler() = Read once; request.parse; dispatch; response.send.
   Returns: entry invoked, the request the handler saw, and (version_raw, status, header map,
   entity body) of the response; the bytes written are
   [build_response vraw st (some order of hs) eb]. *)
Record served (A : Type) := mkServed {
  sv_invoked : option A;
  sv_request : request;
  sv_status : Z;
  sv_headers : hdrs;
  sv_body : list Z
}.
Arguments mkServed {A}. Arguments sv_invoked {A}. Arguments sv_request {A}.
Arguments sv_status {A}. Arguments sv_headers {A}. Arguments sv_body {A}.

Definition serve {A} (run : A -> request -> hresult) (m : mux A) (buf : list Z) : served A :=
  let '(r, st) := parse 200 buf in
  let '(inv, eb, st') := dispatch run m r st in
  (* response.send: version is never HTTP_VERSION_09 after parse of a fresh request *)
  let '(hs, eb') := response_parts st' eb in
  mkServed inv r st' hs eb'.

Definition served_bytes {A} (s : served A) (order : hdrs) : list Z :=
  build_response (version_raw (sv_request s)) (sv_status s) order (sv_body s).

(* client.go: Push -- the response is parsed with the REQUEST parser on the client's own fresh
   connection (status_code 200): the server's version string lands in method_raw, the decimal
   status code in uri, the reason phrase in version_raw. *)
Definition client_parse (resp : list Z) : request * Z := parse 200 resp.
