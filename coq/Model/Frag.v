(* Model of /repo/protocol/network/fragmentation/{fragmentation,reassembler,frag_heap}.go, of Go's
   container/heap as used by frag_heap.go, of protocol/network/hash/hash.go (Hash3Words,
   IPv4FragmentHash) and of the fragment branch of ipv4.HandlePacket (the computation of [last]).
   Executable definitions only; no proofs here.

   Representation choices (stated once):
   - uint16 values are [Z] with the wrap written out ([u16]); Go [int] values (sizes, limits,
     counters) are unbounded [Z] (64-bit int; the quantities here stay far below 2^63).
   - a buffer.VectorisedView payload is modelled by its byte content, [list Z].  Its chunk
     structure (how the bytes are split over Views, TrimFront/RemoveFirst walking the chunks) is the
     business of C16; here [vv.Size()] = length, [vv.TrimFront(k)] = drop the first [k] bytes (all of
     them when [k] >= length), [append(views, vv.Views()...)] = byte concatenation.  This is exact
     for every VectorisedView whose [size] field equals the sum of its chunk lengths (what
     ipv4.HandlePacket passes, and what the driver h_c08 builds).
   - slice indices of the heap are [nat] (they are bounded by the number of stored fragments).
   - time: [time.Now()] is an explicit input [now : Z] of every call (any unit); durations are
     differences.
   - the map [reassemblers] and the intrusive list [rList] hold the same set of *reassembler
     pointers at every point where f.mu is released (sequential execution); both are represented
     by ONE list [f_rs] in rList order (head = Front); the map lookup is "first entry with this
     id" ([lookup]).  Ids in the list are pairwise distinct (proved: [FInv]).
   - mutexes are not modelled HERE (this file: sequential calls); the [r.done] early return and
     the empty-heap early return in reassembler.process and the done-check in release are kept
     branch for branch.  Concurrent calls (several goroutines inside Process at once, each phase
     atomic under its mutex) are modelled in Model/FragConc.v on top of the definitions of this
     file. *)
From Coq Require Import ZArith Bool List.
Import ListNotations.
Open Scope Z_scope.

Definition u16 (x : Z) : Z := x mod 2^16.
Definition u32 (x : Z) : Z := x mod 2^32.

(* length / drop with Z counters (structural on the list: no big nat is ever built) *)
Fixpoint zlen (l : list Z) : Z := match l with [] => 0 | _ :: t => 1 + zlen t end.
(* vv.TrimFront(n) on the byte content *)
Fixpoint zdrop (n : Z) (l : list Z) : list Z :=
  if n <=? 0 then l else match l with [] => [] | _ :: t => zdrop (n - 1) t end.

(* ------------------------------------------------------------------ frag_heap.go + container/heap *)

(* type fragment struct { offset uint16; vv buffer.VectorisedView } *)
Record frag := mkFrag { fr_off : Z; fr_pl : list Z }.
Definition dfrag : frag := mkFrag 0 [].

(* type fragHeap []fragment *)
Definition fheap := list frag.

Fixpoint upd {A} (l : list A) (i : nat) (x : A) : list A :=
  match l, i with
  | [], _ => []
  | _ :: t, O => x :: t
  | y :: t, S i' => y :: upd t i' x
  end.

(* func (h *fragHeap) Less(i, j int) bool { return ( *h)[i].offset < ( *h)[j].offset } *)
Definition hless (h : fheap) (i j : nat) : bool := fr_off (nth i h dfrag) <? fr_off (nth j h dfrag).

(* func (h *fragHeap) Swap(i, j int) { ( *h)[i], ( *h)[j] = ( *h)[j], ( *h)[i] } *)
Definition hswap (h : fheap) (i j : nat) : fheap := upd (upd h i (nth j h dfrag)) j (nth i h dfrag).

(* container/heap:
   func up(h Interface, j int) {
     for { i := (j - 1) / 2 // parent
           if i == j || !h.Less(j, i) { break }
           h.Swap(i, j); j = i } }
   Go's integer division truncates towards zero, so for j = 0 the parent is (-1)/2 = 0 = j; on nat
   (0 - 1) / 2 = 0 as well.  Each iteration strictly decreases j: fuel j + 1 suffices. *)
Fixpoint h_up (fuel : nat) (h : fheap) (j : nat) : fheap :=
  match fuel with
  | O => h
  | S f =>
      let i := ((j - 1) / 2)%nat in
      if (i =? j)%nat || negb (hless h j i) then h else h_up f (hswap h i j) i
  end.

(* func down(h Interface, i0, n int) bool {
     i := i0
     for { j1 := 2*i + 1
           if j1 >= n || j1 < 0 { break }   // j1 < 0 after int overflow: impossible here
           j := j1
           if j2 := j1 + 1; j2 < n && h.Less(j2, j1) { j = j2 }
           if !h.Less(j, i) { break }
           h.Swap(i, j); i = j }
     return i > i0 }
   (the bool result is unused by Pop) *)
Fixpoint h_down (fuel : nat) (h : fheap) (i n : nat) : fheap :=
  match fuel with
  | O => h
  | S f =>
      let j1 := (2 * i + 1)%nat in
      if (n <=? j1)%nat then h else
      let j := if ((j1 + 1 <? n)%nat && hless h (j1 + 1) j1) then (j1 + 1)%nat else j1 in
      if negb (hless h j i) then h else h_down f (hswap h i j) j n
  end.

(* func Push(h Interface, x any) { h.Push(x); up(h, h.Len()-1) }
   func (h *fragHeap) Push(x interface{}) { *h = append( *h, x.(fragment)) } *)
Definition heap_push (h : fheap) (x : frag) : fheap :=
  h_up (length h + 1) (h ++ [x]) (length h).

(* func Pop(h Interface) any { n := h.Len() - 1; h.Swap(0, n); down(h, 0, n); return h.Pop() }
   func (h *fragHeap) Pop() interface{} { old := *h; n := len(old); x := old[n-1]; *h = old[:n-1]; return x }
   On an empty heap h.Swap(0, -1) indexes out of range: Go panics -> [None]. *)
Definition heap_pop (h : fheap) : option (frag * fheap) :=
  match h with
  | [] => None
  | _ :: _ =>
      let n := (length h - 1)%nat in
      let h1 := hswap h 0 n in
      let h2 := h_down (length h) h1 0 n in
      Some (nth n h2 dfrag, firstn n h2)
  end.

(* result of fragHeap.reassemble *)
Inductive rres :=
| ROk (bytes : list Z)     (* (vv, nil) *)
| RErr                     (* (VectorisedView{}, error) *)
| RPanic.                  (* heap.Pop on an empty heap *)

(* func (h *fragHeap) reassemble() (buffer.VectorisedView, error) {
     curr := heap.Pop(h).(fragment)
     views := curr.vv.Views()
     size := curr.vv.Size()
     if curr.offset != 0 { return buffer.VectorisedView{}, fmt.Errorf("offset of the first packet is != 0 (%d)", curr.offset) }
     for h.Len() > 0 {
       curr := heap.Pop(h).(fragment)
       if int(curr.offset) < size { curr.vv.TrimFront(size - int(curr.offset))
       } else if int(curr.offset) > size { return buffer.VectorisedView{}, fmt.Errorf("packet has a hole, ...") }
       size += curr.vv.Size()
       views = append(views, curr.vv.Views()...)
     }
     return buffer.NewVectorisedView(size, views), nil }
   The loop pops once per iteration, so fuel = length of the heap is exact; the heap left behind
   is returned as well (the receiver is mutated). *)
Fixpoint reasm_loop (fuel : nat) (h : fheap) (size : Z) (acc : list Z) : rres * fheap :=
  match h with
  | [] => (ROk acc, h)
  | _ :: _ =>
      match fuel with
      | O => (RPanic, h)   (* unreachable: fuel = length h *)
      | S f =>
          match heap_pop h with
          | None => (RPanic, h)
          | Some (curr, h') =>
              let off := fr_off curr in
              if off <? size then
                let pl := zdrop (size - off) (fr_pl curr) in
                reasm_loop f h' (size + zlen pl) (acc ++ pl)
              else if size <? off then (RErr, h')
              else reasm_loop f h' (size + zlen (fr_pl curr)) (acc ++ fr_pl curr)
          end
      end
  end.

Definition reassemble (h : fheap) : rres * fheap :=
  match heap_pop h with
  | None => (RPanic, h)
  | Some (curr, h') =>
      if negb (fr_off curr =? 0) then (RErr, h')
      else reasm_loop (length h') h' (zlen (fr_pl curr)) (fr_pl curr)
  end.

(* ------------------------------------------------------------------ reassembler.go *)

(* type hole struct { first uint16; last uint16; deleted bool } *)
Record hole := mkHole { h_first : Z; h_last : Z; h_del : bool }.

(* type reassembler struct { reassemblerEntry; id uint32; size int; mu sync.Mutex; holes []hole;
     deleted int; heap fragHeap; done bool; creationTime time.Time } *)
Record reasm := mkReasm {
  r_id : Z; r_size : Z; r_holes : list hole; r_deleted : Z; r_heap : fheap; r_done : bool;
  r_ctime : Z }.

(* func newReassembler(id uint32) *reassembler {
     r := &reassembler{ id: id, holes: make([]hole, 0, 16), deleted: 0, heap: make(fragHeap, 0, 8),
                        creationTime: time.Now() }
     r.holes = append(r.holes, hole{ first: 0, last: math.MaxUint16, deleted: false})
     return r } *)
Definition newReassembler (id now : Z) : reasm :=
  mkReasm id 0 [mkHole 0 65535 false] 0 [] false now.

(* func (r *reassembler) updateHoles(first, last uint16, more bool) bool {
     used := false
     for i := range r.holes {
       if r.holes[i].deleted || first > r.holes[i].last || last < r.holes[i].first { continue }
       used = true
       r.deleted++
       r.holes[i].deleted = true
       if first > r.holes[i].first { r.holes = append(r.holes, hole{r.holes[i].first, first - 1, false}) }
       if last < r.holes[i].last && more { r.holes = append(r.holes, hole{last + 1, r.holes[i].last, false}) }
     }
     return used }
   [range r.holes] evaluates the slice (and its length) once: the loop visits exactly the ORIGINAL
   entries, in order, while new holes are appended behind them.  [uh_loop] walks the original
   entries and returns (the original entries as updated, the appended entries in order, the
   increment of r.deleted, used). *)
Fixpoint uh_loop (hs : list hole) (first last : Z) (more : bool) : list hole * list hole * Z * bool :=
  match hs with
  | [] => ([], [], 0, false)
  | h :: t =>
      let '(t', app, dl, used) := uh_loop t first last more in
      if h_del h || (h_last h <? first) || (last <? h_first h) then (h :: t', app, dl, used)
      else
        let a1 := if h_first h <? first then [mkHole (h_first h) (u16 (first - 1)) false] else [] in
        let a2 := if (last <? h_last h) && more then [mkHole (u16 (last + 1)) (h_last h) false] else [] in
        (mkHole (h_first h) (h_last h) true :: t', a1 ++ a2 ++ app, 1 + dl, true)
  end.

Definition updateHoles (r : reasm) (first last : Z) (more : bool) : reasm * bool :=
  let '(orig, app, dl, used) := uh_loop (r_holes r) first last more in
  (mkReasm (r_id r) (r_size r) (orig ++ app) (r_deleted r + dl) (r_heap r) (r_done r) (r_ctime r), used).

(* what reassembler.process returns: (vv, done, consumed, err) + whether it panicked *)
Record pres := mkPres { p_res : list Z; p_done : bool; p_consumed : Z; p_err : bool; p_panic : bool }.

(* func (r *reassembler) process(first, last uint16, more bool, vv buffer.VectorisedView) (buffer.VectorisedView, bool, int, error) {
     r.mu.Lock(); defer r.mu.Unlock()
     consumed := 0
     if r.done { return buffer.VectorisedView{}, false, consumed, nil }
     if r.updateHoles(first, last, more) {
       heap.Push(&r.heap, fragment{offset: first, vv: vv.Clone(nil)})
       consumed = vv.Size()
       r.size += consumed }
     if r.deleted < len(r.holes) { return buffer.VectorisedView{}, false, consumed, nil }
     if r.heap.Len() == 0 { return buffer.VectorisedView{}, false, consumed, nil }      // commit 3ed1739
     res, err := r.heap.reassemble()
     if err != nil { return buffer.VectorisedView{}, false, consumed, fmt.Errorf(...) }
     return res, true, consumed, nil }
   History of this function in /repo:
   - before 81a5c99 the err branch was [panic(...)]; see FragP.process_error_reachable;
   - before 3ed1739 the [r.heap.Len() == 0] test did not exist ([rprocess_old] below).  A
     reassembler whose datagram has been reassembled (every hole deleted, heap emptied by
     reassemble) is marked [done] only later, by Fragmentation.release under f.mu; a second
     goroutine holding the same *reassembler that enters process in between found r.done == false,
     filled no hole, passed the [r.deleted < len(r.holes)] test and popped the EMPTY heap: Go panic
     "index out of range".  Sequentially the state "all holes deleted, heap empty, not done" never
     reaches process (FragP.RWf), so the branch is dead in [fprocess]; it is live in
     Model/FragConc.v (FragConcP.concurrent_old_refuted). *)
Definition set_heap (r : reasm) (h : fheap) : reasm :=
  mkReasm (r_id r) (r_size r) (r_holes r) (r_deleted r) h (r_done r) (r_ctime r).

Definition rprocess (r : reasm) (first last : Z) (more : bool) (pl : list Z) : reasm * pres :=
  if r_done r then (r, mkPres [] false 0 false false)
  else
    let '(r1, used) := updateHoles r first last more in
    let '(r2, consumed) :=
      if used then
        (mkReasm (r_id r1) (r_size r1 + zlen pl) (r_holes r1) (r_deleted r1)
                 (heap_push (r_heap r1) (mkFrag first pl)) (r_done r1) (r_ctime r1), zlen pl)
      else (r1, 0) in
    if r_deleted r2 <? Z.of_nat (length (r_holes r2)) then (r2, mkPres [] false consumed false false)
    else if (length (r_heap r2) =? 0)%nat then (r2, mkPres [] false consumed false false)
    else
      match reassemble (r_heap r2) with
      | (ROk bytes, h') => (set_heap r2 h', mkPres bytes true consumed false false)
      | (RErr, h') => (set_heap r2 h', mkPres [] false consumed true false)
      | (RPanic, h') => (set_heap r2 h', mkPres [] false consumed false true)
      end.

(* reassembler.process as it was before commit 3ed1739: no [r.heap.Len() == 0] test.  Kept only
   for FragConcP.concurrent_old_refuted (the schedule on which it pops the empty heap). *)
Definition rprocess_old (r : reasm) (first last : Z) (more : bool) (pl : list Z) : reasm * pres :=
  if r_done r then (r, mkPres [] false 0 false false)
  else
    let '(r1, used) := updateHoles r first last more in
    let '(r2, consumed) :=
      if used then
        (mkReasm (r_id r1) (r_size r1 + zlen pl) (r_holes r1) (r_deleted r1)
                 (heap_push (r_heap r1) (mkFrag first pl)) (r_done r1) (r_ctime r1), zlen pl)
      else (r1, 0) in
    if r_deleted r2 <? Z.of_nat (length (r_holes r2)) then (r2, mkPres [] false consumed false false)
    else
      match reassemble (r_heap r2) with
      | (ROk bytes, h') => (set_heap r2 h', mkPres bytes true consumed false false)
      | (RErr, h') => (set_heap r2 h', mkPres [] false consumed true false)
      | (RPanic, h') => (set_heap r2 h', mkPres [] false consumed false true)
      end.

(* func (r *reassembler) tooOld(timeout time.Duration) bool { return time.Now().Sub(r.creationTime) > timeout } *)
Definition tooOld (r : reasm) (now timeout : Z) : bool := timeout <? now - r_ctime r.

(* ------------------------------------------------------------------ fragmentation.go *)

(* type Fragmentation struct { mu; highLimit, lowLimit int; reassemblers map[uint32]*reassembler;
     rList reassemblerList; size int; timeout time.Duration } *)
Record fstate := mkF {
  f_high : Z; f_low : Z; f_rs : list reasm; f_size : Z; f_timeout : Z }.

(* func NewFragmentation(highMemoryLimit, lowMemoryLimit int, reassemblingTimeout time.Duration) *Fragmentation {
     if lowMemoryLimit >= highMemoryLimit { lowMemoryLimit = highMemoryLimit }
     if lowMemoryLimit < 0 { lowMemoryLimit = 0 }
     return &Fragmentation{ reassemblers: make(...), highLimit: highMemoryLimit, lowLimit: lowMemoryLimit, timeout: reassemblingTimeout } } *)
Definition newFragmentation (high low timeout : Z) : fstate :=
  let low1 := if high <=? low then high else low in
  let low2 := if low1 <? 0 then 0 else low1 in
  mkF high low2 [] 0 timeout.

(* r, ok := f.reassemblers[id] *)
Fixpoint lookup (id : Z) (rs : list reasm) : option reasm :=
  match rs with
  | [] => None
  | r :: t => if r_id r =? id then Some r else lookup id t
  end.

(* delete(f.reassemblers, r.id); f.rList.Remove(r) *)
Fixpoint remove_id (id : Z) (rs : list reasm) : list reasm :=
  match rs with
  | [] => []
  | r :: t => if r_id r =? id then t else r :: remove_id id t
  end.

(* write back the reassembler mutated through the pointer *)
Fixpoint store (r : reasm) (rs : list reasm) : list reasm :=
  match rs with
  | [] => []
  | x :: t => if r_id x =? r_id r then r :: t else x :: store r t
  end.

(* func (f *Fragmentation) release(r *reassembler) {
     if r.checkDoneOrMark() { return }          // prev := r.done; r.done = true; return prev
     delete(f.reassemblers, r.id)
     f.rList.Remove(r)
     f.size -= r.size
     if f.size < 0 { log.Printf(...); f.size = 0 } } *)
Definition release (f : fstate) (r : reasm) : fstate :=
  if r_done r then f
  else
    let s := f_size f - r_size r in
    mkF (f_high f) (f_low f) (remove_id (r_id r) (f_rs f)) (if s <? 0 then 0 else s) (f_timeout f).

(* tail := f.rList.Back()
   for f.size > f.lowLimit && tail != nil { f.release(tail); tail = tail.Prev() }
   (Remove does not clear the removed element's links, so tail.Prev() is the previous element of
   the list as it was; the walk visits the list from the back) — [back] = the not yet visited part
   of the list, last element first. *)
Fixpoint evict_loop (f : fstate) (back : list reasm) : fstate :=
  match back with
  | [] => f
  | tail :: prev => if f_low f <? f_size f then evict_loop (release f tail) prev else f
  end.

(* func (f *Fragmentation) Process(id uint32, first, last uint16, more bool, vv buffer.VectorisedView) (buffer.VectorisedView, bool) {
     f.mu.Lock()
     r, ok := f.reassemblers[id]
     if ok && r.tooOld(f.timeout) { f.release(r); ok = false }
     if !ok { r = newReassembler(id); f.reassemblers[id] = r; f.rList.PushFront(r) }
     f.mu.Unlock()
     res, done, consumed, err := r.process(first, last, more, vv)
     f.mu.Lock()
     f.size += consumed
     if done || err != nil { f.release(r) }
     if f.size > f.highLimit {
       tail := f.rList.Back()
       for f.size > f.lowLimit && tail != nil { f.release(tail); tail = tail.Prev() } }
     f.mu.Unlock()
     return res, done }
   Result: new state, (returned bytes, done, panicked).  A panic inside r.process unwinds through
   Process with f.mu released and r.mu released by the defer: the state keeps r as mutated. *)
Definition with_rs (f : fstate) (rs : list reasm) : fstate :=
  mkF (f_high f) (f_low f) rs (f_size f) (f_timeout f).
Definition add_size (f : fstate) (d : Z) : fstate :=
  mkF (f_high f) (f_low f) (f_rs f) (f_size f + d) (f_timeout f).

Definition fprocess (f : fstate) (id first last : Z) (more : bool) (pl : list Z) (now : Z)
  : fstate * (list Z * bool * bool) :=
  let '(f1, r) :=
    match lookup id (f_rs f) with
    | Some r0 =>
        if tooOld r0 now (f_timeout f) then
          let f0 := release f r0 in
          let rn := newReassembler id now in (with_rs f0 (rn :: f_rs f0), rn)
        else (f, r0)
    | None => let rn := newReassembler id now in (with_rs f (rn :: f_rs f), rn)
    end in
  let '(r', out) := rprocess r first last more pl in
  let f2 := with_rs f1 (store r' (f_rs f1)) in
  if p_panic out then (f2, ([], false, true))
  else
    let f3 := add_size f2 (p_consumed out) in
    let f4 := if p_done out || p_err out then release f3 r' else f3 in
    let f5 := if f_high f4 <? f_size f4 then evict_loop f4 (rev (f_rs f4)) else f4 in
    (f5, (p_res out, p_done out, false)).

(* ------------------------------------------------------------------ call histories
   one call of Fragmentation.Process: its arguments and the value of time.Now() during the call *)
Record call := mkCall { c_id : Z; c_first : Z; c_last : Z; c_more : bool; c_pl : list Z; c_now : Z }.
Definition step (f : fstate) (c : call) : fstate * (list Z * bool * bool) :=
  fprocess f (c_id c) (c_first c) (c_last c) (c_more c) (c_pl c) (c_now c).
(* a history of sequential calls: final state and the outputs (returned bytes, done, panicked) *)
Fixpoint run (f : fstate) (cs : list call) : fstate * list (list Z * bool * bool) :=
  match cs with
  | [] => (f, [])
  | c :: t => let '(f', o) := step f c in let '(f'', os) := run f' t in (f'', o :: os)
  end.
Definition conv (o : pres) : list Z * bool * bool := (p_res o, p_done o, false).

(* ------------------------------------------------------------------ ipv4.go, fragment branch of HandlePacket
     more := (h.Flags() & header.IPv4FlagMoreFragments) != 0
     if more || h.FragmentOffset() != 0 {
       last := h.FragmentOffset() + uint16(vv.Size()) - 1
       vv, ready = e.fragmentation.Process(hash.IPv4FragmentHash(h), h.FragmentOffset(), last, more, vv)
   [fo] = h.FragmentOffset() (a uint16, the 13-bit field << 3), [pl] = the IP payload.
   Returns None when the packet is not a fragment, else the arguments (first, last, more, vv). *)
Definition ipv4_frag_args (fo : Z) (more : bool) (pl : list Z) : option (Z * Z * bool * list Z) :=
  if more || negb (fo =? 0) then Some (fo, u16 (u16 (fo + u16 (zlen pl)) - 1), more, pl) else None.

(* ------------------------------------------------------------------ hash.go
   func rol32(v, shift uint32) uint32 { return (v << shift) | (v >> ((-shift) & 31)) } *)
Definition rol32 (v s : Z) : Z := Z.lor (u32 (Z.shiftl v s)) (Z.shiftr v (Z.land (u32 (- s)) 31)).

(* func Hash3Words(a, b, c, initval uint32) uint32 {
     const iv = 0xdeadbeef + (3 << 2)
     initval += iv
     a += initval; b += initval; c += initval
     c ^= b; c -= rol32(b, 14)
     a ^= c; a -= rol32(c, 11)
     b ^= a; b -= rol32(a, 25)
     c ^= b; c -= rol32(b, 16)
     a ^= c; a -= rol32(c, 4)
     b ^= a; b -= rol32(a, 14)
     c ^= b; c -= rol32(b, 24)
     return c } *)
Definition mixstep (x y : Z) (s : Z) : Z := let x1 := Z.lxor x y in u32 (x1 - rol32 y s).
Definition hash3words (a b c initval : Z) : Z :=
  let iv := u32 (initval + (3735928559 + 12)) in
  let a := u32 (a + iv) in let b := u32 (b + iv) in let c := u32 (c + iv) in
  let c := mixstep c b 14 in
  let a := mixstep a c 11 in
  let b := mixstep b a 25 in
  let c := mixstep c b 16 in
  let a := mixstep a c 4 in
  let b := mixstep b a 14 in
  let c := mixstep c b 24 in
  c.

(* func IPv4FragmentHash(h header.IPv4) uint32 {
     x := uint32(h.ID())<<16 | uint32(h.Protocol())
     t := h.SourceAddress();      y := uint32(t[0]) | uint32(t[1])<<8 | uint32(t[2])<<16 | uint32(t[3])<<24
     t = h.DestinationAddress();  z := uint32(t[0]) | ... <<24
     return Hash3Words(x, y, z, hashIV) }
   header.IPv4: ID = big-endian bytes 4..5, Protocol = byte 9, source = bytes 12..15,
   destination = bytes 16..19.  [hdr] = the header bytes, [iv] = hash.hashIV (random per process). *)
Definition byte_at (hdr : list Z) (i : nat) : Z := nth i hdr 0.
Definition le32 (hdr : list Z) (i : nat) : Z :=
  byte_at hdr i + 2^8 * byte_at hdr (i + 1) + 2^16 * byte_at hdr (i + 2) + 2^24 * byte_at hdr (i + 3).
Definition ipv4_id (hdr : list Z) : Z := 2^8 * byte_at hdr 4 + byte_at hdr 5.
Definition ipv4_proto (hdr : list Z) : Z := byte_at hdr 9.
Definition ipv4FragmentHash (iv : Z) (hdr : list Z) : Z :=
  hash3words (u32 (2^16 * ipv4_id hdr) + ipv4_proto hdr) (le32 hdr 12) (le32 hdr 16) iv.

(* ------------------------------------------------------------------ specification vocabulary
   (independent of the functions above: plain list / arithmetic definitions) *)

(* D[a .. a+n) *)
Fixpoint ztake (n : Z) (l : list Z) : list Z :=
  if n <=? 0 then [] else match l with [] => [] | x :: t => x :: ztake (n - 1) t end.
Definition slice (D : list Z) (a n : Z) : list Z := ztake n (zdrop a D).

(* one call's fragment description: (first, last, more, payload) *)
Record fragin := mkIn { i_first : Z; i_last : Z; i_more : bool; i_pl : list Z }.

(* the fragment description of a call *)
Definition frag_in (c : call) : fragin := mkIn (c_first c) (c_last c) (c_more c) (c_pl c).

(* "f is a fragment of the datagram payload D": 8-aligned start, inside D, carries exactly the
   bytes D[first..last], and the more-fragments flag is set iff it does not end the datagram *)
Definition frag_of (D : list Z) (f : fragin) : Prop :=
  0 <= i_first f /\ (i_first f) mod 8 = 0 /\ i_first f <= i_last f /\ i_last f < zlen D /\
  i_pl f = slice D (i_first f) (i_last f - i_first f + 1) /\
  i_more f = (i_last f <? zlen D - 1).

(* the fragments in fs cover every byte position of [0, n) *)
Definition covers (fs : list fragin) (n : Z) : Prop :=
  forall x, 0 <= x < n -> exists f, In f fs /\ i_first f <= x <= i_last f.

(* executable coverage test used by the correspondence monitor: chase the frontier p (all of
   [0,p) is covered) through the intervals; |fs| rounds suffice *)
Definition reach_step (fs : list (Z * Z)) (p : Z) : Z :=
  fold_left (fun acc ab => if fst ab <=? p then Z.max acc (snd ab + 1) else acc) fs p.
Fixpoint reach (fuel : nat) (fs : list (Z * Z)) (p : Z) : Z :=
  match fuel with O => p | S k => reach k fs (reach_step fs p) end.
Definition coveredb (fs : list (Z * Z)) (n : Z) : bool := n <=? reach (length fs) fs 0.
