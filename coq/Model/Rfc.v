(* The INDEPENDENT side of C06: what a well-formed frame is, written from the RFC bit layouts with a
   plain byte reader ([nth]) and the RFC 1071 vocabulary of Model/Checksum.v ([rfc1071_sum]: the
   16-bit one's-complement sum of the big-endian words).  Nothing here mentions the header
   encoders/accessors (Model/Hdr*.v), the option encoders (Model/TcpOptions.v) or the builders
   (Model/Emit.v).  Executable definitions only: [wf_frame] is run by vm_compute on every frame the
   harness captures, and is the predicate the theorems of Properties/C06.v prove of the builders.

   RFC 791 (IPv4), 8200 (IPv6), 792 (ICMP), 4443 (ICMPv6), 4861 (NDP), 768 (UDP), 9293 (TCP),
   7323 (TS, WS), 2018 (SACK), 826 (ARP), 894 (IP over Ethernet). *)
From Coq Require Import ZArith List Bool.
From NP Require Import Model.Checksum.
Import ListNotations.
Open Scope Z_scope.

(* ---------------- byte reader ---------------- *)
Definition b8 (b : list Z) (i : nat) : Z := nth i b 0.
Definition b16 (b : list Z) (i : nat) : Z := b8 b i * 256 + b8 b (S i).
Definition b32 (b : list Z) (i : nat) : Z := b16 b i * 65536 + b16 b (S (S i)).
Definition sub (b : list Z) (i n : nat) : list Z := firstn n (skipn i b).
Definition zlen (b : list Z) : Z := Z.of_nat (length b).
Definition all_bytes (b : list Z) : bool := forallb (fun x => (0 <=? x) && (x <? 256)) b.
Definition leq (a b : list Z) : bool :=
  Nat.eqb (length a) (length b) && forallb (fun p => fst p =? snd p) (combine a b).
Definition all_eq (v : Z) (b : list Z) : bool := forallb (Z.eqb v) b.

(* RFC 1071: a datagram verifies when the one's-complement sum of all its 16-bit words, checksum
   field included, is 0xffff *)
Definition sums_to_ffff (l : list Z) : bool := rfc1071_sum l 0 =? 65535.

(* pseudo-headers: RFC 9293 3.1 / RFC 768 (IPv4) and RFC 8200 8.1 (IPv6) *)
Definition pseudo4 (src dst : list Z) (proto len : Z) : list Z :=
  src ++ dst ++ [0; proto; len / 256; len mod 256].
Definition pseudo6 (src dst : list Z) (nh len : Z) : list Z :=
  src ++ dst ++ [len / 16777216 mod 256; len / 65536 mod 256; len / 256 mod 256; len mod 256; 0; 0; 0; nh].

(* ---------------- TCP (RFC 9293 3.1) ---------------- *)
Definition FIN := 1. Definition SYN := 2. Definition RST := 4. Definition PSH := 8.
Definition ACK := 16. Definition URG := 32.
Definition has (flags bit : Z) : bool := (flags / bit) mod 2 =? 1.

(* option kinds this stack may emit, each with its one legal length (RFC 9293 3.2, 7323, 2018):
   2 MSS (4, SYN segments only), 3 window scale (3, SYN only, shift <= 14), 4 SACK-permitted
   (2, SYN only), 5 SACK (2 + 8n, 1 <= n <= 4, not in SYN segments), 8 timestamps (10) *)
Definition legal_opt (syn : bool) (k l : Z) (body : list Z) : bool :=
  if k =? 2 then (l =? 4) && syn
  else if k =? 3 then (l =? 3) && syn && (b8 body 0 <=? 14)
  else if k =? 4 then (l =? 2) && syn
  else if k =? 5 then ((l - 2) mod 8 =? 0) && (10 <=? l) && (l <=? 34) && negb syn
  else if k =? 8 then l =? 10
  else false.

(* the option list must parse to the end of the header: EOL (0) ends the list and only zero padding
   may follow, NOP (1) is one byte, every other option is kind, length, body and must fit *)
Fixpoint opts_ok (fuel : nat) (syn : bool) (o : list Z) : bool :=
  match fuel with
  | O => false
  | S f =>
      match o with
      | [] => true
      | k :: rest =>
          if k =? 0 then all_eq 0 rest
          else if k =? 1 then opts_ok f syn rest
          else match rest with
               | [] => false
               | l :: body =>
                   (2 <=? l) && (l - 2 <=? zlen body) &&
                   legal_opt syn k l (firstn (Z.to_nat (l - 2)) body) &&
                   opts_ok f syn (skipn (Z.to_nat (l - 2)) body)
               end
      end
  end.

Definition tcp_doff (seg : list Z) : Z := b8 seg 12 / 16.
Definition tcp_flags_of (seg : list Z) : Z := b8 seg 13.
Definition tcp_opts_of (seg : list Z) : list Z := sub seg 20 (Z.to_nat (4 * tcp_doff seg - 20)).
Definition tcp_payload_of (seg : list Z) : list Z := skipn (Z.to_nat (4 * tcp_doff seg)) seg.

(* [pseudo len] is the pseudo-header for an upper-layer packet of [len] bytes; [offload] = the link
   endpoint declared checksum offload, in which case the transport checksum is the link's job *)
Definition wf_tcp (offload : bool) (pseudo : Z -> list Z) (seg : list Z) : bool :=
  (20 <=? zlen seg) &&
  (5 <=? tcp_doff seg) && (4 * tcp_doff seg <=? zlen seg) &&      (* data offset within the segment *)
  (b8 seg 12 mod 16 =? 0) &&                                       (* reserved bits *)
  (let f := tcp_flags_of seg in
   (has f SYN || has f ACK || has f RST) && negb (has f SYN && has f FIN) && negb (has f SYN && has f RST)) &&
  (let o := tcp_opts_of seg in opts_ok (S (length o)) (has (tcp_flags_of seg) SYN) o) &&
  (offload || sums_to_ffff (pseudo (zlen seg) ++ seg)).

(* ---------------- UDP (RFC 768) ---------------- *)
(* length field = header + data = what the IP layer carries; a transmitted checksum of zero means
   "none computed" (and is illegal over IPv6, RFC 8200 8.1), so a checksummed datagram has a
   non-zero field that verifies *)
Definition wf_udp (offload : bool) (pseudo : Z -> list Z) (d : list Z) : bool :=
  (8 <=? zlen d) && (b16 d 4 =? zlen d) &&
  (offload || (negb (b16 d 6 =? 0) && sums_to_ffff (pseudo (zlen d) ++ d))).

(* ---------------- ICMPv4 (RFC 792) ---------------- *)
(* echo (8) / echo reply (0): code 0, at least identifier and sequence number; destination
   unreachable (3), time exceeded (11): 4 unused bytes + IP header + 8 bytes; the checksum covers
   the whole ICMP message, no pseudo-header *)
Definition wf_icmp4 (m : list Z) : bool :=
  (8 <=? zlen m) && sums_to_ffff m &&
  (let t := b8 m 0 in let c := b8 m 1 in
   if (t =? 0) || (t =? 8) then c =? 0
   else if t =? 3 then (c <=? 15) && (36 <=? zlen m)
   else if t =? 11 then (c <=? 1) && (36 <=? zlen m)
   else false).

(* ---------------- ICMPv6 (RFC 4443) and neighbour discovery (RFC 4861) ---------------- *)
(* NDP options: type, length in units of 8 bytes (non-zero), body; source/target link-layer
   address options (1, 2) on Ethernet are exactly 8 bytes *)
Fixpoint nd_opts_ok (fuel : nat) (o : list Z) : bool :=
  match fuel with
  | O => false
  | S f =>
      match o with
      | [] => true
      | t :: l :: _ =>
          (1 <=? l) && (8 * l <=? zlen o) &&
          (if (t =? 1) || (t =? 2) then l =? 1 else true) &&
          nd_opts_ok f (skipn (Z.to_nat (8 * l)) o)
      | _ => false
      end
  end.

Definition wf_icmp6 (hop : Z) (src dst : list Z) (m : list Z) : bool :=
  (4 <=? zlen m) && sums_to_ffff (pseudo6 src dst 58 (zlen m) ++ m) &&
  (let t := b8 m 0 in let c := b8 m 1 in
   if (t =? 128) || (t =? 129) then (c =? 0) && (8 <=? zlen m)
   else if (t =? 135) || (t =? 136) then
     (* hop limit 255, code 0, reserved/flags word, a non-multicast target, well-formed options *)
     (c =? 0) && (hop =? 255) && (24 <=? zlen m) && negb (b8 m 8 =? 255) &&
     (if t =? 135 then b32 m 4 =? 0 else (b8 m 4 mod 32 =? 0) && (b8 m 5 =? 0) && (b16 m 6 =? 0)) &&
     (let o := skipn 24 m in nd_opts_ok (S (length o)) o)
   else if (1 <=? t) && (t <=? 4) then 48 <=? zlen m
   else false).

(* ---------------- IPv4 (RFC 791) ---------------- *)
Definition ip4_ihl (b : list Z) : Z := b8 b 0 mod 16.
Definition ip4_total (b : list Z) : Z := b16 b 2.
Definition ip4_id (b : list Z) : Z := b16 b 4.
Definition ip4_ttl (b : list Z) : Z := b8 b 8.
Definition ip4_proto (b : list Z) : Z := b8 b 9.
Definition ip4_src (b : list Z) : list Z := sub b 12 4.
Definition ip4_dst (b : list Z) : list Z := sub b 16 4.
Definition ip4_payload (b : list Z) : list Z := skipn (Z.to_nat (4 * ip4_ihl b)) b.
(* a source address is a unicast address: not 0.0.0.0/8, not class D/E, not the broadcast address *)
Definition src4_ok (a : list Z) : bool := (1 <=? b8 a 0) && (b8 a 0 <? 224).

Definition wf_ipv4 (offload : bool) (b : list Z) : bool :=
  (20 <=? zlen b) &&
  (b8 b 0 / 16 =? 4) && (5 <=? ip4_ihl b) &&                       (* version, IHL in 32-bit words *)
  (ip4_total b =? zlen b) && (4 * ip4_ihl b <=? ip4_total b) &&      (* total length = what is sent *)
  sums_to_ffff (firstn (Z.to_nat (4 * ip4_ihl b)) b) &&             (* header checksum *)
  (b8 b 6 / 128 =? 0) &&                                            (* reserved flag bit *)
  (1 <=? ip4_ttl b) && src4_ok (ip4_src b) &&
  (let frag := negb (b16 b 6 mod 16384 =? 0) in                     (* MF set or offset non-zero *)
   if frag then (b8 b 6 / 64 mod 2 =? 0)                            (* a fragment does not carry DF *)
   else
     let p := ip4_proto b in
     let pl := ip4_payload b in
     let ps := pseudo4 (ip4_src b) (ip4_dst b) p in
     if p =? 6 then wf_tcp offload ps pl
     else if p =? 17 then wf_udp offload ps pl
     else if p =? 1 then wf_icmp4 pl
     else false).

(* ---------------- IPv6 (RFC 8200) ---------------- *)
Definition ip6_plen (b : list Z) : Z := b16 b 4.
Definition ip6_nh (b : list Z) : Z := b8 b 6.
Definition ip6_hop (b : list Z) : Z := b8 b 7.
Definition ip6_src (b : list Z) : list Z := sub b 8 16.
Definition ip6_dst (b : list Z) : list Z := sub b 24 16.
Definition ip6_payload (b : list Z) : list Z := skipn 40 b.

Definition wf_ipv6 (offload : bool) (b : list Z) : bool :=
  (40 <=? zlen b) && (b8 b 0 / 16 =? 6) &&
  (ip6_plen b =? zlen b - 40) &&                                    (* payload length = what follows *)
  (1 <=? ip6_hop b) && negb (b8 b 8 =? 255) &&                      (* source is not multicast *)
  (let p := ip6_nh b in
   let pl := ip6_payload b in
   let ps := pseudo6 (ip6_src b) (ip6_dst b) p in
   if p =? 6 then wf_tcp offload ps pl
   else if p =? 17 then wf_udp offload ps pl
   else if p =? 58 then wf_icmp6 (ip6_hop b) (ip6_src b) (ip6_dst b) pl
   else false).

(* ---------------- ARP for IPv4 over Ethernet (RFC 826) ---------------- *)
Definition arp_op_of (a : list Z) : Z := b16 a 6.
Definition arp_sha (a : list Z) : list Z := sub a 8 6.
Definition arp_spa (a : list Z) : list Z := sub a 14 4.
Definition arp_tha (a : list Z) : list Z := sub a 18 6.
Definition arp_tpa (a : list Z) : list Z := sub a 24 4.
Definition wf_arp (a : list Z) : bool :=
  (zlen a =? 28) && (b16 a 0 =? 1) && (b16 a 2 =? 2048) && (b8 a 4 =? 6) && (b8 a 5 =? 4) &&
  ((arp_op_of a =? 1) || (arp_op_of a =? 2)) &&
  (b8 a 8 mod 2 =? 0) &&                                 (* the sender hardware address is unicast *)
  (if arp_op_of a =? 2 then (b8 a 18 mod 2 =? 0) && negb (all_eq 0 (arp_tha a)) else true).

(* ---------------- Ethernet II (RFC 894) ---------------- *)
Definition eth_dst (f : list Z) : list Z := sub f 0 6.
Definition eth_src (f : list Z) : list Z := sub f 6 6.
Definition eth_type_of (f : list Z) : Z := b16 f 12.

(* a network-layer packet as handed to the link endpoint with EtherType [proto] *)
Definition wf_net (offload : bool) (proto : Z) (p : list Z) : bool :=
  all_bytes p &&
  (if proto =? 2048 then wf_ipv4 offload p
   else if proto =? 34525 then wf_ipv6 offload p
   else if proto =? 2054 then wf_arp p
   else false).

Definition wf_eth (offload : bool) (f : list Z) : bool :=
  (14 <=? zlen f) && all_bytes f &&
  (b8 f 6 mod 2 =? 0) &&                                  (* the source address is unicast *)
  wf_net offload (eth_type_of f) (skipn 14 f) &&
  (if eth_type_of f =? 2054 then leq (arp_sha (skipn 14 f)) (eth_src f) else true).

(* link = 0: the link endpoint was handed a bare network-layer packet and [proto];
   link = 1: an Ethernet frame read from the wire *)
Definition wf_frame (link proto : Z) (offload : bool) (f : list Z) : bool :=
  if link =? 1 then wf_eth offload f else wf_net offload proto f.

(* ---------------- decoded views (what a receiver reads) ---------------- *)
Record tcp_view := mkTV {
  tvSport : Z; tvDport : Z; tvSeq : Z; tvAck : Z; tvFlags : Z; tvWnd : Z; tvUrg : Z;
  tvOpts : list Z; tvPayload : list Z }.
Definition view_tcp (seg : list Z) : tcp_view :=
  mkTV (b16 seg 0) (b16 seg 2) (b32 seg 4) (b32 seg 8) (tcp_flags_of seg) (b16 seg 14) (b16 seg 18)
       (tcp_opts_of seg) (tcp_payload_of seg).

Record udp_view := mkUV { uvSport : Z; uvDport : Z; uvLen : Z; uvPayload : list Z }.
Definition view_udp (d : list Z) : udp_view := mkUV (b16 d 0) (b16 d 2) (b16 d 4) (skipn 8 d).

Record ip_view := mkIV {
  ivSrc : list Z; ivDst : list Z; ivProto : Z; ivTTL : Z; ivId : Z; ivPayload : list Z }.
Definition view_ip4 (b : list Z) : ip_view :=
  mkIV (ip4_src b) (ip4_dst b) (ip4_proto b) (ip4_ttl b) (ip4_id b) (ip4_payload b).
Definition view_ip6 (b : list Z) : ip_view :=
  mkIV (ip6_src b) (ip6_dst b) (ip6_nh b) (ip6_hop b) 0 (ip6_payload b).

(* ---------------- route selection (the property text, not an RFC) ----------------
   "The source is an address of the interface chosen by the first matching route entry."
   A route entry is (destination, mask, gateway, NIC id); a NIC is (id, its addresses for the
   queried protocol in order).  An entry is eligible for a query (NIC filter [id], 0 = any; bound
   local address [laddr], [] = none; destination [raddr], [] = none) when the filter admits its NIC,
   destination & mask matches, and its NIC exists and has a usable address: the bound address if
   one is given, otherwise the first address that is neither 0.0.0.0 nor 255.255.255.255. *)
Definition rt_entry : Type := list Z * list Z * list Z * Z.
Definition rt_dst (e : rt_entry) : list Z := fst (fst (fst e)).
Definition rt_mask (e : rt_entry) : list Z := snd (fst (fst e)).
Definition rt_gw (e : rt_entry) : list Z := snd (fst e).
Definition rt_nic (e : rt_entry) : Z := snd e.
Definition rt_iface : Type := Z * list (list Z).

Definition mask_match (e : rt_entry) (a : list Z) : bool :=
  Nat.eqb (length a) (length (rt_dst e)) &&
  forallb (fun t => Z.land (fst (fst t)) (snd (fst t)) =? snd t) (combine (combine a (rt_mask e)) (rt_dst e)).
Definition usable_addr (nics : list rt_iface) (nic : Z) (laddr : list Z) : option (list Z) :=
  match find (fun n => fst n =? nic) nics with
  | None => None
  | Some n =>
      match laddr with
      | [] => find (fun a => negb (leq a [255; 255; 255; 255]) && negb (leq a [0; 0; 0; 0])) (snd n)
      | _ => if existsb (leq laddr) (snd n) then Some laddr else None
      end
  end.
Definition is_some {A} (o : option A) : bool := match o with Some _ => true | None => false end.
Definition eligible (nics : list rt_iface) (id : Z) (laddr raddr : list Z) (e : rt_entry) : bool :=
  ((id =? 0) || (id =? rt_nic e)) &&
  (match raddr with [] => true | _ => mask_match e raddr end) &&
  is_some (usable_addr nics (rt_nic e) laddr).
(* the answer the property dictates: None = ErrNoRoute, Some (NIC, source address, next hop) *)
Definition first_match (table : list rt_entry) (nics : list rt_iface) (id : Z) (laddr raddr : list Z)
  : option (Z * list Z * list Z) :=
  match filter (eligible nics id laddr raddr) table with
  | [] => None
  | e :: _ =>
      match usable_addr nics (rt_nic e) laddr with
      | Some a => Some (rt_nic e, a, rt_gw e)
      | None => None
      end
  end.
