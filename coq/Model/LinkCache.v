(* Model of stack/linkaddrcache.go: the link-address (neighbour) cache, with time as an explicit
   input of every operation, and the resolver goroutine (startAddressResolution) as a
   transition system.  Executable definitions only; proofs are in Proofs/LinkCacheP.v.

   Representation
   * tcpip.FullAddress keys and tcpip.LinkAddress values are Go strings/structs that the cache only
     compares for equality: both are [Z] under an injective encoding chosen by the user of the
     model; 0 encodes the zero value (FullAddress{} resp. the empty link address "").
   * time.Time is a [Z] (any unit); [now] is what time.Now() returns inside the operation (one
     value per operation: the calls inside one critical section are microseconds apart).
   * entries [linkAddrCacheSize]linkAddrEntry is [c_ent : nat -> entry] used on indices below
     [p_N]; cache map[FullAddress]*linkAddrEntry is [c_map : Z -> option nat] (a pointer into the
     array = its index), so [c.cache[entry.addr] == entry] is [c_map (e_addr e) = Some i].
   * *sleep.Waker values are [Z] identifiers; wakers map[*Waker]struct{} is a duplicate-free list,
     [None] = the nil map (writing to it is a Go panic).  done chan struct{} is the identifier of
     the channel ([None] = nil); channels are numbered in order of creation ([c_chan]).
   * what an operation does to the outside: [Notify g w] = w.Assert() by the entry whose done
     channel is g, [Close ch] = close(ch); inside one operation their order is the Go map
     iteration order, so they are compared as sets.
   * a Go panic is [None].  entryState is an int that is only ever assigned the four constants, so
     it is an enumeration here and the "invalid state" default branches have no counterpart. *)
From Coq Require Import ZArith List Bool.
Import ListNotations.
Open Scope Z_scope.

(* const ( incomplete entryState = iota; ready; failed; expired ) *)
Inductive st := Incomplete | Ready | Failed | Expired.
Definition st_eqb (a b : st) : bool :=
  match a, b with
  | Incomplete, Incomplete | Ready, Ready | Failed, Failed | Expired, Expired => true
  | _, _ => false
  end.

(* type linkAddrEntry struct { addr tcpip.FullAddress; linkAddr tcpip.LinkAddress;
     expiration time.Time; s entryState; wakers map[*sleep.Waker]struct{}; done chan struct{} } *)
Record entry := mkEntry {
  e_addr : Z; e_link : Z; e_exp : Z; e_s : st;
  e_wakers : option (list Z); e_done : option Z }.

(* the zero value of linkAddrEntry (what the array holds initially); its expiration (the zero
   time.Time) is never read: state() is only called on entries reached through the map *)
Definition zero_entry : entry := mkEntry 0 0 0 Incomplete None None.

Inductive ev := Notify (g : option Z) (w : Z) | Close (ch : Z).

(* type linkAddrCache struct { ageLimit; resolutionTimeout; resolutionAttempts; mu; cache; next; entries } *)
Record params := mkParams { p_N : nat; p_age : Z; p_attempts : Z }.
Record cache := mkCache {
  c_map : Z -> option nat; c_next : nat; c_ent : nat -> entry; c_chan : Z }.

(* newLinkAddrCache *)
Definition init : cache := mkCache (fun _ => None) 0 (fun _ => zero_entry) 0.

Definition set_ent (c : cache) (i : nat) (e : entry) : cache :=
  mkCache (c_map c) (c_next c) (fun j => if Nat.eqb j i then e else c_ent c j) (c_chan c).
Definition set_map (c : cache) (k : Z) (v : option nat) : cache :=
  mkCache (fun x => if x =? k then v else c_map c x) (c_next c) (c_ent c) (c_chan c).

Definition wakers_of (e : entry) : list Z := match e_wakers e with Some l => l | None => [] end.

(* func (e *linkAddrEntry) changeState(ns entryState) {
     if e.s == ns { return }
     switch e.s {
     case incomplete:            // All transitions are valid.
     case ready, failed: if ns != expired { panic(...) }
     case expired: panic(...)    // Terminal state.
     default: panic(...) }
     if e.s == incomplete {
        for w := range e.wakers { w.Assert() }
        e.wakers = nil
        if e.done != nil { close(e.done) } }
     e.s = ns } *)
Definition changeState (e : entry) (ns : st) : option (entry * list ev) :=
  if st_eqb (e_s e) ns then Some (e, []) else
  match e_s e with
  | Incomplete =>
      Some (mkEntry (e_addr e) (e_link e) (e_exp e) ns None (e_done e),
            map (Notify (e_done e)) (wakers_of e) ++
            match e_done e with Some ch => [Close ch] | None => [] end)
  | Ready | Failed =>
      if st_eqb ns Expired
      then Some (mkEntry (e_addr e) (e_link e) (e_exp e) ns (e_wakers e) (e_done e), [])
      else None
  | Expired => None
  end.

(* func (e *linkAddrEntry) state() entryState {
     if e.s != expired && time.Now().After(e.expiration) { e.changeState(expired) }
     return e.s } *)
Definition state (e : entry) (now : Z) : option (entry * list ev) :=
  if negb (st_eqb (e_s e) Expired) && (e_exp e <? now) then changeState e Expired else Some (e, []).

(* func (e *linkAddrEntry) addWaker(w *sleep.Waker) { e.wakers[w] = struct{}{} } *)
Definition addWaker (e : entry) (w : Z) : option entry :=
  match e_wakers e with
  | None => None   (* assignment to entry in nil map *)
  | Some l => Some (mkEntry (e_addr e) (e_link e) (e_exp e) (e_s e)
                      (Some (if existsb (Z.eqb w) l then l else l ++ [w])) (e_done e))
  end.

(* func (e *linkAddrEntry) removeWaker(w *sleep.Waker) { delete(e.wakers, w) }   (no-op on nil) *)
Definition removeWakerE (e : entry) (w : Z) : entry :=
  mkEntry (e_addr e) (e_link e) (e_exp e) (e_s e)
    (match e_wakers e with Some l => Some (filter (fun x => negb (x =? w)) l) | None => None end) (e_done e).

Definition opt_nat_eqb (a : option nat) (i : nat) : bool :=
  match a with Some j => Nat.eqb j i | None => false end.

(* func (c *linkAddrCache) makeAndAddEntry(k tcpip.FullAddress, v tcpip.LinkAddress) *linkAddrEntry {
     entry := &c.entries[c.next]
     if c.cache[entry.addr] == entry { delete(c.cache, entry.addr) }
     entry.changeState(expired)
     *entry = linkAddrEntry{ addr: k, linkAddr: v, expiration: time.Now().Add(c.ageLimit),
                             wakers: make(map[*sleep.Waker]struct{}), done: make(chan struct{}) }
     c.cache[k] = entry
     c.next = (c.next + 1) % len(c.entries)
     return entry }
   result: the cache, the index of the new entry, the events of expiring the old occupant *)
Definition makeAndAddEntry (P : params) (c : cache) (now k v : Z) : option (cache * nat * list ev) :=
  let i := c_next c in
  let old := c_ent c i in
  let c1 := if opt_nat_eqb (c_map c (e_addr old)) i then set_map c (e_addr old) None else c in
  match changeState old Expired with
  | None => None
  | Some (_, evs) =>
      let ne := mkEntry k v (now + p_age P) Incomplete (Some []) (Some (c_chan c)) in
      let c2 := set_map (set_ent c1 i ne) k (Some i) in
      Some (mkCache (c_map c2) (Nat.modulo (i + 1) (p_N P)) (c_ent c2) (c_chan c + 1), i, evs)
  end.

(* func (c *linkAddrCache) add(k tcpip.FullAddress, v tcpip.LinkAddress) {
     c.mu.Lock(); defer c.mu.Unlock()
     entry, ok := c.cache[k]
     if ok {
        s := entry.state()
        if s != expired && entry.linkAddr == v { return }     // Disregard repeated calls.
        if s == incomplete { entry.linkAddr = v }             // waiting for address resolution
        else { entry = c.makeAndAddEntry(k, v) }              // create a new entry to replace it
     } else { entry = c.makeAndAddEntry(k, v) }
     entry.changeState(ready) } *)
Definition finish_ready (c : cache) (j : nat) (evs : list ev) : option (cache * list ev) :=
  match changeState (c_ent c j) Ready with
  | None => None
  | Some (e, ev2) => Some (set_ent c j e, evs ++ ev2)
  end.

Definition add (P : params) (c : cache) (now k v : Z) : option (cache * list ev) :=
  match c_map c k with
  | Some i =>
      match state (c_ent c i) now with
      | None => None
      | Some (e1, ev1) =>
          let c1 := set_ent c i e1 in
          if negb (st_eqb (e_s e1) Expired) && (e_link e1 =? v) then Some (c1, ev1)
          else if st_eqb (e_s e1) Incomplete then
            finish_ready (set_ent c1 i (mkEntry (e_addr e1) v (e_exp e1) (e_s e1) (e_wakers e1) (e_done e1))) i ev1
          else
            match makeAndAddEntry P c1 now k v with
            | None => None
            | Some (c2, j, ev2) => finish_ready c2 j (ev1 ++ ev2)
            end
      end
  | None =>
      match makeAndAddEntry P c now k v with
      | None => None
      | Some (c2, j, ev2) => finish_ready c2 j ev2
      end
  end.

(* result of get: a link address / ErrNoLinkAddress / ErrWouldBlock with the done channel;
   [spawned] = a resolver goroutine was started (go c.startAddressResolution(...)) *)
Inductive gret := GAddr (v : Z) | GNoLink | GBlock (ch : option Z) (spawned : bool).

(* func (c *linkAddrCache) get(k, linkRes, localAddr, linkEP, waker) (tcpip.LinkAddress, <-chan struct{}, *tcpip.Error) {
     if linkRes != nil { if addr, ok := linkRes.ResolveStaticAddress(k.Addr); ok { return addr, nil, nil } }
     c.mu.Lock(); defer c.mu.Unlock()
     if entry, ok := c.cache[k]; ok {
        switch s := entry.state(); s {
        case expired:
        case ready:      return entry.linkAddr, nil, nil
        case failed:     return "", nil, tcpip.ErrNoLinkAddress
        case incomplete: entry.addWaker(waker); return "", entry.done, tcpip.ErrWouldBlock
        default: panic(...) } }
     if linkRes == nil { return "", nil, tcpip.ErrNoLinkAddress }
     e := c.makeAndAddEntry(k, "")       // 'incomplete' entry: resolution is in progress
     e.addWaker(waker)
     go c.startAddressResolution(k, linkRes, localAddr, linkEP, e.done)
     return "", e.done, tcpip.ErrWouldBlock }
   [res]: None = linkRes is nil; Some None = a resolver with no static answer for k;
   Some (Some a) = linkRes.ResolveStaticAddress(k.Addr) answers a. *)
Definition get_miss (P : params) (c : cache) (now k : Z) (res : option (option Z)) (w : Z) (evs : list ev)
  : option (cache * gret * list ev) :=
  match res with
  | None => Some (c, GNoLink, evs)
  | Some _ =>
      match makeAndAddEntry P c now k 0 with
      | None => None
      | Some (c2, j, ev2) =>
          match addWaker (c_ent c2 j) w with
          | None => None
          | Some e => Some (set_ent c2 j e, GBlock (e_done e) true, evs ++ ev2)
          end
      end
  end.

Definition get (P : params) (c : cache) (now k : Z) (res : option (option Z)) (w : Z)
  : option (cache * gret * list ev) :=
  match res with
  | Some (Some a) => Some (c, GAddr a, [])
  | _ =>
    match c_map c k with
    | Some i =>
        match state (c_ent c i) now with
        | None => None
        | Some (e1, ev1) =>
            let c1 := set_ent c i e1 in
            match e_s e1 with
            | Expired => get_miss P c1 now k res w ev1
            | Ready => Some (c1, GAddr (e_link e1), ev1)
            | Failed => Some (c1, GNoLink, ev1)
            | Incomplete =>
                match addWaker e1 w with
                | None => None
                | Some e2 => Some (set_ent c1 i e2, GBlock (e_done e2) false, ev1)
                end
            end
        end
    | None => get_miss P c now k res w []
    end
  end.

(* func (c *linkAddrCache) removeWaker(k tcpip.FullAddress, waker *sleep.Waker) {
     c.mu.Lock(); defer c.mu.Unlock()
     if entry, ok := c.cache[k]; ok { entry.removeWaker(waker) } } *)
Definition removeWaker (c : cache) (k w : Z) : cache :=
  match c_map c k with
  | Some i => set_ent c i (removeWakerE (c_ent c i) w)
  | None => c
  end.

(* func (c *linkAddrCache) checkLinkRequest(k tcpip.FullAddress, attempt int) bool {
     c.mu.Lock(); defer c.mu.Unlock()
     entry, ok := c.cache[k]
     if !ok { return true }                       // Entry was evicted from the cache.
     switch s := entry.state(); s {
     case ready, failed, expired: return true     // made ready by resolver or failed
     case incomplete:
        if attempt+1 >= c.resolutionAttempts { entry.changeState(failed); return true }
        return false                              // need to send another request
     default: panic(...) } } *)
Definition checkLinkRequest (P : params) (c : cache) (now k attempt : Z) : option (cache * bool * list ev) :=
  match c_map c k with
  | None => Some (c, true, [])
  | Some i =>
      match state (c_ent c i) now with
      | None => None
      | Some (e1, ev1) =>
          let c1 := set_ent c i e1 in
          match e_s e1 with
          | Ready | Failed | Expired => Some (c1, true, ev1)
          | Incomplete =>
              if p_attempts P <=? attempt + 1 then
                match changeState e1 Failed with
                | None => None
                | Some (e2, ev2) => Some (set_ent c1 i e2, true, ev1 ++ ev2)
                end
              else Some (c1, false, ev1)
          end
      end
  end.

(* ---- histories: one operation of the cache with its time ---- *)
Inductive op :=
| OAdd (now k v : Z)
| OGet (now k : Z) (res : option (option Z)) (w : Z)
| OCheck (now k attempt : Z)
| ORemoveWaker (now k w : Z).

Definition time_of (o : op) : Z :=
  match o with OAdd t _ _ | OGet t _ _ _ | OCheck t _ _ | ORemoveWaker t _ _ => t end.

Inductive ret := RNone | RGet (g : gret) | RCheck (stop : bool).

Definition step (P : params) (c : cache) (o : op) : option (cache * ret * list ev) :=
  match o with
  | OAdd now k v => match add P c now k v with Some (c', e) => Some (c', RNone, e) | None => None end
  | OGet now k res w => match get P c now k res w with Some (c', g, e) => Some (c', RGet g, e) | None => None end
  | OCheck now k a => match checkLinkRequest P c now k a with Some (c', b, e) => Some (c', RCheck b, e) | None => None end
  | ORemoveWaker _ k w => Some (removeWaker c k w, RNone, [])
  end.

(* run a history; the results and events of every operation in order; None = a panic *)
Fixpoint exec (P : params) (c : cache) (ops : list op) : option (cache * list (ret * list ev)) :=
  match ops with
  | [] => Some (c, [])
  | o :: rest =>
      match step P c o with
      | None => None
      | Some (c1, r, e) =>
          match exec P c1 rest with
          | None => None
          | Some (c2, outs) => Some (c2, (r, e) :: outs)
          end
      end
  end.

(* ---- the resolver goroutine ----
   func (c *linkAddrCache) startAddressResolution(k, linkRes, localAddr, linkEP, done <-chan struct{}) {
     for i := 0; ; i++ {
        linkRes.LinkAddressRequest(k.Addr, localAddr, linkEP)     // send link request
        select {
        case <-time.After(c.resolutionTimeout):
            if stop := c.checkLinkRequest(k, i); stop { return }
        case <-done:
            return } } }
   A resolver is (key, attempt counter i, its done channel, alive).  Two transitions:
   [res_timer]: the timer case, enabled resolutionTimeout after the last request: runs
   checkLinkRequest(k, i); when that says "go on" the next request is sent at once (the bool);
   [res_done]: the done case, enabled once the channel is closed. *)
Record resolver := mkRes { r_k : Z; r_i : Z; r_done : option Z; r_alive : bool }.

Definition res_timer (P : params) (c : cache) (now : Z) (r : resolver)
  : option (cache * resolver * bool * list ev) :=
  match checkLinkRequest P c now (r_k r) (r_i r) with
  | None => None
  | Some (c', stop, evs) =>
      if stop then Some (c', mkRes (r_k r) (r_i r) (r_done r) false, false, evs)
      else Some (c', mkRes (r_k r) (r_i r + 1) (r_done r) true, true, evs)
  end.

Definition res_done (r : resolver) : resolver := mkRes (r_k r) (r_i r) (r_done r) false.

(* One whole resolution on the punctual schedule: the request number i was sent at time [t]; the
   environment then performs the operations [env] (the head of [envs]), the timer fires at
   [t + T] and checkLinkRequest(k, i) runs; and so on until it says stop.  Result: final cache,
   the times at which requests i+1, i+2, ... were sent, the time of the last check, and the
   (result, events) of every operation including the checks, in order.
   [None]: a panic; [Some (_, _, None, _)]: [envs] ran out before the resolver stopped. *)
Fixpoint res_run (P : params) (T : Z) (k : Z) (c : cache) (t : Z) (i : Z) (envs : list (list op))
  : option (cache * list Z * option Z * list (ret * list ev)) :=
  match envs with
  | [] => Some (c, [], None, [])
  | env :: rest =>
      match exec P c env with
      | None => None
      | Some (c1, outs1) =>
          match checkLinkRequest P c1 (t + T) k i with
          | None => None
          | Some (c2, stop, evs) =>
              if stop then Some (c2, [], Some (t + T), outs1 ++ [(RCheck true, evs)])
              else match res_run P T k c2 (t + T) (i + 1) rest with
                   | None => None
                   | Some (c3, reqs, fin, outs) =>
                       Some (c3, (t + T) :: reqs, fin, outs1 ++ (RCheck false, evs) :: outs)
                   end
          end
      end
  end.

(* the constants of stack/stack.go, times in nanoseconds:
     ageLimit = 1 * time.Minute; resolutionTimeout = 1 * time.Second; resolutionAttempts = 3;
   linkAddrCacheSize = 512 *)
Definition stackParams : params := mkParams 512 60000000000 3.
Definition stackTimeout : Z := 1000000000.
