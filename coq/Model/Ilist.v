(* Model of /repo/pkg/ilist/list.go: the intrusive doubly-linked list, on an explicit pointer
   heap.  Executable definitions only; no proofs here.

   An Element (a Go pointer to a struct embedding ilist.Entry) is an entry id [Z]; the nil
   Element is [None].  The heap gives, for every entry id, the two fields of its ilist.Entry
   ([next], [prev]); a List value is the pair ([lhead], [ltail]) = Go's (head, tail).  Every method is written
   pointer write for pointer write, in the order of the Go source, so that the behaviour on
   mis-use (e.g. pushing an element that is already linked) is the code's behaviour too. *)
From Coq Require Import ZArith List.
Import ListNotations.
Open Scope Z_scope.

Definition ptr := option Z.

(* type Entry struct { next Element; prev Element }    -- one per entry id
   type List  struct { head Element; tail Element } *)
Record st := mkSt {
  nxt : Z -> ptr;
  prv : Z -> ptr;
  lhead : ptr;
  ltail : ptr
}.

Definition upd (f : Z -> ptr) (k : Z) (v : ptr) : Z -> ptr :=
  fun x => if x =? k then v else f x.

(* func (e *Entry) SetNext(elem Element) { e.next = elem } *)
Definition setNext (s : st) (e : Z) (v : ptr) : st := mkSt (upd (nxt s) e v) (prv s) (lhead s) (ltail s).
(* func (e *Entry) SetPrev(elem Element) { e.prev = elem } *)
Definition setPrev (s : st) (e : Z) (v : ptr) : st := mkSt (nxt s) (upd (prv s) e v) (lhead s) (ltail s).
Definition setHead (s : st) (v : ptr) : st := mkSt (nxt s) (prv s) v (ltail s).
Definition setTail (s : st) (v : ptr) : st := mkSt (nxt s) (prv s) (lhead s) v.

(* the zero value: "The zero value for List is an empty list ready to use"; fresh entries have
   nil links *)
Definition emptyL : st := mkSt (fun _ => None) (fun _ => None) None None.

(* func (l *List) Reset() { l.head = nil; l.tail = nil } *)
Definition reset (s : st) : st := setTail (setHead s None) None.

(* func (l *List) Empty() bool { return l.head == nil } *)
Definition isEmptyL (s : st) : bool := match lhead s with None => true | Some _ => false end.

(* func (l *List) Front() Element { return l.head } *)
Definition front (s : st) : ptr := lhead s.
(* func (l *List) Back() Element { return l.tail } *)
Definition back (s : st) : ptr := ltail s.

(* func (l *List) PushFront(e Element) {
     e.SetNext(l.head)
     e.SetPrev(nil)
     if l.head != nil { l.head.SetPrev(e) } else { l.tail = e }
     l.head = e } *)
Definition pushFront (s : st) (e : Z) : st :=
  let s1 := setNext s e (lhead s) in
  let s2 := setPrev s1 e None in
  let s3 := match lhead s2 with
            | Some h => setPrev s2 h (Some e)
            | None => setTail s2 (Some e)
            end in
  setHead s3 (Some e).

(* func (l *List) PushBack(e Element) {
     e.SetNext(nil)
     e.SetPrev(l.tail)
     if l.tail != nil { l.tail.SetNext(e) } else { l.head = e }
     l.tail = e } *)
Definition pushBack (s : st) (e : Z) : st :=
  let s1 := setNext s e None in
  let s2 := setPrev s1 e (ltail s1) in
  let s3 := match ltail s2 with
            | Some t => setNext s2 t (Some e)
            | None => setHead s2 (Some e)
            end in
  setTail s3 (Some e).

(* func (l *List) PushBackList(m *List) {
     if l.head == nil { l.head = m.head; l.tail = m.tail }
     else if m.head != nil {
       l.tail.SetNext(m.head); m.head.SetPrev(l.tail)
       l.tail = m.tail }
     m.head = nil; m.tail = nil }
   The second list lives on the same heap and is given by its (head, tail); the result is the
   new l together with the new (head, tail) of m.  [l.tail.SetNext] on a nil tail is a nil
   dereference in Go: modelled by [None]. *)
Definition pushBackList (s : st) (mh mt : ptr) : option (st * (ptr * ptr)) :=
  match lhead s with
  | None => Some (setTail (setHead s mh) mt, (None, None))
  | Some _ =>
      match mh with
      | Some mhd =>
          match ltail s with
          | None => None
          | Some t =>
              let s1 := setNext s t (Some mhd) in
              let s2 := setPrev s1 mhd (ltail s1) in
              Some (setTail s2 mt, (None, None))
          end
      | None => Some (s, (None, None))
      end
  end.

(* func (l *List) InsertAfter(b, e Element) {
     a := b.Next()
     e.SetNext(a); e.SetPrev(b); b.SetNext(e)
     if a != nil { a.SetPrev(e) } else { l.tail = e } } *)
Definition insertAfter (s : st) (b e : Z) : st :=
  let a := nxt s b in
  let s1 := setNext s e a in
  let s2 := setPrev s1 e (Some b) in
  let s3 := setNext s2 b (Some e) in
  match a with
  | Some a' => setPrev s3 a' (Some e)
  | None => setTail s3 (Some e)
  end.

(* func (l *List) InsertBefore(a, e Element) {
     b := a.Prev()
     e.SetNext(a); e.SetPrev(b); a.SetPrev(e)
     if b != nil { b.SetNext(e) } else { l.head = e } } *)
Definition insertBefore (s : st) (a e : Z) : st :=
  let b := prv s a in
  let s1 := setNext s e (Some a) in
  let s2 := setPrev s1 e b in
  let s3 := setPrev s2 a (Some e) in
  match b with
  | Some b' => setNext s3 b' (Some e)
  | None => setHead s3 (Some e)
  end.

(* func (l *List) Remove(e Element) {
     prev := e.Prev()
     next := e.Next()
     if prev != nil { prev.SetNext(next) } else { l.head = next }
     if next != nil { next.SetPrev(prev) } else { l.tail = prev } }
   N.B. the removed entry's own next/prev fields are NOT cleared. *)
Definition removeE (s : st) (e : Z) : st :=
  let prev := prv s e in
  let next := nxt s e in
  let s1 := match prev with
            | Some p => setNext s p next
            | None => setHead s next
            end in
  match next with
  | Some n => setPrev s1 n prev
  | None => setTail s1 prev
  end.

(* for e := l.Front(); e != nil; e = e.Next() { ... }
   The iteration every user of the list writes: follow [next] from [head].  [fuel] bounds the
   number of steps; [None] = fuel exhausted (the Go loop would still be running). *)
Fixpoint walk (fuel : nat) (nx : Z -> ptr) (p : ptr) : option (list Z) :=
  match p with
  | None => Some []
  | Some e =>
      match fuel with
      | O => None
      | S f => match walk f nx (nx e) with
               | Some l => Some (e :: l)
               | None => None
               end
      end
  end.

Definition toList (fuel : nat) (s : st) : option (list Z) := walk fuel (nxt s) (lhead s).

(* the same backwards: for e := l.Back(); e != nil; e = e.Prev() *)
Definition toListRev (fuel : nat) (s : st) : option (list Z) := walk fuel (prv s) (ltail s).
