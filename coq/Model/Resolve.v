(* Model of stack/route.go Resolve / IsResolutionRequired: which address a sender asks the
   link-address cache for before it may write to a route.  Executable definitions only.
   Addresses are byte lists ("" = the empty list). *)
From Coq Require Import ZArith List Bool.
From NP Require Import Model.Arp.
Import ListNotations.
Open Scope Z_scope.

(* what Resolve does before it touches the cache *)
Inductive next_hop :=
| Known (linkAddr : list Z)      (* r.RemoteLinkAddress is (now) set; nothing to resolve *)
| Ask (addr : list Z).           (* linkCache.GetLinkAddress(nic, addr, r.LocalAddress, r.NetProto, waker) *)

(* func (r *Route) IsResolutionRequired() bool { return r.ref.linkCache != nil && r.RemoteLinkAddress == "" }

   func (r *Route) Resolve(waker *sleep.Waker) (<-chan struct{}, *tcpip.Error) {
     if !r.IsResolutionRequired() { return nil, nil }
     nextAddr := r.NextHop
     if nextAddr == "" {
        // Local link address is already known.
        if r.RemoteAddress == r.LocalAddress { r.RemoteLinkAddress = r.LocalLinkAddress; return nil, nil }
        nextAddr = r.RemoteAddress }
     linkAddr, ch, err := r.ref.linkCache.GetLinkAddress(r.ref.nic.ID(), nextAddr, r.LocalAddress, r.NetProto, waker)
     if err != nil { return ch, err }
     r.RemoteLinkAddress = linkAddr
     return nil, nil }
   [hasCache]: the link endpoint declares CapabilityResolutionRequired (ref.linkCache != nil) *)
Definition resolve_next (hasCache : bool) (remoteLink localLink nextHop remote local : list Z) : next_hop :=
  if negb hasCache || negb (bytes_eqb remoteLink []) then Known remoteLink
  else if bytes_eqb nextHop [] then
    if bytes_eqb remote local then Known localLink else Ask remote
  else Ask nextHop.
