(* Model of IPv6 neighbour discovery as far as property C12 needs it:
   /repo/protocol/network/ipv6/icmp.go (handleICMP: the ICMPv6NeighborSolicit and
   ICMPv6NeighborAdvert branches; LinkAddressRequest; ResolveStaticAddress; icmpChecksum is
   Model/Echo.v's [icmp6Checksum]), /repo/protocol/header/ipv6.go (SolicitedNodeAddr), and the path
   in front of handleICMP (stack/nic.go DeliverNetworkPacket + ipv6.HandlePacket = Model/Echo.v's
   [nic6_deliver]) and behind it (ipv6 WritePacket = [ip6_write]).
   Executable definitions only; proofs are in Proofs/NdpP.v.

   Conventions as in Model/Arp.v and Model/Echo.v: a []byte / tcpip.Address / tcpip.LinkAddress is a
   [list Z] of bytes, a buffer.VectorisedView the list of its views; an out-of-range index or slice
   (Go panic) is [None] in the option monad and [NdPanic] in the handler result.

   What the code does NOT do, and the model therefore does not either: no ICMPv6 checksum
   verification of inbound messages, no hop-limit = 255 test, no test of the ICMP code, no parsing of
   the source/target link-layer address options (the link address that is learned is the
   link-layer source of the frame, r.RemoteLinkAddress), no test of the solicited/override flags,
   and the NIC does not join a solicited-node multicast group by itself: a packet reaches the
   handler only when its destination address has been added to the NIC (nic.getRef). *)
From Coq Require Import ZArith List Bool.
From NP Require Import Model.Bytes Model.Checksum Model.HdrIP Model.Echo Model.Arp.
Import ListNotations.
Open Scope Z_scope.

(* const ICMPv6MinimumSize = 4; ICMPv6NeighborSolicitMinimumSize = ICMPv6MinimumSize + 4 + 16;
         ICMPv6NeighborAdvertSize = 32; ICMPv6NeighborSolicit = 135; ICMPv6NeighborAdvert = 136
   const ndpSolicitedFlag = 1 << 6; ndpOverrideFlag = 1 << 5; ndpOptSrcLinkAddr = 1;
         ndpOptDstLinkAddr = 2; icmpV6FlagOffset = 4; icmpV6OptOffset = 24; icmpV6LengthOffset = 25 *)
Definition ICMPv6NeighborSolicit : Z := 135.
Definition ICMPv6NeighborAdvert : Z := 136.
Definition ndpSolicitedFlag : Z := 64.
Definition ndpOverrideFlag : Z := 32.
Definition ndpOptSrcLinkAddr : Z := 1.
Definition ndpOptDstLinkAddr : Z := 2.

(* the stack.Route handed to handleICMP by NIC.DeliverNetworkPacket:
     r := makeRoute(protocol, dst, src, linkEP.LinkAddress(), ref); r.RemoteLinkAddress = remoteLinkAddr
   LocalAddress = the packet's destination, RemoteAddress = its source, LocalLinkAddress = the link
   endpoint's address, RemoteLinkAddress = the link-layer source of the frame *)
Record nroute := mkNRoute {
  nr_local : list Z; nr_remote : list Z; nr_localLink : list Z; nr_remoteLink : list Z }.

(* what r.WritePacket(hdr, VectorisedView{}, ICMPv6ProtocolNumber, r.DefaultTTL()) is called with, and
   the link address the link endpoint sends it to (r.RemoteLinkAddress) *)
Record nd_packet := mkNdPacket {
  np_src : list Z; np_dst : list Z; np_hop : Z; np_icmp : list Z; np_linkdst : list Z }.

(* result of handleICMP: at most one packet written, and the AddLinkAddress(nicid, addr, linkAddr)
   calls in program order; [NdOther] = the message is not a neighbour solicitation / advertisement
   (the other branches of the switch: Model/Echo.v handleICMP6) *)
Inductive nd_result :=
| NdPanic
| NdOther
| NdDone (sent : option nd_packet) (learn : list (list Z * list Z)).

(* copy(pkt[icmpV6OptOffset-len(a):], a) on the 32-byte message: a negative slice index (panic) when
   len(a) > 24; otherwise all of [a] is copied in front of the option *)
Definition copy_before_opt (pkt a : list Z) : option (list Z) :=
  if (24 <? length a)%nat then None
  else copy_into pkt (24 - length a) (32 - (24 - length a)) a.

(* the advertisement built by the ICMPv6NeighborSolicit branch:
     hdr := buffer.NewPrependable(int(r.MaxHeaderLength()) + header.IPv6MinimumSize + header.ICMPv6NeighborAdvertSize)
     pkt := header.ICMPv6(hdr.Prepend(header.ICMPv6NeighborAdvertSize))        -- 32 fresh zero bytes
     pkt.SetType(header.ICMPv6NeighborAdvert)
     pkt[icmpV6FlagOffset] = ndpSolicitedFlag | ndpOverrideFlag
     copy(pkt[icmpV6OptOffset-len(targetAddr):], targetAddr)                   -- targetAddr = v[8:24]: pkt[8:]
     pkt[icmpV6OptOffset] = ndpOptDstLinkAddr
     pkt[icmpV6LengthOffset] = 1
     copy(pkt[icmpV6LengthOffset+1:], r.LocalLinkAddress[:])
     r := r.Clone(); defer r.Release(); r.LocalAddress = targetAddr
     pkt.SetChecksum(icmpChecksum(pkt, r.LocalAddress, r.RemoteAddress, buffer.VectorisedView{}))
   [target] has 16 bytes (it is a slice v[8:8+16]); the flags are disjoint bits, so | is + *)
Definition nd_advert (target localLink remote : list Z) : option (list Z) :=
  let pkt := repeat 0 32 in
  pkt <- put8 pkt 0 ICMPv6NeighborAdvert ;;
  pkt <- upd pkt 4 (ndpSolicitedFlag + ndpOverrideFlag) ;;
  pkt <- copy_before_opt pkt target ;;
  pkt <- upd pkt 24 ndpOptDstLinkAddr ;;
  pkt <- upd pkt 25 1 ;;
  pkt <- copy_into pkt 26 6 localLink ;;
  c <- icmp6Checksum pkt target remote [] ;;
  put16 pkt 2 c.

(* func (e *endpoint) handleICMP(r *stack.Route, vv buffer.VectorisedView) {
     v := vv.First()
     if len(v) < header.ICMPv6MinimumSize { return }
     h := header.ICMPv6(v)
     switch h.Type() {
     ...
     case header.ICMPv6NeighborSolicit:
       if len(v) < header.ICMPv6NeighborSolicitMinimumSize { return }
       targetAddr := tcpip.Address(v[8 : 8+16])
       if e.linkAddrCache.CheckLocalAddress(e.nicid, ProtocolNumber, targetAddr) == 0 {
         // We don't have a useful answer; the best we can do is ignore the request.
         return }
       ... build pkt (above) ...
       r.WritePacket(hdr, buffer.VectorisedView{}, header.ICMPv6ProtocolNumber, r.DefaultTTL())
       e.linkAddrCache.AddLinkAddress(e.nicid, r.RemoteAddress, r.RemoteLinkAddress)
     case header.ICMPv6NeighborAdvert:
       if len(v) < header.ICMPv6NeighborAdvertSize { return }
       targetAddr := tcpip.Address(v[8 : 8+16])
       e.linkAddrCache.AddLinkAddress(e.nicid, targetAddr, r.RemoteLinkAddress)
       if targetAddr != r.RemoteAddress {
         e.linkAddrCache.AddLinkAddress(e.nicid, r.RemoteAddress, r.RemoteLinkAddress) }
     ... } }
   The length tests look at the FIRST view only.  CheckLocalAddress -> nic.findEndpoint looks the
   address up in the NIC's endpoint table, keyed by the address alone ([Arp.isLocal]; [locals] =
   every address the NIC has an endpoint for, of any protocol, multicast groups added with
   AddAddress included; spoofing off).  func (e *endpoint) DefaultTTL() uint8 { return 255 } *)
Definition nd_handle (locals : list (list Z)) (r : nroute) (views : vv) : nd_result :=
  let v := vv_first views in
  if (length v <? 4)%nat then NdDone None [] else
  match get8 v 0 with
  | None => NdPanic
  | Some ty =>
    if ty =? ICMPv6NeighborSolicit then
      if (length v <? 24)%nat then NdDone None [] else
      match getN v 8 16 with
      | None => NdPanic
      | Some target =>
        if negb (isLocal locals target) then NdDone None [] else
        match nd_advert target (nr_localLink r) (nr_remote r) with
        | None => NdPanic
        | Some pkt =>
            NdDone (Some (mkNdPacket target (nr_remote r) 255 pkt (nr_remoteLink r)))
                   [(nr_remote r, nr_remoteLink r)]
        end
      end
    else if ty =? ICMPv6NeighborAdvert then
      if (length v <? 32)%nat then NdDone None [] else
      match getN v 8 16 with
      | None => NdPanic
      | Some target =>
        NdDone None ((target, nr_remoteLink r) ::
                     if negb (bytes_eqb target (nr_remote r)) then [(nr_remote r, nr_remoteLink r)] else [])
      end
    else NdOther
  end.

(* the whole inbound path for one IPv6 packet handed up by the link endpoint as [views], with
   link-layer source [srcMAC], on a NIC with the addresses [locals] and link address [myMAC]:
   NIC.DeliverNetworkPacket (runt test, ParseAddresses, getRef(dst)), ipv6 HandlePacket (IsValid,
   TrimFront(40), CapLength(PayloadLength), next header 58 -> handleICMP): Echo.nic6_deliver *)
Definition nd_deliver (locals : list (list Z)) (myMAC srcMAC : list Z) (views : vv) : nd_result :=
  match nic6_deliver locals views with
  | None => NdPanic
  | Some NDrop => NdDone None []
  | Some (NICMP r v) => nd_handle locals (mkNRoute (r_local r) (r_remote r) myMAC srcMAC) v
  | Some _ => NdOther
  end.

(* the IPv6 packet that leaves for an advertisement: ipv6 WritePacket (Echo.ip6_write) *)
Definition nd_frame (p : nd_packet) : option (list Z) :=
  ip6_write (mkPacket (np_src p) (np_dst p) (np_hop p) 58 (np_icmp p) []).

(* func SolicitedNodeAddr(addr tcpip.Address) tcpip.Address {
     const solicitedNodeMulticastPrefix = "\xff\x02\x00\x00\x00\x00\x00\x00\x00\x00\x00\x01\xff"
     return solicitedNodeMulticastPrefix + addr[len(addr)-3:] }
   addr[len(addr)-3:] with len(addr) < 3 is a negative slice index: panic *)
Definition solicitedNodeMulticastPrefix : list Z := [255; 2; 0; 0; 0; 0; 0; 0; 0; 0; 0; 1; 255].
Definition solicitedNodeAddr (addr : list Z) : option (list Z) :=
  if (length addr <? 3)%nat then None
  else Some (solicitedNodeMulticastPrefix ++ skipn (length addr - 3) addr).

(* func ( *protocol) LinkAddressRequest(addr, localAddr tcpip.Address, linkEP stack.LinkEndpoint) *tcpip.Error {
     snaddr := header.SolicitedNodeAddr(addr)
     r := &stack.Route{ LocalAddress: localAddr, RemoteAddress: snaddr, RemoteLinkAddress: broadcastMAC }
     hdr := buffer.NewPrependable(int(linkEP.MaxHeaderLength()) + header.IPv6MinimumSize + header.ICMPv6NeighborAdvertSize)
     pkt := header.ICMPv6(hdr.Prepend(header.ICMPv6NeighborAdvertSize))       -- 32 fresh zero bytes
     pkt.SetType(header.ICMPv6NeighborSolicit)
     copy(pkt[icmpV6OptOffset-len(addr):], addr)          -- panics when len(addr) > 24
     pkt[icmpV6OptOffset] = ndpOptSrcLinkAddr
     pkt[icmpV6LengthOffset] = 1
     copy(pkt[icmpV6LengthOffset+1:], linkEP.LinkAddress())
     pkt.SetChecksum(icmpChecksum(pkt, r.LocalAddress, r.RemoteAddress, buffer.VectorisedView{}))
     length := uint16(hdr.UsedLength())
     ip := header.IPv6(hdr.Prepend(header.IPv6MinimumSize))
     ip.Encode(&header.IPv6Fields{ PayloadLength: length, NextHeader: uint8(header.ICMPv6ProtocolNumber),
                                   HopLimit: defaultIPv6HopLimit, SrcAddr: r.LocalAddress, DstAddr: r.RemoteAddress })
     return linkEP.WritePacket(r, hdr, buffer.VectorisedView{}, ProtocolNumber) }
   var broadcastMAC = tcpip.LinkAddress([]byte{0xff, 0xff, 0xff, 0xff, 0xff, 0xff});  defaultIPv6HopLimit = 255
   result: (the IPv6 packet, the link destination r.RemoteLinkAddress, the link source
   r.LocalLinkAddress, which this route literal leaves empty) *)
Definition nd_link_address_request (addr localAddr myMAC : list Z) : option (list Z * list Z * list Z) :=
  snaddr <- solicitedNodeAddr addr ;;
  let pkt := repeat 0 32 in
  pkt <- put8 pkt 0 ICMPv6NeighborSolicit ;;
  pkt <- copy_before_opt pkt addr ;;
  pkt <- upd pkt 24 ndpOptSrcLinkAddr ;;
  pkt <- upd pkt 25 1 ;;
  pkt <- copy_into pkt 26 6 myMAC ;;
  c <- icmp6Checksum pkt localAddr snaddr [] ;;
  pkt <- put16 pkt 2 c ;;
  ip <- ipv6_encode (repeat 0 40) (mkIPv6 0 0 32 58 255 localAddr snaddr) ;;
  Some (ip ++ pkt, broadcastMAC, []).

(* func ( *protocol) ResolveStaticAddress(addr tcpip.Address) (tcpip.LinkAddress, bool) { return "", false } *)
Definition nd_resolve_static (addr : list Z) : option (list Z) := None.
