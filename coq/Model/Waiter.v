(* Model of /repo/pkg/waiter/waiter.go on top of Model/Ilist.v.  Executable definitions only.

   A *waiter.Entry is an entry id [Z]; its embedded ilist.Entry lives in the list heap, its
   [mask] field in [wmask].  The callback of an entry is fixed when the entry is created and is
   one of two kinds ([kind], from Model/WaiterSpec.v, which also provides the operation
   vocabulary [op]/[obs]; nothing else of the specification is used here):
     KFunc  a user EntryCallback; the model appends the entry id to [wlog];
     KChan  NewChannelEntry(nil): Context = make(chan struct{}, 1), Callback = channelCallback;
            the channel is modelled by its length [wch e] with capacity [chcap] = 1.
   Each method holds q.mu for its whole body (sync.RWMutex, trusted), so a method is one atomic
   step of the model; the EntryCallback contract forbids callbacks from calling the queue. *)
From Coq Require Import ZArith List Bool.
From NP Require Import Model.Ilist Model.WaiterSpec.
Import ListNotations.
Open Scope Z_scope.

Record world := mkW {
  wl : st;            (* q.list and the ilist.Entry of every entry *)
  wmask : Z -> Z;     (* Entry.mask (EventMask = uint16; only stored, and-ed and or-ed) *)
  wch : Z -> Z;       (* len(ch) for the channel of a channel entry *)
  wlog : list Z       (* function-callback invocations, oldest first *)
}.

(* var q Queue; fresh entries; empty channels *)
Definition w0 : world := mkW emptyL (fun _ => 0) (fun _ => 0) [].

Definition updZ (f : Z -> Z) (k v : Z) : Z -> Z := fun x => if x =? k then v else f x.

(* c = make(chan struct{}, 1) *)
Definition chcap : Z := 1.

(* func (q *Queue) EventRegister(e *Entry, mask EventMask) {
     q.mu.Lock(); e.mask = mask; q.list.PushBack(e); q.mu.Unlock() } *)
Definition eventRegister (w : world) (e m : Z) : world :=
  let w1 := mkW (wl w) (updZ (wmask w) e m) (wch w) (wlog w) in
  mkW (pushBack (wl w1) e) (wmask w1) (wch w1) (wlog w1).

(* func (q *Queue) EventUnregister(e *Entry) {
     q.mu.Lock(); q.list.Remove(e); q.mu.Unlock() } *)
Definition eventUnregister (w : world) (e : Z) : world :=
  mkW (removeE (wl w) e) (wmask w) (wch w) (wlog w).

(* func ( *channelCallback) Callback(e *Entry) {
     ch := e.Context.(chan struct{})
     select { case ch <- struct{}{}: default: } }
   A send on a buffered channel with no receiver proceeds iff len < cap. *)
Definition chanSend (w : world) (e : Z) : world :=
  if wch w e <? chcap
  then mkW (wl w) (wmask w) (updZ (wch w) e (wch w e + 1)) (wlog w)
  else w.

(* e.Callback.Callback(e) *)
Definition callback (k : Z -> kind) (w : world) (e : Z) : world :=
  match k e with
  | KFunc => mkW (wl w) (wmask w) (wch w) (wlog w ++ [e])
  | KChan => chanSend w e
  end.

(* func (q *Queue) Notify(mask EventMask) {
     q.mu.RLock()
     for it := q.list.Front(); it != nil; it = it.Next() {
       e := it.( *Entry)
       if mask&e.mask != 0 { e.Callback.Callback(e) } }
     q.mu.RUnlock() }
   Returns the entries whose callback ran, in order; [None] = fuel exhausted (still looping). *)
Fixpoint notifyLoop (fuel : nat) (k : Z -> kind) (w : world) (it : ptr) (m : Z)
  : option (world * list Z) :=
  match it with
  | None => Some (w, [])
  | Some e =>
      match fuel with
      | O => None
      | S f =>
          if negb (Z.land m (wmask w e) =? 0)
          then let w1 := callback k w e in
               match notifyLoop f k w1 (nxt (wl w1) e) m with
               | Some (w2, inv) => Some (w2, e :: inv)
               | None => None
               end
          else notifyLoop f k w (nxt (wl w) e) m
      end
  end.

Definition notify (fuel : nat) (k : Z -> kind) (w : world) (m : Z) : option (world * list Z) :=
  notifyLoop fuel k w (front (wl w)) m.

(* func (q *Queue) Events() EventMask {
     ret := EventMask(0)
     q.mu.RLock()
     for it := q.list.Front(); it != nil; it = it.Next() { e := it.( *Entry); ret |= e.mask }
     q.mu.RUnlock()
     return ret } *)
Fixpoint eventsLoop (fuel : nat) (w : world) (it : ptr) (r : Z) : option Z :=
  match it with
  | None => Some r
  | Some e =>
      match fuel with
      | O => None
      | S f => eventsLoop f w (nxt (wl w) e) (Z.lor r (wmask w e))
      end
  end.

Definition events (fuel : nat) (w : world) : option Z := eventsLoop fuel w (front (wl w)) 0.

(* func (q *Queue) IsEmpty() bool { q.mu.Lock(); defer q.mu.Unlock(); return q.list.Front() == nil } *)
Definition isEmpty (w : world) : bool :=
  match front (wl w) with None => true | Some _ => false end.

(* the waiter's side of a channel entry (not code of pkg/waiter; Go channel semantics):
     select { case <-ch: took = true; default: took = false } *)
Definition take (w : world) (e : Z) : world * bool :=
  if 0 <? wch w e
  then (mkW (wl w) (wmask w) (updZ (wch w) e (wch w e - 1)) (wlog w), true)
  else (w, false).

Definition b2z (b : bool) : Z := if b then 1 else 0.

(* one operation of a history; [None] = the operation does not return *)
Definition step (fuel : nat) (k : Z -> kind) (w : world) (o : op) : option (world * obs) :=
  match o with
  | ORegister e m => Some (eventRegister w e m, Ob [] 0)
  | OUnregister e => Some (eventUnregister w e, Ob [] 0)
  | ONotify m =>
      match notify fuel k w m with
      | Some (w', inv) => Some (w', Ob inv 0)
      | None => None
      end
  | OEvents =>
      match events fuel w with
      | Some r => Some (w, Ob [] r)
      | None => None
      end
  | OIsEmpty => Some (w, Ob [] (b2z (isEmpty w)))
  | OTake e => let (w', t) := take w e in Some (w', Ob [] (b2z t))
  end.

(* a sequential history: the observations of the operations that returned, and the final
   world ([None] if an operation did not return) *)
Fixpoint run (fuel : nat) (k : Z -> kind) (w : world) (ops : list op) : list obs * option world :=
  match ops with
  | [] => ([], Some w)
  | o :: r =>
      match step fuel k w o with
      | None => ([], None)
      | Some (w1, ob) => let (obs, fw) := run fuel k w1 r in (ob :: obs, fw)
      end
  end.

(* the queue's content as an iterating user sees it: (entry, mask) along the next pointers *)
Definition contents (fuel : nat) (w : world) : option (list (Z * Z)) :=
  option_map (map (fun e => (e, wmask w e))) (toList fuel (wl w)).
