(* Concurrent model of /repo/protocol/network/fragmentation: several goroutines inside
   Fragmentation.Process at the same time.  Executable definitions only; no proofs here.

   func (f *Fragmentation) Process(id, first, last, more, vv) (buffer.VectorisedView, bool) {
  P1   f.mu.Lock()
       r, ok := f.reassemblers[id]
       if ok && r.tooOld(f.timeout) { f.release(r); ok = false }
       if !ok { r = newReassembler(id); f.reassemblers[id] = r; f.rList.PushFront(r) }
       f.mu.Unlock()
  P2   res, done, consumed, err := r.process(first, last, more, vv)        // under r.mu
  P3   f.mu.Lock()
       f.size += consumed
       if done || err != nil { f.release(r) }
       if f.size > f.highLimit { tail := f.rList.Back(); for f.size > f.lowLimit && tail != nil { f.release(tail); tail = tail.Prev() } }
       f.mu.Unlock()
       return res, done }

   ASSUMPTION ABOUT THE GO RUNTIME (the only one): sync.Mutex gives mutual exclusion, hence each of
   the three phases of a call is ATOMIC.  One scheduled step of the model runs one phase of one
   thread.  Why this granularity loses nothing: P1 and P3 hold f.mu from their first to their last
   access, so they exclude each other.  P2 holds r.mu throughout and touches only fields of r; it
   can overlap in real time with a P1/P3 of another goroutine, but the f.mu sections touch r only
   (i) in checkDoneOrMark, which takes r.mu itself (so it is ordered before or after the whole
   P2), (ii) by reading the immutable r.id / r.creationTime and the list links (never touched by
   P2), and (iii) by reading r.size in release AFTER checkDoneOrMark has set r.done under r.mu:
   every P2 critical section later in r.mu's order sees r.done and writes nothing, every earlier
   one has finished; so the read is ordered after all writes.  A P2 overlapping an f.mu section is
   therefore equivalent to the same P2 placed entirely before the section's checkDoneOrMark(r) or
   entirely after it, which are interleavings of atomic phases.

   POINTER IDENTITY.  A goroutine keeps its *reassembler from P1 to P3; meanwhile the reassembler
   may have been released from the map and a new one created under the same id.  So reassemblers
   live in an object store [c_objs] (index = identity, never reused: the garbage collector cannot
   free an object a goroutine still holds), the map is id -> index, rList is a list of indices,
   and each thread holds an index.

   The sequential definitions of Model/Frag.v are reused wherever the code is the same:
   [newReassembler], [tooOld], [rprocess] (the whole of reassembler.process), [newFragmentation]
   (the clamping of the limits).  [crelease] / [cevict_loop] are release / the eviction walk on
   the store.  The step function takes reassembler.process as a parameter [rp] so that the same
   transition system can be run with the pre-3ed1739 [rprocess_old].

   The log [c_log] is ghost state (nothing reads it): the events in the order they happened,
   NEWEST FIRST; [trace] = chronological. *)
From Coq Require Import ZArith Bool List.
From NP Require Import Model.Frag.
Import ListNotations.
Open Scope Z_scope.

Inductive ev :=
| EvP1 (t o : nat) (fresh : bool)   (* thread t left P1 holding object o; fresh = o was created by it *)
| EvP2 (t o : nat) (fin : fragin) (out : pres)   (* r.process on object o returned [out] *)
| EvMark (o : nat)                  (* release got past checkDoneOrMark: object o is now done, unlinked *)
| EvRet (t : nat) (res : list Z) (done : bool)   (* Process returned (res, done) *)
| EvPanic (t : nat).                (* r.process panicked in thread t *)

Record cst := mkC {
  c_high : Z; c_low : Z; c_timeout : Z;
  c_objs : list reasm;            (* every reassembler ever allocated *)
  c_map : list (Z * nat);         (* f.reassemblers: id -> object, keys pairwise distinct *)
  c_list : list nat;              (* f.rList, head = Front *)
  c_size : Z;                     (* f.size *)
  c_fault : bool;                 (* rList.Remove was called on an element that is not in the list *)
  c_log : list ev }.

Definition dreasm : reasm := newReassembler 0 0.
Definition getobj (s : cst) (o : nat) : reasm := nth o (c_objs s) dreasm.

(* r, ok := f.reassemblers[id] *)
Fixpoint mlookup (id : Z) (m : list (Z * nat)) : option nat :=
  match m with
  | [] => None
  | (i, o) :: t => if i =? id then Some o else mlookup id t
  end.
(* delete(f.reassemblers, id) *)
Definition mdelete (id : Z) (m : list (Z * nat)) : list (Z * nat) :=
  filter (fun e => negb (fst e =? id)) m.
(* f.reassemblers[id] = r *)
Definition minsert (id : Z) (o : nat) (m : list (Z * nat)) : list (Z * nat) := (id, o) :: mdelete id m.

Definition inb (o : nat) (l : list nat) : bool := existsb (Nat.eqb o) l.
(* f.rList.Remove(r) for an r that IS in the list *)
Definition lremove (o : nat) (l : list nat) : list nat := filter (fun x => negb (x =? o)%nat) l.

Definition set_done (r : reasm) : reasm :=
  mkReasm (r_id r) (r_size r) (r_holes r) (r_deleted r) (r_heap r) true (r_ctime r).

Definition log_ev (s : cst) (e : ev) : cst :=
  mkC (c_high s) (c_low s) (c_timeout s) (c_objs s) (c_map s) (c_list s) (c_size s) (c_fault s) (e :: c_log s).

(* func (f *Fragmentation) release(r *reassembler) {
     if r.checkDoneOrMark() { return }          // under r.mu: prev := r.done; r.done = true; return prev
     delete(f.reassemblers, r.id)
     f.rList.Remove(r)
     f.size -= r.size
     if f.size < 0 { log.Printf(...); f.size = 0 } }
   delete removes whatever object is stored under r.id.  rList.Remove(r) unlinks r through r's own
   prev/next fields; for an r that is not in the list these are stale and the list would be
   corrupted: that is not modelled further but recorded in [c_fault] (FragConcP: never happens). *)
Definition crelease (s : cst) (o : nat) : cst :=
  let r := getobj s o in
  if r_done r then s
  else
    let sz := c_size s - r_size r in
    mkC (c_high s) (c_low s) (c_timeout s)
        (upd (c_objs s) o (set_done r))
        (mdelete (r_id r) (c_map s))
        (lremove o (c_list s))
        (if sz <? 0 then 0 else sz)
        (c_fault s || negb (inb o (c_list s)))
        (EvMark o :: c_log s).

(* tail := f.rList.Back(); for f.size > f.lowLimit && tail != nil { f.release(tail); tail = tail.Prev() }
   as in Frag.evict_loop: [back] = the not yet visited part of the list as it was, last element first *)
Fixpoint cevict_loop (s : cst) (back : list nat) : cst :=
  match back with
  | [] => s
  | tail :: prev => if c_low s <? c_size s then cevict_loop (crelease s tail) prev else s
  end.

(* r = newReassembler(id); f.reassemblers[id] = r; f.rList.PushFront(r) *)
Definition calloc (s : cst) (t : nat) (id now : Z) : cst * nat :=
  let o := length (c_objs s) in
  (mkC (c_high s) (c_low s) (c_timeout s)
       (c_objs s ++ [newReassembler id now])
       (minsert id o (c_map s))
       (o :: c_list s)
       (c_size s) (c_fault s) (EvP1 t o true :: c_log s), o).

(* phase 1 of call c by thread t: the object the thread will work on *)
Definition cp1 (s : cst) (t : nat) (c : call) : cst * nat :=
  match mlookup (c_id c) (c_map s) with
  | Some o =>
      if tooOld (getobj s o) (c_now c) (c_timeout s) then calloc (crelease s o) t (c_id c) (c_now c)
      else (log_ev s (EvP1 t o false), o)
  | None => calloc s t (c_id c) (c_now c)
  end.

(* phase 2: r.process on the held object (mutated in place, also when it panics: r.mu is released
   by the defer and the fields stay as they are) *)
Definition cp2 (rp : reasm -> Z -> Z -> bool -> list Z -> reasm * pres) (s : cst) (t : nat) (c : call) (o : nat)
  : cst * pres :=
  let '(r', out) := rp (getobj s o) (c_first c) (c_last c) (c_more c) (c_pl c) in
  (mkC (c_high s) (c_low s) (c_timeout s) (upd (c_objs s) o r') (c_map s) (c_list s) (c_size s) (c_fault s)
       (EvP2 t o (frag_in c) out :: c_log s), out).

(* phase 3 *)
Definition cadd_size (s : cst) (d : Z) : cst :=
  mkC (c_high s) (c_low s) (c_timeout s) (c_objs s) (c_map s) (c_list s) (c_size s + d) (c_fault s) (c_log s).
Definition cp3 (s : cst) (t : nat) (o : nat) (out : pres) : cst :=
  let s1 := cadd_size s (p_consumed out) in
  let s2 := if p_done out || p_err out then crelease s1 o else s1 in
  let s3 := if c_high s2 <? c_size s2 then cevict_loop s2 (rev (c_list s2)) else s2 in
  log_ev s3 (EvRet t (p_res out) (p_done out)).

(* ------------------------------------------------------------------ threads and schedules *)
Inductive pc :=
| PC1                           (* about to enter Process (or finished, when no call is left) *)
| PC2 (o : nat)                 (* between f.mu.Unlock() and r.process, holding object o *)
| PC3 (o : nat) (out : pres)    (* r.process has returned [out]; about to take f.mu again *)
| PCdead.                       (* the goroutine panicked *)

(* [t_calls] = the calls still to be made, the head being the one in progress *)
Record thread := mkT { t_pc : pc; t_calls : list call }.
Record conf := mkConf { cf_s : cst; cf_thr : list thread }.

Definition cstep (rp : reasm -> Z -> Z -> bool -> list Z -> reasm * pres) (cf : conf) (t : nat) : conf :=
  match nth_error (cf_thr cf) t with
  | None => cf
  | Some th =>
      match t_calls th with
      | [] => cf
      | c :: rest =>
          match t_pc th with
          | PC1 =>
              let '(s', o) := cp1 (cf_s cf) t c in
              mkConf s' (upd (cf_thr cf) t (mkT (PC2 o) (c :: rest)))
          | PC2 o =>
              let '(s', out) := cp2 rp (cf_s cf) t c o in
              if p_panic out then mkConf (log_ev s' (EvPanic t)) (upd (cf_thr cf) t (mkT PCdead (c :: rest)))
              else mkConf s' (upd (cf_thr cf) t (mkT (PC3 o out) (c :: rest)))
          | PC3 o out => mkConf (cp3 (cf_s cf) t o out) (upd (cf_thr cf) t (mkT PC1 rest))
          | PCdead => cf
          end
      end
  end.

(* a schedule = the list of thread indices in the order in which they take their steps *)
Definition crun (rp : reasm -> Z -> Z -> bool -> list Z -> reasm * pres) (cf : conf) (sched : list nat) : conf :=
  fold_left (cstep rp) sched cf.

(* NewFragmentation(high, low, timeout) and one goroutine per program (list of calls) *)
Definition cinit (high low timeout : Z) (progs : list (list call)) : conf :=
  let f := newFragmentation high low timeout in
  mkConf (mkC (f_high f) (f_low f) (f_timeout f) [] [] [] 0 false []) (map (mkT PC1) progs).

Definition crun0 (high low timeout : Z) (progs : list (list call)) (sched : list nat) : conf :=
  crun rprocess (cinit high low timeout progs) sched.
Definition crun0_old (high low timeout : Z) (progs : list (list call)) (sched : list nat) : conf :=
  crun rprocess_old (cinit high low timeout progs) sched.

(* ------------------------------------------------------------------ observations *)
Definition trace (s : cst) : list ev := rev (c_log s).

(* the threads that panicked, in order *)
Fixpoint panics (tr : list ev) : list nat :=
  match tr with
  | [] => []
  | EvPanic t :: r => t :: panics r
  | _ :: r => panics r
  end.

(* what the calls returned, in the order in which they returned: (thread, (bytes, done, panicked)) *)
Fixpoint rets (tr : list ev) : list (nat * (list Z * bool * bool)) :=
  match tr with
  | [] => []
  | EvRet t res done :: r => (t, (res, done, false)) :: rets r
  | EvPanic t :: r => (t, ([], false, true)) :: rets r
  | _ :: r => rets r
  end.

(* the sequential state the shared part stands for: the listed objects in list order *)
Definition cabs (s : cst) : fstate :=
  mkF (c_high s) (c_low s) (map (getobj s) (c_list s)) (c_size s) (c_timeout s).

(* per-object history: the r.process calls made on object o and the moment release marked it *)
Inductive hev := HP2 (fin : fragin) (out : pres) | HMark.
Fixpoint ohist (o : nat) (tr : list ev) : list hev :=
  match tr with
  | [] => []
  | EvP2 _ o' fin out :: r => if (o' =? o)%nat then HP2 fin out :: ohist o r else ohist o r
  | EvMark o' :: r => if (o' =? o)%nat then HMark :: ohist o r else ohist o r
  | _ :: r => ohist o r
  end.
Fixpoint hfrags (h : list hev) : list fragin :=
  match h with [] => [] | HP2 fin _ :: r => fin :: hfrags r | HMark :: r => hfrags r end.
Fixpoint houts (h : list hev) : list pres :=
  match h with [] => [] | HP2 _ out :: r => out :: houts r | HMark :: r => houts r end.

(* the same history run SEQUENTIALLY on one reassembler value: reassembler.process for each HP2
   (the recorded output is ignored), r.done = true for HMark; result = final reassembler and the
   outputs of the process calls *)
Fixpoint replay (r : reasm) (h : list hev) : reasm * list pres :=
  match h with
  | [] => (r, [])
  | HP2 fin _ :: t =>
      let '(r', o) := rprocess r (i_first fin) (i_last fin) (i_more fin) (i_pl fin) in
      let '(r'', os) := replay r' t in (r'', o :: os)
  | HMark :: t => replay (set_done r) t
  end.

(* the most recent r.process event of thread t in a log (newest first) *)
Fixpoint last_p2 (t : nat) (log : list ev) : option (nat * fragin * pres) :=
  match log with
  | [] => None
  | EvP2 t' o fin out :: r => if (t' =? t)%nat then Some (o, fin, out) else last_p2 t r
  | _ :: r => last_p2 t r
  end.

(* ------------------------------------------------------------------ serial schedules
   [blocks bs]: every entry t of bs stands for one whole call of thread t (its three phases back to
   back); [serialize progs bs] = the calls that are made, in order, with the calling thread *)
Definition blocks (bs : list nat) : list nat := flat_map (fun t => [t; t; t]) bs.
Fixpoint serialize (progs : list (list call)) (bs : list nat) : list (nat * call) :=
  match bs with
  | [] => []
  | t :: bs' =>
      match nth t progs [] with
      | [] => serialize progs bs'
      | c :: rest => (t, c) :: serialize (upd progs t rest) bs'
      end
  end.
