(* base64.StdEncoding (RFC 4648 section 4, with padding) on byte lists.
   [b64_encode] models encoding/base64's EncodeToString; [b64_decode] is the RFC's inverse
   (strict: padded input whose length is a multiple of 4, canonical zero pad bits) and serves as
   the specification the encoder is proved against in Proofs/WsP.v. *)
From Coq Require Import String Ascii.
From Coq Require Import ZArith List Bool.
Import ListNotations.
Open Scope Z_scope.

Definition b64_alphabet : list Z :=
  List.map (fun a => Z.of_N (N_of_ascii a))
    (list_ascii_of_string "ABCDEFGHIJKLMNOPQRSTUVWXYZabcdefghijklmnopqrstuvwxyz0123456789+/").

Definition PAD : Z := 61. (* '=' *)

(* the character of a 6-bit value *)
Definition b64_char (v : Z) : Z := nth (Z.to_nat v) b64_alphabet 0.

(* RFC 4648 table 1, read backwards, by character arithmetic (not by table search) *)
Definition b64_val (c : Z) : option Z :=
  if (65 <=? c) && (c <=? 90) then Some (c - 65)
  else if (97 <=? c) && (c <=? 122) then Some (c - 71)
  else if (48 <=? c) && (c <=? 57) then Some (c + 4)
  else if c =? 43 then Some 62
  else if c =? 47 then Some 63
  else None.

Fixpoint b64_encode (l : list Z) : list Z :=
  match l with
  | [] => []
  | [a] => [b64_char (a / 4); b64_char ((a mod 4) * 16); PAD; PAD]
  | [a; b] => [b64_char (a / 4); b64_char ((a mod 4) * 16 + b / 16); b64_char ((b mod 16) * 4); PAD]
  | a :: b :: c :: t =>
      b64_char (a / 4) :: b64_char ((a mod 4) * 16 + b / 16)
      :: b64_char ((b mod 16) * 4 + c / 64) :: b64_char (c mod 64) :: b64_encode t
  end.

(* one quantum of 4 characters; [last] = no characters follow *)
Definition b64_quantum (c1 c2 c3 c4 : Z) (last : bool) : option (list Z) :=
  match b64_val c1, b64_val c2 with
  | Some v1, Some v2 =>
      let o1 := v1 * 4 + v2 / 16 in
      if (c3 =? PAD) && (c4 =? PAD) then
        if last && (v2 mod 16 =? 0) then Some [o1] else None
      else
        match b64_val c3 with
        | Some v3 =>
            let o2 := (v2 mod 16) * 16 + v3 / 4 in
            if c4 =? PAD then
              if last && (v3 mod 4 =? 0) then Some [o1; o2] else None
            else
              match b64_val c4 with
              | Some v4 => Some [o1; o2; (v3 mod 4) * 64 + v4]
              | None => None
              end
        | None => None
        end
  | _, _ => None
  end.

Fixpoint b64_decode (s : list Z) : option (list Z) :=
  match s with
  | [] => Some []
  | c1 :: c2 :: c3 :: c4 :: t =>
      match b64_quantum c1 c2 c3 c4 (match t with [] => true | _ => false end) with
      | Some o =>
          if (Nat.ltb (List.length o) 3) then Some o   (* padded quantum: t = [] was checked *)
          else match b64_decode t with Some r => Some (o ++ r) | None => None end
      | None => None
      end
  | _ => None
  end.
