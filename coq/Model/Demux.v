(* Model of the inbound demultiplexing path of /repo (property C09):
     protocol/tcpip.go            Subnet (NewSubnet, Contains), Route.Match
     stack/transport_demuxer.go   transportDemuxer (register / unregister / findEndpointLocked / deliverPacket)
     stack/nic.go                 addAddressLocked, RemoveAddress, getRef, DeliverNetworkPacket,
                                  DeliverTransportPacket, findEndpoint, primaryEndpoint, decRef
     stack/stack.go               RegisterTransportEndpoint, UnregisterTransportEndpoint, FindRoute,
                                  CheckLocalAddress
     protocol/ports/ports.go      reservation of a SPECIFIC port (what Bind/Connect need)
     protocol/transport/udp/endpoint.go   Bind, Connect, Close, registerWithStack  (which ids a socket registers)
     protocol/transport/tcp/endpoint.go   Bind, Listen, Close                      (which ids a socket registers)
   Executable definitions only; no proofs.

   Encoding.  tcpip.Address / AddressMask (Go strings) = [list Z] of bytes, "" = [].  Protocol
   numbers, ports, NIC ids, endpoint identities, error codes: Z.  Go maps = association lists
   (map[K]V with at most one entry per key; iteration order is never observable in the modelled
   code except in CheckLocalAddress(nicid = 0), see there).  Mutexes are not modelled: the model is
   the sequential behaviour (every modelled method runs under the owning mutex).  Statistics
   counters and log calls are dropped.  A *tcpip.Error is a Z code, 0 = nil.

   Not modelled: spoofing (never enabled: NIC.findEndpoint's second half is dead), forwarding
   (Stack.Forwarding() is false: the forwarding branch of DeliverNetworkPacket is not taken),
   v4-mapped IPv6 addresses in Bind/Connect, IP fragments / ICMP / malformed headers (a packet is
   given by its parsed fields: the ipv4/ipv6 HandlePacket checks pass), the per-protocol default
   handler (never installed), tryIncRef failing (a count of 0 is a transient state of decRef). *)
From Coq Require Import ZArith Bool List.
Import ListNotations.
Open Scope Z_scope.

(* ------------------------------------------------------------------ addresses, error codes *)

Definition addr := list Z.

Fixpoint addr_eqb (a b : addr) : bool :=
  match a, b with
  | [], [] => true
  | x :: a', y :: b' => (x =? y) && addr_eqb a' b'
  | _, _ => false
  end.

Definition isNil (a : addr) : bool := match a with [] => true | _ => false end.

Definition ErrNone : Z := 0.
Definition ErrPortInUse : Z := 1.
Definition ErrBadLocalAddress : Z := 2.
Definition ErrNoRoute : Z := 3.
Definition ErrInvalidEndpointState : Z := 4.
Definition ErrUnknownNICID : Z := 5.
Definition ErrDuplicateAddress : Z := 6.
Definition ErrAlreadyBound : Z := 7.
Definition ErrUnknownProtocol : Z := 10.
Definition ErrNotSupported : Z := 11.
Definition ErrSubnet : Z := 12.          (* error of tcpip.NewSubnet (a Go error, not *tcpip.Error) *)
Definition ErrOracle : Z := 98.          (* the ephemeral port given as oracle input was not free *)
Definition ErrNoSuchSocket : Z := 97.    (* harness-level: operation on a socket index never created *)

Definition IPv4 : Z := 2048.    (* header.IPv4ProtocolNumber 0x0800 *)
Definition IPv6 : Z := 34525.   (* header.IPv6ProtocolNumber 0x86dd *)
Definition ARP : Z := 2054.
Definition TCP : Z := 6.
Definition UDP : Z := 17.

(* ------------------------------------------------------------------ tcpip.Subnet, tcpip.Route *)

(* type Subnet struct { address Address; mask AddressMask } *)
Record subnet := mkSubnet { sn_addr : addr; sn_mask : addr }.

(* the loop of NewSubnet:  for i := 0; i < len(a); i++ { if a[i]&^m[i] != 0 { return errSubnetAddressMasked } } *)
Fixpoint outsideMask (a m : list Z) : bool :=
  match a, m with
  | x :: a', y :: m' => if negb (Z.ldiff x y =? 0) then true else outsideMask a' m'
  | _, _ => false
  end.

(* func NewSubnet(a Address, m AddressMask) (Subnet, error) {
     if len(a) != len(m) { return Subnet{}, errSubnetLengthMismatch }
     for ... a[i]&^m[i] != 0 -> errSubnetAddressMasked
     return Subnet{a, m}, nil } *)
Definition newSubnet (a m : addr) : option subnet :=
  if negb (Nat.eqb (length a) (length m)) then None
  else if outsideMask a m then None
  else Some (mkSubnet a m).

(* the common loop of Subnet.Contains and Route.Match:
     for i := 0; i < len(a); i++ { if a[i]&mask[i] != id[i] { return false } }; return true
   (the caller has checked len(a) == len(id); a mask shorter than the address would make Go panic
   with index out of range: NewSubnet excludes it for subnets; the model answers false). *)
Fixpoint maskMatch (a m id : list Z) : bool :=
  match a, m, id with
  | [], _, _ => true
  | x :: a', y :: m', z :: id' => if negb (Z.land x y =? z) then false else maskMatch a' m' id'
  | _, _, _ => false
  end.

(* func (s *Subnet) Contains(a Address) bool {
     if len(a) != len(s.address) { return false }
     for i := 0; i < len(a); i++ { if a[i]&s.mask[i] != s.address[i] { return false } }
     return true } *)
Definition contains (s : subnet) (a : addr) : bool :=
  if negb (Nat.eqb (length a) (length (sn_addr s))) then false
  else maskMatch a (sn_mask s) (sn_addr s).

(* type Route struct { Destination Address; Mask AddressMask; Gateway Address; NIC NICID } *)
Record rt := mkRt { rt_dest : addr; rt_mask : addr; rt_gw : addr; rt_nic : Z }.

(* func (r *Route) Match(addr Address) bool {
     if len(addr) != len(r.Destination) { return false }
     for i := 0; i < len(r.Destination); i++ { if (addr[i] & r.Mask[i]) != r.Destination[i] { return false } }
     return true } *)
Definition routeMatch (r : rt) (a : addr) : bool :=
  if negb (Nat.eqb (length a) (length (rt_dest r))) then false
  else maskMatch a (rt_mask r) (rt_dest r).

(* ------------------------------------------------------------------ transport demultiplexer *)

(* type TransportEndpointID struct { LocalPort uint16; LocalAddress Address; RemotePort uint16; RemoteAddress Address } *)
Record tid := mkTid { lport : Z; laddr : addr; rport : Z; raddr : addr }.

Definition tid_eqb (a b : tid) : bool :=
  (lport a =? lport b) && addr_eqb (laddr a) (laddr b) && (rport a =? rport b) && addr_eqb (raddr a) (raddr b).

(* transportEndpoints.endpoints : map[TransportEndpointID]TransportEndpoint; an endpoint is named by a Z *)
Definition eptable := list (tid * Z).

(* ep := eps.endpoints[id] *)
Fixpoint tlookup (t : eptable) (id : tid) : option Z :=
  match t with
  | [] => None
  | (k, e) :: t' => if tid_eqb k id then Some e else tlookup t' id
  end.
(* delete(eps.endpoints, id) *)
Fixpoint tdelete (t : eptable) (id : tid) : eptable :=
  match t with
  | [] => []
  | (k, e) :: t' => if tid_eqb k id then tdelete t' id else (k, e) :: tdelete t' id
  end.
(* eps.endpoints[id] = ep   (only executed when id is absent) *)
Definition tinsert (t : eptable) (id : tid) (ep : Z) : eptable := (id, ep) :: t.

(* type protocolIDs struct { network; transport };  transportDemuxer.protocol : map[protocolIDs]*transportEndpoints *)
Definition pkey := (Z * Z)%type.
Definition pkey_eqb (a b : pkey) : bool := (fst a =? fst b) && (snd a =? snd b).
Definition demuxer := list (pkey * eptable).

Fixpoint dlookup (d : demuxer) (k : pkey) : option eptable :=
  match d with
  | [] => None
  | (k', t) :: d' => if pkey_eqb k' k then Some t else dlookup d' k
  end.
(* mutation of the *transportEndpoints found under k (the key set of d.protocol never changes) *)
Fixpoint dstore (d : demuxer) (k : pkey) (t : eptable) : demuxer :=
  match d with
  | [] => []
  | (k', t') :: d' => if pkey_eqb k' k then (k', t) :: d' else (k', t') :: dstore d' k t
  end.

(* func newTransportDemuxer(stack *Stack) *transportDemuxer {
     for netProto := range stack.networkProtocols { for proto := range stack.transportProtocols {
        d.protocol[protocolIDs{netProto, proto}] = &transportEndpoints{endpoints: make(...)} } } } *)
Definition newDemuxer (nets transs : list Z) : demuxer :=
  flat_map (fun n => map (fun t => ((n, t), @nil (tid * Z))) transs) nets.

(* func (d *transportDemuxer) singleRegisterEndpoint(netProto, protocol, id, ep) *tcpip.Error {
     eps, ok := d.protocol[protocolIDs{netProto, protocol}]
     if !ok { return nil }
     if _, ok := eps.endpoints[id]; ok { return tcpip.ErrPortInUse }
     eps.endpoints[id] = ep
     return nil } *)
Definition singleRegister (d : demuxer) (net trans : Z) (id : tid) (ep : Z) : demuxer * Z :=
  match dlookup d (net, trans) with
  | None => (d, ErrNone)
  | Some t =>
      match tlookup t id with
      | Some _ => (d, ErrPortInUse)
      | None => (dstore d (net, trans) (tinsert t id ep), ErrNone)
      end
  end.

(* func (d *transportDemuxer) unregisterEndpoint(netProtos, protocol, id) {
     for _, n := range netProtos {
       if eps, ok := d.protocol[protocolIDs{n, protocol}]; ok { delete(eps.endpoints, id) } } } *)
Fixpoint unregisterEndpoint (d : demuxer) (nets : list Z) (trans : Z) (id : tid) : demuxer :=
  match nets with
  | [] => d
  | n :: ns =>
      let d' := match dlookup d (n, trans) with
                | Some t => dstore d (n, trans) (tdelete t id)
                | None => d
                end in
      unregisterEndpoint d' ns trans id
  end.

(* func (d *transportDemuxer) registerEndpoint(netProtos, protocol, id, ep) *tcpip.Error {
     for i, n := range netProtos {
       if err := d.singleRegisterEndpoint(n, protocol, id, ep); err != nil {
         d.unregisterEndpoint(netProtos[:i], protocol, id)
         return err } }
     return nil }
   [done] = netProtos[:i] *)
Fixpoint registerLoop (d : demuxer) (done rest : list Z) (trans : Z) (id : tid) (ep : Z) : demuxer * Z :=
  match rest with
  | [] => (d, ErrNone)
  | n :: rest' =>
      let '(d', e) := singleRegister d n trans id ep in
      if e =? ErrNone then registerLoop d' (done ++ [n]) rest' trans id ep
      else (unregisterEndpoint d' done trans id, e)
  end.
Definition registerEndpoint (d : demuxer) (nets : list Z) (trans : Z) (id : tid) (ep : Z) : demuxer * Z :=
  registerLoop d [] nets trans id ep.

(* func (d *transportDemuxer) findEndpointLocked(eps, vv, id) TransportEndpoint {
     if ep := eps.endpoints[id]; ep != nil { return ep }                       // 1: the id as provided
     nid := id
     nid.LocalAddress = ""
     if ep := eps.endpoints[nid]; ep != nil { return ep }                      // 2: minus the local address
     nid.LocalAddress = id.LocalAddress
     nid.RemoteAddress = ""
     nid.RemotePort = 0
     if ep := eps.endpoints[nid]; ep != nil { return ep }                      // 3: minus the remote part
     nid.LocalAddress = ""
     return eps.endpoints[nid] }                                               // 4: only the local port
   (endpoints are never registered as nil interface values) *)
Definition probe1 (id : tid) : tid := id.
Definition probe2 (id : tid) : tid := mkTid (lport id) [] (rport id) (raddr id).
Definition probe3 (id : tid) : tid := mkTid (lport id) (laddr id) 0 [].
Definition probe4 (id : tid) : tid := mkTid (lport id) [] 0 [].

Definition findEndpoint (t : eptable) (id : tid) : option Z :=
  match tlookup t (probe1 id) with
  | Some e => Some e
  | None =>
    match tlookup t (probe2 id) with
    | Some e => Some e
    | None =>
      match tlookup t (probe3 id) with
      | Some e => Some e
      | None => tlookup t (probe4 id)
      end
    end
  end.

(* func (d *transportDemuxer) deliverPacket(r *Route, protocol, vv, id) bool {
     eps, ok := d.protocol[protocolIDs{r.NetProto, protocol}]
     if !ok { return false }
     ep := d.findEndpointLocked(eps, vv, id)
     if ep == nil { ...stats...; return false }
     ep.HandlePacket(r, id, vv)
     return true }
   result: the endpoint whose HandlePacket is called *)
Definition deliverPacket (d : demuxer) (net trans : Z) (id : tid) : option Z :=
  match dlookup d (net, trans) with
  | None => None
  | Some t => findEndpoint t id
  end.

(* ------------------------------------------------------------------ NIC: network endpoints *)

(* type referencedNetworkEndpoint struct { refs int32; ep NetworkEndpoint; protocol; holdsInsertRef bool; ... }
   keyed in NIC.endpoints by NetworkEndpointID{LocalAddress} (the address only, not the protocol) *)
Record nep := mkNep { ne_addr : addr; ne_proto : Z; ne_refs : Z; ne_insert : bool }.

(* n_eps: NIC.endpoints in insertion order.  NIC.primary[protocol] is then the sub-list of the
   entries of that protocol (every address is added with CanBePrimaryEndpoint => PushBack, and
   removeEndpointLocked removes the entry from both). *)
Record nic := mkNic { n_id : Z; n_promisc : bool; n_subnets : list subnet; n_eps : list nep; n_demux : demuxer }.

Definition setEps (n : nic) (eps : list nep) : nic := mkNic (n_id n) (n_promisc n) (n_subnets n) eps (n_demux n).
Definition setNicDemux (n : nic) (d : demuxer) : nic := mkNic (n_id n) (n_promisc n) (n_subnets n) (n_eps n) d.

(* ref, ok := n.endpoints[id] *)
Fixpoint lookupNep (eps : list nep) (a : addr) : option nep :=
  match eps with
  | [] => None
  | e :: eps' => if addr_eqb (ne_addr e) a then Some e else lookupNep eps' a
  end.
Fixpoint removeNep (eps : list nep) (a : addr) : list nep :=
  match eps with
  | [] => []
  | e :: eps' => if addr_eqb (ne_addr e) a then removeNep eps' a else e :: removeNep eps' a
  end.
Fixpoint mapNep (f : nep -> nep) (eps : list nep) (a : addr) : list nep :=
  match eps with
  | [] => []
  | e :: eps' => if addr_eqb (ne_addr e) a then f e :: eps' else e :: mapNep f eps' a
  end.

(* tryIncRef / incRef on the entry for a *)
Definition incRef (eps : list nep) (a : addr) : list nep :=
  mapNep (fun e => mkNep (ne_addr e) (ne_proto e) (ne_refs e + 1) (ne_insert e)) eps a.

(* func (r *referencedNetworkEndpoint) decRef() { if atomic.AddInt32(&r.refs, -1) == 0 { r.nic.removeEndpoint(r) } }
   removeEndpointLocked deletes the entry from n.endpoints and from the primary list (and panics
   if holdsInsertRef is still set, which needs more decRefs than incRefs: not reachable here). *)
Definition decRef (eps : list nep) (a : addr) : list nep :=
  match lookupNep eps a with
  | None => eps
  | Some e => if ne_refs e - 1 =? 0 then removeNep eps a
              else mapNep (fun e => mkNep (ne_addr e) (ne_proto e) (ne_refs e - 1) (ne_insert e)) eps a
  end.

Definition clearInsert (eps : list nep) (a : addr) : list nep :=
  mapNep (fun e => mkNep (ne_addr e) (ne_proto e) (ne_refs e) false) eps a.

(* the network protocols of the stack under test: stack.New([ipv4, ipv6, arp], [tcp, udp]) *)
Definition netProtos : list Z := [IPv4; IPv6; ARP].
Definition transProtos : list Z := [TCP; UDP].
Definition knownNet (p : Z) : bool := existsb (Z.eqb p) netProtos.
Definition knownTrans (p : Z) : bool := existsb (Z.eqb p) transProtos.

(* func (n *NIC) addAddressLocked(protocol, addr, peb, replace bool) ( *referencedNetworkEndpoint, *tcpip.Error) {
     netProto, ok := n.stack.networkProtocols[protocol]
     if !ok { return nil, tcpip.ErrUnknownProtocol }
     ep, err := netProto.NewEndpoint(...)            // ipv4 / ipv6: never fails
     id := *ep.ID()
     if ref, ok := n.endpoints[id]; ok {
       if !replace { return nil, tcpip.ErrDuplicateAddress }
       n.removeEndpointLocked(ref) }
     ref := &referencedNetworkEndpoint{refs: 1, ..., holdsInsertRef: true}
     n.endpoints[id] = ref
     ... l.PushBack(ref)
     return ref, nil } *)
Definition addAddressLocked (n : nic) (proto : Z) (a : addr) (replace : bool) : nic * Z :=
  if negb (knownNet proto) then (n, ErrUnknownProtocol)
  else
    match lookupNep (n_eps n) a with
    | Some _ =>
        if negb replace then (n, ErrDuplicateAddress)
        else (setEps n (removeNep (n_eps n) a ++ [mkNep a proto 1 true]), ErrNone)
    | None => (setEps n (n_eps n ++ [mkNep a proto 1 true]), ErrNone)
    end.

(* func (n *NIC) RemoveAddress(addr) *tcpip.Error {
     r := n.endpoints[NetworkEndpointID{addr}]
     if r == nil || !r.holdsInsertRef { return tcpip.ErrBadLocalAddress }
     r.holdsInsertRef = false
     r.decRef()
     return nil } *)
Definition removeAddress (n : nic) (a : addr) : nic * Z :=
  match lookupNep (n_eps n) a with
  | None => (n, ErrBadLocalAddress)
  | Some e =>
      if negb (ne_insert e) then (n, ErrBadLocalAddress)
      else (setEps n (decRef (clearInsert (n_eps n) a) a), ErrNone)
  end.

(* func (n *NIC) getRef(protocol, dst) *referencedNetworkEndpoint {
     id := NetworkEndpointID{dst}
     if ref, ok := n.endpoints[id]; ok && ref.tryIncRef() { return ref }
     promiscuous := n.promiscuous
     if !promiscuous { for _, sn := range n.subnets { if sn.Contains(dst) { promiscuous = true; break } } }
     if promiscuous {
       if ref, ok := n.endpoints[id]; ok && ref.tryIncRef() { return ref }       // (same lookup again under the write lock)
       ref, err := n.addAddressLocked(protocol, dst, CanBePrimaryEndpoint, true)
       if err == nil { ref.holdsInsertRef = false; return ref } }
     return nil }
   result: the NIC (with the reference taken) and whether a reference was returned *)
Definition getRef (n : nic) (proto : Z) (dst : addr) : nic * bool :=
  match lookupNep (n_eps n) dst with
  | Some _ => (setEps n (incRef (n_eps n) dst), true)
  | None =>
      let promiscuous := n_promisc n || existsb (fun sn => contains sn dst) (n_subnets n) in
      if promiscuous then
        let '(n', e) := addAddressLocked n proto dst true in
        if e =? ErrNone then (setEps n' (clearInsert (n_eps n') dst), true) else (n', false)
      else (n, false)
  end.

(* ------------------------------------------------------------------ ports (specific-port reservations) *)

(* PortManager.allocatedPorts : map[portDescriptor{network, transport, port}]bindAddresses (a set of addresses) *)
Definition pdesc := (Z * Z * Z)%type.
Definition pdesc_eqb (a b : pdesc) : bool :=
  let '(n1, t1, p1) := a in let '(n2, t2, p2) := b in (n1 =? n2) && (t1 =? t2) && (p1 =? p2).
Definition ptable := list (pdesc * list addr).

Fixpoint plookup (t : ptable) (d : pdesc) : option (list addr) :=
  match t with
  | [] => None
  | (k, v) :: t' => if pdesc_eqb k d then Some v else plookup t' d
  end.
Fixpoint pstore (t : ptable) (d : pdesc) (v : list addr) : ptable :=
  match t with
  | [] => [(d, v)]
  | (k, w) :: t' => if pdesc_eqb k d then (k, v) :: t' else (k, w) :: pstore t' d v
  end.
Fixpoint pdelete (t : ptable) (d : pdesc) : ptable :=
  match t with
  | [] => []
  | (k, w) :: t' => if pdesc_eqb k d then pdelete t' d else (k, w) :: pdelete t' d
  end.
Definition memAddr (a : addr) (l : list addr) : bool := existsb (addr_eqb a) l.
Definition delAddr (l : list addr) (a : addr) : list addr := filter (fun x => negb (addr_eqb x a)) l.

(* func (b bindAddresses) isAvailable(addr) bool {
     if addr == anyIPAddress { return len(b) == 0 }
     if _, ok := b[anyIPAddress]; ok { return false }
     if _, ok := b[addr]; ok { return false }
     return true } *)
Definition isAvailable (b : list addr) (a : addr) : bool :=
  if isNil a then match b with [] => true | _ => false end
  else if memAddr [] b then false
  else if memAddr a b then false
  else true.

(* isPortAvailableLocked: every network's descriptor must be available *)
Fixpoint isPortAvailable (t : ptable) (nets : list Z) (tr : Z) (a : addr) (port : Z) : bool :=
  match nets with
  | [] => true
  | n :: ns =>
      match plookup t (n, tr, port) with
      | Some addrs => if negb (isAvailable addrs a) then false else isPortAvailable t ns tr a port
      | None => isPortAvailable t ns tr a port
      end
  end.
Fixpoint reserveInsert (t : ptable) (nets : list Z) (tr : Z) (a : addr) (port : Z) : ptable :=
  match nets with
  | [] => t
  | n :: ns =>
      let m := match plookup t (n, tr, port) with Some m => m | None => [] end in
      reserveInsert (pstore t (n, tr, port) (if memAddr a m then m else a :: m)) ns tr a port
  end.
(* reserveSpecificPort *)
Definition reservePort (t : ptable) (nets : list Z) (tr : Z) (a : addr) (port : Z) : ptable * bool :=
  if negb (isPortAvailable t nets tr a port) then (t, false) else (reserveInsert t nets tr a port, true).
(* ReleasePort *)
Fixpoint releasePort (t : ptable) (nets : list Z) (tr : Z) (a : addr) (port : Z) : ptable :=
  match nets with
  | [] => t
  | n :: ns =>
      let t1 := match plookup t (n, tr, port) with
                | Some m => let m' := delAddr m a in
                            match m' with [] => pdelete t (n, tr, port) | _ => pstore t (n, tr, port) m' end
                | None => t
                end in
      releasePort t1 ns tr a port
  end.

(* ------------------------------------------------------------------ the stack *)

(* the part of a udp / tcp endpoint that decides what it registers:
   s_kind: UDP or TCP;  s_net: the network protocol it was created for (e.netProto);
   s_state: 0 initial, 1 bound, 2 connected, 3 listening, 4 closed;
   s_id: e.id;  s_regnic: udp e.regNICID / tcp e.boundNICID;  s_bindnic: udp e.bindNICID;
   s_protos: e.effectiveNetProtos;  s_route: the (nic, local address) e.route holds a reference on;
   s_reserved / s_registered: tcp e.isPortReserved / e.isRegistered *)
Record sock := mkSock { s_kind : Z; s_net : Z; s_state : Z; s_id : tid; s_regnic : Z; s_bindnic : Z;
                        s_protos : list Z; s_route : option (Z * addr); s_reserved : bool; s_registered : bool }.

Record stack := mkStack { st_nics : list nic; st_demux : demuxer; st_routes : list rt; st_ports : ptable;
                          st_socks : list (Z * sock) }.

Definition setNics (s : stack) (ns : list nic) : stack := mkStack ns (st_demux s) (st_routes s) (st_ports s) (st_socks s).
Definition setDemux (s : stack) (d : demuxer) : stack := mkStack (st_nics s) d (st_routes s) (st_ports s) (st_socks s).
Definition setPorts (s : stack) (p : ptable) : stack := mkStack (st_nics s) (st_demux s) (st_routes s) p (st_socks s).

Fixpoint lookupNic (ns : list nic) (id : Z) : option nic :=
  match ns with
  | [] => None
  | n :: ns' => if n_id n =? id then Some n else lookupNic ns' id
  end.
Fixpoint storeNic (ns : list nic) (n : nic) : list nic :=
  match ns with
  | [] => []
  | m :: ns' => if n_id m =? n_id n then n :: ns' else m :: storeNic ns' n
  end.
Definition putNic (s : stack) (n : nic) : stack := setNics s (storeNic (st_nics s) n).

Fixpoint lookupSock (l : list (Z * sock)) (i : Z) : option sock :=
  match l with
  | [] => None
  | (j, s) :: l' => if j =? i then Some s else lookupSock l' i
  end.
Fixpoint storeSock (l : list (Z * sock)) (i : Z) (s : sock) : list (Z * sock) :=
  match l with
  | [] => [(i, s)]
  | (j, s') :: l' => if j =? i then (j, s) :: l' else (j, s') :: storeSock l' i s
  end.
Definition putSock (st : stack) (i : Z) (s : sock) : stack :=
  mkStack (st_nics st) (st_demux st) (st_routes st) (st_ports st) (storeSock (st_socks st) i s).

(* func (s *Stack) RegisterTransportEndpoint(nicID, netProtos, protocol, id, ep) *tcpip.Error {
     if nicID == 0 { return s.demux.registerEndpoint(netProtos, protocol, id, ep) }
     nic := s.nics[nicID]
     if nic == nil { return tcpip.ErrUnknownNICID }
     return nic.demux.registerEndpoint(netProtos, protocol, id, ep) } *)
Definition registerTransportEndpoint (s : stack) (nicID : Z) (nets : list Z) (trans : Z) (id : tid) (ep : Z) : stack * Z :=
  if nicID =? 0 then
    let '(d, e) := registerEndpoint (st_demux s) nets trans id ep in (setDemux s d, e)
  else
    match lookupNic (st_nics s) nicID with
    | None => (s, ErrUnknownNICID)
    | Some n => let '(d, e) := registerEndpoint (n_demux n) nets trans id ep in (putNic s (setNicDemux n d), e)
    end.

(* func (s *Stack) UnregisterTransportEndpoint(nicID, netProtos, protocol, id) {
     if nicID == 0 { s.demux.unregisterEndpoint(netProtos, protocol, id); return }
     nic := s.nics[nicID]
     if nic != nil { nic.demux.unregisterEndpoint(netProtos, protocol, id) } } *)
Definition unregisterTransportEndpoint (s : stack) (nicID : Z) (nets : list Z) (trans : Z) (id : tid) : stack :=
  if nicID =? 0 then setDemux s (unregisterEndpoint (st_demux s) nets trans id)
  else
    match lookupNic (st_nics s) nicID with
    | None => s
    | Some n => putNic s (setNicDemux n (unregisterEndpoint (n_demux n) nets trans id))
    end.

(* ---- inbound path ---- *)

(* what happened to an inbound packet *)
Inductive outcome :=
| Dropped                      (* no network endpoint: the address filter rejected it; no transport code ran *)
| NoTransport                  (* unknown transport protocol number *)
| Delivered (ep : Z)           (* ep.HandlePacket was called (exactly this one endpoint) *)
| Unknown (rst : bool).        (* HandleUnknownDestinationPacket was called; rst: a TCP reset was sent *)

(* func (n *NIC) DeliverTransportPacket(r *Route, protocol, vv) {
     state, ok := n.stack.transportProtocols[protocol]
     if !ok { ...; return }
     ... MinimumPacketSize / ParsePorts (pass for a well-formed packet) ...
     id := TransportEndpointID{dstPort, r.LocalAddress, srcPort, r.RemoteAddress}
     if n.demux.deliverPacket(r, protocol, vv, id) { return }
     if n.stack.demux.deliverPacket(r, protocol, vv, id) { return }
     if state.defaultHandler != nil { ... }                       // never installed
     if !transProto.HandleUnknownDestinationPacket(r, id, vv) { ...stats... } }
   tcp: HandleUnknownDestinationPacket = if the segment has RST: nothing, else replyWithReset(s)
   udp: HandleUnknownDestinationPacket = return true (nothing is sent)
   [isRst]: the RST flag of a TCP segment (false for UDP) *)
Definition deliverTransportPacket (s : stack) (n : nic) (net trans : Z) (id : tid) (isRst : bool) : outcome :=
  if negb (knownTrans trans) then NoTransport
  else
    match deliverPacket (n_demux n) net trans id with
    | Some e => Delivered e
    | None =>
        match deliverPacket (st_demux s) net trans id with
        | Some e => Delivered e
        | None => Unknown ((trans =? TCP) && negb isRst)
        end
    end.

(* func (n *NIC) DeliverNetworkPacket(linkEP, remoteLinkAddr, localLinkAddr, protocol, vv) {
     netProto, ok := n.stack.networkProtocols[protocol]
     if !ok { ...; return }
     ...
     src, dst := netProto.ParseAddresses(vv.First())
     if ref := n.getRef(protocol, dst); ref != nil {
       r := makeRoute(protocol, dst, src, linkEP.LinkAddress(), ref)       // LocalAddress = dst, RemoteAddress = src
       ref.ep.HandlePacket(&r, vv)              // ipv4/ipv6: -> n.DeliverTransportPacket(r, transport protocol, payload)
       ref.decRef()
       return }
     if n.stack.Forwarding() { ... }            // off
     n.stack.stats.IP.InvalidAddressesReceived.Increment() }
   result: new stack, whether a network endpoint took the packet, outcome *)
Definition deliverNetworkPacket (s : stack) (nicID net : Z) (src dst : addr) (trans sport dport : Z) (isRst : bool)
  : stack * bool * outcome :=
  match lookupNic (st_nics s) nicID with
  | None => (s, false, Dropped)
  | Some n =>
      if negb (knownNet net) then (s, false, Dropped)
      else
        let '(n1, ok) := getRef n net dst in
        if ok then
          let o := deliverTransportPacket s n1 net trans (mkTid dport dst sport src) isRst in
          (putNic s (setEps n1 (decRef (n_eps n1) dst)), true, o)
        else (s, false, Dropped)
  end.

(* ---- routes and local addresses ---- *)

(* func (n *NIC) findEndpoint(protocol, address, peb) *referencedNetworkEndpoint {
     ref := n.endpoints[NetworkEndpointID{address}]
     if ref != nil && !ref.tryIncRef() { ref = nil }
     if ref != nil || !spoofing { return ref } ... }       // spoofing is off
   result: the NIC with the reference taken, or None *)
Definition nicFindEndpoint (n : nic) (a : addr) : option nic :=
  match lookupNep (n_eps n) a with
  | Some _ => Some (setEps n (incRef (n_eps n) a))
  | None => None
  end.

Definition IPv4Broadcast : addr := [255; 255; 255; 255].
Definition IPv4Any : addr := [0; 0; 0; 0].

(* func (n *NIC) primaryEndpoint(protocol) *referencedNetworkEndpoint {
     list := n.primary[protocol]
     for e := list.Front(); e != nil; e = e.Next() {
       switch r.ep.ID().LocalAddress { case header.IPv4Broadcast, header.IPv4Any: continue }
       if r.tryIncRef() { return r } }
     return nil }
   result: the address of the chosen endpoint *)
Fixpoint primaryAddr (eps : list nep) (proto : Z) : option addr :=
  match eps with
  | [] => None
  | e :: eps' =>
      if negb (ne_proto e =? proto) then primaryAddr eps' proto
      else if addr_eqb (ne_addr e) IPv4Broadcast || addr_eqb (ne_addr e) IPv4Any then primaryAddr eps' proto
      else Some (ne_addr e)
  end.

(* func (s *Stack) FindRoute(id, localAddr, remoteAddr, netProto) (Route, *tcpip.Error) {
     for i := range s.routeTable {
       if (id != 0 && id != s.routeTable[i].NIC) || (len(remoteAddr) != 0 && !s.routeTable[i].Match(remoteAddr)) { continue }
       nic := s.nics[s.routeTable[i].NIC]
       if nic == nil { continue }
       var ref
       if len(localAddr) != 0 { ref = nic.findEndpoint(netProto, localAddr, CanBePrimaryEndpoint) }
       else { ref = nic.primaryEndpoint(netProto) }
       if ref == nil { continue }
       if len(remoteAddr) == 0 { remoteAddr = ref.ep.ID().LocalAddress }
       r := makeRoute(netProto, ref.ep.ID().LocalAddress, remoteAddr, ..., ref)
       return r, nil }
     return Route{}, tcpip.ErrNoRoute }
   result: the stack with the route's reference taken, (nic, local address, remote address) *)
Fixpoint findRouteRows (s : stack) (rows : list rt) (id : Z) (localAddr remoteAddr : addr) (netProto : Z)
  : option (stack * (Z * addr * addr)) :=
  match rows with
  | [] => None
  | row :: rows' =>
      if (negb (id =? 0) && negb (id =? rt_nic row)) || (negb (isNil remoteAddr) && negb (routeMatch row remoteAddr))
      then findRouteRows s rows' id localAddr remoteAddr netProto
      else
        match lookupNic (st_nics s) (rt_nic row) with
        | None => findRouteRows s rows' id localAddr remoteAddr netProto
        | Some n =>
            let ref := if negb (isNil localAddr)
                       then match lookupNep (n_eps n) localAddr with Some _ => Some localAddr | None => None end
                       else primaryAddr (n_eps n) netProto in
            match ref with
            | None => findRouteRows s rows' id localAddr remoteAddr netProto
            | Some la =>
                let n' := setEps n (incRef (n_eps n) la) in
                Some (putNic s n', (n_id n, la, if isNil remoteAddr then la else remoteAddr))
            end
        end
  end.
Definition findRoute (s : stack) (id : Z) (localAddr remoteAddr : addr) (netProto : Z) :=
  findRouteRows s (st_routes s) id localAddr remoteAddr netProto.

(* r.Release(): decRef on the route's network endpoint *)
Definition releaseRef (s : stack) (nicID : Z) (a : addr) : stack :=
  match lookupNic (st_nics s) nicID with
  | None => s
  | Some n => putNic s (setEps n (decRef (n_eps n) a))
  end.
Definition acquireRef (s : stack) (nicID : Z) (a : addr) : stack :=
  match lookupNic (st_nics s) nicID with
  | None => s
  | Some n => putNic s (setEps n (incRef (n_eps n) a))
  end.

(* func (s *Stack) CheckLocalAddress(nicid, protocol, addr) tcpip.NICID {
     if nicid != 0 {
       nic := s.nics[nicid]; if nic == nil { return 0 }
       ref := nic.findEndpoint(protocol, addr, CanBePrimaryEndpoint); if ref == nil { return 0 }
       ref.decRef(); return nic.id }
     for _, nic := range s.nics {                       // Go map order; the model goes by list order:
       ref := nic.findEndpoint(protocol, addr, ...)     // deterministic when at most one NIC holds addr
       if ref != nil { ref.decRef(); return nic.id } }
     return 0 }
   (the reference is taken and dropped again: no net effect on the counts) *)
Fixpoint firstNicWith (ns : list nic) (a : addr) : Z :=
  match ns with
  | [] => 0
  | n :: ns' => match lookupNep (n_eps n) a with Some _ => n_id n | None => firstNicWith ns' a end
  end.
Definition checkLocalAddress (s : stack) (nicid : Z) (a : addr) : Z :=
  if negb (nicid =? 0) then
    match lookupNic (st_nics s) nicid with
    | None => 0
    | Some n => match lookupNep (n_eps n) a with Some _ => n_id n | None => 0 end
    end
  else firstNicWith (st_nics s) a.

(* ---- udp endpoint: which ids Bind / Connect / Close register ---- *)

Definition newSock (kind net : Z) : sock := mkSock kind net 0 (mkTid 0 [] 0 []) 0 0 [] None false false.
Definition sockNum (i : Z) : Z := i.     (* the endpoint identity under which socket i registers *)

(* the tail of checkV4Mapped (addresses are never v4-mapped here):
     udp:  if l := len(e.id.LocalAddress); l != 0 && l != len(addr.Addr) { return ErrInvalidEndpointState }
     tcp:  if l := len(e.id.LocalAddress); l != 0 && len(addr.Addr) != 0 && l != len(addr.Addr) { ... } *)
Definition lenMismatchUdp (e : sock) (a : addr) : bool :=
  negb (isNil (laddr (s_id e))) && negb (Nat.eqb (length (laddr (s_id e))) (length a)).
Definition lenMismatchTcp (e : sock) (a : addr) : bool :=
  negb (isNil (laddr (s_id e))) && negb (isNil a) && negb (Nat.eqb (length (laddr (s_id e))) (length a)).

(* func (e *endpoint) registerWithStack(nicid, netProtos, id) (TransportEndpointID, *tcpip.Error) {
     if e.id.LocalPort == 0 {
       port, err := e.stack.ReservePort(netProtos, ProtocolNumber, id.LocalAddress, id.LocalPort)
       if err != nil { return id, err }
       id.LocalPort = port }
     err := e.stack.RegisterTransportEndpoint(nicid, netProtos, ProtocolNumber, id, e)
     if err != nil { e.stack.ReleasePort(netProtos, ProtocolNumber, id.LocalAddress, id.LocalPort) }
     return id, err }
   [eport]: the port PickEphemeralPort chose when id.LocalPort = 0 (oracle input: the draw is random) *)
Definition udpRegisterWithStack (st : stack) (i : Z) (e : sock) (nicid : Z) (nets : list Z) (id : tid) (eport : Z)
  : stack * tid * Z :=
  let '(st1, id1, err1) :=
    if lport (s_id e) =? 0 then
      let want := if lport id =? 0 then eport else lport id in
      let '(p, ok) := reservePort (st_ports st) nets UDP (laddr id) want in
      if ok then (setPorts st p, mkTid want (laddr id) (rport id) (raddr id), ErrNone)
      else (st, id, if lport id =? 0 then ErrOracle else ErrPortInUse)
    else (st, id, ErrNone) in
  if negb (err1 =? ErrNone) then (st1, id1, err1)
  else
    let '(st2, err2) := registerTransportEndpoint st1 nicid nets UDP id1 (sockNum i) in
    if negb (err2 =? ErrNone)
    then (setPorts st2 (releasePort (st_ports st2) nets UDP (laddr id1) (lport id1)), id1, err2)
    else (st2, id1, ErrNone).

(* udp Bind(addr, nil) = bindLocked + e.bindNICID = addr.NIC:
     if e.state != stateInitial { return ErrInvalidEndpointState }
     netProto, err := e.checkV4Mapped(&addr, true)
     netProtos := []{netProto}
     if netProto == IPv6 && !e.v6only && addr.Addr == "" { netProtos = []{IPv6, IPv4} }
     if len(addr.Addr) != 0 { if e.stack.CheckLocalAddress(addr.NIC, netProto, addr.Addr) == 0 { return ErrBadLocalAddress } }
     id := TransportEndpointID{LocalPort: addr.Port, LocalAddress: addr.Addr}
     id, err = e.registerWithStack(addr.NIC, netProtos, id)
     if err != nil { return err }
     e.id = id; e.regNICID = addr.NIC; e.effectiveNetProtos = netProtos; e.state = stateBound; e.rcvReady = true
     e.bindNICID = addr.NIC *)
Definition udpBind (st : stack) (i : Z) (e : sock) (nicid : Z) (a : addr) (port eport : Z) : stack * Z :=
  if negb (s_state e =? 0) then (st, ErrInvalidEndpointState)
  else if lenMismatchUdp e a then (st, ErrInvalidEndpointState)
  else
    let nets := if (s_net e =? IPv6) && isNil a then [IPv6; IPv4] else [s_net e] in
    if negb (isNil a) && (checkLocalAddress st nicid a =? 0) then (st, ErrBadLocalAddress)
    else
      let '(st1, id, err) := udpRegisterWithStack st i e nicid nets (mkTid port a 0 []) eport in
      if negb (err =? ErrNone) then (st1, err)
      else (putSock st1 i (mkSock (s_kind e) (s_net e) 1 id nicid nicid nets (s_route e) false false), ErrNone).

(* udp Connect(addr):
     if addr.Port == 0 { return ErrInvalidEndpointState }
     nicid := addr.NIC; var localPort uint16
     switch e.state {
     case stateInitial:
     case stateBound, stateConnected:
       localPort = e.id.LocalPort
       if e.bindNICID == 0 { break }
       if nicid != 0 && nicid != e.bindNICID { return ErrInvalidEndpointState }
       nicid = e.bindNICID
     default: return ErrInvalidEndpointState }
     netProto, err := e.checkV4Mapped(&addr, false)
     r, err := e.stack.FindRoute(nicid, e.id.LocalAddress, addr.Addr, netProto); if err != nil { return err }
     defer r.Release()
     id := TransportEndpointID{LocalAddress: r.LocalAddress, LocalPort: localPort, RemotePort: addr.Port, RemoteAddress: r.RemoteAddress}
     netProtos := []{netProto}
     if netProto == IPv6 && !e.v6only { netProtos = []{IPv4, IPv6} }
     id, err = e.registerWithStack(nicid, netProtos, id); if err != nil { return err }
     if e.id.LocalPort != 0 { e.stack.UnregisterTransportEndpoint(e.regNICID, e.effectiveNetProtos, ProtocolNumber, e.id) }
     e.id = id; e.route = r.Clone(); e.dstPort = addr.Port; e.regNICID = nicid; e.effectiveNetProtos = netProtos
     e.state = stateConnected; e.rcvReady = true
   (e.route is overwritten without releasing the previous route: its reference stays) *)
Definition udpConnect (st : stack) (i : Z) (e : sock) (nic0 : Z) (a : addr) (port eport : Z) : stack * Z :=
  if port =? 0 then (st, ErrInvalidEndpointState)
  else if negb ((s_state e =? 0) || (s_state e =? 1) || (s_state e =? 2)) then (st, ErrInvalidEndpointState)
  else
    let localPort := if s_state e =? 0 then 0 else lport (s_id e) in
    let pinned := negb (s_state e =? 0) && negb (s_bindnic e =? 0) in
    if pinned && negb (nic0 =? 0) && negb (nic0 =? s_bindnic e) then (st, ErrInvalidEndpointState)
    else
      let nicid := if pinned then s_bindnic e else nic0 in
      if lenMismatchUdp e a then (st, ErrInvalidEndpointState)
      else
        match findRoute st nicid (laddr (s_id e)) a (s_net e) with
        | None => (st, ErrNoRoute)
        | Some (st1, (rnic, rlocal, rremote)) =>
            let id := mkTid localPort rlocal port rremote in
            let nets := if s_net e =? IPv6 then [IPv4; IPv6] else [s_net e] in
            let '(st2, id2, err) := udpRegisterWithStack st1 i e nicid nets id eport in
            if negb (err =? ErrNone) then (releaseRef st2 rnic rlocal, err)
            else
              let st3 := if negb (lport (s_id e) =? 0)
                         then unregisterTransportEndpoint st2 (s_regnic e) (s_protos e) UDP (s_id e) else st2 in
              (* r.Clone() then the deferred r.Release(): the reference taken by FindRoute stays with e.route *)
              (putSock st3 i (mkSock (s_kind e) (s_net e) 2 id2 nicid (s_bindnic e) nets (Some (rnic, rlocal)) false false),
               ErrNone)
        end.

(* udp Close():
     switch e.state { case stateBound, stateConnected:
       e.stack.UnregisterTransportEndpoint(e.regNICID, e.effectiveNetProtos, ProtocolNumber, e.id)
       e.stack.ReleasePort(e.effectiveNetProtos, ProtocolNumber, e.id.LocalAddress, e.id.LocalPort) }
     ...; e.route.Release(); e.state = stateClosed *)
Definition udpClose (st : stack) (i : Z) (e : sock) : stack :=
  let st1 := if (s_state e =? 1) || (s_state e =? 2) then
               let st' := unregisterTransportEndpoint st (s_regnic e) (s_protos e) UDP (s_id e) in
               setPorts st' (releasePort (st_ports st') (s_protos e) UDP (laddr (s_id e)) (lport (s_id e)))
             else st in
  let st2 := match s_route e with Some (n, a) => releaseRef st1 n a | None => st1 end in
  putSock st2 i (mkSock (s_kind e) (s_net e) 4 (s_id e) (s_regnic e) (s_bindnic e) (s_protos e) None false false).

(* ---- tcp endpoint: Bind / Listen / Close ---- *)

(* tcp Bind(addr, nil):
     if e.state != stateInitial { return ErrAlreadyBound }
     netProto, err := e.checkV4Mapped(&addr)
     netProtos := []{netProto}; if netProto == IPv6 && !e.v6only && addr.Addr == "" { netProtos = []{IPv6, IPv4} }
     port, err := e.stack.ReservePort(netProtos, ProtocolNumber, addr.Addr, addr.Port); if err != nil { return err }
     e.isPortReserved = true; e.effectiveNetProtos = netProtos; e.id.LocalPort = port
     defer func() { if err != nil { ReleasePort(...); isPortReserved = false; effectiveNetProtos = nil; id.LocalPort = 0; id.LocalAddress = ""; boundNICID = 0 } }()
     if len(addr.Addr) != 0 {
       nic := e.stack.CheckLocalAddress(addr.NIC, netProto, addr.Addr)
       if nic == 0 { return ErrBadLocalAddress }
       e.boundNICID = nic; e.id.LocalAddress = addr.Addr }
     e.state = stateBound
   (the driver always binds to a non-zero port) *)
Definition tcpBind (st : stack) (i : Z) (e : sock) (nicid : Z) (a : addr) (port eport : Z) : stack * Z :=
  if negb (s_state e =? 0) then (st, ErrAlreadyBound)
  else if lenMismatchTcp e a then (st, ErrInvalidEndpointState)
  else
    let nets := if (s_net e =? IPv6) && isNil a then [IPv6; IPv4] else [s_net e] in
    let want := if port =? 0 then eport else port in
    let '(p, ok) := reservePort (st_ports st) nets TCP a want in
    if negb ok then (st, if port =? 0 then ErrOracle else ErrPortInUse)
    else
      let nic := if isNil a then 0 else checkLocalAddress st nicid a in
      if negb (isNil a) && (nic =? 0) then (st, ErrBadLocalAddress)      (* the deferred unwind: nothing stays reserved *)
      else
        (putSock (setPorts st p) i
           (mkSock (s_kind e) (s_net e) 1 (mkTid want a 0 []) nic 0 nets None true false), ErrNone).

(* tcp Listen(backlog):
     if e.state == stateListen && !e.workerCleanup { ...adjust backlog...; return nil }
     if e.state != stateBound { return ErrInvalidEndpointState }
     if err := e.stack.RegisterTransportEndpoint(e.boundNICID, e.effectiveNetProtos, ProtocolNumber, e.id, e); err != nil { return err }
     e.isRegistered = true; e.state = stateListen; ... go e.protocolListenLoop(...) *)
Definition tcpListen (st : stack) (i : Z) (e : sock) : stack * Z :=
  if s_state e =? 3 then (st, ErrNone)
  else if negb (s_state e =? 1) then (st, ErrInvalidEndpointState)
  else
    let '(st1, err) := registerTransportEndpoint st (s_regnic e) (s_protos e) TCP (s_id e) (sockNum i) in
    if negb (err =? ErrNone) then (st1, err)
    else (putSock st1 i (mkSock (s_kind e) (s_net e) 3 (s_id e) (s_regnic e) 0 (s_protos e) None true true), ErrNone).

(* tcp Close():
     e.Shutdown(...)
     if e.isPortReserved {
       e.stack.ReleasePort(e.effectiveNetProtos, ProtocolNumber, e.id.LocalAddress, e.id.LocalPort)
       e.isPortReserved = false
       if e.isRegistered { e.stack.UnregisterTransportEndpoint(e.boundNICID, e.effectiveNetProtos, ProtocolNumber, e.id); e.isRegistered = false } }
     ...cleanup (nothing registered any more)... *)
Definition tcpClose (st : stack) (i : Z) (e : sock) : stack :=
  let st1 := if s_reserved e then
               let st' := setPorts st (releasePort (st_ports st) (s_protos e) TCP (laddr (s_id e)) (lport (s_id e))) in
               if s_registered e then unregisterTransportEndpoint st' (s_regnic e) (s_protos e) TCP (s_id e) else st'
             else st in
  putSock st1 i (mkSock (s_kind e) (s_net e) 4 (s_id e) (s_regnic e) 0 (s_protos e) None false false).

(* ------------------------------------------------------------------ operations on the stack *)

Inductive op :=
| OAddAddr (nic proto : Z) (a : addr)                 (* Stack.AddAddress *)
| ORemoveAddr (nic : Z) (a : addr)                    (* Stack.RemoveAddress *)
| OAddSubnet (nic : Z) (a m : addr)                   (* tcpip.NewSubnet(a, m) then Stack.AddSubnet *)
| OPromisc (nic : Z) (b : bool)                       (* Stack.SetPromiscuousMode *)
| ONewSock (i kind net : Z)                           (* Stack.NewEndpoint(kind, net, wq) *)
| OBind (i nic : Z) (a : addr) (port eport : Z)       (* ep.Bind(FullAddress{nic, a, port}, nil) *)
| OConnect (i nic : Z) (a : addr) (port eport : Z)    (* ep.Connect(FullAddress{nic, a, port})   (udp) *)
| OListen (i : Z)                                     (* ep.Listen(backlog) *)
| OClose (i : Z)                                      (* ep.Close() *)
| ORawReg (nic : Z) (nets : list Z) (trans : Z) (id : tid) (ep : Z)    (* Stack.RegisterTransportEndpoint *)
| ORawUnreg (nic : Z) (nets : list Z) (trans : Z) (id : tid)           (* Stack.UnregisterTransportEndpoint *)
| OPacket (nic net : Z) (src dst : addr) (trans sport dport : Z) (isRst : bool).   (* link.Inject *)

Inductive result :=
| RErr (e : Z)
| RPkt (accepted : bool) (o : outcome).

Definition withNic (st : stack) (nicid : Z) (f : nic -> stack * result) : stack * result :=
  match lookupNic (st_nics st) nicid with
  | None => (st, RErr ErrUnknownNICID)
  | Some n => f n
  end.

Definition step (st : stack) (o : op) : stack * result :=
  match o with
  | OAddAddr nicid proto a =>
      withNic st nicid (fun n => let '(n', e) := addAddressLocked n proto a false in (putNic st n', RErr e))
  | ORemoveAddr nicid a =>
      withNic st nicid (fun n => let '(n', e) := removeAddress n a in (putNic st n', RErr e))
  | OAddSubnet nicid a m =>
      match newSubnet a m with
      | None => (st, RErr ErrSubnet)
      | Some sn =>
          withNic st nicid (fun n =>
            (putNic st (mkNic (n_id n) (n_promisc n) (n_subnets n ++ [sn]) (n_eps n) (n_demux n)), RErr ErrNone))
      end
  | OPromisc nicid b =>
      withNic st nicid (fun n => (putNic st (mkNic (n_id n) b (n_subnets n) (n_eps n) (n_demux n)), RErr ErrNone))
  | ONewSock i kind net => (putSock st i (newSock kind net), RErr ErrNone)
  | OBind i nicid a port eport =>
      match lookupSock (st_socks st) i with
      | None => (st, RErr ErrNoSuchSocket)
      | Some e => let '(st', err) := if s_kind e =? UDP then udpBind st i e nicid a port eport
                                     else tcpBind st i e nicid a port eport in (st', RErr err)
      end
  | OConnect i nicid a port eport =>
      match lookupSock (st_socks st) i with
      | None => (st, RErr ErrNoSuchSocket)
      | Some e => if s_kind e =? UDP then let '(st', err) := udpConnect st i e nicid a port eport in (st', RErr err)
                  else (st, RErr ErrNotSupported)        (* tcp active opens are not modelled; the driver issues none *)
      end
  | OListen i =>
      match lookupSock (st_socks st) i with
      | None => (st, RErr ErrNoSuchSocket)
      | Some e => if s_kind e =? UDP then (st, RErr ErrNotSupported)       (* udp Listen(int) = ErrNotSupported *)
                  else let '(st', err) := tcpListen st i e in (st', RErr err)
      end
  | OClose i =>
      match lookupSock (st_socks st) i with
      | None => (st, RErr ErrNoSuchSocket)
      | Some e => ((if s_kind e =? UDP then udpClose st i e else tcpClose st i e), RErr ErrNone)
      end
  | ORawReg nicid nets trans id ep =>
      let '(st', e) := registerTransportEndpoint st nicid nets trans id ep in (st', RErr e)
  | ORawUnreg nicid nets trans id => (unregisterTransportEndpoint st nicid nets trans id, RErr ErrNone)
  | OPacket nicid net src dst trans sport dport isRst =>
      let '(st', acc, o) := deliverNetworkPacket st nicid net src dst trans sport dport isRst in (st', RPkt acc o)
  end.

(* func (s *Stack) createNIC(id, ...) : newNIC(...) with demux: newTransportDemuxer(stack) *)
Definition newNic (id : Z) : nic := mkNic id false [] [] (newDemuxer netProtos transProtos).
Definition newStack (nicids : list Z) (routes : list rt) : stack :=
  mkStack (map newNic nicids) (newDemuxer netProtos transProtos) routes [] [].

(* run a history, collecting the results *)
Fixpoint run (st : stack) (ops : list op) : stack * list result :=
  match ops with
  | [] => (st, [])
  | o :: ops' => let '(st1, r) := step st o in let '(st2, rs) := run st1 ops' in (st2, r :: rs)
  end.
