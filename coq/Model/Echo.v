(* Model of the ICMP echo responders of /repo/protocol/network/ipv4/icmp.go (handleICMP echo
   branch, the echoRequests channel of capacity 10, echoReplier, sendPing4) and
   /repo/protocol/network/ipv6/icmp.go (handleICMP EchoRequest branch, icmpChecksum), together with
   the part of the inbound path that decides what those functions see (stack/nic.go
   DeliverNetworkPacket address filter, ipv4.HandlePacket / ipv6.HandlePacket: IsValid, TrimFront,
   CapLength, fragment hand-off) and of the outbound path that wraps their result
   (ipv4.WritePacket / ipv6.WritePacket).  Executable definitions only; proofs are in
   Proofs/EchoP.v.

   Conventions: a []byte / buffer.View / tcpip.Address is a [list Z] of bytes; a
   buffer.VectorisedView is the list of its views ([vv]; its size field is the total length,
   which every operation used here keeps consistent); a Go panic (index / slice out of range) is
   [None] in the option monad of Model/Bytes.v and [Panic] in the top-level results.

   Abstractions: the route is reduced to (LocalAddress, RemoteAddress); link addresses, NIC ids,
   reference counts (Clone/Release) and statistics are not modelled; handleControl (destination
   unreachable, packet too big), the neighbour discovery branches and the delivery of echo
   REPLIES to transport endpoints are reduced to an action name (they emit no echo reply);
   the ipv4 reassembler is modelled only for two contiguous fragments (C08 owns the general
   case); the IPv4 identification counter is an input of [ip4_write]. *)
From Coq Require Import ZArith List Bool.
From NP Require Import Model.Bytes Model.Checksum Model.HdrIP.
Import ListNotations.
Open Scope Z_scope.

Inductive res (A : Type) : Type := Ok (a : A) | Panic.
Arguments Ok {A} a.
Arguments Panic {A}.
Definition of_opt {A : Type} (o : option A) : res A :=
  match o with Some a => Ok a | None => Panic end.

(* ------------------------------------------------------------------ VectorisedView *)
Definition vv := list (list Z).

(* func (vv VectorisedView) Size() int *)
Definition vv_size (views : vv) : Z := Z.of_nat (length (concat views)).

(* func (vv VectorisedView) First() View { if len(vv.views) == 0 { return nil }; return vv.views[0] } *)
Definition vv_first (views : vv) : list Z := match views with [] => [] | v :: _ => v end.

(* func (vv *VectorisedView) TrimFront(count int) {
     for count > 0 && len(vv.views) > 0 {
       if count < len(vv.views[0]) { vv.size -= count; vv.views[0].TrimFront(count); return }
       count -= len(vv.views[0]); vv.RemoveFirst() } } *)
Fixpoint vv_trimFront (views : vv) (count : nat) : vv :=
  match views with
  | [] => []
  | v :: rest =>
      if (count =? 0)%nat then views
      else if (count <? length v)%nat then skipn count v :: rest
      else vv_trimFront rest (count - length v)
  end.

(* the loop of CapLength:
     for i := range vv.views { v := &vv.views[i]
       if len( *v) >= length {
         if length == 0 { vv.views = vv.views[:i] } else { v.CapLength(length); vv.views = vv.views[:i+1] }
         return }
       length -= len( *v) } *)
Fixpoint vv_capLoop (views : vv) (len : nat) : vv :=
  match views with
  | [] => []
  | v :: rest =>
      if (len <=? length v)%nat then (if (len =? 0)%nat then [] else [firstn len v])
      else v :: vv_capLoop rest (len - length v)
  end.

(* func (vv *VectorisedView) CapLength(length int) {
     if length < 0 { length = 0 }
     if vv.size < length { return }
     vv.size = length
     ...loop... } *)
Definition vv_capLength (views : vv) (len : Z) : vv :=
  let len := if len <? 0 then 0 else len in
  if vv_size views <? len then views else vv_capLoop views (Z.to_nat len).

(* func (vv VectorisedView) ToView() View: the concatenation of the views *)
Definition vv_toView (views : vv) : list Z := concat views.

(* ------------------------------------------------------------------ routes and emitted packets *)
(* stack.Route, reduced to the two addresses WritePacket uses *)
Record route := mkRoute { r_local : list Z; r_remote : list Z }.

(* what r.WritePacket(hdr, payload, protocol, ttl) is called with: source = r.LocalAddress,
   destination = r.RemoteAddress *)
Record packet := mkPacket {
  p_src : list Z; p_dst : list Z; p_ttl : Z; p_proto : Z; p_hdr : list Z; p_payload : list Z }.
(* the transport-layer message that goes on the wire: header bytes then payload *)
Definition p_msg (p : packet) : list Z := p_hdr p ++ p_payload p.

(* ------------------------------------------------------------------ IPv4: handleICMP *)
(* const ICMPv4MinimumSize = 4; ICMPv4EchoMinimumSize = 6; ICMPv4DstUnreachableMinimumSize = 8
   ICMPv4EchoReply = 0; ICMPv4DstUnreachable = 3; ICMPv4Echo = 8 *)
Inductive icmp4_act :=
| A4Ignore                 (* return without any effect *)
| A4Echo (data : list Z)   (* echo request: the echoRequest{r.Clone(), vv.ToView()} offered to the queue *)
| A4DeliverReply           (* echo reply: e.dispatcher.DeliverTransportPacket(r, ICMPv4, vv) *)
| A4Control.               (* destination unreachable: handleControl (not modelled further) *)

(* func (e *endpoint) handleICMP(r *stack.Route, vv buffer.VectorisedView) {
     v := vv.First()
     if len(v) < header.ICMPv4MinimumSize { return }
     h := header.ICMPv4(v)
     switch h.Type() {
     case header.ICMPv4Echo:
       if len(v) < header.ICMPv4EchoMinimumSize { return }
       vv.TrimFront(header.ICMPv4MinimumSize)
       req := echoRequest{r: r.Clone(), v: vv.ToView()}
       select { case e.echoRequests <- req: default: req.r.Release() }
     case header.ICMPv4EchoReply:
       if len(v) < header.ICMPv4EchoMinimumSize { return }
       e.dispatcher.DeliverTransportPacket(r, header.ICMPv4ProtocolNumber, vv)
     case header.ICMPv4DstUnreachable:
       if len(v) < header.ICMPv4DstUnreachableMinimumSize { return }
       ... handleControl ...
     } }
   The length tests look at the FIRST view only; the request checksum is not verified. *)
Definition handleICMP4 (views : vv) : option icmp4_act :=
  let v := vv_first views in
  if (length v <? 4)%nat then Some A4Ignore else
  ty <- get8 v 0 ;;
  if ty =? 8 then
    if (length v <? 6)%nat then Some A4Ignore
    else Some (A4Echo (vv_toView (vv_trimFront views 4)))
  else if ty =? 0 then
    if (length v <? 6)%nat then Some A4Ignore else Some A4DeliverReply
  else if ty =? 3 then
    if (length v <? 8)%nat then Some A4Ignore else Some A4Control
  else Some A4Ignore.

(* func sendPing4(r *stack.Route, code byte, data buffer.View) *tcpip.Error {
     hdr := buffer.NewPrependable(header.ICMPv4EchoMinimumSize + int(r.MaxHeaderLength()))
     icmpv4 := header.ICMPv4(hdr.Prepend(header.ICMPv4EchoMinimumSize))     -- 6 fresh zero bytes
     icmpv4.SetType(header.ICMPv4EchoReply)
     icmpv4.SetCode(code)
     copy(icmpv4[header.ICMPv4MinimumSize:], data)                           -- icmpv4[4:6] = data[0:2]
     data = data[header.ICMPv4EchoMinimumSize-header.ICMPv4MinimumSize:]     -- data[2:], panics if len < 2
     icmpv4.SetChecksum(^header.Checksum(icmpv4, header.Checksum(data, 0)))  -- field still 0 here
     return r.WritePacket(hdr, data.ToVectorisedView(), header.ICMPv4ProtocolNumber, r.DefaultTTL()) }
   result: (the 6 header bytes, the payload view) *)
Definition sendPing4 (code : Z) (data : list Z) : option (list Z * list Z) :=
  let icmpv4 := repeat 0 6 in
  b <- put8 icmpv4 0 0 ;;
  b <- put8 b 1 code ;;
  b <- copy_into b 4 2 data ;;
  data' <- getFrom data 2 ;;
  b <- put16 b 2 (lnot16 (checksum b (checksum data' 0))) ;;
  Some (b, data').

(* type echoRequest struct { r stack.Route; v buffer.View } *)
Record ereq := mkReq { q_route : route; q_data : list Z }.

(* one iteration of   for req := range e.echoRequests { sendPing4(&req.r, 0, req.v); req.r.Release() }
   func (e *endpoint) DefaultTTL() uint8 { return 255 };  ICMPv4ProtocolNumber = 1 *)
Definition emit4 (rq : ereq) : option packet :=
  hp <- sendPing4 0 (q_data rq) ;;
  Some (mkPacket (r_local (q_route rq)) (r_remote (q_route rq)) 255 1 (fst hp) (snd hp)).

(* ------------------------------------------------------------------ IPv4: the bounded queue *)
(* echoRequests: make(chan echoRequest, 10) *)
Definition q4_cap : nat := 10.

(* state of one ipv4 endpoint as far as echo is concerned: the channel buffer (FIFO), the packets
   handed to WritePacket so far (oldest first), and whether a Go panic happened *)
Record ep4 := mkEp4 { pending : list ereq; sent : list packet; crashed : bool }.
Definition ep4_init : ep4 := mkEp4 [] [] false.

(* Arrive = handleICMP called with a route and the ICMP message views;
   Drain = the replier goroutine receives one request from the channel and answers it
           (when the channel is empty the goroutine stays blocked: no effect) *)
Inductive op4 := Arrive (r : route) (views : vv) | Drain.

Definition step4 (s : ep4) (o : op4) : ep4 :=
  match o with
  | Arrive r views =>
      match handleICMP4 views with
      | None => mkEp4 (pending s) (sent s) true
      | Some (A4Echo data) =>
          (* select { case e.echoRequests <- req: default: req.r.Release() } *)
          if (length (pending s) <? q4_cap)%nat
          then mkEp4 (pending s ++ [mkReq r data]) (sent s) (crashed s)
          else s
      | Some _ => s
      end
  | Drain =>
      match pending s with
      | [] => s
      | rq :: rest =>
          match emit4 rq with
          | None => mkEp4 rest (sent s) true
          | Some p => mkEp4 rest (sent s ++ [p]) (crashed s)
          end
      end
  end.

Definition run4 (s : ep4) (ops : list op4) : ep4 := fold_left step4 ops s.

(* the per-request view: what happens to one ICMP message that arrives while [npending] requests
   are waiting in the channel: ignored, dropped because the channel is full, or (once the
   replier gets to it) answered with these ICMP bytes *)
Inductive echo_out := EIgnored | EDropped | EReply (msg : list Z).
Definition echo4 (views : vv) (npending : nat) : res echo_out :=
  match handleICMP4 views with
  | None => Panic
  | Some (A4Echo data) =>
      if (npending <? q4_cap)%nat then
        match sendPing4 0 data with
        | None => Panic
        | Some hp => Ok (EReply (fst hp ++ snd hp))
        end
      else Ok EDropped
  | Some _ => Ok EIgnored
  end.

(* ------------------------------------------------------------------ IPv6 *)
(* func icmpChecksum(h header.ICMPv6, src, dst tcpip.Address, vv buffer.VectorisedView) uint16 {
     xsum := header.Checksum([]byte(src), 0)
     xsum = header.Checksum([]byte(dst), xsum)
     var upperLayerLength [4]byte
     binary.BigEndian.PutUint32(upperLayerLength[:], uint32(len(h)+vv.Size()))
     xsum = header.Checksum(upperLayerLength[:], xsum)
     xsum = header.Checksum([]byte{0, 0, 0, uint8(header.ICMPv6ProtocolNumber)}, xsum)
     // Sum the payload as one byte string: header.Checksum pads a buffer of
     // odd length, so summing view by view is wrong whenever a view other
     // than the last one has an odd length.
     xsum = header.Checksum(vv.ToView(), xsum)
     h2, h3 := h[2], h[3]; h[2], h[3] = 0, 0
     xsum = ^header.Checksum(h, xsum)
     h[2], h[3] = h2, h3
     return xsum }
   (the text since /repo commit 1404d7f) *)
Definition icmp6Checksum (h src dst : list Z) (views : vv) : option Z :=
  let xsum := checksum src 0 in
  let xsum := checksum dst xsum in
  upper <- put32 (repeat 0 4) 0 (w32 (Z.of_nat (length h) + vv_size views)) ;;
  let xsum := checksum upper xsum in
  let xsum := checksum [0; 0; 0; 58] xsum in
  let xsum := checksum (vv_toView views) xsum in
  h0 <- upd h 2 0 ;;
  h0 <- upd h0 3 0 ;;
  Some (lnot16 (checksum h0 xsum)).

(* the text before 1404d7f (kept only for EchoP.echo6_odd_chunk_old_refuted_l): the payload was
   summed view by view,
     for _, v := range vv.Views() { xsum = header.Checksum(v, xsum) }
   and header.Checksum pads every odd-length buffer with a zero byte of its own, so a view of odd
   length that is not the last one shifted everything behind it by one byte in the sum.  (Like the
   Go function it sets h[2:4] aside, so it can be applied to a header that already carries a
   checksum.) *)
Definition icmp6Checksum_old (h src dst : list Z) (views : vv) : option Z :=
  let xsum := checksum src 0 in
  let xsum := checksum dst xsum in
  upper <- put32 (repeat 0 4) 0 (w32 (Z.of_nat (length h) + vv_size views)) ;;
  let xsum := checksum upper xsum in
  let xsum := checksum [0; 0; 0; 58] xsum in
  let xsum := checksum_chunks views xsum in
  h0 <- upd h 2 0 ;;
  h0 <- upd h0 3 0 ;;
  Some (lnot16 (checksum h0 xsum)).

(* const ICMPv6MinimumSize = 4; ICMPv6EchoMinimumSize = 8; ICMPv6DstUnreachableMinimumSize = 8;
   ICMPv6PacketTooBigMinimumSize = 8; ICMPv6NeighborSolicitMinimumSize = 24;
   ICMPv6NeighborAdvertSize = 32; types: DstUnreachable 1, PacketTooBig 2, EchoRequest 128,
   EchoReply 129, NeighborSolicit 135, NeighborAdvert 136 *)
Inductive icmp6_act :=
| A6Ignore
| A6Reply (p : packet)   (* echo request answered synchronously: r.WritePacket(hdr, vv, ICMPv6, 255) *)
| A6DeliverReply         (* echo reply handed to the transport dispatcher *)
| A6Control              (* packet too big / destination unreachable: handleControl *)
| A6Solicit              (* neighbour solicitation (answered with an advertisement; not modelled further) *)
| A6Advert.              (* neighbour advertisement: link address cache update, nothing is sent *)

(* func (e *endpoint) handleICMP(r *stack.Route, vv buffer.VectorisedView) {
     v := vv.First()
     if len(v) < header.ICMPv6MinimumSize { return }
     h := header.ICMPv6(v)
     switch h.Type() {
     ...
     case header.ICMPv6EchoRequest:
       if len(v) < header.ICMPv6EchoMinimumSize { return }
       vv.TrimFront(header.ICMPv6EchoMinimumSize)
       hdr := buffer.NewPrependable(int(r.MaxHeaderLength()) + header.IPv6MinimumSize + header.ICMPv6EchoMinimumSize)
       pkt := header.ICMPv6(hdr.Prepend(header.ICMPv6EchoMinimumSize))
       copy(pkt, h)
       pkt.SetType(header.ICMPv6EchoReply)
       pkt.SetChecksum(icmpChecksum(pkt, r.LocalAddress, r.RemoteAddress, vv))
       r.WritePacket(hdr, vv, header.ICMPv6ProtocolNumber, r.DefaultTTL())
     case header.ICMPv6EchoReply:
       if len(v) < header.ICMPv6EchoMinimumSize { return }
       e.dispatcher.DeliverTransportPacket(r, header.ICMPv6ProtocolNumber, vv)
     } }
   The code field is copied from the request; the request checksum is not verified. *)
Definition handleICMP6 (r : route) (views : vv) : option icmp6_act :=
  let v := vv_first views in
  if (length v <? 4)%nat then Some A6Ignore else
  ty <- get8 v 0 ;;
  if ty =? 128 then
    if (length v <? 8)%nat then Some A6Ignore else
    let rest := vv_trimFront views 8 in
    pkt <- copy_into (repeat 0 8) 0 8 v ;;
    pkt <- put8 pkt 0 129 ;;
    c <- icmp6Checksum pkt (r_local r) (r_remote r) rest ;;
    pkt <- put16 pkt 2 c ;;
    Some (A6Reply (mkPacket (r_local r) (r_remote r) 255 58 pkt (vv_toView rest)))
  else if ty =? 129 then
    if (length v <? 8)%nat then Some A6Ignore else Some A6DeliverReply
  else if (ty =? 2) || (ty =? 1) then
    if (length v <? 8)%nat then Some A6Ignore else Some A6Control
  else if ty =? 135 then
    if (length v <? 24)%nat then Some A6Ignore else Some A6Solicit
  else if ty =? 136 then
    if (length v <? 32)%nat then Some A6Ignore else Some A6Advert
  else Some A6Ignore.

Definition echo6 (r : route) (views : vv) : res echo_out :=
  match handleICMP6 r views with
  | None => Panic
  | Some (A6Reply p) => Ok (EReply (p_msg p))
  | Some _ => Ok EIgnored
  end.

(* the statements of the EchoRequest branch above as they ran before 1404d7f, i.e. with
   [icmp6Checksum_old] (for a message that reached the branch: type 128, 8 bytes in the first view);
   kept only for EchoP.echo6_odd_chunk_old_refuted_l *)
Definition echo6_reply_old (r : route) (views : vv) : option packet :=
  let v := vv_first views in
  let rest := vv_trimFront views 8 in
  pkt <- copy_into (repeat 0 8) 0 8 v ;;
  pkt <- put8 pkt 0 129 ;;
  c <- icmp6Checksum_old pkt (r_local r) (r_remote r) rest ;;
  pkt <- put16 pkt 2 c ;;
  Some (mkPacket (r_local r) (r_remote r) 255 58 pkt (vv_toView rest)).

(* ------------------------------------------------------------------ inbound path to handleICMP *)
Fixpoint bytes_eqb (a b : list Z) : bool :=
  match a, b with
  | [], [] => true
  | x :: a', y :: b' => (x =? y) && bytes_eqb a' b'
  | _, _ => false
  end.
(* n.endpoints[NetworkEndpointID{dst}] exists (the NIC's address filter, property C09; no
   promiscuous mode, no subnets, no forwarding) *)
Definition owns (owned : list (list Z)) (a : list Z) : bool := existsb (bytes_eqb a) owned.

Record frag4 := mkFrag4 {
  f_src : list Z; f_dst : list Z; f_id : Z; f_proto : Z; f_first : Z; f_last : Z; f_more : bool;
  f_views : vv }.

Inductive net_act :=
| NDrop                               (* never reaches a network endpoint / invalid header *)
| NFragment (r : route) (f : frag4)   (* handed to e.fragmentation.Process *)
| NICMP (r : route) (views : vv)      (* e.handleICMP(r, vv) *)
| NTransport (r : route) (proto : Z). (* e.dispatcher.DeliverTransportPacket *)

(* NIC.DeliverNetworkPacket:
     if len(vv.First()) < netProto.MinimumPacketSize() { return }
     src, dst := netProto.ParseAddresses(vv.First())
     if ref := n.getRef(protocol, dst); ref != nil {
       r := makeRoute(protocol, dst, src, linkEP.LinkAddress(), ref)     -- local = dst, remote = src
       ref.ep.HandlePacket(&r, vv) ... }
   then ipv4 endpoint.HandlePacket:
     h := header.IPv4(vv.First())
     if !h.IsValid(vv.Size()) { return }
     hlen := int(h.HeaderLength()); tlen := int(h.TotalLength())
     vv.TrimFront(hlen); vv.CapLength(tlen - hlen)
     more := (h.Flags() & header.IPv4FlagMoreFragments) != 0
     if more || h.FragmentOffset() != 0 {
       last := h.FragmentOffset() + uint16(vv.Size()) - 1
       vv, ready = e.fragmentation.Process(hash.IPv4FragmentHash(h), h.FragmentOffset(), last, more, vv)
       if !ready { return } }
     p := h.TransportProtocol()
     if p == header.ICMPv4ProtocolNumber { e.handleICMP(r, vv); return }
     e.dispatcher.DeliverTransportPacket(r, p, vv) *)
Definition nic4_deliver (owned : list (list Z)) (views : vv) : option net_act :=
  let h := vv_first views in
  if (length h <? 20)%nat then Some NDrop else
  src <- ipv4_sourceAddress h ;;
  dst <- ipv4_destinationAddress h ;;
  if negb (owns owned dst) then Some NDrop else
  let r := mkRoute dst src in
  valid <- ipv4_isValid h (vv_size views) ;;
  if negb valid then Some NDrop else
  hlen <- ipv4_headerLength h ;;
  tlen <- ipv4_totalLength h ;;
  let views1 := vv_capLength (vv_trimFront views (Z.to_nat hlen)) (tlen - hlen) in
  flags <- ipv4_flags h ;;
  fo <- ipv4_fragmentOffset h ;;
  id <- ipv4_id h ;;
  proto <- ipv4_protocol h ;;
  let more := negb (flags mod 2 =? 0) in
  if more || negb (fo =? 0)
  then Some (NFragment r (mkFrag4 src dst id proto fo (w16 (w16 (fo + w16 (vv_size views1)) - 1)) more views1))
  else if proto =? 1 then Some (NICMP r views1) else Some (NTransport r proto).

(* fragmentation.Process restricted to a datagram that arrives as exactly two fragments which
   tile it: [a] at offset 0 with the more-fragments flag, [b] starting right behind it without
   the flag (either may arrive first).  reassemble() pops the fragments in offset order and
   appends their views; HandlePacket then continues with the route and header of the fragment
   that arrived LAST.  None = outside this restricted domain. *)
Definition reasm2 (first_arrived second_arrived : frag4) : option vv :=
  let same := bytes_eqb (f_src first_arrived) (f_src second_arrived) &&
              bytes_eqb (f_dst first_arrived) (f_dst second_arrived) &&
              (f_id first_arrived =? f_id second_arrived) &&
              (f_proto first_arrived =? f_proto second_arrived) in
  let tiles (a b : frag4) :=
    (f_first a =? 0) && f_more a && negb (f_more b) && (0 <? vv_size (f_views a)) &&
    (0 <? vv_size (f_views b)) && (f_first b =? vv_size (f_views a)) in
  if same && tiles first_arrived second_arrived
  then Some (f_views first_arrived ++ f_views second_arrived)
  else if same && tiles second_arrived first_arrived
  then Some (f_views second_arrived ++ f_views first_arrived)
  else None.

(* ipv6: the NIC part is the same; endpoint.HandlePacket:
     h := header.IPv6(vv.First())
     if !h.IsValid(vv.Size()) { return }
     vv.TrimFront(header.IPv6MinimumSize)
     vv.CapLength(int(h.PayloadLength()))
     p := h.TransportProtocol()
     if p == header.ICMPv6ProtocolNumber { e.handleICMP(r, vv); return }
     e.dispatcher.DeliverTransportPacket(r, p, vv) *)
Definition nic6_deliver (owned : list (list Z)) (views : vv) : option net_act :=
  let h := vv_first views in
  if (length h <? 40)%nat then Some NDrop else
  src <- ipv6_sourceAddress h ;;
  dst <- ipv6_destinationAddress h ;;
  if negb (owns owned dst) then Some NDrop else
  let r := mkRoute dst src in
  valid <- ipv6_isValid h (vv_size views) ;;
  if negb valid then Some NDrop else
  plen <- ipv6_payloadLength h ;;
  let views1 := vv_capLength (vv_trimFront views 40) plen in
  proto <- ipv6_nextHeader h ;;
  if proto =? 58 then Some (NICMP r views1) else Some (NTransport r proto).

(* ------------------------------------------------------------------ outbound path *)
(* func (e *endpoint) WritePacket(r, hdr, payload, protocol, ttl) *tcpip.Error {       (ipv4)
     ip := header.IPv4(hdr.Prepend(header.IPv4MinimumSize))
     length := uint16(hdr.UsedLength() + payload.Size())
     id := uint32(0)
     if length > header.IPv4MaximumHeaderSize+8 { id = atomic.AddUint32(&ids[hashRoute(r, protocol)%buckets], 1) }
     ip.Encode(&header.IPv4Fields{IHL: 20, TotalLength: length, ID: uint16(id), TTL: ttl,
                                  Protocol: uint8(protocol), SrcAddr: r.LocalAddress, DstAddr: r.RemoteAddress})
     ip.SetChecksum(^ip.CalculateChecksum())
     return e.linkEP.WritePacket(r, hdr, payload, ProtocolNumber) }
   [id] is the value the per-flow counter returned (an input); it is used only above 68 bytes *)
Definition ip4_write (p : packet) (id : Z) : option (list Z) :=
  let len := w16 (20 + Z.of_nat (length (p_hdr p)) + Z.of_nat (length (p_payload p))) in
  let id := if 68 <? len then id else 0 in
  ip <- ipv4_encode (repeat 0 20)
          (mkIPv4 20 0 len (w16 id) 0 0 (p_ttl p) (p_proto p) 0 (p_src p) (p_dst p)) ;;
  c <- ipv4_calculateChecksum ip ;;
  ip <- ipv4_setChecksum ip (lnot16 c) ;;
  Some (ip ++ p_hdr p ++ p_payload p).

(* func (e *endpoint) WritePacket(r, hdr, payload, protocol, ttl) *tcpip.Error {       (ipv6)
     length := uint16(hdr.UsedLength() + payload.Size())
     ip := header.IPv6(hdr.Prepend(header.IPv6MinimumSize))
     ip.Encode(&header.IPv6Fields{PayloadLength: length, NextHeader: uint8(protocol), HopLimit: ttl,
                                  SrcAddr: r.LocalAddress, DstAddr: r.RemoteAddress})
     return e.linkEP.WritePacket(r, hdr, payload, ProtocolNumber) } *)
Definition ip6_write (p : packet) : option (list Z) :=
  let len := w16 (Z.of_nat (length (p_hdr p)) + Z.of_nat (length (p_payload p))) in
  ip <- ipv6_encode (repeat 0 40) (mkIPv6 0 0 len (p_proto p) (p_ttl p) (p_src p) (p_dst p)) ;;
  Some (ip ++ p_hdr p ++ p_payload p).

(* ------------------------------------------------------------------ specification vocabulary *)
(* written from RFC 792 / RFC 4443 / RFC 2460 section 8.1, independently of the functions above *)
(* big-endian 32-bit encoding of n *)
Definition be32 (n : Z) : list Z := [n / 16777216 mod 256; n / 65536 mod 256; n / 256 mod 256; n mod 256].
(* IPv6 pseudo-header for an upper-layer packet of [n] bytes with next header 58 (ICMPv6) *)
Definition pseudo6 (src dst : list Z) (n : Z) : list Z := src ++ dst ++ be32 n ++ [0; 0; 0; 58].
(* the bytes of an ICMP echo message after the checksum field: identifier, sequence number, data *)
Definition echo_body (msg : list Z) : list Z := skipn 4 msg.

(* an ICMP message as handed to handleICMP is an echo request the ipv4 code acts on: its first view
   holds at least 6 bytes (the code's minimum) and the type byte is 8 *)
Definition is_echo_request4 (views : vv) : bool :=
  (6 <=? length (vv_first views))%nat && (nth 0 (vv_first views) 0 =? 8).
(* ... the ipv6 code: 8 bytes in the first view, type 128 *)
Definition is_echo_request6 (views : vv) : bool :=
  (8 <=? length (vv_first views))%nat && (nth 0 (vv_first views) 0 =? 128).

(* the echo requests that arrived in a history, oldest first, each with the route it came in on
   and the bytes behind the checksum field *)
Definition requests (ops : list op4) : list ereq :=
  flat_map (fun o => match o with
                     | Arrive r views =>
                         if is_echo_request4 views then [mkReq r (echo_body (concat views))] else []
                     | Drain => []
                     end) ops.

(* [p] is a correct answer to request [rq]: from the pinged address to the requester, an ICMP
   message of type 0 code 0 whose bytes after the checksum field are the request's, and whose
   RFC 1071 sum is 0xffff *)
Definition is_reply_to (rq : ereq) (p : packet) : Prop :=
  p_src p = r_local (q_route rq) /\ p_dst p = r_remote (q_route rq) /\ p_proto p = 1 /\
  nth 0 (p_msg p) 0 = 0 /\ nth 1 (p_msg p) 0 = 0 /\ echo_body (p_msg p) = q_data rq /\
  rfc1071_sum (p_msg p) 0 = 65535.

(* order-preserving sub-list: [subseq a l] when [a] is [l] with some elements left out *)
Inductive subseq {A : Type} : list A -> list A -> Prop :=
| ss_nil : subseq [] []
| ss_skip x a l : subseq a l -> subseq a (x :: l)
| ss_take x a l : subseq a l -> subseq (x :: a) (x :: l).

(* inputs in the range of the Go types: byte values, and no more than an IP datagram can carry *)
Definition views_ok (views : vv) : Prop :=
  Forall bytes_ok views /\ Z.of_nat (length (concat views)) <= 65535.
Definition op_ok (o : op4) : Prop := match o with Arrive _ views => views_ok views | Drain => True end.
