(* Abstract specification vocabulary for C17 (wait queue).  This is NOT a model of the code: it
   is the specification the model (Model/Waiter.v, Model/Ilist.v) is proved to refine and that
   Corr/C17.v uses as the property monitor.  It does not import the model.

   The abstract wait queue is the list of (entry, mask) pairs in registration order; channel
   entries that hold a token are a list of entry ids; the callback log is the list of
   function-callback entries invoked so far. *)
From Coq Require Import ZArith List Bool.
Import ListNotations.
Open Scope Z_scope.

(* how an entry wakes its waiter: a function callback supplied by the user (the harness records
   the invocation in a log) or NewChannelEntry's non-blocking send on a 1-buffered channel *)
Inductive kind := KFunc | KChan.

Inductive op :=
| ORegister (e m : Z)      (* q.EventRegister(&entry[e], m) *)
| OUnregister (e : Z)      (* q.EventUnregister(&entry[e]) *)
| ONotify (m : Z)          (* q.Notify(m) *)
| OEvents                  (* q.Events() *)
| OIsEmpty                 (* q.IsEmpty() *)
| OTake (e : Z).           (* the waiter of channel entry e: select { case <-ch: ; default: } *)

(* what one operation did: the entries whose Callback ran, in order, and the value returned
   (Events: the mask; IsEmpty / Take: 1 = true, 0 = false; otherwise 0) *)
Record obs := Ob { invoked : list Z; ret : Z }.

Record astate := mkA {
  areg : list (Z * Z);     (* registered (entry, mask), oldest registration first *)
  atok : list Z;           (* channel entries whose channel holds a token *)
  alog : list Z            (* function-callback entries invoked so far, oldest first *)
}.

Definition a0 : astate := mkA [] [] [].

Definition mem (e : Z) (l : list Z) : bool := existsb (Z.eqb e) l.

(* "an intersecting mask" *)
Definition interested (m : Z) (p : Z * Z) : bool := negb (Z.land m (snd p) =? 0).

Definition other (e : Z) (p : Z * Z) : bool := negb (fst p =? e).

(* the registered set as a function of the register/unregister operations alone *)
Definition reg_step (r : list (Z * Z)) (o : op) : list (Z * Z) :=
  match o with
  | ORegister e m => r ++ [(e, m)]
  | OUnregister e => filter (other e) r
  | _ => r
  end.

Definition registered (ops : list op) : list (Z * Z) := fold_left reg_step ops [].

(* the entries a Notify(m) must call back: registered now with an intersecting mask, in
   registration order *)
Definition to_notify (m : Z) (r : list (Z * Z)) : list Z := map fst (filter (interested m) r).

(* effect of one callback: a function entry is logged, a channel entry's channel gets/keeps
   its token *)
Definition scb (k : Z -> kind) (a : astate) (e : Z) : astate :=
  match k e with
  | KFunc => mkA (areg a) (atok a) (alog a ++ [e])
  | KChan => mkA (areg a) (e :: atok a) (alog a)
  end.

Definition union_masks (r : list (Z * Z)) : Z := fold_right (fun p acc => Z.lor (snd p) acc) 0 r.

Definition sstep (k : Z -> kind) (a : astate) (o : op) : astate * obs :=
  match o with
  | ORegister _ _ | OUnregister _ => (mkA (reg_step (areg a) o) (atok a) (alog a), Ob [] 0)
  | ONotify m => let inv := to_notify m (areg a) in (fold_left (scb k) inv a, Ob inv 0)
  | OEvents => (a, Ob [] (union_masks (areg a)))
  | OIsEmpty => (a, Ob [] (match areg a with [] => 1 | _ => 0 end))
  | OTake e =>
      if mem e (atok a)
      then (mkA (areg a) (filter (fun x => negb (x =? e)) (atok a)) (alog a), Ob [] 1)
      else (a, Ob [] 0)
  end.

Definition sfinal (k : Z -> kind) (a : astate) (ops : list op) : astate :=
  fold_left (fun a o => fst (sstep k a o)) ops a.

Fixpoint sobs (k : Z -> kind) (a : astate) (ops : list op) : list obs :=
  match ops with
  | [] => []
  | o :: r => snd (sstep k a o) :: sobs k (fst (sstep k a o)) r
  end.

(* the API contract: an entry "can only be in one queue at a time" -- register only an entry
   that is not registered, unregister only one that is *)
Definition op_ok (r : list (Z * Z)) (o : op) : Prop :=
  match o with
  | ORegister e _ => ~ In e (map fst r)
  | OUnregister e => In e (map fst r)
  | _ => True
  end.

Fixpoint contract (r : list (Z * Z)) (ops : list op) : Prop :=
  match ops with
  | [] => True
  | o :: rest => op_ok r o /\ contract (reg_step r o) rest
  end.

(* boolean version, used by the correspondence check to tag cases *)
Definition op_okb (r : list (Z * Z)) (o : op) : bool :=
  match o with
  | ORegister e _ => negb (mem e (map fst r))
  | OUnregister e => mem e (map fst r)
  | _ => true
  end.

Fixpoint contractb (r : list (Z * Z)) (ops : list op) : bool :=
  match ops with
  | [] => true
  | o :: rest => op_okb r o && contractb (reg_step r o) rest
  end.
