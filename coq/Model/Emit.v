(* Model of the frame builders of /repo, composed from the header encoders already modelled
   (Model/HdrIP.v, HdrTransport.v, HdrLink.v, TcpOptions.v, Checksum.v):
     transport/tcp/connect.go   sendTCP, sendSynTCP (makeSynOptions), sendRaw (makeOptions)
     transport/udp/endpoint.go  sendUDP
     network/ipv4/ipv4.go       WritePacket (id from a per-flow counter bucket, header checksum)
     network/ipv4/icmp.go       sendPing4 (echo reply)
     network/ipv6/ipv6.go       WritePacket
     network/ipv6/icmp.go       echo reply, neighbour advertisement, LinkAddressRequest, icmpChecksum
     network/arp/arp.go         reply (HandlePacket), LinkAddressRequest
     transport/ping/endpoint.go sendPing4, sendPing6 (echo requests)
     link/fdbased/endpoint.go   WritePacket (Ethernet header, source MAC rule)
     stack/stack.go             FindRoute (+ nic.go primaryEndpoint / findEndpoint)
   Executable definitions only.  [None] = a Go panic (index out of range / explicit panic).

   Abstractions.  buffer.Prependable: NewPrependable(n) is a fresh zeroed buffer and every caller
   reserves transport + r.MaxHeaderLength() bytes, so Prepend(k) always succeeds and returns k zero
   bytes; hdr.View() is the concatenation of the prepended slices, outermost first.  A
   VectorisedView is the list of its views; the link endpoint sees hdr.View() ++ payload.ToView().
   The option pool buffer (sync.Pool, 40 bytes, possibly dirty) is a parameter.  Statistics
   counters and logging are dropped. *)
From Coq Require Import ZArith List Bool.
From NP Require Import Model.Bytes Model.Checksum Model.HdrIP Model.HdrTransport Model.HdrLink Model.TcpOptions.
Import ListNotations.
Open Scope Z_scope.

Definition zeros (n : nat) : list Z := repeat 0 n.
(* VectorisedView.Size() *)
Definition vsize (views : list (list Z)) : Z := Z.of_nat (length (concat views)).

(* the part of stack.Route the builders read *)
Record route := mkRoute {
  rLocal : list Z; rRemote : list Z;            (* LocalAddress, RemoteAddress *)
  rLocalLink : list Z; rRemoteLink : list Z;    (* LocalLinkAddress, RemoteLinkAddress *)
  rOffload : bool }.                            (* Capabilities()&CapabilityChecksumOffload != 0 *)

(* ======================= TCP ======================= *)
(* func sendTCP(r, id, data, ttl, flags, seq, ack, rcvWnd, opts) *tcpip.Error {
     optLen := len(opts)
     hdr := buffer.NewPrependable(header.TCPMinimumSize + int(r.MaxHeaderLength()) + optLen)
     if rcvWnd > 0xffff { rcvWnd = 0xffff }
     tcp := header.TCP(hdr.Prepend(header.TCPMinimumSize + optLen))
     tcp.Encode(&header.TCPFields{SrcPort: id.LocalPort, DstPort: id.RemotePort, SeqNum: uint32(seq),
       AckNum: uint32(ack), DataOffset: uint8(header.TCPMinimumSize + optLen), Flags: flags,
       WindowSize: uint16(rcvWnd)})
     copy(tcp[header.TCPMinimumSize:], opts)
     if r.Capabilities()&stack.CapabilityChecksumOffload == 0 {
       length := uint16(hdr.UsedLength() + data.Size())
       xsum := r.PseudoHeaderChecksum(ProtocolNumber)
       for _, v := range data.Views() { xsum = header.Checksum(v, xsum) }
       tcp.SetChecksum(^tcp.CalculateChecksum(xsum, length)) }
     return r.WritePacket(hdr, data, ProtocolNumber, ttl) }
   result: the TCP header (the payload is handed on separately) *)
Definition send_tcp (r : route) (sport dport : Z) (data : list (list Z)) (flags seq ack rcvWnd : Z)
                    (opts : list Z) : option (list Z) :=
  let optLen := length opts in
  let rcvWnd := if 65535 <? rcvWnd then 65535 else rcvWnd in
  let tcp := zeros (20 + optLen) in
  tcp <- tcp_encode tcp (mkTCP sport dport (w32 seq) (w32 ack) (w8 (20 + Z.of_nat optLen)) flags (w16 rcvWnd) 0 0) ;;
  tcp <- copy_into tcp 20 optLen opts ;;
  if rOffload r then Some tcp else
  let len := w16 (Z.of_nat (length tcp) + vsize data) in
  let xsum := pseudoHeaderChecksum 6 (rLocal r) (rRemote r) in
  let xsum := checksum_chunks data xsum in
  c <- tcp_calculateChecksum tcp xsum len ;;
  tcp_setChecksum tcp (lnot16 c).

(* func makeSynOptions(opts header.TCPSynOptions) []byte  -- Model/TcpOptions.v [syn_program];
   "if delta := header.AddTCPOptionPadding(options, offset); delta != 0 { panic(...) }" *)
Definition make_syn_options (o : synOpts) (pool : list Z) : option (list Z) :=
  r <- make_options (syn_program o) pool ;;
  if snd r =? 0 then Some (fst r) else None.

(* func (e *endpoint) makeOptions(sackBlocks []header.SACKBlock) []byte  -- [opt_program] *)
Definition make_seg_options (tsOk : bool) (tsVal tsEcr : Z) (sackPermitted : bool) (blocks : list (Z * Z))
                            (pool : list Z) : option (list Z) :=
  r <- make_options (opt_program tsOk tsVal tsEcr sackPermitted blocks) pool ;;
  if snd r =? 0 then Some (fst r) else None.

(* func sendSynTCP(r, id, flags, seq, ack, rcvWnd, opts header.TCPSynOptions) *tcpip.Error {
     if opts.MSS == 0 { opts.MSS = uint16(r.MTU() - header.TCPMinimumSize) }
     options := makeSynOptions(opts)
     err := sendTCP(r, id, buffer.VectorisedView{}, r.DefaultTTL(), flags, seq, ack, rcvWnd, options)
     putOptions(options); return err } *)
Definition send_syn_tcp (r : route) (mtu : Z) (sport dport flags seq ack rcvWnd : Z) (o : synOpts)
                        (pool : list Z) : option (list Z) :=
  let o := if sMSS o =? 0
           then mkSyn (w16 (mtu - 20)) (sWS o) (sTS o) (sTSVal o) (sTSEcr o) (sSACKPermitted o) else o in
  options <- make_syn_options o pool ;;
  send_tcp r sport dport [] flags seq ack rcvWnd options.

(* func (e *endpoint) sendRaw(data, flags, seq, ack, rcvWnd) *tcpip.Error {
     var sackBlocks []header.SACKBlock
     if e.state == stateConnected && e.rcv.pendingBufSize > 0 && (flags&flagAck != 0) {
       sackBlocks = e.sack.Blocks[:e.sack.NumBlocks] }
     options := e.makeOptions(sackBlocks)
     err := sendTCP(&e.route, e.id, data, e.route.DefaultTTL(), flags, seq, ack, rcvWnd, options) ... }
   [blocks] is the sackBlocks value the guard selected *)
Definition send_raw (r : route) (sport dport : Z) (data : list (list Z)) (flags seq ack rcvWnd : Z)
                    (tsOk : bool) (tsVal tsEcr : Z) (sackPermitted : bool) (blocks : list (Z * Z))
                    (pool : list Z) : option (list Z) :=
  options <- make_seg_options tsOk tsVal tsEcr sackPermitted blocks pool ;;
  send_tcp r sport dport data flags seq ack rcvWnd options.

(* ======================= UDP ======================= *)
(* func sendUDP(r, data, localPort, remotePort, ttl) *tcpip.Error {
     hdr := buffer.NewPrependable(header.UDPMinimumSize + int(r.MaxHeaderLength()))
     udp := header.UDP(hdr.Prepend(header.UDPMinimumSize))
     length := uint16(hdr.UsedLength() + data.Size())
     udp.Encode(&header.UDPFields{SrcPort: localPort, DstPort: remotePort, Length: length})
     if r.Capabilities()&stack.CapabilityChecksumOffload == 0 {
       xsum := r.PseudoHeaderChecksum(ProtocolNumber)
       for _, v := range data.Views() { xsum = header.Checksum(v, xsum) }
       xsum = ^udp.CalculateChecksum(xsum, length)
       if xsum == 0 {
         // RFC 768: a computed checksum of zero is transmitted as all
         // ones; zero means that no checksum was generated.
         xsum = 0xffff }
       udp.SetChecksum(xsum) }
     return r.WritePacket(hdr, data, ProtocolNumber, ttl) }          (since /repo 723c609) *)
Definition send_udp (r : route) (data : list (list Z)) (localPort remotePort : Z) : option (list Z) :=
  let udp := zeros 8 in
  let len := w16 (8 + vsize data) in
  udp <- udp_encode udp (mkUDP localPort remotePort len 0) ;;
  if rOffload r then Some udp else
  let xsum := pseudoHeaderChecksum 17 (rLocal r) (rRemote r) in
  let xsum := checksum_chunks data xsum in
  c <- udp_calculateChecksum udp xsum len ;;
  let xsum := lnot16 c in
  let xsum := if xsum =? 0 then 65535 else xsum in
  udp_setChecksum udp xsum.

(* the text before 723c609 (kept only for EmitP.udp_zero_checksum_old_refuted): the last statement
   of the checksum branch was
       udp.SetChecksum(^udp.CalculateChecksum(xsum, length)) }
   so a computed checksum of 0 left as 0 = "no checksum" *)
Definition send_udp_old (r : route) (data : list (list Z)) (localPort remotePort : Z) : option (list Z) :=
  let udp := zeros 8 in
  let len := w16 (8 + vsize data) in
  udp <- udp_encode udp (mkUDP localPort remotePort len 0) ;;
  if rOffload r then Some udp else
  let xsum := pseudoHeaderChecksum 17 (rLocal r) (rRemote r) in
  let xsum := checksum_chunks data xsum in
  c <- udp_calculateChecksum udp xsum len ;;
  udp_setChecksum udp (lnot16 c).

(* ======================= IPv4 ======================= *)
(* func (e *endpoint) WritePacket(r, hdr, payload, protocol, ttl) *tcpip.Error {
     ip := header.IPv4(hdr.Prepend(header.IPv4MinimumSize))
     length := uint16(hdr.UsedLength() + payload.Size())
     id := uint32(0)
     if length > header.IPv4MaximumHeaderSize+8 {
       id = atomic.AddUint32(&ids[hashRoute(r, protocol)%buckets], 1) }
     ip.Encode(&header.IPv4Fields{IHL: header.IPv4MinimumSize, TotalLength: length, ID: uint16(id),
       TTL: ttl, Protocol: uint8(protocol), SrcAddr: r.LocalAddress, DstAddr: r.RemoteAddress})
     ip.SetChecksum(^ip.CalculateChecksum())
     return e.linkEP.WritePacket(r, hdr, payload, ProtocolNumber) }
   [counter] is the value of this flow's bucket ids[hashRoute(r, protocol) % buckets] before the
   call; result: what the link endpoint is handed, and the bucket afterwards *)
Definition ipv4_next_id (len counter : Z) : Z * Z :=
  if 68 <? len then (w32 (counter + 1), w32 (counter + 1)) else (0, counter).

Definition ipv4_write (r : route) (hdr : list Z) (payload : list (list Z)) (protocol ttl counter : Z)
  : option (list Z * Z) :=
  let ip := zeros 20 in
  let len := w16 (20 + Z.of_nat (length hdr) + vsize payload) in
  let '(id, counter') := ipv4_next_id len counter in
  ip <- ipv4_encode ip (mkIPv4 20 0 len (w16 id) 0 0 ttl (w8 protocol) 0 (rLocal r) (rRemote r)) ;;
  c <- ipv4_calculateChecksum ip ;;
  ip <- ipv4_setChecksum ip (lnot16 c) ;;
  Some (ip ++ hdr ++ concat payload, counter').

(* ======================= IPv6 ======================= *)
(* func (e *endpoint) WritePacket(r, hdr, payload, protocol, ttl) *tcpip.Error {
     length := uint16(hdr.UsedLength() + payload.Size())
     ip := header.IPv6(hdr.Prepend(header.IPv6MinimumSize))
     ip.Encode(&header.IPv6Fields{PayloadLength: length, NextHeader: uint8(protocol), HopLimit: ttl,
       SrcAddr: r.LocalAddress, DstAddr: r.RemoteAddress})
     return e.linkEP.WritePacket(r, hdr, payload, ProtocolNumber) } *)
Definition ipv6_write (r : route) (hdr : list Z) (payload : list (list Z)) (protocol ttl : Z) : option (list Z) :=
  let len := w16 (Z.of_nat (length hdr) + vsize payload) in
  ip <- ipv6_encode (zeros 40) (mkIPv6 0 0 len (w8 protocol) ttl (rLocal r) (rRemote r)) ;;
  Some (ip ++ hdr ++ concat payload).

(* ======================= ICMPv4 ======================= *)
(* network/ipv4/icmp.go (ICMPv4MinimumSize = 4, ICMPv4EchoMinimumSize = 6):
   func sendPing4(r *stack.Route, code byte, data buffer.View) *tcpip.Error {
     hdr := buffer.NewPrependable(header.ICMPv4EchoMinimumSize + int(r.MaxHeaderLength()))
     icmpv4 := header.ICMPv4(hdr.Prepend(header.ICMPv4EchoMinimumSize))
     icmpv4.SetType(header.ICMPv4EchoReply)
     icmpv4.SetCode(code)
     copy(icmpv4[header.ICMPv4MinimumSize:], data)
     data = data[header.ICMPv4EchoMinimumSize-header.ICMPv4MinimumSize:]
     icmpv4.SetChecksum(^header.Checksum(icmpv4, header.Checksum(data, 0)))
     return r.WritePacket(hdr, data.ToVectorisedView(), header.ICMPv4ProtocolNumber, r.DefaultTTL()) }
   [data] = the echo request without its first 4 bytes; result: (6-byte header, payload) *)
Definition send_ping4 (code : Z) (data : list Z) : option (list Z * list Z) :=
  let icmpv4 := zeros 6 in
  icmpv4 <- icmp_setType icmpv4 0 ;;
  icmpv4 <- icmp_setCode icmpv4 code ;;
  icmpv4 <- copy_into icmpv4 4 2 data ;;
  data <- getFrom data 2 ;;
  icmpv4 <- icmp_setChecksum icmpv4 (lnot16 (checksum icmpv4 (checksum data 0))) ;;
  Some (icmpv4, data).

(* transport/ping/endpoint.go:
   func sendPing4(r *stack.Route, ident uint16, data buffer.View) *tcpip.Error {
     if len(data) < header.ICMPv4EchoMinimumSize { return tcpip.ErrInvalidEndpointState }
     binary.BigEndian.PutUint16(data[header.ICMPv4MinimumSize:], ident)
     hdr := ...; icmpv4 := header.ICMPv4(hdr.Prepend(header.ICMPv4EchoMinimumSize))
     copy(icmpv4, data)
     data = data[header.ICMPv4EchoMinimumSize:]
     if icmpv4.Type() != header.ICMPv4Echo || icmpv4.Code() != 0 { return tcpip.ErrInvalidEndpointState }
     icmpv4.SetChecksum(0)
     icmpv4.SetChecksum(^header.Checksum(icmpv4, header.Checksum(data, 0)))
     return r.WritePacket(hdr, data.ToVectorisedView(), header.ICMPv4ProtocolNumber, r.DefaultTTL()) }
   [hl] = 6 (ICMPv4EchoMinimumSize), [ty] = 8 (ICMPv4Echo); an error return is [Some None].
   (Before /repo 65b8ba4 sendPing6 was the same text with the ICMPv6 constants, header 8 bytes and
   type 128 - hence the two parameters; see [ping6_send_old].) *)
Definition ping_send (hl : nat) (ty ident : Z) (data : list Z) : option (option (list Z * list Z)) :=
  if (length data <? hl)%nat then Some None else
  data <- put16 data 4 ident ;;
  icmp <- copy_into (zeros hl) 0 hl data ;;
  data <- getFrom data hl ;;
  t <- icmp_type icmp ;; c <- icmp_code icmp ;;
  if negb (t =? ty) || negb (c =? 0) then Some None else
  icmp <- icmp_setChecksum icmp 0 ;;
  icmp <- icmp_setChecksum icmp (lnot16 (checksum icmp (checksum data 0))) ;;
  Some (Some (icmp, data)).
Definition ping4_send (ident : Z) (data : list Z) : option (option (list Z * list Z)) := ping_send 6 8 ident data.

(* func sendPing6(r *stack.Route, ident uint16, data buffer.View) *tcpip.Error {
     if len(data) < header.ICMPv6EchoMinimumSize { return tcpip.ErrInvalidEndpointState }
     binary.BigEndian.PutUint16(data[header.ICMPv6MinimumSize:], ident)
     hdr := ...; icmpv6 := header.ICMPv6(hdr.Prepend(header.ICMPv6EchoMinimumSize))
     copy(icmpv6, data)
     data = data[header.ICMPv6EchoMinimumSize:]
     if icmpv6.Type() != header.ICMPv6EchoRequest || icmpv6.Code() != 0 { return tcpip.ErrInvalidEndpointState }
     icmpv6.SetChecksum(0)
     // The ICMPv6 checksum covers the IPv6 pseudo-header (RFC 4443 section 2.3).
     xsum := header.PseudoHeaderChecksum(header.ICMPv6ProtocolNumber, r.LocalAddress, r.RemoteAddress)
     xsum = header.ChecksumCombine(xsum, uint16(len(icmpv6)+len(data)))
     xsum = header.Checksum(data, xsum)
     icmpv6.SetChecksum(^header.Checksum(icmpv6, xsum))
     return r.WritePacket(hdr, data.ToVectorisedView(), header.ICMPv6ProtocolNumber, r.DefaultTTL()) }
   (since /repo 65b8ba4; ICMPv6MinimumSize = 4, ICMPv6EchoMinimumSize = 8, ICMPv6EchoRequest = 128,
   ICMPv6ProtocolNumber = 58) *)
Definition ping6_send (r : route) (ident : Z) (data : list Z) : option (option (list Z * list Z)) :=
  if (length data <? 8)%nat then Some None else
  data <- put16 data 4 ident ;;
  icmp <- copy_into (zeros 8) 0 8 data ;;
  data <- getFrom data 8 ;;
  t <- icmp_type icmp ;; c <- icmp_code icmp ;;
  if negb (t =? 128) || negb (c =? 0) then Some None else
  icmp <- icmp_setChecksum icmp 0 ;;
  let xsum := pseudoHeaderChecksum 58 (rLocal r) (rRemote r) in
  let xsum := checksumCombine xsum (w16 (Z.of_nat (length icmp) + Z.of_nat (length data))) in
  let xsum := checksum data xsum in
  icmp <- icmp_setChecksum icmp (lnot16 (checksum icmp xsum)) ;;
  Some (Some (icmp, data)).

(* the text before 65b8ba4 (kept only for EmitP.ping6_no_pseudo_header_old_refuted): the checksum was
       icmpv6.SetChecksum(^header.Checksum(icmpv6, header.Checksum(data, 0)))
   i.e. sendPing4 with the ICMPv6 constants and no pseudo-header *)
Definition ping6_send_old (ident : Z) (data : list Z) : option (option (list Z * list Z)) := ping_send 8 128 ident data.

(* ======================= ICMPv6 / NDP ======================= *)
(* func icmpChecksum(h header.ICMPv6, src, dst tcpip.Address, vv buffer.VectorisedView) uint16 {
     xsum := header.Checksum([]byte(src), 0)
     xsum = header.Checksum([]byte(dst), xsum)
     var upperLayerLength [4]byte
     binary.BigEndian.PutUint32(upperLayerLength[:], uint32(len(h)+vv.Size()))
     xsum = header.Checksum(upperLayerLength[:], xsum)
     xsum = header.Checksum([]byte{0, 0, 0, uint8(header.ICMPv6ProtocolNumber)}, xsum)
     xsum = header.Checksum(vv.ToView(), xsum)
     h2, h3 := h[2], h[3]; h[2], h[3] = 0, 0
     xsum = ^header.Checksum(h, xsum)
     h[2], h[3] = h2, h3
     return xsum }
   (since /repo 1404d7f the payload is summed as one byte string, vv.ToView() = the concatenation of
   the views; before, view by view: "for _, v := range vv.Views() { xsum = header.Checksum(v, xsum) }",
   wrong for an odd-length non-final view - C13's finding F7) *)
Definition icmp6_checksum (h src dst : list Z) (vv : list (list Z)) : option Z :=
  let xsum := checksum src 0 in
  let xsum := checksum dst xsum in
  let xsum := checksum (be32 (w32 (Z.of_nat (length h) + vsize vv))) xsum in
  let xsum := checksum [0; 0; 0; 58] xsum in
  let xsum := checksum (concat vv) xsum in
  h0 <- put8 h 2 0 ;; h0 <- put8 h0 3 0 ;;
  Some (lnot16 (checksum h0 xsum)).

(* case header.ICMPv6EchoRequest:
     if len(v) < header.ICMPv6EchoMinimumSize { return }
     vv.TrimFront(header.ICMPv6EchoMinimumSize)
     hdr := ...; pkt := header.ICMPv6(hdr.Prepend(header.ICMPv6EchoMinimumSize))
     copy(pkt, h)
     pkt.SetType(header.ICMPv6EchoReply)
     pkt.SetChecksum(icmpChecksum(pkt, r.LocalAddress, r.RemoteAddress, vv))
     r.WritePacket(hdr, vv, header.ICMPv6ProtocolNumber, r.DefaultTTL())
   [h] = the first view of the request (at least 8 bytes), [vv] = the views after the trim *)
Definition icmp6_echo_reply (r : route) (h : list Z) (vv : list (list Z)) : option (list Z) :=
  pkt <- copy_into (zeros 8) 0 8 h ;;
  pkt <- icmp_setType pkt 129 ;;
  c <- icmp6_checksum pkt (rLocal r) (rRemote r) vv ;;
  icmp_setChecksum pkt c.

(* case header.ICMPv6NeighborSolicit:
     targetAddr := tcpip.Address(v[8 : 8+16])
     pkt := header.ICMPv6(hdr.Prepend(header.ICMPv6NeighborAdvertSize))
     pkt.SetType(header.ICMPv6NeighborAdvert)
     pkt[icmpV6FlagOffset] = ndpSolicitedFlag | ndpOverrideFlag
     copy(pkt[icmpV6OptOffset-len(targetAddr):], targetAddr)
     pkt[icmpV6OptOffset] = ndpOptDstLinkAddr
     pkt[icmpV6LengthOffset] = 1
     copy(pkt[icmpV6LengthOffset+1:], r.LocalLinkAddress[:])
     r := r.Clone(); r.LocalAddress = targetAddr
     pkt.SetChecksum(icmpChecksum(pkt, r.LocalAddress, r.RemoteAddress, buffer.VectorisedView{}))
     r.WritePacket(hdr, buffer.VectorisedView{}, header.ICMPv6ProtocolNumber, r.DefaultTTL()) *)
Definition ndp_advert (target remote localLink : list Z) : option (list Z) :=
  pkt <- icmp_setType (zeros 32) 136 ;;
  pkt <- put8 pkt 4 96 ;;
  pkt <- copy_into pkt 8 24 target ;;
  pkt <- put8 pkt 24 2 ;;
  pkt <- put8 pkt 25 1 ;;
  pkt <- copy_into pkt 26 6 localLink ;;
  c <- icmp6_checksum pkt target remote [] ;;
  icmp_setChecksum pkt c.

(* func (p *protocol) LinkAddressRequest(addr, localAddr tcpip.Address, linkEP stack.LinkEndpoint) *tcpip.Error {
     snaddr := header.SolicitedNodeAddr(addr)
     r := &stack.Route{LocalAddress: localAddr, RemoteAddress: snaddr, RemoteLinkAddress: broadcastMAC}
     pkt := header.ICMPv6(hdr.Prepend(header.ICMPv6NeighborAdvertSize))
     pkt.SetType(header.ICMPv6NeighborSolicit)
     copy(pkt[icmpV6OptOffset-len(addr):], addr)
     pkt[icmpV6OptOffset] = ndpOptSrcLinkAddr
     pkt[icmpV6LengthOffset] = 1
     copy(pkt[icmpV6LengthOffset+1:], linkEP.LinkAddress())
     pkt.SetChecksum(icmpChecksum(pkt, r.LocalAddress, r.RemoteAddress, buffer.VectorisedView{}))
     length := uint16(hdr.UsedLength())
     ip := header.IPv6(hdr.Prepend(header.IPv6MinimumSize))
     ip.Encode(&header.IPv6Fields{PayloadLength: length, NextHeader: 58, HopLimit: defaultIPv6HopLimit,
       SrcAddr: r.LocalAddress, DstAddr: r.RemoteAddress})
     return linkEP.WritePacket(r, hdr, buffer.VectorisedView{}, ProtocolNumber) }
   func SolicitedNodeAddr(addr) = "\xff\x02\0\0\0\0\0\0\0\0\0\x01\xff" + addr[len(addr)-3:] *)
Definition solicited_node (addr : list Z) : list Z :=
  [255; 2; 0; 0; 0; 0; 0; 0; 0; 0; 0; 1; 255] ++ skipn (length addr - 3) addr.
Definition ndp_solicit (addr localAddr linkAddr : list Z) : option (list Z) :=
  let snaddr := solicited_node addr in
  pkt <- icmp_setType (zeros 32) 135 ;;
  pkt <- copy_into pkt 8 24 addr ;;
  pkt <- put8 pkt 24 1 ;;
  pkt <- put8 pkt 25 1 ;;
  pkt <- copy_into pkt 26 6 linkAddr ;;
  c <- icmp6_checksum pkt localAddr snaddr [] ;;
  pkt <- icmp_setChecksum pkt c ;;
  ip <- ipv6_encode (zeros 40) (mkIPv6 0 0 (w16 (Z.of_nat (length pkt))) 58 255 localAddr snaddr) ;;
  Some (ip ++ pkt).

(* ======================= ARP ======================= *)
(* HandlePacket, case header.ARPRequest:
     pkt := header.ARP(hdr.Prepend(header.ARPSize))
     pkt.SetIpv4OverEthernet(); pkt.SetOp(header.ARPReply)
     copy(pkt.HardwareAddressSender(), r.LocalLinkAddress[:])
     copy(pkt.HardwareAddressTarget(), h.HardwareAddressSender())
     copy(pkt.ProtocolAddressSender(), h.ProtocolAddressTarget())
     copy(pkt.ProtocolAddressTarget(), h.ProtocolAddressSender()) *)
Definition arp_reply (localLink reqSHA reqTPA reqSPA : list Z) : option (list Z) :=
  pkt <- arp_setIPv4OverEthernet (zeros 28) ;;
  pkt <- arp_setOp pkt 2 ;;
  pkt <- copy_into pkt 8 6 localLink ;;
  pkt <- copy_into pkt 18 6 reqSHA ;;
  pkt <- copy_into pkt 14 4 reqTPA ;;
  copy_into pkt 24 4 reqSPA.

(* func (p *protocol) LinkAddressRequest(addr, localAddr, linkEP) *tcpip.Error {
     r := &stack.Route{RemoteLinkAddress: broadcastMAC}
     h := header.ARP(hdr.Prepend(header.ARPSize))
     h.SetIpv4OverEthernet(); h.SetOp(header.ARPRequest)
     copy(h.HardwareAddressSender(), linkEP.LinkAddress())
     copy(h.ProtocolAddressSender(), localAddr)
     copy(h.ProtocolAddressTarget(), addr)
     return linkEP.WritePacket(r, hdr, buffer.VectorisedView{}, ProtocolNumber) } *)
Definition arp_request (linkAddr localAddr addr : list Z) : option (list Z) :=
  h <- arp_setIPv4OverEthernet (zeros 28) ;;
  h <- arp_setOp h 1 ;;
  h <- copy_into h 8 6 linkAddr ;;
  h <- copy_into h 14 4 localAddr ;;
  copy_into h 24 4 addr.

(* ======================= Ethernet (fdbased) ======================= *)
(* func (e *endpoint) WritePacket(r, hdr, payload, protocol) *tcpip.Error {
     if e.handleLocal && r.LocalAddress != "" && r.LocalAddress == r.RemoteAddress { ...loop back... }
     eth := header.Ethernet(hdr.Prepend(header.EtheernetMinimumsize))
     ethHdr := &header.EthernetFields{DstAddr: r.RemoteLinkAddress, Type: protocol}
     if r.LocalLinkAddress != "" { ethHdr.SrcAddr = r.LocalLinkAddress } else { ethHdr.SrcAddr = e.addr }
     eth.Encode(ethHdr)
     if payload.Size() == 0 { return rawfile.NonBlockingWrite(e.fd, hdr.View()) }
     return rawfile.NonBlockingWrite2(e.fd, hdr.View(), payload.ToView()) }
   (since /repo 8cee966) handleLocal = false; [pkt] = hdr.View() ++ payload.ToView() as built by
   the network layer *)
Definition eth_write (r : route) (epAddr : list Z) (protocol : Z) (pkt : list Z) : option (list Z) :=
  let src := match rLocalLink r with [] => epAddr | _ => rLocalLink r end in
  eth <- eth_encode (zeros 14) (mkEth src (rRemoteLink r) protocol) ;;
  Some (eth ++ pkt).

(* the text before 8cee966 (kept only for EmitP.eth_write_zero_src_old_refuted): the condition was
     if r.LocalAddress != "" { ethHdr.SrcAddr = r.LocalLinkAddress } else { ethHdr.SrcAddr = e.addr }
   so a route with a local address but no local link address (ipv6 LinkAddressRequest) copied "" *)
Definition eth_write_old (r : route) (epAddr : list Z) (protocol : Z) (pkt : list Z) : option (list Z) :=
  let src := match rLocal r with [] => epAddr | _ => rLocalLink r end in
  eth <- eth_encode (zeros 14) (mkEth src (rRemoteLink r) protocol) ;;
  Some (eth ++ pkt).

(* ======================= route selection ======================= *)
Record rentry := mkRE { reDst : list Z; reMask : list Z; reGw : list Z; reNic : Z }.
(* a NIC: its id and the addresses of its primary list for the queried protocol, in list order
   (AddAddress appends; every address of the NIC is in the list) *)
Record nicinfo := mkNic { nId : Z; nAddrs : list (list Z) }.

Definition addr_eqb (a b : list Z) : bool :=
  Nat.eqb (length a) (length b) && forallb (fun p => fst p =? snd p) (combine a b).

(* func (r *Route) Match(addr Address) bool {
     if len(addr) != len(r.Destination) { return false }
     for i := 0; i < len(r.Destination); i++ { if (addr[i] & r.Mask[i]) != r.Destination[i] { return false } }
     return true }     a mask shorter than the destination is an index panic *)
Fixpoint match_loop (addr mask dst : list Z) : option bool :=
  match dst, addr with
  | [], _ => Some true
  | d :: dst', a :: addr' =>
      match mask with
      | [] => None
      | m :: mask' => if Z.land a m =? d then match_loop addr' mask' dst' else Some false
      end
  | _ :: _, [] => None
  end.
Definition route_match (e : rentry) (addr : list Z) : option bool :=
  if negb (Nat.eqb (length addr) (length (reDst e))) then Some false else match_loop addr (reMask e) (reDst e).

(* func (n *NIC) primaryEndpoint(protocol) *referencedNetworkEndpoint {
     for e := list.Front(); e != nil; e = e.Next() {
       switch r.ep.ID().LocalAddress { case header.IPv4Broadcast, header.IPv4Any: continue }
       if r.tryIncRef() { return r } }
     return nil } *)
Fixpoint primary_endpoint (addrs : list (list Z)) : option (list Z) :=
  match addrs with
  | [] => None
  | a :: rest =>
      if addr_eqb a [255; 255; 255; 255] || addr_eqb a [0; 0; 0; 0] then primary_endpoint rest else Some a
  end.
(* func (n *NIC) findEndpoint(protocol, address, peb): ref := n.endpoints[id]; no spoofing *)
Definition find_endpoint (addrs : list (list Z)) (a : list Z) : option (list Z) :=
  if existsb (addr_eqb a) addrs then Some a else None.
Fixpoint lookup_nic (nics : list nicinfo) (id : Z) : option nicinfo :=
  match nics with
  | [] => None
  | n :: rest => if nId n =? id then Some n else lookup_nic rest id
  end.

(* func (s *Stack) FindRoute(id, localAddr, remoteAddr, netProto) (Route, *tcpip.Error) {
     for i := range s.routeTable {
       if (id != 0 && id != s.routeTable[i].NIC) || (len(remoteAddr) != 0 && !s.routeTable[i].Match(remoteAddr)) { continue }
       nic := s.nics[s.routeTable[i].NIC]
       if nic == nil { continue }
       var ref *referencedNetworkEndpoint
       if len(localAddr) != 0 { ref = nic.findEndpoint(netProto, localAddr, CanBePrimaryEndpoint) }
       else { ref = nic.primaryEndpoint(netProto) }
       if ref == nil { continue }
       if len(remoteAddr) == 0 { remoteAddr = ref.ep.ID().LocalAddress }
       r := makeRoute(netProto, ref.ep.ID().LocalAddress, remoteAddr, nic.linkEP.LinkAddress(), ref)
       r.NextHop = s.routeTable[i].Gateway
       return r, nil }
     return Route{}, tcpip.ErrNoRoute }
   result: None = ErrNoRoute, Some (NIC id, LocalAddress, NextHop); a Match panic is reported as
   [Some (-1, [], [])] (cannot happen when masks are as long as destinations) *)
Fixpoint find_route (table : list rentry) (nics : list nicinfo) (id : Z) (localAddr remoteAddr : list Z)
  : option (Z * list Z * list Z) :=
  match table with
  | [] => None
  | e :: rest =>
      let skip := find_route rest nics id localAddr remoteAddr in
      if negb (id =? 0) && negb (id =? reNic e) then skip else
      match (match remoteAddr with [] => Some true | _ => route_match e remoteAddr end) with
      | None => Some (-1, [], [])
      | Some false => skip
      | Some true =>
          match lookup_nic nics (reNic e) with
          | None => skip
          | Some nic =>
              let ref := match localAddr with
                         | [] => primary_endpoint (nAddrs nic)
                         | _ => find_endpoint (nAddrs nic) localAddr
                         end in
              match ref with
              | None => skip
              | Some a => Some (reNic e, a, reGw e)
              end
          end
      end
  end.

(* ======================= re-encoding a captured frame =======================
   The frame is decoded with the accessor models (what the Go parsers would read) and rebuilt by the
   builders above from those fields and the scenario's identity (addresses, ports, MACs); values
   the scenario cannot know (sequence numbers, window, timestamps, IP id, TTL, payload) come from
   the frame.  A frame the builders cannot produce gives different bytes or [None]. *)
Definition pick (e actual : list Z) : list Z := match e with [] => actual | _ => e end.
Definition pickz (e actual : Z) : Z := if e <? 0 then actual else e.
Definition ok {A} (r : res A) : option A := match r with Ok a => Some a | _ => None end.

Definition reencode_tcp (r : route) (esport edport : Z) (seg : list Z) : option (list Z * list Z) :=
  t <- tcp_decode seg ;;
  opts <- tcp_options seg ;;
  data <- tcp_payload seg ;;
  let sport := pickz esport (tcpSrcPort t) in
  let dport := pickz edport (tcpDstPort t) in
  let views := match data with [] => [] | _ => [data] end in
  hdr <- (if 0 <? (tcpFlags t / 2) mod 2 then
            o <- ok (parseSynOptions opts true) ;;
            send_syn_tcp r 0 sport dport (tcpFlags t) (tcpSeqNum t) (tcpAckNum t) (tcpWindowSize t) o (zeros 40)
          else
            o <- ok (parseTCPOptions opts) ;;
            send_raw r sport dport views (tcpFlags t) (tcpSeqNum t) (tcpAckNum t) (tcpWindowSize t)
                     (oTS o) (oTSVal o) (oTSEcr o) true (oSACKBlocks o) (zeros 40)) ;;
  Some (hdr, data).

Definition reencode_udp (r : route) (esport edport : Z) (d : list Z) : option (list Z * list Z) :=
  u <- udp_decode d ;;
  data <- udp_payload d ;;
  hdr <- send_udp r (match data with [] => [] | _ => [data] end) (pickz esport (udpSrcPort u)) (pickz edport (udpDstPort u)) ;;
  Some (hdr, data).

Definition flatten_ping (x : option (option (list Z * list Z))) : option (list Z * list Z) :=
  match x with Some (Some p) => Some p | _ => None end.

Definition reencode_net (proto : Z) (offload : bool) (smac dmac esrc edst : list Z) (esport edport : Z)
                        (p : list Z) : option (list Z) :=
  if proto =? 2048 then
    d <- ipv4_decode p ;;
    pl <- ipv4_payload p ;;
    let r := mkRoute (pick esrc (ip4SrcAddr d)) (pick edst (ip4DstAddr d)) smac dmac offload in
    tp <- (if ip4Protocol d =? 6 then reencode_tcp r esport edport pl
           else if ip4Protocol d =? 17 then reencode_udp r esport edport pl
           else if ip4Protocol d =? 1 then
             t <- icmp_type pl ;; c <- icmp_code pl ;; rest <- getFrom pl 4 ;;
             if t =? 0 then send_ping4 c rest
             else id <- get16 pl 4 ;; flatten_ping (ping4_send id pl)
           else None) ;;
    w <- ipv4_write r (fst tp) (match snd tp with [] => [] | v => [v] end) (ip4Protocol d) (ip4TTL d) (ip4ID d - 1) ;;
    Some (fst w)
  else if proto =? 34525 then
    d <- ipv6_decode p ;;
    pl <- ipv6_payload p ;;
    let r := mkRoute (pick esrc (ip6SrcAddr d)) (pick edst (ip6DstAddr d)) smac dmac offload in
    if ip6NextHeader d =? 58 then
      t <- icmp_type pl ;;
      if t =? 135 then
        tgt <- getN pl 8 16 ;; lla <- getN pl 26 6 ;; ndp_solicit tgt (rLocal r) lla
      else
        tp <- (if t =? 136 then
                 tgt <- getN pl 8 16 ;; lla <- getN pl 26 6 ;;
                 pkt <- ndp_advert tgt (rRemote r) lla ;; Some (pkt, [])
               else if t =? 129 then
                 h <- getN pl 0 8 ;; rest <- getFrom pl 8 ;;
                 pkt <- icmp6_echo_reply r h (match rest with [] => [] | v => [v] end) ;; Some (pkt, rest)
               else id <- get16 pl 4 ;; flatten_ping (ping6_send r id pl)) ;;
        ipv6_write r (fst tp) (match snd tp with [] => [] | v => [v] end) 58 (ip6HopLimit d)
    else
      tp <- (if ip6NextHeader d =? 6 then reencode_tcp r esport edport pl
             else if ip6NextHeader d =? 17 then reencode_udp r esport edport pl
             else None) ;;
      ipv6_write r (fst tp) (match snd tp with [] => [] | v => [v] end) (ip6NextHeader d) (ip6HopLimit d)
  else if proto =? 2054 then
    a <- arp_decode p ;;
    if arpOp a =? 1 then arp_request (arpSHA a) (pick esrc (arpSPA a)) (pick edst (arpTPA a))
    else arp_reply (arpSHA a) (arpTHA a) (pick esrc (arpSPA a)) (pick edst (arpTPA a))
  else None.

Definition reencode (link proto : Z) (offload : bool) (smac dmac esrc edst : list Z) (esport edport : Z)
                    (f : list Z) : option (list Z) :=
  if link =? 1 then
    e <- eth_decode f ;;
    inner <- getFrom f 14 ;;
    pkt <- reencode_net (ethType e) offload (pick smac (ethSrcAddr e)) (pick dmac (ethDstAddr e))
                        esrc edst esport edport inner ;;
    (* the routes LinkAddressRequest builds by hand carry no LocalLinkAddress (ARP: only
       RemoteLinkAddress; NDP: LocalAddress, RemoteAddress, RemoteLinkAddress), so fdbased uses its
       own address; every other route has the NIC's link address as LocalLinkAddress (makeRoute) *)
    let is_arp_req := (ethType e =? 2054) && (match arp_decode inner with Some a => arpOp a =? 1 | None => false end) in
    let is_ns := (ethType e =? 34525) &&
                 (match ipv6_decode inner, get8 inner 40 with
                  | Some d, Some t => (ip6NextHeader d =? 58) && (t =? 135)
                  | _, _ => false end) in
    let r := mkRoute (if is_arp_req then [] else [0]) []
                     (if is_arp_req || is_ns then [] else pick smac (ethSrcAddr e)) (pick dmac (ethDstAddr e)) offload in
    eth_write r (pick smac (ethSrcAddr e)) (ethType e) pkt
  else reencode_net proto offload smac dmac esrc edst esport edport f.

(* the identifiers the per-flow counter gives to a sequence of packets of one flow: the bucket
   value is not observable, so it is taken from the first large packet; from then on every large
   packet (total length > 68) takes the next value, small packets carry 0 *)
Fixpoint ids_from (hdrs : list (list Z)) (counter : option Z) : list Z :=
  match hdrs with
  | [] => []
  | h :: rest =>
      match ipv4_totalLength h, ipv4_id h with
      | Some len, Some id =>
          let c := match counter with Some c => c | None => id - 1 end in
          let '(i, c') := ipv4_next_id len c in
          w16 i :: ids_from rest (if 68 <? len then Some c' else counter)
      | _, _ => [-1]
      end
  end.
Definition model_ids (hdrs : list (list Z)) : list Z := ids_from hdrs None.
