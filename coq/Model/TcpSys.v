(* The closed system of Proofs/TcpNetP.v (two Model.Tcp endpoints joined by a network that hands an
   endpoint a copy of any frame the other one has emitted so far) in an INCREMENTAL, executable
   form - the system state carries both endpoint states and both output logs instead of re-running
   the event logs from the start - and, on top of it, the FAIR PUMP WITH DROPS: a deterministic
   scheduler that plays two scripted applications over that network, delivers every emitted frame
   once, in emission order, except the frames of a given drop set, and fires retransmission
   time-outs only when nothing else can happen.  harness/cmd/h_tcp2 runs the same pump on two REAL
   endpoints of the implementation; Corr/C02sys.v replays its moves on [isys_step];
   Proofs/TcpSysLiveBaseP.v proves [isys_run] equal to [TcpNetP.sys_run]; Proofs/TcpSysLive*P.v evaluate the pump over
   finite scenario / drop-set domains.
   Loss of HANDSHAKE packets is outside this system: it starts from the two states a completed
   handshake leaves behind (Model/TcpEst.v).
   Executable definitions only. *)
From Coq Require Import ZArith List Bool.
From NP Require Import Model.Seqnum Model.Tcp Model.TcpHs Model.TcpEst.
From NP Require Import Proofs.TcpNetP.   (* aev, ev_of, move, seg_of: the vocabulary of the closed system *)
Import ListNotations.
Open Scope Z_scope.

(* ------------------------------------------------------------------ the incremental closed system *)

Record sys := mkSys { sA : tcp; oA : list frame; sB : tcp; oB : list frame }.

Definition sys0 (a0 b0 : tcp) : sys := mkSys a0 [] b0 [].

(* one move; the result is the application-visible result of an application move (RNone otherwise) *)
Definition isys_step (s : sys) (m : move) : sys * result :=
  match m with
  | MAppA a => let '(t, r) := step (sA s) (ev_of a) in (mkSys t (oA s ++ out t) (sB s) (oB s), r)
  | MAppB a => let '(t, r) := step (sB s) (ev_of a) in (mkSys (sA s) (oA s) t (oB s ++ out t), r)
  | MDeliverB k ts te rto =>
      match nth_error (oA s) k with
      | Some f => let '(t, r) := step (sB s) (ESeg (seg_of f ts te) rto) in
                  (mkSys (sA s) (oA s) t (oB s ++ out t), r)
      | None => (s, RNone)
      end
  | MDeliverA k ts te rto =>
      match nth_error (oB s) k with
      | Some f => let '(t, r) := step (sA s) (ESeg (seg_of f ts te) rto) in
                  (mkSys t (oA s ++ out t) (sB s) (oB s), r)
      | None => (s, RNone)
      end
  end.

Definition isys_run (a0 b0 : tcp) (ms : list move) : sys :=
  fold_left (fun s m => fst (isys_step s m)) ms (sys0 a0 b0).

(* ------------------------------------------------------------------ the pair a handshake establishes *)

(* The two connection states left behind by a handshake between two stacks of THIS implementation
   (A opens actively, B accepts), as functions of what the stacks were configured with:
     A's SYN      : window field clampWnd rcvBufA; options MSS = mtuA - 40, WS = findWndScale rcvBufA,
                    timestamps, SACK-permitted iff A's stack has SACK on
     B's SYN-ACK  : window field clampWnd rcvBufB; options MSS = mtuB - 40, WS = findWndScale rcvBufB,
                    timestamps, SACK-permitted iff both stacks have SACK on
   (Corr/C02sys.v checks on every run that the real pair's first snapshots are these states.) *)
Definition est_pair (issA issB mtuA mtuB rcvBufA sndBufA rcvBufB sndBufB : Z) (sackA sackB : bool)
  : option (tcp * tcp) :=
  let synOpts := mkSO (mtuA - 40) (findWndScale rcvBufA) true sackA in
  let synackOpts := mkSO (mtuB - 40) (findWndScale rcvBufB) true (sackA && sackB) in
  match active_established issA issB (clampWnd rcvBufB) synackOpts sackA rcvBufA sndBufA mtuA 20 with
  | Some a0 =>
      Some (a0, passive_established issB issA (clampWnd rcvBufA) synOpts sackB rcvBufB sndBufB (mtuB - 20))
  | None => None
  end.

(* ------------------------------------------------------------------ scripted applications *)

(* one scripted application call; PReadAll = keep reading until end of stream is reported *)
Inductive pop := PWrite (d : list Z) | PShut | PReadAll.

(* burst = an application makes all the calls that can proceed before the network moves again
   (false: one call per side and round) *)
Record scen := mkScen { scA : list pop; scB : list pop; burst : bool }.

Record app := mkApp {
  a_todo : list pop;      (* calls still to make *)
  a_rd : list Z;          (* bytes read so far *)
  a_wr : list Z;          (* bytes its writes were accepted for so far *)
  a_eof : bool;           (* a read reported end of stream *)
  a_fail : bool }.        (* a call returned an error other than end of stream: the script is abandoned *)

Definition app0 (todo : list pop) : app := mkApp todo [] [] false false.

(* can the next call proceed without blocking?  (reads when data or end of stream is available,
   writes when there is buffer space; a call on an endpoint that is no longer connected returns at once) *)
Definition can_proceed (t : tcp) (o : pop) : bool :=
  match o with
  | PWrite d => negb (estate t =? stConnected) || (0 <? sndBufSize t - sndBufUsed t) || (len d =? 0)
  | PShut => true
  | PReadAll => negb (estate t =? stConnected) || (0 <? rcvBufUsed t) || rcvClosedE t
  end.

Definition aev_of (o : pop) : aev :=
  match o with PWrite d => AWrite d | PShut => AShutW | PReadAll => ARead end.

Definition app_fail (a : app) : app := mkApp [] (a_rd a) (a_wr a) (a_eof a) true.

(* bookkeeping after a call returned *)
Definition app_after (a : app) (o : pop) (rest : list pop) (r : result) : app :=
  match o, r with
  | PWrite d, RCount n =>
      mkApp (if len d <=? n then rest else PWrite (dropZ n d) :: rest)
            (a_rd a) (a_wr a ++ takeZ n d) (a_eof a) (a_fail a)
  | PShut, RCount _ => mkApp rest (a_rd a) (a_wr a) (a_eof a) (a_fail a)
  | PReadAll, RBytes b => mkApp (o :: rest) (a_rd a ++ b) (a_wr a) (a_eof a) (a_fail a)
  | PReadAll, RErr e => if e =? -6 then mkApp rest (a_rd a) (a_wr a) true (a_fail a) else app_fail a
  | _, _ => app_fail a
  end.

(* ------------------------------------------------------------------ the fair pump with drops *)

Record pst := mkPst {
  p_sys : sys;
  p_appA : app; p_appB : app;
  p_nA : nat;               (* A's frames with a smaller index have been handled by the network (delivered or dropped) *)
  p_nB : nat;
  p_moves : list move;      (* the moves made so far, newest first *)
  p_done : bool }.          (* the pump stopped because nothing can happen any more (not: out of fuel) *)

(* what the network tells the receiver about a delivered segment's timestamp option, and the RTT
   oracle: fixed for a pumped run of the MODEL (the driver takes them from the real packets) *)
Record oracle := mkOr { or_ts : bool; or_tsecr : bool; or_rto : Z }.

(* a drop set: (true, k) = the k-th frame emitted by A, (false, k) = the k-th frame emitted by B *)
Definition dropset := list (bool * nat).
Definition dropped (ds : dropset) (fromA : bool) (k : nat) : bool :=
  existsb (fun d => Bool.eqb (fst d) fromA && Nat.eqb (snd d) k) ds.

Definition do_move (p : pst) (m : move) : pst * result :=
  let '(s, r) := isys_step (p_sys p) m in
  (mkPst s (p_appA p) (p_appB p) (p_nA p) (p_nB p) (m :: p_moves p) (p_done p), r).

(* the next scripted call of one side, if it can proceed; true = a call was made *)
Definition one_app (forA : bool) (p : pst) : pst * bool :=
  let a := if forA then p_appA p else p_appB p in
  let t := if forA then sA (p_sys p) else sB (p_sys p) in
  match a_todo a with
  | [] => (p, false)
  | o :: rest =>
      if can_proceed t o then
        let '(p1, r) := do_move p (if forA then MAppA (aev_of o) else MAppB (aev_of o)) in
        let a' := app_after a o rest r in
        (if forA then mkPst (p_sys p1) a' (p_appB p1) (p_nA p1) (p_nB p1) (p_moves p1) (p_done p1)
         else mkPst (p_sys p1) (p_appA p1) a' (p_nA p1) (p_nB p1) (p_moves p1) (p_done p1), true)
      else (p, false)
  end.

Fixpoint app_burst (fuel : nat) (forA : bool) (p : pst) (any : bool) : pst * bool :=
  match fuel with
  | O => (p, any)
  | S f => let '(p1, ok) := one_app forA p in if ok then app_burst f forA p1 true else (p, any)
  end.

Definition apps (b : bool) (p : pst) : pst * bool :=
  if b then
    let '(p1, x) := app_burst 64 true p false in
    let '(p2, y) := app_burst 64 false p1 false in (p2, x || y)
  else
    let '(p1, x) := one_app true p in
    let '(p2, y) := one_app false p1 in (p2, x || y).

(* the network handles n frames of one side starting at its pointer: each is delivered to the other
   side unless it is in the drop set, in which case it is silently skipped *)
Fixpoint net_range (orc : oracle) (ds : dropset) (fromA : bool) (n : nat) (p : pst) : pst :=
  match n with
  | O => p
  | S n' =>
      let k := if fromA then p_nA p else p_nB p in
      let p1 := if dropped ds fromA k then p
                else fst (do_move p (if fromA then MDeliverB k (or_ts orc) (or_tsecr orc) (or_rto orc)
                                     else MDeliverA k (or_ts orc) (or_tsecr orc) (or_rto orc))) in
      let p2 := if fromA then mkPst (p_sys p1) (p_appA p1) (p_appB p1) (S k) (p_nB p1) (p_moves p1) (p_done p1)
                else mkPst (p_sys p1) (p_appA p1) (p_appB p1) (p_nA p1) (S k) (p_moves p1) (p_done p1) in
      net_range orc ds fromA n' p2
  end.

(* everything A has emitted and the network has not handled yet goes to B, then everything B has
   emitted (including its answers to what it just received) goes to A *)
Definition net (orc : oracle) (ds : dropset) (p : pst) : pst * bool :=
  let ka := (length (oA (p_sys p)) - p_nA p)%nat in
  let p1 := net_range orc ds true ka p in
  let kb := (length (oB (p_sys p1)) - p_nB p1)%nat in
  let p2 := net_range orc ds false kb p1 in
  (p2, negb (Nat.eqb ka 0) || negb (Nat.eqb kb 0)).

(* a retransmission time-out at one side: only a connected endpoint whose timer is not disabled
   can be handed an expiry (tcp.VerifFireRTO) *)
Definition rto_side (forA : bool) (p : pst) : pst * bool :=
  let t := if forA then sA (p_sys p) else sB (p_sys p) in
  if (estate t =? stConnected) && negb (tstate (SN t) =? tDisabled)
  then (fst (do_move p (if forA then MAppA ARto else MAppB ARto)), true)
  else (p, false).

Fixpoint pump (fuel : nat) (orc : oracle) (ds : dropset) (b : bool) (p : pst) : pst :=
  match fuel with
  | O => p
  | S f =>
      let '(p1, x) := apps b p in
      let '(p2, y) := net orc ds p1 in
      if x || y then pump f orc ds b p2
      else
        let '(p3, u) := rto_side true p2 in
        let '(p4, v) := rto_side false p3 in
        if u || v then pump f orc ds b p4
        else mkPst (p_sys p4) (p_appA p4) (p_appB p4) (p_nA p4) (p_nB p4) (p_moves p4) true
  end.

Definition pump_run (fuel : nat) (orc : oracle) (a0 b0 : tcp) (sc : scen) (ds : dropset) : pst :=
  pump fuel orc ds (burst sc) (mkPst (sys0 a0 b0) (app0 (scA sc)) (app0 (scB sc)) 0 0 [] false).

(* ------------------------------------------------------------------ scenarios: close orders x sizes *)

(* the two deterministic byte streams of the TCP drivers (harness/internal/tcpx/pat.go) *)
Fixpoint zrange_from (k : nat) (i : Z) : list Z :=
  match k with O => [] | S k' => i :: zrange_from k' (i + 1) end.
Definition streamA (off n : Z) : list Z :=
  map (fun i => ((off + i) * 7 + (off + i) / 251) mod 256) (zrange_from (Z.to_nat n) 0).
Definition streamB (off n : Z) : list Z :=
  map (fun i => ((off + i) * 13 + (off + i) / 256 + 1) mod 256) (zrange_from (Z.to_nat n) 0).

(* w bytes of a stream written in c chunks (the last one takes the remainder) *)
Fixpoint chunks_from (stream : Z -> Z -> list Z) (c : nat) (off left : Z) : list pop :=
  match c with
  | O => []
  | S O => [PWrite (stream off left)]
  | S c' => let n := left / Z.of_nat c in PWrite (stream off n) :: chunks_from stream c' (off + n) (left - n)
  end.
Definition writes (stream : Z -> Z -> list Z) (w : Z) (c : nat) : list pop :=
  if w =? 0 then [] else chunks_from stream c 0 w.

(* close orders:
   0  A first : A writes w1, shuts down, reads to end of stream; B reads to end of stream, THEN writes
                w2 and shuts down (w2 > 0: half-close, then data the other way)
   1  B first : the mirror image
   2  simultaneous: both write and shut down before anything is delivered, then read
   3  duplex  : both write at once; A shuts down after writing, B only after it has seen A's end of stream *)
Definition scenario (order : Z) (w1 : Z) (c1 : nat) (w2 : Z) : scen :=
  let wa := writes streamA w1 c1 in
  let wb := writes streamB w2 1 in
  if order =? 0 then mkScen (wa ++ [PShut; PReadAll]) ([PReadAll] ++ wb ++ [PShut]) false
  else if order =? 1 then mkScen ([PReadAll] ++ wa ++ [PShut]) (wb ++ [PShut; PReadAll]) false
  else if order =? 2 then mkScen (wa ++ [PShut; PReadAll]) (wb ++ [PShut; PReadAll]) true
  else mkScen (wa ++ [PShut; PReadAll]) (wb ++ [PReadAll; PShut]) false.

(* ------------------------------------------------------------------ verdicts on a finished pumped run *)

Definition no_rst (l : list frame) : bool := forallb (fun f => negb (has (f_flags f) fRst)) l.

Fixpoint zeqb (a b : list Z) : bool :=
  match a, b with
  | [], [] => true
  | x :: a', y :: b' => (x =? y) && zeqb a' b'
  | _, _ => false
  end.

(* everything written was delivered, followed by end of stream, in both directions *)
Definition delivered (p : pst) : bool :=
  zeqb (a_rd (p_appB p)) (a_wr (p_appA p)) && zeqb (a_rd (p_appA p)) (a_wr (p_appB p)) &&
  a_eof (p_appA p) && a_eof (p_appB p) &&
  negb (a_fail (p_appA p)) && negb (a_fail (p_appB p)) &&
  (Nat.eqb (length (a_todo (p_appA p))) 0) && (Nat.eqb (length (a_todo (p_appB p))) 0).

(* ... and both endpoints ended in the closed state, no reset was ever emitted *)
Definition recovered (p : pst) : bool :=
  p_done p && delivered p &&
  (estate (sA (p_sys p)) =? stClosed) && (estate (sB (p_sys p)) =? stClosed) &&
  no_rst (oA (p_sys p)) && no_rst (oB (p_sys p)).

(* all drop sets of at most two frames among the first K frames of either side *)
Definition all_frames (K : nat) : list (bool * nat) :=
  map (fun k => (true, k)) (seq 0 K) ++ map (fun k => (false, k)) (seq 0 K).
Fixpoint pairs_of {A} (l : list A) : list (list A) :=
  match l with
  | [] => []
  | x :: r => map (fun y => [x; y]) r ++ pairs_of r
  end.
Definition drop_sets (K : nat) : list dropset :=
  [] :: map (fun x => [x]) (all_frames K) ++ pairs_of (all_frames K).
