(* Model of /repo/protocol/transport/udp/endpoint.go (HandlePacket, HandleControlPacket, Read, Write,
   prepareForWrite, sendUDP, Shutdown, Close, and the effect of Bind/Connect on the endpoint), with
   /repo/protocol/header/udp.go through Model/HdrTransport.v and checksum.go through
   Model/Checksum.v.  Executable definitions only; lemmas are in Proofs/UdpP.v.

   What is an INPUT of the model (an answer of another component, not computed here):
   * which packets the demultiplexer hands to HandlePacket (stack/transport_demuxer.go, C09);
   * the port that registerWithStack reserves (C10) and every error of Bind/Connect's calls into the
     stack (CheckLocalAddress, FindRoute, checkV4Mapped, RegisterTransportEndpoint);
   * the route a Write to an explicit destination resolves to, the result of link-address resolution
     (C12) and the result of the network/link layer's WritePacket;
   * a []byte is a [list Z]; a VectorisedView is the concatenation of its views plus the length of
     its first view (the only place where the view structure matters: the header is read from
     vv.First()).
   Not modelled: statistics counters, waiter notifications, receive timestamps (off by default),
   multicast membership, the v6only flag (inside the route/bind oracles), lock promotion in Write
   (the state re-check after re-locking is dead code for a sequential history).
   Go's int is 64 bits here; rcvBufSize is an unbounded Z and Proofs/UdpP.v shows it stays within
   rcvBufSizeMax + 65526, so the addition in HandlePacket cannot overflow. *)
From Coq Require Import ZArith List Bool.
From NP Require Import Model.Bytes Model.Checksum Model.HdrTransport.
Import ListNotations.
Open Scope Z_scope.

(* ---- *tcpip.Error values that the UDP endpoint can return, as codes (0 = nil) ---- *)
Definition ErrNil : Z := 0.
Definition ErrWouldBlock : Z := 1.
Definition ErrClosedForReceive : Z := 2.
Definition ErrClosedForSend : Z := 3.
Definition ErrMessageTooLong : Z := 4.
Definition ErrInvalidOptionValue : Z := 5.
Definition ErrDestinationRequired : Z := 6.
Definition ErrInvalidEndpointState : Z := 7.
Definition ErrNotConnected : Z := 8.
Definition ErrControlPortUnreachable : Z := 9.
Definition ErrControlPacketTooBig : Z := 10.
(* 11.. : errors that only come out of the oracles (ErrNoRoute 11, ErrNetworkUnreachable 12,
   ErrBadLocalAddress 13, ErrPortInUse 14, ErrNoPortAvailable 15, ErrNoLinkAddress 16, other 99) *)

Definition IPv4ProtocolNumber : Z := 2048.   (* 0x0800 *)
Definition IPv6ProtocolNumber : Z := 34525.  (* 0x86dd *)
Definition UDPProtocolNumber : Z := 17.
Definition UDPMinimumSize : Z := 8.
Definition IPv4MinimumSize : Z := 20.

Definition len (b : list Z) : Z := Z.of_nat (length b).

(* tcpip.FullAddress *)
Record fullAddress := mkFA { fa_nic : Z; fa_addr : list Z; fa_port : Z }.

(* type udpPacket struct { udpPacketEntry; senderAddress tcpip.FullAddress; data buffer.VectorisedView; ... } *)
Record udpPacket := mkPkt { senderAddress : fullAddress; pdata : list Z }.

(* const ( stateInitial endpointState = iota; stateBound; stateConnected; stateClosed ) *)
Inductive endpointState := stateInitial | stateBound | stateConnected | stateClosed.

(* what sendUDP uses of a stack.Route *)
Record route := mkRoute {
  r_netProto : Z;          (* r.NetProto *)
  r_local : list Z;        (* r.LocalAddress *)
  r_remote : list Z;       (* r.RemoteAddress *)
  r_defaultTTL : Z;        (* r.DefaultTTL() *)
  r_offload : bool }.      (* r.Capabilities()&CapabilityChecksumOffload != 0 *)

(* the fields of type endpoint struct that the modelled functions read or write;
   shutdownFlags is kept as its two bits (ShutdownRead = 1, ShutdownWrite = 2) *)
Record endpoint := mkEP {
  rcvReady : bool;
  rcvList : list udpPacket;      (* udpPacketList, front first *)
  rcvBufSizeMax : Z;
  rcvBufSize : Z;
  rcvClosed : bool;
  rcvIcmp : bool;                (* rcvIcmp != icmpNormal *)
  rcvIcmpMsg : Z;                (* 0 = nil *)
  state : endpointState;
  shutRead : bool;
  shutWrite : bool;
  localPort : Z;                 (* e.id.LocalPort *)
  dstPort : Z;
  eroute : route;
  multicastTTL : Z }.

Definition nullRoute : route := mkRoute 0 [] [] 0 false.

(* func newEndpoint(...) *endpoint { return &endpoint{ ..., multicastTTL: 1, rcvBufSizeMax: 32 * 1024,
     sndBufSize: 32 * 1024, rcvIcmp: icmpNormal } }
   the maximum is a parameter: no code path changes it afterwards (SetSockOpt has no case for
   ReceiveBufferSizeOption), the correspondence driver sets other values through an accessor *)
Definition newEndpoint (max : Z) : endpoint :=
  mkEP false [] max 0 false false 0 stateInitial false false 0 0 nullRoute 1.

Definition set_rcv (e : endpoint) (l : list udpPacket) (sz : Z) : endpoint :=
  mkEP (rcvReady e) l (rcvBufSizeMax e) sz (rcvClosed e) (rcvIcmp e) (rcvIcmpMsg e) (state e)
       (shutRead e) (shutWrite e) (localPort e) (dstPort e) (eroute e) (multicastTTL e).
Definition set_icmp (e : endpoint) (msg : Z) : endpoint :=
  mkEP (rcvReady e) (rcvList e) (rcvBufSizeMax e) (rcvBufSize e) (rcvClosed e) true msg (state e)
       (shutRead e) (shutWrite e) (localPort e) (dstPort e) (eroute e) (multicastTTL e).
Definition set_shutdown (e : endpoint) (rd wr closed : bool) : endpoint :=
  mkEP (rcvReady e) (rcvList e) (rcvBufSizeMax e) (rcvBufSize e) closed (rcvIcmp e) (rcvIcmpMsg e) (state e)
       rd wr (localPort e) (dstPort e) (eroute e) (multicastTTL e).

(* ======================= receive side ======================= *)

(* func (e *endpoint) HandlePacket(r *stack.Route, id stack.TransportEndpointID, vv buffer.VectorisedView) {
     hdr := header.UDP(vv.First())
     if int(hdr.Length()) > vv.Size() || hdr.Length() < header.UDPMinimumSize {
       e.stack.Stats().UDP.MalformedPacketsReceived.Increment(); return }
     vv.CapLength(int(hdr.Length()))
     vv.TrimFront(header.UDPMinimumSize)
     e.rcvMu.Lock()
     e.stack.Stats().UDP.PacketsReceived.Increment()
     if !e.rcvReady || e.rcvClosed || e.rcvBufSize >= e.rcvBufSizeMax {
       e.stack.Stats().UDP.ReceiveBufferErrors.Increment(); e.rcvMu.Unlock(); return }
     wasEmpty := e.rcvBufSize == 0
     pkt := &udpPacket{ senderAddress: tcpip.FullAddress{ NIC: r.NICID(), Addr: id.RemoteAddress,
                                                          Port: hdr.SourcePort() } }
     pkt.data = vv.Clone(pkt.views[:])
     e.rcvList.PushBack(pkt)
     e.rcvBufSize += vv.Size()
     ... timestamp; e.rcvMu.Unlock(); if wasEmpty { e.waiterQueue.Notify(waiter.EventIn) } }
   [nic] = r.NICID(), [remote] = id.RemoteAddress (the network layer's source address),
   [first] = len(vv.First()), [vv] = all the bytes of the view.  None = index-out-of-range panic of a
   header accessor (the caller, NIC.DeliverTransportPacket, drops packets whose first view is shorter
   than MinimumPacketSize() = 8, so this is not reachable through the stack). *)
Definition handlePacket (e : endpoint) (nic : Z) (remote : list Z) (first : nat) (vv : list Z) : option endpoint :=
  let hdr := firstn first vv in
  hlen <- udp_length hdr ;;
  if (len vv <? hlen) || (hlen <? UDPMinimumSize) then Some e
  else
    let vv := firstn (Z.to_nat hlen) vv in                (* CapLength *)
    let vv := skipn (Z.to_nat UDPMinimumSize) vv in       (* TrimFront *)
    if negb (rcvReady e) || rcvClosed e || (rcvBufSizeMax e <=? rcvBufSize e) then Some e
    else
      sport <- udp_sourcePort hdr ;;
      let pkt := mkPkt (mkFA nic remote sport) vv in
      Some (set_rcv e (rcvList e ++ [pkt]) (rcvBufSize e + len vv)).

(* the same before the repair "fix: UDP receive delivers bytes beyond the UDP length field":
     if int(hdr.Length()) > vv.Size() { malformed; return }
     vv.TrimFront(header.UDPMinimumSize)
   (no lower bound on the length field, no CapLength) — kept to document the old behaviour *)
Definition handlePacket_old (e : endpoint) (nic : Z) (remote : list Z) (first : nat) (vv : list Z) : option endpoint :=
  let hdr := firstn first vv in
  hlen <- udp_length hdr ;;
  if len vv <? hlen then Some e
  else
    let vv := skipn (Z.to_nat UDPMinimumSize) vv in
    if negb (rcvReady e) || rcvClosed e || (rcvBufSizeMax e <=? rcvBufSize e) then Some e
    else
      sport <- udp_sourcePort hdr ;;
      let pkt := mkPkt (mkFA nic remote sport) vv in
      Some (set_rcv e (rcvList e ++ [pkt]) (rcvBufSize e + len vv)).

(* func (e *endpoint) HandleControlPacket(id, typ stack.ControlType, extra uint32, vv) {
     e.rcvIcmp = icmpRcv
     switch typ {
     case stack.ControlPortUnreachable: e.rcvIcmpMsg = tcpip.ErrControlPortUnreachable
     case stack.ControlPacketTooBig:    e.rcvIcmpMsg = tcpip.ErrControlPacketTooBig }
     e.waiterQueue.Notify(waiter.EventIn) }
   const ( ControlPacketTooBig ControlType = iota; ControlPortUnreachable; ControlUnknown ) *)
Definition handleControlPacket (e : endpoint) (typ : Z) : endpoint :=
  set_icmp e (if typ =? 1 then ErrControlPortUnreachable
              else if typ =? 0 then ErrControlPacketTooBig else rcvIcmpMsg e).

(* result of Read: the view and the FullAddress written through addr, or the error.
   [RErr 0] is the (buffer.View{}, nil) that the empty-list branch returns when rcvIcmp is set but
   rcvIcmpMsg is still nil (only after a control message of a type the stack never passes). *)
Inductive readResult := RData (from : fullAddress) (v : list Z) | RErr (err : Z).

(* func (e *endpoint) Read(addr *tcpip.FullAddress) (buffer.View, tcpip.ControlMessages, *tcpip.Error) {
     e.rcvMu.Lock()
     if e.rcvList.Empty() {
       err := tcpip.ErrWouldBlock
       if e.rcvIcmp != icmpNormal { err = e.rcvIcmpMsg }
       if e.rcvClosed { err = tcpip.ErrClosedForReceive }
       e.rcvMu.Unlock()
       return buffer.View{}, tcpip.ControlMessages{}, err }
     p := e.rcvList.Front()
     e.rcvList.Remove(p)
     e.rcvBufSize -= p.data.Size()
     ...
     if addr != nil { *addr = p.senderAddress }
     return p.data.ToView(), tcpip.ControlMessages{...}, nil } *)
Definition read (e : endpoint) : endpoint * readResult :=
  match rcvList e with
  | [] =>
      let err := ErrWouldBlock in
      let err := if rcvIcmp e then rcvIcmpMsg e else err in
      let err := if rcvClosed e then ErrClosedForReceive else err in
      (e, RErr err)
  | p :: rest =>
      (set_rcv e rest (rcvBufSize e - len (pdata p)), RData (senderAddress p) (pdata p))
  end.

(* func (e *endpoint) Shutdown(flags tcpip.ShutdownFlags) *tcpip.Error {
     if e.state != stateBound && e.state != stateConnected { return tcpip.ErrNotConnected }
     e.shutdownFlags |= flags
     if flags&tcpip.ShutdownRead != 0 { wasClosed := e.rcvClosed; e.rcvClosed = true; ... notify }
     return nil }
   [rd] = flags&ShutdownRead != 0, [wr] = flags&ShutdownWrite != 0 *)
Definition shutdown (e : endpoint) (rd wr : bool) : endpoint * Z :=
  match state e with
  | stateBound | stateConnected =>
      (set_shutdown e (shutRead e || rd) (shutWrite e || wr) (if rd then true else rcvClosed e), ErrNil)
  | _ => (e, ErrNotConnected)
  end.

(* func (e *endpoint) Close() {
     e.shutdownFlags = tcpip.ShutdownRead | tcpip.ShutdownWrite
     switch e.state { case stateBound, stateConnected: unregister, release port }
     ...
     e.rcvClosed = true
     e.rcvBufSize = 0
     for !e.rcvList.Empty() { p := e.rcvList.Front(); e.rcvList.Remove(p) }
     e.route.Release()
     e.state = stateClosed ... } *)
Definition close (e : endpoint) : endpoint :=
  mkEP (rcvReady e) [] (rcvBufSizeMax e) 0 true (rcvIcmp e) (rcvIcmpMsg e) stateClosed
       true true (localPort e) (dstPort e) (eroute e) (multicastTTL e).

(* bindLocked: if e.state != stateInitial { return ErrInvalidEndpointState }; checkV4Mapped,
   CheckLocalAddress, registerWithStack (all in the oracle [res]: inl err | inr the local port);
   then e.id = id; e.state = stateBound; e.rcvReady = true *)
Definition bindLocked (e : endpoint) (res : Z + Z) : endpoint * Z :=
  match state e with
  | stateInitial =>
      match res with
      | inl err => (e, err)
      | inr port =>
          (mkEP true (rcvList e) (rcvBufSizeMax e) (rcvBufSize e) (rcvClosed e) (rcvIcmp e) (rcvIcmpMsg e)
                stateBound (shutRead e) (shutWrite e) port (dstPort e) (eroute e) (multicastTTL e), ErrNil)
      end
  | _ => (e, ErrInvalidEndpointState)
  end.

(* func (e *endpoint) Connect(addr tcpip.FullAddress) *tcpip.Error {
     if addr.Port == 0 { return tcpip.ErrInvalidEndpointState }
     switch e.state { case stateInitial: case stateBound, stateConnected: ... default: return ErrInvalidEndpointState }
     checkV4Mapped, FindRoute, registerWithStack (oracle [res]: inl err | inr (route, local port))
     e.id = id; e.route = r.Clone(); e.dstPort = addr.Port; ... e.state = stateConnected; e.rcvReady = true } *)
Definition connect (e : endpoint) (port : Z) (res : Z + route * Z) : endpoint * Z :=
  if port =? 0 then (e, ErrInvalidEndpointState)
  else match state e with
  | stateClosed => (e, ErrInvalidEndpointState)
  | _ =>
      match res with
      | inl err => (e, err)
      | inr (r, lport) =>
          (mkEP true (rcvList e) (rcvBufSizeMax e) (rcvBufSize e) (rcvClosed e) (rcvIcmp e) (rcvIcmpMsg e)
                stateConnected (shutRead e) (shutWrite e) lport port r (multicastTTL e), ErrNil)
      end
  end.

(* ======================= send side ======================= *)

(* one call of r.WritePacket(hdr, data, ProtocolNumber, ttl): what the network layer is handed;
   [sg_bytes] = the 8 header bytes followed by the payload *)
Record segment := mkSeg { sg_netProto : Z; sg_src : list Z; sg_dst : list Z; sg_ttl : Z; sg_bytes : list Z }.

(* func sendUDP(r *stack.Route, data buffer.VectorisedView, localPort, remotePort uint16, ttl uint8) *tcpip.Error {
     hdr := buffer.NewPrependable(header.UDPMinimumSize + int(r.MaxHeaderLength()))
     udp := header.UDP(hdr.Prepend(header.UDPMinimumSize))
     length := uint16(hdr.UsedLength() + data.Size())
     udp.Encode(&header.UDPFields{ SrcPort: localPort, DstPort: remotePort, Length: length })
     if r.Capabilities()&stack.CapabilityChecksumOffload == 0 {
       xsum := r.PseudoHeaderChecksum(ProtocolNumber)
       for _, v := range data.Views() { xsum = header.Checksum(v, xsum) }
       udp.SetChecksum(^udp.CalculateChecksum(xsum, length)) }
     r.Stats().UDP.PacketsSent.Increment()
     return r.WritePacket(hdr, data, ProtocolNumber, ttl) }
   data is buffer.View(v).ToVectorisedView(): exactly one view. *)
Definition sendUDP (r : route) (data : list Z) (lport rport ttl : Z) : option segment :=
  let hdr := repeat 0 8%nat in
  let length := w16 (UDPMinimumSize + len data) in
  udp <- udp_encode hdr (mkUDP lport rport length 0) ;;
  udp <- (if r_offload r then Some udp
          else
            let xsum := pseudoHeaderChecksum UDPProtocolNumber (r_local r) (r_remote r) in
            let xsum := checksum_chunks [data] xsum in
            c <- udp_calculateChecksum udp xsum length ;;
            udp_setChecksum udp (lnot16 c)) ;;
  Some (mkSeg (r_netProto r) (r_local r) (r_remote r) ttl (udp ++ data)).

(* header.IsV4MulticastAddress: len(addr) == 4 && addr[0]&0xf0 == 0xe0;
   header.IsV6MulticastAddress: len(addr) == 16 && addr[0] == 0xff *)
Definition isV4Multicast (a : list Z) : bool := (length a =? 4)%nat && (nth 0 a 0 / 16 =? 14).
Definition isV6Multicast (a : list Z) : bool := (length a =? 16)%nat && (nth 0 a 0 =? 255).

(* answers of the rest of the stack to one Write call *)
Record writeEnv := mkWEnv {
  we_bind : Z + Z;       (* bindLocked(FullAddress{}, nil) of prepareForWrite: inl err | inr ephemeral port *)
  we_route : Z + route;  (* opts.To != nil: bindNICID test, checkV4Mapped, FindRoute: inl err | inr route *)
  we_resolve : Z;        (* route.Resolve when required: 0 = resolved / not required, else its error *)
  we_lower : Z }.        (* what r.WritePacket returned: 0 = nil *)

(* result of Write: the segments handed to the network layer (0 or 1), the count and the error;
   [w_panic] = a header accessor went out of range (never, see Proofs) *)
Record writeResult := mkWR { w_emitted : list segment; w_n : Z; w_err : Z; w_panic : bool }.
Definition werr (err : Z) : writeResult := mkWR [] 0 err false.

(* func (e *endpoint) prepareForWrite(to *tcpip.FullAddress) (retry bool, err *tcpip.Error) {
     switch e.state {
     case stateInitial:
     case stateConnected: return false, nil
     case stateBound: if to == nil { return false, tcpip.ErrDestinationRequired }; return false, nil
     default: return false, tcpip.ErrInvalidEndpointState }
     ... if err := e.bindLocked(tcpip.FullAddress{}, nil); err != nil { return false, err }
     return true, nil }
   together with the retry loop of Write: after a successful bind the second iteration runs in
   stateBound. *)
Definition prepareForWrite (e : endpoint) (has_to : bool) (env : writeEnv) : endpoint * Z :=
  match state e with
  | stateConnected => (e, ErrNil)
  | stateBound => (e, if has_to then ErrNil else ErrDestinationRequired)
  | stateClosed => (e, ErrInvalidEndpointState)
  | stateInitial =>
      let '(e', err) := bindLocked e (we_bind env) in
      if err =? 0 then (e', if has_to then ErrNil else ErrDestinationRequired) else (e', err)
  end.

(*   maxPayload := math.MaxUint16 - header.UDPMinimumSize
     if route.NetProto == header.IPv4ProtocolNumber { maxPayload -= header.IPv4MinimumSize } *)
Definition maxPayload (netProto : Z) : Z :=
  let m := 65535 - UDPMinimumSize in
  if netProto =? IPv4ProtocolNumber then m - IPv4MinimumSize else m.

(* func (e *endpoint) Write(p tcpip.Payload, opts tcpip.WriteOptions) (uintptr, <-chan struct{}, *tcpip.Error) {
     if opts.More { return 0, nil, tcpip.ErrInvalidOptionValue }
     if p.Size() > math.MaxUint16 { return 0, nil, tcpip.ErrMessageTooLong }
     to := opts.To
     if e.shutdownFlags&tcpip.ShutdownWrite != 0 { return 0, nil, tcpip.ErrClosedForSend }
     for { retry, err := e.prepareForWrite(to); if err != nil { return 0, nil, err }; if !retry { break } }
     if to == nil { route = &e.route; dstPort = e.dstPort; ... }
     else { ... r, err := e.stack.FindRoute(...); if err != nil { return 0, nil, err }; route = &r; dstPort = to.Port }
     if route.IsResolutionRequired() { if ch, err := route.Resolve(waker); err != nil { ... return 0, ch/nil, err } }
     v, err := p.Get(p.Size())
     maxPayload := ...; if len(v) > maxPayload { return 0, nil, tcpip.ErrMessageTooLong }
     ttl := route.DefaultTTL()
     if header.IsV4MulticastAddress(route.RemoteAddress) || header.IsV6MulticastAddress(route.RemoteAddress) { ttl = e.multicastTTL }
     if err := sendUDP(route, buffer.View(v).ToVectorisedView(), e.id.LocalPort, dstPort, ttl); err != nil { return 0, nil, err }
     return uintptr(len(v)), nil, nil }
   [to] = Some (to.Port) when opts.To != nil; [bounded] = true is the current code, false the code
   before "fix: UDP Write emits wrapped length fields for payloads above the maximum". *)
Definition write_gen (bounded : bool) (e : endpoint) (more : bool) (to : option Z) (env : writeEnv) (v : list Z)
  : endpoint * writeResult :=
  if more then (e, werr ErrInvalidOptionValue)
  else if 65535 <? len v then (e, werr ErrMessageTooLong)
  else if shutWrite e then (e, werr ErrClosedForSend)
  else
    let '(e, err) := prepareForWrite e (match to with Some _ => true | None => false end) env in
    if negb (err =? 0) then (e, werr err)
    else
      let rd := match to with
                | None => inr (eroute e, dstPort e)
                | Some port => match we_route env with inl err => inl err | inr r => inr (r, port) end
                end in
      match rd with
      | inl err => (e, werr err)
      | inr (r, dport) =>
          if negb (we_resolve env =? 0) then (e, werr (we_resolve env))
          else if bounded && (maxPayload (r_netProto r) <? len v) then (e, werr ErrMessageTooLong)
          else
            let ttl := if isV4Multicast (r_remote r) || isV6Multicast (r_remote r)
                       then multicastTTL e else r_defaultTTL r in
            match sendUDP r v (localPort e) dport ttl with
            | None => (e, mkWR [] 0 0 true)
            | Some sg =>
                if we_lower env =? 0 then (e, mkWR [sg] (len v) ErrNil false)
                else (e, mkWR [sg] 0 (we_lower env) false)
            end
      end.

Definition write := write_gen true.
Definition write_old := write_gen false.

(* ======================= histories ======================= *)

Inductive op :=
| OArrive (nic : Z) (remote : list Z) (first : nat) (vv : list Z)   (* HandlePacket *)
| OControl (typ : Z)                                               (* HandleControlPacket *)
| ORead
| OShutdown (rd wr : bool)
| OClose
| OBind (res : Z + Z)
| OConnect (port : Z) (res : Z + route * Z)
| OWrite (more : bool) (to : option Z) (env : writeEnv) (v : list Z).

Inductive out :=
| OutNone
| OutPanic
| OutErr (err : Z)
| OutRead (r : readResult)
| OutWrite (r : writeResult).

Definition step (e : endpoint) (o : op) : endpoint * out :=
  match o with
  | OArrive nic remote first vv =>
      match handlePacket e nic remote first vv with Some e' => (e', OutNone) | None => (e, OutPanic) end
  | OControl typ => (handleControlPacket e typ, OutNone)
  | ORead => let '(e', r) := read e in (e', OutRead r)
  | OShutdown rd wr => let '(e', err) := shutdown e rd wr in (e', OutErr err)
  | OClose => (close e, OutNone)
  | OBind res => let '(e', err) := bindLocked e res in (e', OutErr err)
  | OConnect port res => let '(e', err) := connect e port res in (e', OutErr err)
  | OWrite more to env v => let '(e', r) := write e more to env v in (e', OutWrite r)
  end.

(* the endpoint after the history and the outputs, oldest first *)
Definition run (ops : list op) (e : endpoint) : endpoint * list out :=
  fold_left (fun acc o => let '(e', r) := step (fst acc) o in (e', snd acc ++ [r])) ops (e, []).

(* ======================= specification vocabulary =======================
   Independent of the functions above: a bounded FIFO of datagrams, written from the property text
   and RFC 768 with list and arithmetic primitives only. *)

(* a datagram as the application sees it: where it came from and its payload *)
Record dgram := mkDg { d_nic : Z; d_addr : list Z; d_port : Z; d_payload : list Z }.

(* RFC 768 fields of the bytes the network layer delivered *)
Definition f_sport (b : list Z) : Z := nth 0 b 0 * 256 + nth 1 b 0.
Definition f_dport (b : list Z) : Z := nth 2 b 0 * 256 + nth 3 b 0.
Definition f_length (b : list Z) : Z := nth 4 b 0 * 256 + nth 5 b 0.
Definition f_checksum (b : list Z) : Z := nth 6 b 0 * 256 + nth 7 b 0.
(* "Length is the length in octets of this user datagram including this header and the data":
   the payload is bytes 8 .. Length-1 *)
Definition f_payload (b : list Z) : list Z := firstn (Z.to_nat (f_length b) - 8) (skipn 8 b).
Definition length_ok (b : list Z) : bool := (8 <=? f_length b) && (f_length b <=? len b).

Definition qbytes (q : list dgram) : Z := fold_right (fun d acc => len (d_payload d) + acc) 0 q.

(* the abstract socket: ever bound, Close called, read side closed, capacity, queue *)
Record fifo := mkFifo { q_bound : bool; q_dead : bool; q_closed : bool; q_max : Z; q_items : list dgram }.
Definition fifo_new (max : Z) : fifo := mkFifo false false false max [].

(* an arriving datagram is accepted iff the socket is bound, its read side is open, the bytes
   queued so far are below the capacity, and the length field is consistent *)
Definition fifo_accepts (s : fifo) (b : list Z) : bool :=
  q_bound s && negb (q_closed s) && (qbytes (q_items s) <? q_max s) && length_ok b.

Definition ok_res {A} (r : Z + A) : bool := match r with inr _ => true | inl _ => false end.

(* abstract step; the result is the datagram a successful Read returns, and the datagram an
   accepted arrival contributes *)
Definition fifo_step (s : fifo) (o : op) : fifo * option dgram * option dgram :=
  match o with
  | OArrive nic remote _ b =>
      if fifo_accepts s b then
        let d := mkDg nic remote (f_sport b) (f_payload b) in
        (mkFifo (q_bound s) (q_dead s) (q_closed s) (q_max s) (q_items s ++ [d]), None, Some d)
      else (s, None, None)
  | ORead =>
      match q_items s with
      | d :: rest => (mkFifo (q_bound s) (q_dead s) (q_closed s) (q_max s) rest, Some d, None)
      | [] => (s, None, None)
      end
  | OShutdown rd _ =>
      if q_bound s && negb (q_dead s) && rd
      then (mkFifo (q_bound s) (q_dead s) true (q_max s) (q_items s), None, None) else (s, None, None)
  | OClose => (mkFifo (q_bound s) true true (q_max s) [], None, None)
  | OBind res =>
      if negb (q_bound s) && negb (q_dead s) && ok_res res
      then (mkFifo true (q_dead s) (q_closed s) (q_max s) (q_items s), None, None) else (s, None, None)
  | OConnect port res =>
      if negb (port =? 0) && negb (q_dead s) && ok_res res
      then (mkFifo true (q_dead s) (q_closed s) (q_max s) (q_items s), None, None) else (s, None, None)
  | OWrite more _ env v =>
      (* a Write on a socket that was never bound binds it to an ephemeral port first *)
      if negb (q_bound s) && negb (q_dead s) && negb more && (len v <=? 65535) && ok_res (we_bind env)
      then (mkFifo true (q_dead s) (q_closed s) (q_max s) (q_items s), None, None) else (s, None, None)
  | OControl _ => (s, None, None)
  end.

(* (final abstract state, datagrams returned by successful reads, datagrams accepted), in order *)
Fixpoint fifo_run (ops : list op) (s : fifo) : fifo * list dgram * list dgram :=
  match ops with
  | [] => (s, [], [])
  | o :: rest =>
      let '(s1, r, a) := fifo_step s o in
      let '(s2, rs, acc) := fifo_run rest s1 in
      (s2, match r with Some d => d :: rs | None => rs end, match a with Some d => d :: acc | None => acc end)
  end.

(* what the model's outputs say the successful reads returned *)
Definition dg_of (f : fullAddress) (v : list Z) : dgram := mkDg (fa_nic f) (fa_addr f) (fa_port f) v.
Definition reads_of (outs : list out) : list dgram :=
  flat_map (fun o => match o with OutRead (RData f v) => [dg_of f v] | _ => [] end) outs.

(* the stack's guarantee about the view handed to HandlePacket (stack/nic.go DeliverTransportPacket:
   "if len(vv.First()) < transProto.MinimumPacketSize() { ...; return }") *)
Definition arrival_ok (o : op) : Prop :=
  match o with OArrive _ _ first vv => (8 <= first <= length vv)%nat | _ => True end.

(* RFC 768 / RFC 2460 8.1 pseudo headers followed by the segment: what the checksum covers *)
Definition pseudo4 (src dst : list Z) (seg : list Z) : list Z :=
  src ++ dst ++ [0; 17; len seg / 256; len seg mod 256] ++ seg.
Definition pseudo6 (src dst : list Z) (seg : list Z) : list Z :=
  src ++ dst ++ [0; 0; len seg / 256; len seg mod 256; 0; 0; 0; 17] ++ seg.
