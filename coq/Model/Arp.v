(* Model of the ARP packet handler: protocol/header/arp.go (accessors, IsValid) and
   protocol/network/arp/arp.go (HandlePacket, LinkAddressRequest, ResolveStaticAddress), plus the
   part of stack/nic.go DeliverNetworkPacket that runs before the handler.
   Executable definitions only; proofs are in Proofs/ArpP.v.

   A []byte is a [list Z] of bytes; an out-of-range read or write (Go's index-out-of-range panic)
   is [None] in the accessors and [Panic] in the handler result.  IP and link addresses
   (tcpip.Address / tcpip.LinkAddress are Go strings) are byte lists too. *)
From Coq Require Import ZArith List Bool.
From NP Require Import Model.Bytes.
Import ListNotations.
Open Scope Z_scope.

(* const ARPSize = 2 + 2 + 1 + 1 + 2 + 2*6 + 2*4 *)
Definition ARPSize : nat := 28.
(* ARPRequest ARPOp = 1; ARPReply ARPOp = 2 *)
Definition ARPRequest : Z := 1.
Definition ARPReply : Z := 2.
(* IPv4ProtocolNumber = 0x0800; IPv4AddressSize = 4 *)
Definition IPv4ProtocolNumber : Z := 2048.
Definition IPv4AddressSize : Z := 4.

(* func (a ARP) hardwareAddressSpace() uint16 { return uint16(a[0])<<8 | uint16(a[1]) } *)
Definition hardwareAddressSpace (a : list Z) : option Z := get16 a 0.
(* func (a ARP) protocolAddressSpace() uint16 { return uint16(a[2])<<8 | uint16(a[3]) } *)
Definition protocolAddressSpace (a : list Z) : option Z := get16 a 2.
(* func (a ARP) hardwareAddressSize() int { return int(a[4]) } *)
Definition hardwareAddressSize (a : list Z) : option Z := get8 a 4.
(* func (a ARP) protocolAddressSize() int { return int(a[5]) } *)
Definition protocolAddressSize (a : list Z) : option Z := get8 a 5.
(* func (a ARP) Op() ARPOp { return ARPOp(a[6])<<8 | ARPOp(a[7]) } *)
Definition Op (a : list Z) : option Z := get16 a 6.
(* func (a ARP) HardwareAddressSender() []byte { const s = 8; return a[s : s+6] } *)
Definition HardwareAddressSender (a : list Z) : option (list Z) := getN a 8 6.
(* func (a ARP) ProtocolAddressSender() []byte { const s = 8 + 6; return a[s : s+4] } *)
Definition ProtocolAddressSender (a : list Z) : option (list Z) := getN a 14 4.
(* func (a ARP) HardwareAddressTarget() []byte { const s = 8 + 6 + 4; return a[s : s+6] } *)
Definition HardwareAddressTarget (a : list Z) : option (list Z) := getN a 18 6.
(* func (a ARP) ProtocolAddressTarget() []byte { const s = 8 + 6 + 4 + 6; return a[s : s+4] } *)
Definition ProtocolAddressTarget (a : list Z) : option (list Z) := getN a 24 4.

(* func (a ARP) IsValid() bool {
     if len(a) < ARPSize { return false }
     const htypeEthernet = 1; const macSize = 6
     return a.hardwareAddressSpace() == htypeEthernet &&
            a.protocolAddressSpace() == uint16(IPv4ProtocolNumber) &&
            a.hardwareAddressSize() == macSize && a.protocolAddressSize() == IPv4AddressSize }
   (the && chain evaluates left to right and stops at the first false) *)
Definition IsValid (a : list Z) : option bool :=
  if (length a <? ARPSize)%nat then Some false else
  hs <- hardwareAddressSpace a ;;
  if negb (hs =? 1) then Some false else
  ps <- protocolAddressSpace a ;;
  if negb (ps =? IPv4ProtocolNumber) then Some false else
  hz <- hardwareAddressSize a ;;
  if negb (hz =? 6) then Some false else
  pz <- protocolAddressSize a ;;
  Some (pz =? IPv4AddressSize).

(* func (a ARP) SetIpv4OverEthernet() { a[0], a[1] = 0, 1; a[2], a[3] = 0x08, 0x00; a[4] = 6;
                                         a[5] = uint8(IPv4AddressSize) } *)
Definition SetIpv4OverEthernet (a : list Z) : option (list Z) :=
  a <- upd a 0 0 ;; a <- upd a 1 1 ;; a <- upd a 2 8 ;; a <- upd a 3 0 ;;
  a <- upd a 4 6 ;; upd a 5 (w8 IPv4AddressSize).
(* func (a ARP) SetOp(op ARPOp) { a[6] = uint8(op >> 8); a[7] = uint8(op) } *)
Definition SetOp (a : list Z) (op : Z) : option (list Z) :=
  a <- upd a 6 (w8 (op / 2^8)) ;; upd a 7 (w8 op).

(* equality of Go strings / byte slices *)
Fixpoint bytes_eqb (x y : list Z) : bool :=
  match x, y with
  | [], [] => true
  | a :: x', b :: y' => (a =? b) && bytes_eqb x' y'
  | _, _ => false
  end.

(* e.linkAddrCache.CheckLocalAddress(e.nicid, header.IPv4ProtocolNumber, localAddr) != 0:
   stack.CheckLocalAddress -> nic.findEndpoint looks the address up in the NIC's endpoint table
   (keyed by the address alone); [localAddrs] is the list of addresses the NIC has an endpoint for
   (spoofing off, as in every configuration of this repository). *)
Definition isLocal (localAddrs : list (list Z)) (a : list Z) : bool :=
  existsb (bytes_eqb a) localAddrs.

(* What the handler does: at most one frame handed to the link endpoint (ARP bytes and the link
   destination r.RemoteLinkAddress) and at most one AddLinkAddress(nicid, addr, linkAddr). *)
Inductive result :=
| Panic
| Done (reply : option (list Z * list Z)) (learn : option (list Z * list Z)).

(* the reply built by the ARPRequest branch of HandlePacket:
     hdr := buffer.NewPrependable(int(e.linkEP.MaxHeaderLength()) + header.ARPSize)
     pkt := header.ARP(hdr.Prepend(header.ARPSize))          -- 28 fresh zero bytes
     pkt.SetIpv4OverEthernet()
     pkt.SetOp(header.ARPReply)
     copy(pkt.HardwareAddressSender(), r.LocalLinkAddress[:])
     copy(pkt.HardwareAddressTarget(), h.HardwareAddressSender())
     copy(pkt.ProtocolAddressSender(), h.ProtocolAddressTarget())
     copy(pkt.ProtocolAddressTarget(), h.ProtocolAddressSender())  *)
Definition build_reply (myMAC h : list Z) : option (list Z) :=
  let pkt := repeat 0 ARPSize in
  pkt <- SetIpv4OverEthernet pkt ;;
  pkt <- SetOp pkt ARPReply ;;
  pkt <- copy_into pkt 8 6 myMAC ;;
  hs <- HardwareAddressSender h ;;
  pkt <- copy_into pkt 18 6 hs ;;
  pt <- ProtocolAddressTarget h ;;
  pkt <- copy_into pkt 14 4 pt ;;
  ps <- ProtocolAddressSender h ;;
  copy_into pkt 24 4 ps.

(* func (e *endpoint) HandlePacket(r *stack.Route, vv buffer.VectorisedView) {
     v := vv.First(); h := header.ARP(v)
     if !h.IsValid() { return }
     switch h.Op() {
     case header.ARPRequest:
        localAddr := tcpip.Address(h.ProtocolAddressTarget())
        if e.linkAddrCache.CheckLocalAddress(e.nicid, header.IPv4ProtocolNumber, localAddr) == 0 {
            return // we have no useful answer, ignore the request
        }
        ... build pkt (above) ...
        e.linkEP.WritePacket(r, hdr, buffer.VectorisedView{}, ProtocolNumber)
        fallthrough // also fill the cache from requests
     case header.ARPReply:
        addr := tcpip.Address(h.ProtocolAddressSender())
        linkAddr := tcpip.LinkAddress(h.HardwareAddressSender())
        e.linkAddrCache.AddLinkAddress(e.nicid, addr, linkAddr)
     } }
   [h] = vv.First() (only the first view of the packet is looked at); [myMAC] = r.LocalLinkAddress
   (the link endpoint's address); [srcMAC] = r.RemoteLinkAddress (link-layer source of the frame),
   which is where linkEP.WritePacket(r, ...) sends the reply. *)
Definition learn_of (h : list Z) : option (list Z * list Z) :=
  addr <- ProtocolAddressSender h ;; linkAddr <- HardwareAddressSender h ;; Some (addr, linkAddr).

Definition arp_handle (localAddrs : list (list Z)) (myMAC srcMAC h : list Z) : result :=
  match IsValid h with
  | None => Panic
  | Some false => Done None None
  | Some true =>
    match Op h with
    | None => Panic
    | Some op =>
      if op =? ARPRequest then
        match ProtocolAddressTarget h with
        | None => Panic
        | Some localAddr =>
          if negb (isLocal localAddrs localAddr) then Done None None
          else match build_reply myMAC h, learn_of h with
               | Some pkt, Some l => Done (Some (pkt, srcMAC)) (Some l)
               | _, _ => Panic
               end
        end
      else if op =? ARPReply then
        match learn_of h with
        | Some l => Done None (Some l)
        | None => Panic
        end
      else Done None None
    end
  end.

(* stack/nic.go DeliverNetworkPacket, the part in front of the handler (protocol = ARP):
     if len(vv.First()) < netProto.MinimumPacketSize() { MalformedRcvdPackets++; return }
     src, dst := netProto.ParseAddresses(vv.First())   -- arp: (h.ProtocolAddressSender(), "arp")
     if ref := n.getRef(protocol, dst); ref != nil { ... ref.ep.HandlePacket(&r, vv) ...
   [arpEnabled] = the NIC has the "arp" protocol address (otherwise the packet is not delivered). *)
Definition nic_deliver_arp (arpEnabled : bool) (localAddrs : list (list Z)) (myMAC srcMAC first : list Z) : result :=
  if (length first <? ARPSize)%nat then Done None None
  else match ProtocolAddressSender first with
       | None => Panic
       | Some _ => if arpEnabled then arp_handle localAddrs myMAC srcMAC first else Done None None
       end.

(* var broadcastMAC = tcpip.LinkAddress([]byte{0xff, 0xff, 0xff, 0xff, 0xff, 0xff}) *)
Definition broadcastMAC : list Z := [255; 255; 255; 255; 255; 255].

(* func (p *protocol) LinkAddressRequest(addr, localAddr tcpip.Address, linkEP stack.LinkEndpoint) *tcpip.Error {
     r := &stack.Route{ RemoteLinkAddress: broadcastMAC }
     hdr := buffer.NewPrependable(int(linkEP.MaxHeaderLength()) + header.ARPSize)
     h := header.ARP(hdr.Prepend(header.ARPSize))
     h.SetIpv4OverEthernet(); h.SetOp(header.ARPRequest)
     copy(h.HardwareAddressSender(), linkEP.LinkAddress())
     copy(h.ProtocolAddressSender(), localAddr)
     copy(h.ProtocolAddressTarget(), addr)
     return linkEP.WritePacket(r, hdr, buffer.VectorisedView{}, ProtocolNumber) }
   result: (ARP bytes, link destination) *)
Definition link_address_request (addr localAddr myMAC : list Z) : option (list Z * list Z) :=
  let h := repeat 0 ARPSize in
  h <- SetIpv4OverEthernet h ;;
  h <- SetOp h ARPRequest ;;
  h <- copy_into h 8 6 myMAC ;;
  h <- copy_into h 14 4 localAddr ;;
  h <- copy_into h 24 4 addr ;;
  Some (h, broadcastMAC).

(* func (p *protocol) ResolveStaticAddress(addr tcpip.Address) (tcpip.LinkAddress, bool) {
     if addr == "\xff\xff\xff\xff" { return broadcastMAC, true }
     return "", false } *)
Definition resolve_static (addr : list Z) : option (list Z) :=
  if bytes_eqb addr [255; 255; 255; 255] then Some broadcastMAC else None.
