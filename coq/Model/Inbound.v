(* Model of the INBOUND path of /repo, from the link endpoint down to the point where a packet is
   handed to a transport endpoint's queue, as total functions in which every Go index expression,
   slice expression and explicit panic on the path is a possible [None] (= the Go runtime panics;
   the vocabulary of Model/Bytes.v: every read is option-valued).  Executable definitions only.

   Covered, branch for branch (each Go function is quoted above its model):
     protocol/link/fdbased/endpoint.go   dispatch, capViews            [fd_dispatch]
     stack/nic.go                        DeliverNetworkPacket, DeliverTransportPacket,
                                         DeliverTransportControlPacket  [nic_deliver] ...
     protocol/network/ipv4/ipv4.go       HandlePacket (fragment branch -> Model/Frag.v)
     protocol/network/ipv4/icmp.go       handleICMP, handleControl, sendPing4 (the slice expressions)
     protocol/network/ipv6/ipv6.go       HandlePacket
     protocol/network/ipv6/icmp.go       handleICMP, handleControl
     protocol/network/arp/arp.go         HandlePacket                   (Model/Arp.v)
     protocol/transport/udp/endpoint.go  HandlePacket
     protocol/transport/tcp/segment.go   parse (+ header.ParseTCPOptions / ParseSynOptions: Model/TcpOptions.v)
     protocol/transport/tcp/endpoint.go  HandlePacket (up to the enqueue)
     protocol/transport/tcp/protocol.go  HandleUnknownDestinationPacket
     pkg/buffer/view.go                  VectorisedView.TrimFront / CapLength / First on the list of views

   NOT covered (the barrage correspondence is the only evidence there): what the TCP protocol
   goroutines do with a queued segment (handleSegments, the handshake, the listener), the
   application side of the endpoints, the link-address cache, timers, locks and goroutines.

   Representation
   - a buffer.VectorisedView is the list of its views ([vv] = list (list Z)); [size] is the sum of
     the view lengths (true of every vv built by fdbased.dispatch, by the drivers and by the
     functions below);
   - what the stack is configured with is a [config]: its addresses and the ports on which a TCP
     endpoint (listener, or connections accepted from it) resp. a UDP socket is registered;
   - observable effects of one frame are an [out]: which statistics counters moved (indices as in
     harness/cmd/h_c07/child.go statLine), which synchronous reply was written to the link
     ([o_react] bits: 1 ARP reply, 2 ICMPv6 echo reply, 4 neighbour advertisement, 8 TCP RST for a
     segment nobody listens for), datagrams queued on a bound UDP socket, echo requests queued
     for the ICMPv4 echo replier, and a class number naming the branch that disposed of the frame. *)
From Coq Require Import ZArith List Bool.
From NP Require Import Model.Bytes Model.HdrIP Model.HdrTransport.
From NP Require Model.Frag Model.Arp Model.TcpOptions.
Import ListNotations.
Open Scope Z_scope.

(* ------------------------------------------------------------------ pkg/buffer: VectorisedView *)
Definition vv := list (list Z).
Definition zlength (l : list Z) : Z := Z.of_nat (length l).
Definition vsize (v : vv) : Z := fold_right (fun x a => zlength x + a) 0 v.
(* func (vv VectorisedView) First() View { if len(vv.views) == 0 { return nil }; return vv.views[0] } *)
Definition vfirst (v : vv) : list Z := match v with [] => [] | x :: _ => x end.
Definition vbytes (v : vv) : list Z := concat v.

(* func (vv *VectorisedView) TrimFront(count int) {
     for count > 0 && len(vv.views) > 0 {
       if count < len(vv.views[0]) { vv.size -= count; vv.views[0].TrimFront(count); return }
       count -= len(vv.views[0]); vv.RemoveFirst() } }
   View.TrimFront(count) is v[count:] with count < len(v): cannot panic. *)
Fixpoint vv_trimFront (v : vv) (count : Z) : vv :=
  match v with
  | [] => []
  | x :: t => if count <=? 0 then v
              else if count <? zlength x then skipn (Z.to_nat count) x :: t
              else vv_trimFront t (count - zlength x)
  end.

(* func (vv *VectorisedView) CapLength(length int) {
     if length < 0 { length = 0 }
     if vv.size < length { return }
     vv.size = length
     for i := range vv.views {
       v := &vv.views[i]
       if len( *v) >= length {
         if length == 0 { vv.views = vv.views[:i] } else { v.CapLength(length); vv.views = vv.views[:i+1] }
         return }
       length -= len( *v) } }
   View.CapLength(length) is v[:length:length] with length <= len(v): cannot panic. *)
Fixpoint cap_loop (v : vv) (length : Z) : vv :=
  match v with
  | [] => []
  | x :: t => if length <=? zlength x
              then (if length =? 0 then [] else [firstn (Z.to_nat length) x])
              else x :: cap_loop t (length - zlength x)
  end.
Definition vv_capLength (v : vv) (length : Z) : vv :=
  let length := if length <? 0 then 0 else length in
  if vsize v <? length then v else cap_loop v length.

(* ------------------------------------------------------------------ configuration, effects *)
Fixpoint bytes_eqb (x y : list Z) : bool :=
  match x, y with
  | [], [] => true
  | a :: x', b :: y' => (a =? b) && bytes_eqb x' y'
  | _, _ => false
  end.
Fixpoint memZ (x : Z) (l : list Z) : bool :=
  match l with [] => false | y :: t => (x =? y) || memZ x t end.

Record config := mkCfg {
  c_addr4 : list Z; c_addr6 : list Z; c_mac : list Z;
  c_tcp4 : list Z; c_tcp6 : list Z;     (* ports with a TCP endpoint registered (IPv4 / IPv6) *)
  c_udp4 : list Z; c_udp6 : list Z }.   (* ports with a bound UDP socket *)

(* counter indices (harness/cmd/h_c07/child.go statLine) *)
Definition cUnknownProto := 0.  Definition cMalformed := 1.   Definition cIPReceived := 2.
Definition cIPInvalidAddr := 3. Definition cIPDelivered := 4. Definition cUDPReceived := 5.
Definition cUDPUnknownPort := 6. Definition cUDPMalformed := 7. Definition cTCPValid := 8.
Definition cTCPInvalid := 9.    Definition cTCPResets := 10.

Record out := mkOut {
  o_ev : list Z;      (* counters incremented, in program order *)
  o_react : Z;        (* synchronous replies (bit set) *)
  o_udp : list Z;     (* payload lengths queued on a bound UDP socket (+100000: the IPv6 socket) *)
  o_echo4 : Z;        (* echo requests handed to the ICMPv4 echo replier *)
  o_cls : Z }.        (* which branch disposed of the frame *)
Definition out0 (cls : Z) : out := mkOut [] 0 [] 0 cls.
Definition ev (c : Z) (o : out) : out := mkOut (c :: o_ev o) (o_react o) (o_udp o) (o_echo4 o) (o_cls o).
Definition evs (cs : list Z) (cls : Z) : out := mkOut cs 0 [] 0 cls.

(* branch classes (o_cls); 0..9 link / network layer, 10.. transport *)
Definition kRunt := 1.          (* fdbased: frame not longer than the Ethernet header: dropped *)
Definition kUnknownNet := 2.    Definition kShortNet := 3.    Definition kNotForUs := 4.
Definition kInvalidIP := 5.     Definition kFragStored := 6.  Definition kArp := 7.
Definition kIcmpDrop := 8.      Definition kIcmpEcho := 9.    Definition kIcmpControl := 10.
Definition kIcmpOther := 11.    Definition kUnknownTransport := 12. Definition kShortTransport := 13.
Definition kUdpDelivered := 14. Definition kUdpMalformed := 15. Definition kUdpNoPort := 16.
Definition kTcpQueued := 17.    Definition kTcpInvalid := 18. Definition kTcpNoPortRst := 19.
Definition kTcpNoPortQuiet := 20. Definition kTcpNoPortInvalid := 21. Definition kNdp := 22.

(* ------------------------------------------------------------------ stack/nic.go: control packets
   func (n *NIC) DeliverTransportControlPacket(local, remote tcpip.Address, net, trans, typ, extra, vv) {
     state, ok := n.stack.transportProtocols[trans]
     if !ok { return }
     transProto := state.proto
     if len(vv.First()) < 8 { return }
     srcPort, dstPort, err := transProto.ParsePorts(vv.First())     -- h.SourcePort(), h.DestinationPort()
     if err != nil { return }
     id := TransportEndpointID{srcPort, local, dstPort, remote}
     if n.demux.deliverControlPacket(...) { return }
     if n.stack.demux.deliverControlPacket(...) { return } }
   The endpoints' HandleControlPacket only set flags (udp: rcvIcmp; tcp: sndMTU + a notification). *)
Definition is_transport (p : Z) : bool := (p =? 6) || (p =? 17).
Definition deliverControl (p : Z) (v : vv) : option unit :=
  if negb (is_transport p) then Some tt else
  if zlength (vfirst v) <? 8 then Some tt else
  _ <- get16 (vfirst v) 0 ;; _ <- get16 (vfirst v) 2 ;; Some tt.

(* ------------------------------------------------------------------ tcp/segment.go parse
   func (s *segment) parse() bool {
     h := header.TCP(s.data.First())
     offset := int(h.DataOffset())
     if offset < header.TCPMinimumSize || offset > len(h) { return false }
     s.options = []byte(h[header.TCPMinimumSize:offset])
     s.parsedOptions = header.ParseTCPOptions(s.options)
     s.data.TrimFront(offset)
     s.sequenceNumber = seqnum.Value(h.SequenceNumber()); s.ackNumber = seqnum.Value(h.AckNumber())
     s.flags = h.Flags(); s.window = seqnum.Size(h.WindowSize())
     return true }
   Result: None = panic; Some None = parse returned false; Some (Some (flags, options)). *)
Definition tcp_parse (v : vv) : option (option (Z * list Z)) :=
  let h := vfirst v in
  off <- tcp_dataOffset h ;;
  if (off <? 20) || (zlength h <? off) then Some None else
  opts <- getN h 20 (Z.to_nat (off - 20)) ;;
  match TcpOptions.parseTCPOptions opts with
  | TcpOptions.Ok _ =>
      _ <- tcp_sequenceNumber h ;; _ <- tcp_ackNumber h ;; fl <- tcp_flags h ;; _ <- tcp_windowSize h ;;
      Some (Some (fl, opts))
  | _ => None
  end.

Definition flag_set (fl bit : Z) : bool := negb ((fl / bit) mod 2 =? 0).

(* A SYN that reaches a listener or a connecting endpoint has its options parsed again by
   header.ParseSynOptions (accept.go handleListenSegment: isAck = false; connect.go synRcvdState /
   synSentState: isAck = ACK flag).  That happens in the protocol goroutine; its only possible
   panic is an out-of-range read, which the model reports here. *)
Definition syn_options_ok (fl : Z) (opts : list Z) : option unit :=
  if flag_set fl 2 then
    match TcpOptions.parseSynOptions opts false, TcpOptions.parseSynOptions opts true with
    | TcpOptions.Ok _, TcpOptions.Ok _ => Some tt
    | _, _ => None
    end
  else Some tt.

(* tcp/endpoint.go
   func (e *endpoint) HandlePacket(r *stack.Route, id stack.TransportEndpointID, vv buffer.VectorisedView) {
     s := newSegment(r, id, vv)
     if !s.parse() { Stats().MalformedRcvdPackets++; Stats().TCP.InvalidSegmentsReceived++; s.decRef(); return }
     Stats().TCP.ValidSegmentsReceived++
     if (s.flags & flagRst) != 0 { Stats().TCP.ResetsReceived++ }
     if e.segmentQueue.enqueue(s) { e.newSegmentWaker.Assert() } else { Stats().DroppedPackets++; s.decRef() } } *)
Definition tcp_handle (v : vv) : option out :=
  p <- tcp_parse v ;;
  match p with
  | None => Some (evs [cMalformed; cTCPInvalid] kTcpInvalid)
  | Some (fl, opts) =>
      _ <- syn_options_ok fl opts ;;
      Some (evs (cTCPValid :: (if flag_set fl 4 then [cTCPResets] else [])) kTcpQueued)
  end.

(* tcp/protocol.go
   func ( *protocol) HandleUnknownDestinationPacket(r, id, vv) bool {
     s := newSegment(r, id, vv); defer s.decRef()
     if !s.parse() { return false }
     if s.flagIsSet(flagRst) { return true }
     replyWithReset(s); return true }
   nic.go: if !transProto.HandleUnknownDestinationPacket(r, id, vv) { MalformedRcvdPackets++ } *)
Definition tcp_unknown (v : vv) : option out :=
  p <- tcp_parse v ;;
  match p with
  | None => Some (evs [cMalformed] kTcpNoPortInvalid)
  | Some (fl, _) => if flag_set fl 4 then Some (out0 kTcpNoPortQuiet)
                    else Some (mkOut [] 8 [] 0 kTcpNoPortRst)
  end.

(* udp/endpoint.go
   func (e *endpoint) HandlePacket(r, id, vv) {
     hdr := header.UDP(vv.First())
     if int(hdr.Length()) > vv.Size() || hdr.Length() < header.UDPMinimumSize {
       Stats().UDP.MalformedPacketsReceived++; return }
     vv.CapLength(int(hdr.Length()))
     vv.TrimFront(header.UDPMinimumSize)
     e.rcvMu.Lock(); Stats().UDP.PacketsReceived++
     if !e.rcvReady || e.rcvClosed || e.rcvBufSize >= e.rcvBufSizeMax { ReceiveBufferErrors++; return }
     ... pkt.data = vv.Clone(pkt.views[:]); e.rcvList.PushBack(pkt); e.rcvBufSize += vv.Size() ... }
   (the socket of the driver is bound, open, and its buffer (4 MiB) is never full) *)
Definition udp_handle (v6 : bool) (v : vv) : option out :=
  len <- udp_length (vfirst v) ;;
  if (vsize v <? len) || (len <? 8) then Some (evs [cUDPMalformed] kUdpMalformed) else
  let v1 := vv_trimFront (vv_capLength v len) 8 in
  _ <- udp_sourcePort (vfirst v) ;;
  Some (mkOut [cUDPReceived] 0 [vsize v1 + (if v6 then 100000 else 0)] 0 kUdpDelivered).

(* stack/nic.go
   func (n *NIC) DeliverTransportPacket(r *Route, protocol tcpip.TransportProtocolNumber, vv) {
     state, ok := n.stack.transportProtocols[protocol]
     if !ok { UnknownProtocolRcvdPackets++; return }
     transProto := state.proto
     if len(vv.First()) < transProto.MinimumPacketSize() { MalformedRcvdPackets++; return }
     srcPort, dstPort, err := transProto.ParsePorts(vv.First())
     if err != nil { MalformedRcvdPackets++; return }
     id := TransportEndpointID{dstPort, r.LocalAddress, srcPort, r.RemoteAddress}
     if n.demux.deliverPacket(r, protocol, vv, id) { return }
     if n.stack.demux.deliverPacket(r, protocol, vv, id) { return }
     if state.defaultHandler != nil { ... }
     if !transProto.HandleUnknownDestinationPacket(r, id, vv) { MalformedRcvdPackets++ } }
   transport_demuxer.go deliverPacket: no endpoint -> (UDP only) UDP.UnknownPortErrors++, return false.
   The sockets are registered with the stack-wide demultiplexer (bound to NIC 0), so the NIC's own
   demultiplexer never finds them: one UnknownPortErrors for a datagram that is then delivered,
   two for one that nobody receives. *)
Definition deliver_transport (c : config) (v6 : bool) (p : Z) (v : vv) : option out :=
  if negb (is_transport p) then Some (evs [cUnknownProto] kUnknownTransport) else
  if zlength (vfirst v) <? (if p =? 6 then 20 else 8) then Some (evs [cMalformed] kShortTransport) else
  _ <- get16 (vfirst v) 0 ;;
  dport <- get16 (vfirst v) 2 ;;
  if p =? 17 then
    if memZ dport (if v6 then c_udp6 c else c_udp4 c)
    then o <- udp_handle v6 v ;; Some (ev cUDPUnknownPort o)
    else Some (evs [cUDPUnknownPort; cUDPUnknownPort] kUdpNoPort)
  else
    if memZ dport (if v6 then c_tcp6 c else c_tcp4 c) then tcp_handle v else tcp_unknown v.

(* ------------------------------------------------------------------ ipv4/icmp.go
   func (e *endpoint) handleControl(typ stack.ControlType, extra uint32, vv buffer.VectorisedView) {
     h := header.IPv4(vv.First())
     if len(h) < header.IPv4MinimumSize || h.SourceAddress() != e.id.LocalAddress { return }
     hlen := int(h.HeaderLength())
     if vv.Size() < hlen || h.FragmentOffset() != 0 { return }
     vv.TrimFront(hlen)
     p := h.TransportProtocol()
     e.dispatcher.DeliverTransportControlPacket(e.id.LocalAddress, h.DestinationAddress(), ProtocolNumber, p, typ, extra, vv) } *)
Definition handleControl4 (c : config) (v : vv) : option unit :=
  let h := vfirst v in
  if zlength h <? 20 then Some tt else
  src <- ipv4_sourceAddress h ;;
  if negb (bytes_eqb src (c_addr4 c)) then Some tt else
  hlen <- ipv4_headerLength h ;;
  fo <- ipv4_fragmentOffset h ;;
  if (vsize v <? hlen) || negb (fo =? 0) then Some tt else
  p <- ipv4_protocol h ;;
  _ <- ipv4_destinationAddress h ;;
  deliverControl p (vv_trimFront v hlen).

(* func (e *endpoint) handleICMP(r *stack.Route, vv buffer.VectorisedView) {
     v := vv.First()
     if len(v) < header.ICMPv4MinimumSize { return }                       -- 4
     h := header.ICMPv4(v)
     switch h.Type() {
     case header.ICMPv4Echo:                                               -- 8
       if len(v) < header.ICMPv4EchoMinimumSize { return }                 -- 6
       vv.TrimFront(header.ICMPv4MinimumSize)
       req := echoRequest{r: r.Clone(), v: vv.ToView()}
       select { case e.echoRequests <- req: default: req.r.Release() }
     case header.ICMPv4EchoReply:                                          -- 0
       if len(v) < header.ICMPv4EchoMinimumSize { return }
       e.dispatcher.DeliverTransportPacket(r, header.ICMPv4ProtocolNumber, vv)
     case header.ICMPv4DstUnreachable:                                     -- 3
       if len(v) < header.ICMPv4DstUnreachableMinimumSize { return }       -- 8
       vv.TrimFront(header.ICMPv4DstUnreachableMinimumSize)
       switch h.Code() {
       case header.ICMPv4PortUnreachable: e.handleControl(stack.ControlPortUnreachable, 0, vv)        -- 3
       case header.ICMPv4FragmentationNeeded:                                                         -- 4
         mtu := uint32(binary.BigEndian.Uint16(v[header.ICMPv4DstUnreachableMinimumSize-2:]))
         e.handleControl(stack.ControlPacketTooBig, calculateMTU(mtu), vv) } } }
   and, in the echoReplier goroutine, for every queued request:
   func sendPing4(r *stack.Route, code byte, data buffer.View) *tcpip.Error {
     hdr := buffer.NewPrependable(header.ICMPv4EchoMinimumSize + int(r.MaxHeaderLength()))
     icmpv4 := header.ICMPv4(hdr.Prepend(header.ICMPv4EchoMinimumSize))
     ... copy(icmpv4[header.ICMPv4MinimumSize:], data)
     data = data[header.ICMPv4EchoMinimumSize-header.ICMPv4MinimumSize:]        -- data[2:]
     ... } *)
Definition handleICMP4 (c : config) (v : vv) : option out :=
  let b := vfirst v in
  if zlength b <? 4 then Some (out0 kIcmpDrop) else
  t <- get8 b 0 ;;
  if t =? 8 then
    if zlength b <? 6 then Some (out0 kIcmpDrop) else
    _ <- getFrom (vbytes (vv_trimFront v 4)) 2 ;;
    Some (mkOut [] 0 [] 1 kIcmpEcho)
  else if t =? 0 then
    if zlength b <? 6 then Some (out0 kIcmpDrop) else deliver_transport c false 1 v
  else if t =? 3 then
    if zlength b <? 8 then Some (out0 kIcmpDrop) else
    code <- get8 b 1 ;;
    if code =? 3 then _ <- handleControl4 c (vv_trimFront v 8) ;; Some (out0 kIcmpControl)
    else if code =? 4 then _ <- get16 b 6 ;; _ <- handleControl4 c (vv_trimFront v 8) ;; Some (out0 kIcmpControl)
    else Some (out0 kIcmpOther)
  else Some (out0 kIcmpOther).

(* ------------------------------------------------------------------ ipv4/ipv4.go
   func (e *endpoint) HandlePacket(r *stack.Route, vv buffer.VectorisedView) {
     h := header.IPv4(vv.First())
     if !h.IsValid(vv.Size()) { return }
     hlen := int(h.HeaderLength()); tlen := int(h.TotalLength())
     vv.TrimFront(hlen); vv.CapLength(tlen - hlen)
     more := (h.Flags() & header.IPv4FlagMoreFragments) != 0
     if more || h.FragmentOffset() != 0 {
       last := h.FragmentOffset() + uint16(vv.Size()) - 1
       var ready bool
       vv, ready = e.fragmentation.Process(hash.IPv4FragmentHash(h), h.FragmentOffset(), last, more, vv)
       if !ready { return } }
     p := h.TransportProtocol()
     if p == header.ICMPv4ProtocolNumber { e.handleICMP(r, vv); return }
     r.Stats().IP.PacketsDelivered.Increment()
     e.dispatcher.DeliverTransportPacket(r, p, vv) }

   The reassembler (Model/Frag.v) works on the byte content of a payload and never looks at the
   byte values.  To keep the VIEW structure of a reassembled packet (the transport layer's size
   checks look at the first view only), every byte handed to it is tagged with the serial number
   of the view it lies in (value + 256 * serial); [untag] splits the reassembled content where the
   serial number changes.  Serial numbers are unique per view over the life of the stack. *)
Record state := mkSt { s_frag : Frag.fstate; s_serial : Z }.

Fixpoint tag_views (v : vv) (serial : Z) : list Z :=
  match v with
  | [] => []
  | x :: t => map (fun b => b + 256 * serial) x ++ tag_views t (serial + 1)
  end.
(* split a tagged byte list into maximal runs of equal serial number *)
Fixpoint untag_loop (l : list Z) (cur : Z) (acc : list Z) : vv :=
  match l with
  | [] => match acc with [] => [] | _ => [rev acc] end
  | x :: t => let s := x / 256 in let b := x mod 256 in
              if s =? cur then untag_loop t cur (b :: acc)
              else match acc with
                   | [] => untag_loop t s [b]
                   | _ => rev acc :: untag_loop t s [b]
                   end
  end.
Definition untag (l : list Z) : vv := untag_loop l (-1) [].

(* the reassembly key: hash of (id, protocol, source, destination) under the process-random
   hashIV; the model uses IV 0 (keys are used for equality only; collisions, 2^-32 per pair of
   datagrams, are not modelled) *)
Definition fragHigh := 4 * 2^20.  Definition fragLow := 3 * 2^20.  Definition fragTimeout := 30000000000.
Definition state0 : state := mkSt (Frag.newFragmentation fragHigh fragLow fragTimeout) 1.

(* the fragment branch: (state, Some packet to go on with | None = stored, not complete) *)
Definition ipv4_fragment (st : state) (h : list Z) (fo : Z) (more : bool) (v1 : vv) : option (state * option vv) :=
  if more || negb (fo =? 0) then
    let last := w16 (w16 (fo + w16 (vsize v1)) - 1) in
    let '(f', (res, done, panicked)) :=
      Frag.fprocess (s_frag st) (Frag.ipv4FragmentHash 0 h) fo last more (tag_views v1 (s_serial st)) 0 in
    let st' := mkSt f' (s_serial st + Z.of_nat (length v1)) in
    if panicked then None
    else if done then Some (st', Some (untag res)) else Some (st', None)
  else Some (st, Some v1).

Definition ipv4_handle (c : config) (st : state) (v : vv) : option (state * out) :=
  let h := vfirst v in
  valid <- ipv4_isValid h (vsize v) ;;
  if negb valid then Some (st, out0 kInvalidIP) else
  hlen <- ipv4_headerLength h ;;
  tlen <- ipv4_totalLength h ;;
  let v1 := vv_capLength (vv_trimFront v hlen) (tlen - hlen) in
  fl <- ipv4_flags h ;;
  fo <- ipv4_fragmentOffset h ;;
  r <- ipv4_fragment st h fo (negb (fl mod 2 =? 0)) v1 ;;
  match r with
  | (st', None) => Some (st', out0 kFragStored)
  | (st', Some v2) =>
      p <- ipv4_protocol h ;;
      if p =? 1 then o <- handleICMP4 c v2 ;; Some (st', o)
      else o <- deliver_transport c false p v2 ;; Some (st', ev cIPDelivered o)
  end.

(* ------------------------------------------------------------------ ipv6/icmp.go
   func (e *endpoint) handleControl(typ stack.ControlType, extra uint32, vv buffer.VectorisedView) {
     h := header.IPv6(vv.First())
     if len(h) < header.IPv6MinimumSize || h.SourceAddress() != e.id.LocalAddress { return }
     vv.TrimFront(header.IPv6MinimumSize)
     p := h.TransportProtocol()
     if p == header.IPv6FragmentHeader {                                        -- 44
       f := header.IPv6Fragment(vv.First())
       if !f.IsValid() || f.FragmentOffset() != 0 { return }
       vv.TrimFront(header.IPv6FragmentHeaderSize)                              -- 8
       p = f.TransportProtocol() }
     e.dispatcher.DeliverTransportControlPacket(e.id.LocalAddress, h.DestinationAddress(), ProtocolNumber, p, typ, extra, vv) } *)
Definition handleControl6 (c : config) (v : vv) : option unit :=
  let h := vfirst v in
  if zlength h <? 40 then Some tt else
  src <- ipv6_sourceAddress h ;;
  if negb (bytes_eqb src (c_addr6 c)) then Some tt else
  let v1 := vv_trimFront v 40 in
  p <- ipv6_nextHeader h ;;
  _ <- ipv6_destinationAddress h ;;
  if p =? 44 then
    let f := vfirst v1 in
    if negb (ipv6frag_isValid f) then Some tt else
    fo <- ipv6frag_fragmentOffset f ;;
    if negb (fo =? 0) then Some tt else
    p' <- ipv6frag_nextHeader f ;;
    deliverControl p' (vv_trimFront v1 8)
  else deliverControl p v1.

(* func (e *endpoint) handleICMP(r *stack.Route, vv buffer.VectorisedView) {
     v := vv.First()
     if len(v) < header.ICMPv6MinimumSize { return }                              -- 4
     h := header.ICMPv6(v)
     switch h.Type() {
     case header.ICMPv6PacketTooBig:                                              -- 2
       if len(v) < header.ICMPv6PacketTooBigMinimumSize { return }                -- 8
       vv.TrimFront(header.ICMPv6PacketTooBigMinimumSize)
       mtu := binary.BigEndian.Uint32(v[header.ICMPv6MinimumSize:])
       e.handleControl(stack.ControlPacketTooBig, calculateMTU(mtu), vv)
     case header.ICMPv6DstUnreachable:                                            -- 1
       if len(v) < header.ICMPv6DstUnreachableMinimumSize { return }              -- 8
       vv.TrimFront(header.ICMPv6DstUnreachableMinimumSize)
       switch h.Code() { case header.ICMPv6PortUnreachable: e.handleControl(stack.ControlPortUnreachable, 0, vv) }   -- 4
     case header.ICMPv6NeighborSolicit:                                           -- 135
       if len(v) < header.ICMPv6NeighborSolicitMinimumSize { return }             -- 24
       targetAddr := tcpip.Address(v[8 : 8+16])
       if e.linkAddrCache.CheckLocalAddress(e.nicid, ProtocolNumber, targetAddr) == 0 { return }
       ... build the advertisement in a fresh 32-byte buffer (constant offsets) ...
       r.WritePacket(hdr, buffer.VectorisedView{}, header.ICMPv6ProtocolNumber, r.DefaultTTL())
       e.linkAddrCache.AddLinkAddress(e.nicid, r.RemoteAddress, r.RemoteLinkAddress)
     case header.ICMPv6NeighborAdvert:                                            -- 136
       if len(v) < header.ICMPv6NeighborAdvertSize { return }                     -- 32
       targetAddr := tcpip.Address(v[8 : 8+16])
       e.linkAddrCache.AddLinkAddress(...)
     case header.ICMPv6EchoRequest:                                               -- 128
       if len(v) < header.ICMPv6EchoMinimumSize { return }                        -- 8
       vv.TrimFront(header.ICMPv6EchoMinimumSize)
       hdr := buffer.NewPrependable(...); pkt := header.ICMPv6(hdr.Prepend(header.ICMPv6EchoMinimumSize))
       copy(pkt, h); pkt.SetType(header.ICMPv6EchoReply); pkt.SetChecksum(icmpChecksum(pkt, ..., vv))
       r.WritePacket(hdr, vv, header.ICMPv6ProtocolNumber, r.DefaultTTL())
     case header.ICMPv6EchoReply:                                                 -- 129
       if len(v) < header.ICMPv6EchoMinimumSize { return }
       e.dispatcher.DeliverTransportPacket(r, header.ICMPv6ProtocolNumber, vv) } } *)
Definition handleICMP6 (c : config) (v : vv) : option out :=
  let b := vfirst v in
  if zlength b <? 4 then Some (out0 kIcmpDrop) else
  t <- get8 b 0 ;;
  if t =? 2 then
    if zlength b <? 8 then Some (out0 kIcmpDrop) else
    _ <- get32 b 4 ;; _ <- handleControl6 c (vv_trimFront v 8) ;; Some (out0 kIcmpControl)
  else if t =? 1 then
    if zlength b <? 8 then Some (out0 kIcmpDrop) else
    code <- get8 b 1 ;;
    if code =? 4 then _ <- handleControl6 c (vv_trimFront v 8) ;; Some (out0 kIcmpControl)
    else Some (out0 kIcmpOther)
  else if t =? 135 then
    if zlength b <? 24 then Some (out0 kIcmpDrop) else
    target <- getN b 8 16 ;;
    if bytes_eqb target (c_addr6 c) then Some (mkOut [] 4 [] 0 kNdp) else Some (out0 kNdp)
  else if t =? 136 then
    if zlength b <? 32 then Some (out0 kIcmpDrop) else
    _ <- getN b 8 16 ;; Some (out0 kNdp)
  else if t =? 128 then
    if zlength b <? 8 then Some (out0 kIcmpDrop) else
    _ <- getN b 0 8 ;; Some (mkOut [] 2 [] 0 kIcmpEcho)
  else if t =? 129 then
    if zlength b <? 8 then Some (out0 kIcmpDrop) else deliver_transport c true 58 v
  else Some (out0 kIcmpOther).

(* ipv6/ipv6.go
   func (e *endpoint) HandlePacket(r *stack.Route, vv buffer.VectorisedView) {
     h := header.IPv6(vv.First())
     if !h.IsValid(vv.Size()) { return }
     vv.TrimFront(header.IPv6MinimumSize)
     vv.CapLength(int(h.PayloadLength()))
     p := h.TransportProtocol()
     if p == header.ICMPv6ProtocolNumber { e.handleICMP(r, vv); return }
     r.Stats().IP.PacketsDelivered.Increment()
     e.dispatcher.DeliverTransportPacket(r, p, vv) } *)
Definition ipv6_handle (c : config) (v : vv) : option out :=
  let h := vfirst v in
  valid <- ipv6_isValid h (vsize v) ;;
  if negb valid then Some (out0 kInvalidIP) else
  plen <- ipv6_payloadLength h ;;
  let v1 := vv_capLength (vv_trimFront v 40) plen in
  p <- ipv6_nextHeader h ;;
  if p =? 58 then handleICMP6 c v1
  else o <- deliver_transport c true p v1 ;; Some (ev cIPDelivered o).

(* ------------------------------------------------------------------ stack/nic.go
   func (n *NIC) DeliverNetworkPacket(linkEP, remoteLinkAddr, localLinkAddr, protocol, vv) {
     netProto, ok := n.stack.networkProtocols[protocol]
     if !ok { UnknownProtocolRcvdPackets++; return }
     if netProto.Number() == IPv4 || == IPv6 { IP.PacketsReceived++ }
     if len(vv.First()) < netProto.MinimumPacketSize() { MalformedRcvdPackets++; return }
     src, dst := netProto.ParseAddresses(vv.First())
     if ref := n.getRef(protocol, dst); ref != nil { ... ref.ep.HandlePacket(&r, vv); ref.decRef(); return }
     if n.stack.Forwarding() { ... }                       -- forwarding is off
     IP.InvalidAddressesReceived++ }
   ParseAddresses: ipv4 h.SourceAddress(), h.DestinationAddress(); ipv6 likewise;
   arp: h.ProtocolAddressSender(), "arp" (the NIC has the "arp" address).
   getRef: the NIC is not promiscuous and has no subnets: exact match on its addresses. *)
Definition pIPv4 := 2048.  Definition pIPv6 := 34525.  Definition pARP := 2054.

Definition nic_deliver (c : config) (st : state) (srcMAC : list Z) (proto : Z) (v : vv) : option (state * out) :=
  let f := vfirst v in
  if proto =? pIPv4 then
    if zlength f <? 20 then Some (st, evs [cIPReceived; cMalformed] kShortNet) else
    _ <- ipv4_sourceAddress f ;; dst <- ipv4_destinationAddress f ;;
    if negb (bytes_eqb dst (c_addr4 c)) then Some (st, evs [cIPReceived; cIPInvalidAddr] kNotForUs) else
    r <- ipv4_handle c st v ;; Some (fst r, ev cIPReceived (snd r))
  else if proto =? pIPv6 then
    if zlength f <? 40 then Some (st, evs [cIPReceived; cMalformed] kShortNet) else
    _ <- ipv6_sourceAddress f ;; dst <- ipv6_destinationAddress f ;;
    if negb (bytes_eqb dst (c_addr6 c)) then Some (st, evs [cIPReceived; cIPInvalidAddr] kNotForUs) else
    o <- ipv6_handle c v ;; Some (st, ev cIPReceived o)
  else if proto =? pARP then
    match Arp.nic_deliver_arp true [c_addr4 c] (c_mac c) srcMAC f with
    | Arp.Panic => None
    | Arp.Done reply _ =>
        if (length f <? Arp.ARPSize)%nat then Some (st, evs [cMalformed] kShortNet)
        else Some (st, mkOut [] (match reply with Some _ => 1 | None => 0 end) [] 0 kArp)
    end
  else Some (st, evs [cUnknownProto] kUnknownNet).

(* ------------------------------------------------------------------ link/fdbased/endpoint.go
   var BufConfig = []int{128, 256, 256, 512, 1024, 2048, 4096, 8192, 16384, 32768}
   func (e *endpoint) capViews(n int, buffers []int) int {
     c := 0
     for i, s := range buffers { c += s; if c >= n { e.views[i].CapLength(s - (c - n)); return i + 1 } }
     return len(buffers) }
   func (e *endpoint) dispatch() (bool, *tcpip.Error) {
     e.allocateViews(BufConfig)
     n, err := rawfile.BlockingReadv(e.fd, e.iovecs)
     if err != nil { return false, err }
     if n <= e.hdrSize { return true, nil }          -- the repaired line; it was: return false, nil
     eth := header.Ethernet(e.views[0])
     p = eth.Type(); remoteLinkAddr = eth.SourceAddress(); localLinkAddr = eth.DestinationAddress()
     used := e.capViews(n, BufConfig)
     vv := buffer.NewVectorisedView(n, e.views[:used])
     vv.TrimFront(e.hdrSize)
     e.dispatcher.DeliverNetworkPacket(e, remoteLinkAddr, localLinkAddr, p, vv)
     for i := 0; i < used; i++ { e.views[i] = nil }
     return true, nil }
   and dispatchLoop: for { cont, err := e.dispatch(); if err != nil || !cont { ...; return err } }
   readv fills the buffers in order, so the views are the frame cut at the BufConfig sizes (a
   frame longer than their sum, 65664 bytes, is truncated by the kernel).  views[0] is the whole
   128-byte buffer when the Ethernet header is read. *)
Definition BufConfig : list Z := [128; 256; 256; 512; 1024; 2048; 4096; 8192; 16384; 32768].
Fixpoint split_views (cfg : list Z) (b : list Z) : vv :=
  match cfg with
  | [] => []
  | s :: t => match b with
              | [] => []
              | _ => firstn (Z.to_nat s) b :: split_views t (skipn (Z.to_nat s) b)
              end
  end.

(* (continue the dispatch loop?, state, effects).  [fixed] = the repaired runt-frame branch. *)
Definition fd_dispatch_gen (fixed : bool) (c : config) (st : state) (frame : list Z) : option (bool * state * out) :=
  let n := zlength frame in
  if n <=? 14 then Some (fixed, st, out0 kRunt) else
  let buf0 := firstn 128 frame ++ repeat 0 (128 - length (firstn 128 frame)) in
  p <- get16 buf0 12 ;;
  src <- getN buf0 6 6 ;;
  _ <- getN buf0 0 6 ;;
  let v := vv_trimFront (split_views BufConfig frame) 14 in
  r <- nic_deliver c st src p v ;;
  Some (true, fst r, snd r).
Definition fd_dispatch := fd_dispatch_gen true.
Definition fd_dispatch_old := fd_dispatch_gen false.

(* the recording link of the harness: the packet in one view, or cut after [chunk] bytes *)
Definition netx_views (chunk : Z) (b : list Z) : vv :=
  if (0 <? chunk) && (chunk <? zlength b) then [firstn (Z.to_nat chunk) b; skipn (Z.to_nat chunk) b] else [b].

(* ------------------------------------------------------------------ histories
   One link-layer event: a frame on the fdbased link (raw bytes) or a packet on the recording
   link.  [run] folds a history; None = some frame panicked; the boolean says whether the fdbased
   dispatch loop is still running. *)
Inductive frame_in := FdFrame (b : list Z) | NetxPacket (proto chunk : Z) (b : list Z).

Definition step (c : config) (peerMAC : list Z) (st : state) (f : frame_in) : option (bool * state * out) :=
  match f with
  | FdFrame b => fd_dispatch c st b
  | NetxPacket proto chunk b => r <- nic_deliver c st peerMAC proto (netx_views chunk b) ;; Some (true, fst r, snd r)
  end.

Fixpoint run (c : config) (peerMAC : list Z) (st : state) (fs : list frame_in) : option (bool * state * list out) :=
  match fs with
  | [] => Some (true, st, [])
  | f :: t =>
      r <- step c peerMAC st f ;;
      let '(cont, st', o) := r in
      if cont then
        r' <- run c peerMAC st' t ;;
        let '(cont', st'', os) := r' in Some (cont', st'', o :: os)
      else Some (false, st', [o])
  end.
